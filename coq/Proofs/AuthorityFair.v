(* C18 — recovery under arbitrary interleaving of SEVERAL contenders: a store whose authority crashed is never wedged.
   From every all-dead leftover, any number (>= 1) of server loops, every crash-free schedule of single file-system steps
   (endpoint of the dead authority unreachable, 2 s deadline not yet passed): at every point of the schedule either an
   authority has already emerged, or there is a contender that becomes the authority within 16 uninterrupted steps of its
   own.  Hence every FAIR scheduler that eventually gives some contender a quiet window recovers the store — whatever the
   others did before (including the S13 / S13b / S13c races, which are inside the quantified schedules). *)
From RipV Require Import Base.Prelude Model.Authority Proofs.AuthorityInv Proofs.AuthorityLive.

(* program counters a server loop can be at while it owns no guard *)
Definition pre_pc (k : pc) : bool :=
  match k with
  | AcqCreate | AcqWrite | RdMeta | RdLock | Live _ | Ping _
  | StExists _ | StReread _ | StRename _ | StRdMeta _ | StMetaRename _
  | CoExists | CoMetaExists | CoRdMeta | CoLive _ | CoRename | Done => true
  | _ => false
  end.
(* with NO lock.json at the path: from these the loop reaches its next exclusive create (which then succeeds) *)
Definition good_absent (k : pc) : bool :=
  match k with
  | AcqCreate | RdMeta | Ping _ | RdLock | StRdMeta _ | StMetaRename _
  | CoExists | CoMetaExists | CoRdMeta | CoLive _ | CoRename => true
  | _ => false
  end.
(* the pid a stale-cleanup path is keyed on *)
Definition larg (k : pc) : option pid :=
  match k with Live p | StExists p | StReread p | StRename p => Some p | _ => None end.
Definition is_done (k : pc) : bool := match k with Done => true | _ => false end.

Record plocal (q : proc) : Prop := mkPL {
  PL_alive : p_alive q = true;
  PL_guard : p_guard q = false;
  PL_drv : p_drv q = DServer;
  PL_pc : pre_pc (p_pc q) = true
}.

Definition G1 (s : state) : Prop := exists q, In q (s_procs s) /\ p_pc q = AcqWrite.
Definition G2 (s : state) : Prop :=
  lock_free (s_procs s) (s_lock s) /\ s_lock s <> LAbsent /\ s_procs s <> []
  /\ forall q, In q (s_procs s) ->
       is_done (p_pc q) = false /\ forall p, larg (p_pc q) = Some p -> s_lock s = LRec p.
Definition G3 (s : state) : Prop :=
  s_lock s = LAbsent /\ exists q, In q (s_procs s) /\ good_absent (p_pc q) = true.

Record J (s : state) : Prop := mkJ {
  J_procs : forall q, In q (s_procs s) -> plocal q;
  J_meta : meta_free (s_procs s) (s_meta s);
  J_good : G1 s \/ G2 s \/ G3 s
}.

Definition calm_ev (e : event) : bool :=
  match e with Step _ o => negb (o_reach o) && negb (o_deadline o) | Crash _ => false end.
Definition calm (es : list event) : bool := forallb calm_ev es.

(* ------------------------------------------------------------------ one step of one guard-less server loop *)
Lemma micro_pre s o q s' q' :
  plocal q -> p_pc q <> AcqWrite -> o_reach o = false -> o_deadline o = false ->
  micro true s o q = (s', q') ->
  plocal q'
  /\ (s_meta s' = s_meta s \/ s_meta s' = MAbsent)
  /\ (   (s_lock s' = s_lock s)
      \/ (s_lock s = LAbsent /\ p_pc q' = AcqWrite)
      \/ (s_lock s <> LAbsent /\ s_lock s' = LAbsent /\ good_absent (p_pc q') = true))
  /\ (s_lock s = LAbsent -> good_absent (p_pc q) = true -> good_absent (p_pc q') = true \/ p_pc q' = AcqWrite)
  /\ (lock_free (s_procs s) (s_lock s) -> s_lock s <> LAbsent -> s_lock s' = s_lock s ->
      is_done (p_pc q) = false -> (forall p, larg (p_pc q) = Some p -> s_lock s = LRec p) ->
      is_done (p_pc q') = false /\ forall p, larg (p_pc q') = Some p -> s_lock s = LRec p).
Proof.
  intros [Ha Hg Hd Hp] Hnw Hr Hdl H.
  destruct s as [l m t ps tl tm]. unfold micro in H. cbn [s_lock s_meta s_tmp s_procs] in *.
  unfold ret, goto, set_files in H. rewrite Hd in H. cbn [s_lock s_meta s_tmp s_procs s_took_lock s_took_meta] in H.
  destruct (p_pc q) eqn:Hpc; cbn [pre_pc] in Hp; try discriminate; try congruence;
    destruct l as [|c|c]; destruct m as [|mp]; cbn [server_next] in H;
    rewrite ?Hr, ?Hdl in H;
    repeat match type of H with context [if ?c then _ else _] => destruct c eqn:? end;
    inversion H; subst; clear H; cbn [s_lock s_meta p_pc p_alive p_guard p_drv]; rewrite ?Hpc;
    (split; [constructor; cbn [p_alive p_guard p_drv p_pc pre_pc]; rewrite ?Hpc; auto|]);
    (split; [auto|]);
    (split; [first [left; reflexivity | right; left; split; reflexivity
                   | right; right; split; [congruence | split; reflexivity]]|]);
    (split; [cbn [good_absent]; intros; first [left; reflexivity | right; reflexivity | discriminate | congruence]|]);
    cbn [is_done larg lock_pid]; intros Hlf Hne Hsame Hnd Harg;
    try congruence;
    try (let X := fresh "X" in pose proof (Harg _ eq_refl) as X; try discriminate X; inversion X; subst; clear X);
    try (rewrite N.eqb_refl in *; discriminate);
    try (let Y := fresh "Y" in pose proof (Hlf _ eq_refl) as Y; congruence);
    (split; [reflexivity|]); intros p0 Hp0; try discriminate Hp0;
    try (inversion Hp0; subst; first [reflexivity | eqbs; reflexivity | congruence]).
Qed.

(* ------------------------------------------------------------------ list facts *)
Lemma in_upd_self {A} (l : list A) i x y : nth_error l i = Some y -> In x (upd l i x).
Proof. intros H. eapply nth_error_In. eapply upd_nth_same. exact H. Qed.

Lemma in_upd_other {A} (l : list A) i x y z :
  nth_error l i = Some y -> In z l -> z <> y -> In z (upd l i x).
Proof.
  intros Hi Hz Hne. apply In_nth_error in Hz. destruct Hz as [j Hj].
  assert (j <> i) by (intros ->; congruence).
  eapply nth_error_In with (n := j). rewrite upd_nth. destruct (Nat.eqb i j) eqn:E; [apply Nat.eqb_eq in E; congruence | exact Hj].
Qed.

Lemma in_upd_cases {A} (l : list A) i x y z :
  nth_error l i = Some y -> In z (upd l i x) -> z = x \/ In z l.
Proof.
  intros Hi Hz. apply in_upd in Hz. destruct Hz as [[-> _]|[j [_ Hj]]]; [left; reflexivity | right; eapply nth_error_In; exact Hj].
Qed.

Lemma upd_nonempty {A} (l : list A) i x : l <> [] -> upd l i x <> [].
Proof. destruct l, i; cbn; congruence. Qed.

Lemma holders_guard s q : In q (s_procs s) -> p_alive q = true -> p_guard q = true -> holders s <> [].
Proof.
  intros Hin Ha Hg. unfold holders. intros E.
  assert (In (p_pid q) (map p_pid (filter is_holder (s_procs s)))).
  { apply in_map. apply filter_In. split; [exact Hin|]. unfold is_holder. rewrite Ha, Hg. reflexivity. }
  rewrite E in H. contradiction.
Qed.

Lemma pc_eq_dec_acqwrite (k : pc) : {k = AcqWrite} + {k <> AcqWrite}.
Proof. destruct k; first [left; reflexivity | right; discriminate]. Qed.

(* ------------------------------------------------------------------ preservation *)
Lemma step_J s i o :
  J s -> o_reach o = false -> o_deadline o = false ->
  J (step true s (Step i o)) \/ holders (step true s (Step i o)) <> [].
Proof.
  intros [Hps Hm Hg] Hr Hdl. cbn [step].
  destruct (nth_error (s_procs s) i) as [q|] eqn:Hq; [|left; constructor; assumption].
  assert (Hinq : In q (s_procs s)) by (eapply nth_error_In; exact Hq).
  pose proof (Hps q Hinq) as Hpl. rewrite (PL_alive _ Hpl).
  destruct (micro true s o q) as [s' q'] eqn:HM.
  destruct (micro_basic _ _ _ _ _ _ HM) as [Epid [Eal Eps]].
  destruct (pc_eq_dec_acqwrite (p_pc q)) as [Hw|Hnw].
  - (* the record is written: the guard exists *)
    right. unfold micro in HM. rewrite Hw in HM. unfold ret in HM. rewrite (PL_drv _ Hpl) in HM.
    inversion HM; subst q'. eapply holders_guard with (q := _).
    + cbn [with_procs s_procs]. eapply in_upd_self. exact Hq.
    + cbn [p_alive]. apply (PL_alive _ Hpl).
    + reflexivity.
  - left.
    destruct (micro_pre s o q s' q' Hpl Hnw Hr Hdl HM) as [Hpl' [Hmeta [Hlock [Hga Hg2]]]].
    assert (Hal : forall p, pid_alive (upd (s_procs s) i q') p = pid_alive (s_procs s) p).
    { intros p. apply (pid_alive_upd_eq _ _ _ _ _ Hq Epid Eal). }
    constructor; cbn [with_procs s_procs s_lock s_meta].
    + intros x Hx. destruct (in_upd_cases _ _ _ _ _ Hq Hx) as [->|Hin]; [exact Hpl' | apply Hps; exact Hin].
    + intros p Hp. rewrite Hal. destruct Hmeta as [E|E]; rewrite E in Hp; [apply Hm; exact Hp | discriminate].
    + unfold G1, G2, G3; cbn [with_procs s_procs s_lock].
      destruct Hg as [[w [Hw Hwpc]] | [[Hlf [Hne [Hnn Hall]]] | [Hla [w [Hw Hwg]]]]].
      * (* somebody else is between create and write: still there *)
        left. exists w. split; [|exact Hwpc]. eapply in_upd_other; [exact Hq | exact Hw | congruence].
      * (* untouched dead leftover *)
        destruct Hlock as [Hsame | [[Habs _] | [_ [Hnew Hgood]]]]; [| congruence |].
        -- right; left. rewrite Hsame. split; [intros p Hp; rewrite Hal; apply Hlf; exact Hp|].
           split; [exact Hne|]. split; [apply upd_nonempty; exact Hnn|].
           intros x Hx. destruct (in_upd_cases _ _ _ _ _ Hq Hx) as [->|Hin]; [|apply Hall; exact Hin].
           destruct (Hall q Hinq) as [Hnd Harg]. apply (Hg2 Hlf Hne Hsame Hnd Harg).
        -- right; right. split; [exact Hnew|]. exists q'. split; [eapply in_upd_self; exact Hq | exact Hgood].
      * (* no lock at the path *)
        destruct Hlock as [Hsame | [[_ Hcw] | [Hne _]]]; [| | congruence].
        -- destruct (good_absent (p_pc q)) eqn:Hgq.
           ++ destruct (Hga Hla eq_refl) as [Hg'|Hg'].
              ** right; right. split; [congruence|]. exists q'. split; [eapply in_upd_self; exact Hq | exact Hg'].
              ** left. exists q'. split; [eapply in_upd_self; exact Hq | exact Hg'].
           ++ right; right. split; [congruence|]. exists w. split; [|exact Hwg].
              eapply in_upd_other; [exact Hq | exact Hw | congruence].
        -- left. exists q'. split; [eapply in_upd_self; exact Hq | exact Hcw].
Qed.

Lemma run_J es : forall s, J s -> calm es = true ->
  J (run true s es) \/ exists es1 es2, es = es1 ++ es2 /\ holders (run true s es1) <> [].
Proof.
  induction es as [|e es IH]; intros s Hj Hc; [left; exact Hj|].
  cbn [calm forallb] in Hc. apply andb_true_iff in Hc. destruct Hc as [He Hc].
  destruct e as [i o|i]; [|discriminate]. cbn [calm_ev] in He. apply andb_true_iff in He. destruct He as [Hr Hd].
  apply negb_true_iff in Hr, Hd.
  destruct (step_J s i o Hj Hr Hd) as [Hj'|Hh].
  - destruct (IH _ Hj' Hc) as [H|[es1 [es2 [E Hh]]]]; [left; exact H|].
    right. exists (Step i o :: es1), es2. split; [cbn [app]; f_equal; exact E | exact Hh].
  - right. exists [Step i o], es. split; [reflexivity | exact Hh].
Qed.

Lemma init_J l m ps :
  ps <> [] -> (forall q, In q ps -> q = fresh (p_pid q) DServer) -> dead_leftover ps l m -> J (init l m ps).
Proof.
  intros Hne Hall [Hl Hm]. constructor; cbn [init s_procs s_meta s_lock].
  - intros q Hq. rewrite (Hall q Hq). constructor; reflexivity.
  - exact Hm.
  - unfold G1, G2, G3; cbn [init s_procs s_lock]. destruct l as [|c|c].
    + right; right. split; [reflexivity|]. destruct ps as [|q0 r]; [congruence|].
      exists q0. split; [left; reflexivity|]. rewrite (Hall q0 (or_introl eq_refl)). reflexivity.
    + right; left. split; [exact Hl|]. split; [discriminate|]. split; [exact Hne|].
      intros q Hq. rewrite (Hall q Hq). split; [reflexivity | intros p Hp; discriminate].
    + right; left. split; [exact Hl|]. split; [discriminate|]. split; [exact Hne|].
      intros q Hq. rewrite (Hall q Hq). split; [reflexivity | intros p Hp; discriminate].
Qed.

(* ------------------------------------------------------------------ some contender, left alone, becomes the authority *)
Fixpoint guard_within (n : nat) (s : state) (q : proc) : bool :=
  p_guard q || match n with
               | O => false
               | S n' => let '(s', q') := micro true s 2 q in guard_within n' s' q'
               end.

Lemma guard_within_solo n : forall s q, guard_within n s q = true ->
  exists k, (k <= n)%nat /\ p_guard (snd (solo k 2 s q)) = true.
Proof.
  induction n as [|n IH]; intros s q H; cbn [guard_within] in H.
  - exists 0%nat. split; [lia|]. cbn [solo snd]. rewrite orb_false_r in H. exact H.
  - destruct (p_guard q) eqn:Eg.
    + exists 0%nat. split; [lia|]. cbn [solo snd]. exact Eg.
    + cbn [orb] in H. destruct (micro true s 2 q) as [s' q'] eqn:HM.
      destruct (IH s' q' H) as [k [Hk Hg]]. exists (S k). split; [lia|]. cbn [solo]. rewrite HM. exact Hg.
Qed.

Lemma solo_alive n : forall o s q, p_alive (snd (solo n o s q)) = p_alive q.
Proof.
  induction n as [|n IH]; intros o s q; cbn [solo]; [reflexivity|].
  destruct (micro true s o q) as [s' q'] eqn:HM. rewrite IH.
  destruct (micro_basic _ _ _ _ _ _ HM) as [_ [E _]]. exact E.
Qed.

Lemma guard_within_S n s q :
  guard_within (S n) s q = p_guard q || (let '(s', q') := micro true s 2 q in guard_within n s' q').
Proof. reflexivity. Qed.
Lemma guard_within_true n s q : p_guard q = true -> guard_within n s q = true.
Proof. intros H. destruct n; cbn [guard_within]; rewrite H; reflexivity. Qed.

(* one symbolic step; guard_within itself is never unfolded by cbn (its fuel is a numeral: it would unfold under the
   binders of a blocked step, 26 cases deep) *)
Ltac sym1 :=
  try rewrite guard_within_S;
  cbn [micro ret server_next goto set_files p_pc p_pid p_guard p_drv p_alive s_lock s_meta s_tmp s_procs
       s_took_lock s_took_meta lock_pid meta_pid orb andb negb];
  unfold grace_fires;
  change (o_deadline 2) with false; change (o_grace 2) with true; change (o_reach 2) with false;
  repeat match goal with H : pid_alive _ _ = false |- _ => rewrite H end;
  rewrite ?N.eqb_refl; cbn [negb andb orb];
  repeat match goal with
  | |- context [if (?a =? ?b) then _ else _] => destruct (a =? b) eqn:?
  | |- context [if pid_alive ?ps ?p then _ else _] => destruct (pid_alive ps p) eqn:?
  end.

Lemma J_reaches s : J s ->
  exists i q, nth_error (s_procs s) i = Some q /\ p_alive q = true /\ guard_within 20 s q = true.
Proof.
  intros [Hps Hm Hg].
  destruct Hg as [[w [Hw Hwpc]] | [[Hlf [Hne [Hnn Hall]]] | [Hla [w [Hw Hwg]]]]].
  - (* between create and write *)
    destruct (In_nth_error _ _ Hw) as [i Hi]. exists i, w. split; [exact Hi|].
    destruct (Hps w Hw) as [Ha Hgd Hd _]. split; [exact Ha|].
    destruct s as [l m t ps tl tm]. destruct w as [me al g drv k last]. cbn in Ha, Hgd, Hd, Hwpc. subst.
    do 2 sym1. reflexivity.
  - (* untouched dead leftover: anybody *)
    destruct (s_procs s) as [|w r] eqn:Eps; [congruence|].
    assert (Hw : In w (w :: r)) by (left; reflexivity).
    exists 0%nat, w. split; [reflexivity|].
    destruct (Hps w Hw) as [Ha Hgd Hd Hp]. split; [exact Ha|].
    destruct (Hall w Hw) as [Hnd Harg].
    destruct s as [l m t ps tl tm]. cbn [s_procs] in Eps. subst ps. destruct w as [me al g drv k last].
    cbn [s_procs s_lock s_meta p_alive p_guard p_drv p_pc] in *. subst al g drv. clear Hw Hall Hps Hnn.
    unfold lock_free, meta_free in *.
    destruct l as [|c|c]; [congruence| |]; pose proof (Hlf c eq_refl) as Hc; cbn [lock_pid] in Hc;
      (destruct m as [|mp]; [|pose proof (Hm mp eq_refl) as Hmp; cbn [meta_pid] in Hmp]);
      destruct k; cbn [pre_pc is_done larg] in *; try discriminate;
      try (pose proof (Harg _ eq_refl) as X; try discriminate X; inversion X; subst; clear X);
      do 21 sym1; first [reflexivity | apply guard_within_true; reflexivity].
  - (* no lock at the path *)
    destruct (In_nth_error _ _ Hw) as [i Hi]. exists i, w. split; [exact Hi|].
    destruct (Hps w Hw) as [Ha Hgd Hd Hp]. split; [exact Ha|].
    destruct s as [l m t ps tl tm]. destruct w as [me al g drv k last].
    cbn [s_procs s_lock s_meta p_alive p_guard p_drv p_pc] in *. subst al g drv l. clear Hi Hw Hps.
    unfold meta_free in *.
    (destruct m as [|mp]; [|pose proof (Hm mp eq_refl) as Hmp; cbn [meta_pid] in Hmp]);
      destruct k; cbn [good_absent] in Hwg; try discriminate;
      do 21 sym1; first [reflexivity | apply guard_within_true; reflexivity].
Qed.

Lemma run_app ag s es1 es2 : run ag s (es1 ++ es2) = run ag (run ag s es1) es2.
Proof. unfold run. apply fold_left_app. Qed.

(* ------------------------------------------------------------------ the theorem *)
Definition servers (ps : list proc) : Prop := ps <> [] /\ forall q, In q ps -> q = fresh (p_pid q) DServer.

Theorem recovers_from_every_reachable_state l m ps es :
  servers ps -> dead_leftover ps l m -> calm es = true ->
  (exists es1 es2, es = es1 ++ es2 /\ holders (run true (init l m ps) es1) <> [])
  \/ (exists i n, (n <= 20)%nat /\ holders (run true (init l m ps) (es ++ repeat (Step i 2) n)) <> []).
Proof.
  intros [Hne Hall] Hd Hc.
  destruct (run_J es _ (init_J l m ps Hne Hall Hd) Hc) as [Hj|H]; [|left; exact H].
  right. destruct (J_reaches _ Hj) as [i [q [Hq [Ha Hgw]]]].
  destruct (guard_within_solo _ _ _ Hgw) as [k [Hk Hg]].
  exists i, k. split; [exact Hk|]. rewrite run_app.
  set (sN := run true (init l m ps) es) in *.
  destruct (run_solo k 2 sN sN q i (sim_refl _) Hq Ha) as [_ Hps].
  eapply holders_guard with (q := snd (solo k 2 sN q)).
  - rewrite Hps. eapply in_upd_self. exact Hq.
  - rewrite solo_alive. exact Ha.
  - exact Hg.
Qed.

(* non-vacuity: two server loops that have BOTH passed the re-read of the stale cleanup (the prefix of the S13 race): no
   authority yet; contender 0, left alone for 4 steps (rename, read meta, create, write), is the authority *)
Definition fair_two : list proc := [fresh 1 DServer; fresh 2 DServer].
Definition mid_race : list event := repeat (Step 0%nat 0) 6 ++ repeat (Step 1%nat 0) 6.
Lemma fair_example :
  servers fair_two /\ dead_leftover fair_two (LRec 900) MAbsent /\ calm mid_race = true
  /\ holders (run true (init (LRec 900) MAbsent fair_two) mid_race) = []
  /\ holders (run true (init (LRec 900) MAbsent fair_two) (mid_race ++ repeat (Step 0%nat 2) 4)) = [1].
Proof.
  split; [split; [discriminate|]|].
  - intros q [<-|[<-|[]]]; reflexivity.
  - split; [split; intros p Hp; inversion Hp; subst; vm_compute; reflexivity|].
    split; [vm_compute; reflexivity|]. split; vm_compute; reflexivity.
Qed.
