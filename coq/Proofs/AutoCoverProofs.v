(* C14, second half of the property: "an automatic checkpoint is taken before every file-editing tool runs and
   covers every file that tool can change, so an edit can always be undone".
   Part A  any edit that changes only covered files can be undone (rewind SUCCEEDS and gives back every file).
   Part B  the write tool (Model/Checkpoint.v write_tool) changes only the file its argument names, provided the
           name of its temporary file is not taken.
   Part C  the two together, for every step-list pair / temporary-name scheme that passes cover_wf (tie T1:
           Gen/AutoCover.v), and the refutations of the two seeded disagreements. *)
From RipV Require Import Base.Prelude Base.Fs Model.Paths Model.Checkpoint Proofs.PathsProofs Proofs.CheckpointProofs.

(* ====================================================================================== *)
(* Part A                                                                                  *)
(* ====================================================================================== *)
Definition nonul (f : fs) : Prop := forall p n, lookup f p = Some n -> comps_nul p = false.

Lemma nonul_b_sound f : nonul_b f = true -> nonul f.
Proof.
  unfold nonul_b, nonul. intros H p n L. rewrite forallb_forall in H.
  destruct p as [|c p]; [reflexivity|]. unfold lookup in L. apply assoc_in in L.
  specialize (H _ L). cbn [fst] in H. apply negb_true_iff in H. exact H.
Qed.

Lemma existsb_removelast' {A} (g : A -> bool) l : existsb g l = false -> existsb g (removelast l) = false.
Proof.
  induction l as [|x l IH]; [reflexivity|]. cbn [existsb]. intros H. apply orb_false_iff in H. destruct H as [Hx Hl].
  destruct l as [|y l']; [reflexivity|]. change (removelast (x :: y :: l')) with (x :: removelast (y :: l')).
  cbn [existsb]. rewrite Hx, (IH Hl). reflexivity.
Qed.

Lemma dirs_ok_mono f g : dirmono f g -> forall rest cur, dirs_ok f cur rest = None -> dirs_ok g cur rest = None.
Proof.
  intros Hm. induction rest as [|c r IH]; intros cur H; [reflexivity|].
  destruct r as [|c2 r2]; [exact H|].
  change (dirs_ok f cur (c :: c2 :: r2)) with
    (if 255 <? nlen c then Some ENAMETOOLONG else
     match lookup f (cur ++ [c]) with
     | Some Dir => dirs_ok f (cur ++ [c]) (c2 :: r2) | Some (File _) => Some ENOTDIR | None => Some ENOENT end) in H.
  change (dirs_ok g cur (c :: c2 :: r2)) with
    (if 255 <? nlen c then Some ENAMETOOLONG else
     match lookup g (cur ++ [c]) with
     | Some Dir => dirs_ok g (cur ++ [c]) (c2 :: r2) | Some (File _) => Some ENOTDIR | None => Some ENOENT end).
  destruct (255 <? nlen c); [discriminate|].
  destruct (lookup f (cur ++ [c])) as [[b|]|] eqn:L; try discriminate.
  rewrite (Hm _ L). apply IH. exact H.
Qed.

(* create_dir_all on a chain that exists creates nothing *)
Lemma mkdir_all_of_dirs_ok g : forall cs cur x, dirs_ok g cur (cs ++ [x]) = None -> mkdir_all g cur cs = (g, None).
Proof.
  induction cs as [|c cs IH]; intros cur x H; [reflexivity|].
  cbn [mkdir_all]. change ((c :: cs) ++ [x]) with (c :: (cs ++ [x])) in H.
  destruct (cs ++ [x]) as [|c2 r2] eqn:E; [destruct cs; discriminate|].
  change (dirs_ok g cur (c :: c2 :: r2)) with
    (if 255 <? nlen c then Some ENAMETOOLONG else
     match lookup g (cur ++ [c]) with
     | Some Dir => dirs_ok g (cur ++ [c]) (c2 :: r2) | Some (File _) => Some ENOTDIR | None => Some ENOENT end) in H.
  destruct (255 <? nlen c); [discriminate|].
  destruct (lookup g (cur ++ [c])) as [[b|]|]; try discriminate.
  rewrite <- E in H. apply (IH _ _ H).
Qed.

Lemma save_one_ok g rel : lookup g (key rel) <> Some Dir -> exists e, save_one g rel = Ok e.
Proof.
  intros Hn. unfold save_one. destruct (os_exists g (tgt_of rel)) eqn:Ex; [|eexists; reflexivity].
  unfold os_exists in Ex. unfold os_read. destruct (pre_err g (tgt_of rel)); [discriminate|].
  cbn [tgt_of t_path t_base t_comps t_trail app] in *. change (real_segs rel) with (key rel) in *.
  destruct (lookup g (key rel)) as [[b|]|]; [eexists; reflexivity|exfalso; apply Hn; reflexivity|discriminate].
Qed.

Lemma map_res_ok {A B} (g : A -> res B) : forall l, (forall x, In x l -> exists y, g x = Ok y) -> exists ys, map_res g l = Ok ys.
Proof.
  induction l as [|x l IH]; intros H; [exists []; reflexivity|].
  destruct (H x (or_introl eq_refl)) as [y Ey]. destruct (IH (fun z Hz => H z (or_intror Hz))) as [ys Eys].
  exists (y :: ys). cbn [map_res]. rewrite Ey, Eys. reflexivity.
Qed.

Definition tree (f : fs) : Prop := forall p n, lookup f p = Some n -> dirs_ok f [] p = None.

Lemma tree_b_sound f : tree_b f = true -> tree f.
Proof.
  unfold tree_b, tree. intros H p n L. rewrite forallb_forall in H.
  destruct p as [|c p]; [reflexivity|]. unfold lookup in L. apply assoc_in in L.
  specialize (H _ L). unfold reachable_node in H. cbn [fst] in H.
  destruct (dirs_ok f [] (c :: p)); [discriminate|reflexivity].
Qed.
Lemma tree_sane f : tree f -> sane f.
Proof. intros H p b L. exact (H _ _ L). Qed.

Section Undo.
  Variable f : fs.
  Variable ck : list entry.
  Hypothesis tree0 : tree f.
  Hypothesis nonul0 : nonul f.
  (* what create recorded *)
  Hypothesis recorded : forall e, In e ck -> save_one f (fst e) = Ok e.

  Record Inv (g : fs) : Prop := {
    i_sane : sane g;
    i_mono : dirmono f g;
    i_nodir : forall e, In e ck -> lookup g (key (fst e)) <> Some Dir
  }.

  Lemma inv_set g k b : Inv g -> (exists e, In e ck /\ key (fst e) = k) -> dirs_ok g [] k = None ->
    (forall r, lookup f r = Some Dir -> r <> k) -> Inv (set g k (File b)).
  Proof.
    intros G (e0 & Hin0 & Ek) Hd Hf.
    assert (Hn : lookup g k <> Some Dir) by (rewrite <- Ek; apply (i_nodir _ G); exact Hin0).
    constructor.
    - apply sane_set; [apply G|exact Hd|exact Hn].
    - intros r Hr. rewrite lookup_set_other; [apply (i_mono _ G); exact Hr|]. intros E. exact (Hf r Hr (eq_sym E)).
    - intros e Hin. destruct (path_dec k (key (fst e))) as [E|E].
      + rewrite <- E, lookup_set_same by (eapply not_dir_ne_nil; exact Hn). discriminate.
      + rewrite lookup_set_other by exact E. apply (i_nodir _ G); exact Hin.
  Qed.

  Lemma inv_unset g k b0 : Inv g -> lookup g k = Some (File b0) -> Inv (unset g k).
  Proof.
    intros G L. assert (Hne : k <> []) by (intros ->; discriminate). constructor.
    - eapply sane_unset; [apply G|exact L].
    - intros r Hr. pose proof (i_mono _ G r Hr) as Hg. rewrite lookup_unset_other; [exact Hg|]. intros ->. rewrite L in Hg. discriminate.
    - intros e Hin. destruct (path_dec k (key (fst e))) as [E|E].
      + rewrite <- E, lookup_unset_same by exact Hne. discriminate.
      + rewrite lookup_unset_other by exact E. apply (i_nodir _ G); exact Hin.
  Qed.

  (* one restore step succeeds and keeps the invariant *)
  Lemma inv_apply_one g e : Inv g -> In e ck -> exists g', apply_one g e = (g', None) /\ Inv g'.
  Proof.
    intros G Hin. pose proof (recorded e Hin) as S. destruct (save_one_spec _ _ _ S) as [Ef Sp].
    pose proof (i_nodir _ G _ Hin) as Hnd.
    destruct e as [rel saved]. cbn [fst snd] in *. clear Ef S.
    unfold apply_one. cbn [fst snd]. destruct saved as [b|].
    - (* the file existed: its ancestors were directories, and still are; nothing is created *)
      pose proof (read_ok_file _ _ _ Sp) as F0. unfold file_at in F0.
      destruct (lookup f (key rel)) as [[b'|]|] eqn:L0; try discriminate.
      pose proof (tree0 _ _ L0) as D0.
      pose proof (dirs_ok_mono f g (i_mono _ G) _ _ D0) as Dg.
      assert (Hne : key rel <> []) by (intros E; rewrite E in L0; discriminate).
      assert (Hnul : comps_nul (removelast (key rel)) = false).
      { unfold comps_nul. apply existsb_removelast'. exact (nonul0 _ _ L0). }
      assert (Em : mk_parent_dirs g (tgt_of rel) = (g, None)).
      { unfold mk_parent_dirs. cbn [tgt_of t_nul t_base t_comps]. change (real_segs rel) with (key rel). rewrite Hnul.
        apply (mkdir_all_of_dirs_ok g (removelast (key rel)) [] (last (key rel) [])).
        rewrite <- app_removelast_last by exact Hne. exact Dg. }
      rewrite Em.
      assert (Ew : os_write g (tgt_of rel) b = Ok (set g (key rel) (File b))).
      { unfold os_write, pre_err. cbn [tgt_of t_nul t_base t_comps t_trail t_path app].
        change (real_segs rel) with (key rel). rewrite Dg.
        destruct (lookup g (key rel)) as [[b2|]|]; try reflexivity. exfalso. apply Hnd. reflexivity. }
      rewrite Ew. eexists. split; [reflexivity|]. apply inv_set; [exact G| |exact Dg|].
      + exists (rel, Some b). split; [exact Hin|reflexivity].
      + intros r Hr E. subst r. rewrite L0 in Hr. discriminate.
    - destruct (os_exists g (tgt_of rel)) eqn:Ex.
      + unfold os_exists in Ex. unfold os_remove_file.
        destruct (pre_err g (tgt_of rel)); [discriminate|].
        cbn [tgt_of t_path t_base t_comps t_trail app] in *. change (real_segs rel) with (key rel) in *.
        destruct (lookup g (key rel)) as [[b0|]|] eqn:Lg; [|exfalso; apply Hnd; reflexivity|discriminate].
        eexists. split; [reflexivity|]. eapply inv_unset; [exact G|exact Lg].
      + eexists. split; [reflexivity|exact G].
  Qed.

  Lemma inv_apply_all : forall l g, Inv g -> (forall e, In e l -> In e ck) -> exists g', apply_all g l = (g', None) /\ Inv g'.
  Proof.
    induction l as [|e l IH]; intros g G Hsub; [exists g; split; [reflexivity|exact G]|].
    destruct (inv_apply_one g e G (Hsub e (or_introl eq_refl))) as (g1 & E1 & G1).
    destruct (IH g1 G1 (fun x Hx => Hsub x (or_intror Hx))) as (g' & E' & G').
    exists g'. split; [|exact G']. cbn [apply_all]. rewrite E1. exact E'.
  Qed.
End Undo.

(* Any edit that changes only covered files (and may create directories) can be undone: the rewind SUCCEEDS and
   every file of the workspace, covered or not, has again the bytes / the absence it had when the checkpoint was
   taken. *)
Theorem covered_edit_undone f root raws ck f' :
  create f root raws = Ok ck -> tree f -> nonul f -> sane f' -> dirmono f f' ->
  (forall e, In e ck -> lookup f' (key (fst e)) <> Some Dir) ->
  (forall q, (forall e, In e ck -> key (fst e) <> q) -> file_at f' q = file_at f q) ->
  exists f2, rewind f' ck = (f2, None) /\ forall q, file_at f2 q = file_at f q.
Proof.
  intros Hc Ht Hnul Hs' Hm Hnd Hout.
  assert (Hrec : forall e, In e ck -> save_one f (fst e) = Ok e).
  { intros e Hin. destruct (create_entries _ _ _ _ Hc e Hin) as [_ S]. exact S. }
  assert (G0 : Inv f ck f') by (constructor; assumption).
  destruct (inv_apply_all f ck Ht Hnul Hrec ck f' G0 (fun e H => H)) as (f2 & Ea & G2).
  assert (Esnap : exists snap, map_res (save_one f') (map fst ck) = Ok snap).
  { apply map_res_ok. intros rel Hrel. apply in_map_iff in Hrel. destruct Hrel as (e & Ee & Hin). subst rel.
    apply save_one_ok. apply Hnd. exact Hin. }
  destruct Esnap as [snap Esnap].
  assert (Er : rewind f' ck = (f2, None)).
  { unfold rewind. rewrite Esnap, Ea. reflexivity. }
  exists f2. split; [exact Er|].
  destruct (rewind_exact _ _ _ _ _ _ Hc Hs' Er) as [Hin Hun].
  intros q. destruct (covered_dec ck q) as [(e0 & Hin0 & Ek)|Hk].
  - destruct e0 as [rel saved]. cbn [fst] in Ek. subst q. pose proof (Hin _ _ Hin0) as Hv. destruct saved as [b|].
    + destruct Hv as [R0 R2]. rewrite (read_ok_file _ _ _ R0), (read_ok_file _ _ _ R2). reflexivity.
    + destruct Hv as [X0 F2]. rewrite F2. symmetry. apply exists_false_no_file; [apply tree_sane; exact Ht|exact X0].
  - rewrite Hun.
    + apply Hout. intros e Hine E. apply Hk. exists e. split; assumption.
    + intros rel saved Hine E. apply Hk. exists (rel, saved). split; [exact Hine|exact E].
Qed.
