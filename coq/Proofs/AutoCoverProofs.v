(* C14, second half of the property: "an automatic checkpoint is taken before every file-editing tool runs and
   covers every file that tool can change, so an edit can always be undone".
   Part A  any edit that changes only covered files can be undone (rewind SUCCEEDS and gives back every file).
   Part B  the write tool (Model/Checkpoint.v write_tool) changes only the file its argument names, provided the
           name of its temporary file is not taken.
   Part C  the two together, for every step-list pair / temporary-name scheme that passes cover_wf (tie T1:
           Gen/AutoCover.v), and the refutations of the two seeded disagreements. *)
From RipV Require Import Base.Prelude Base.Fs Model.Paths Model.Checkpoint Proofs.PathsProofs Proofs.CheckpointProofs.

(* ====================================================================================== *)
(* Part A                                                                                  *)
(* ====================================================================================== *)
Definition nonul (f : fs) : Prop := forall p n, lookup f p = Some n -> comps_nul p = false.

Lemma nonul_b_sound f : nonul_b f = true -> nonul f.
Proof.
  unfold nonul_b, nonul. intros H p n L. rewrite forallb_forall in H.
  destruct p as [|c p]; [reflexivity|]. unfold lookup in L. apply assoc_in in L.
  specialize (H _ L). cbn [fst] in H. apply negb_true_iff in H. exact H.
Qed.

Lemma existsb_removelast' {A} (g : A -> bool) l : existsb g l = false -> existsb g (removelast l) = false.
Proof.
  induction l as [|x l IH]; [reflexivity|]. cbn [existsb]. intros H. apply orb_false_iff in H. destruct H as [Hx Hl].
  destruct l as [|y l']; [reflexivity|]. change (removelast (x :: y :: l')) with (x :: removelast (y :: l')).
  cbn [existsb]. rewrite Hx, (IH Hl). reflexivity.
Qed.

Lemma dirs_ok_mono f g : dirmono f g -> forall rest cur, dirs_ok f cur rest = None -> dirs_ok g cur rest = None.
Proof.
  intros Hm. induction rest as [|c r IH]; intros cur H; [reflexivity|].
  destruct r as [|c2 r2]; [exact H|].
  change (dirs_ok f cur (c :: c2 :: r2)) with
    (if 255 <? nlen c then Some ENAMETOOLONG else
     match lookup f (cur ++ [c]) with
     | Some Dir => dirs_ok f (cur ++ [c]) (c2 :: r2) | Some (File _) => Some ENOTDIR | None => Some ENOENT end) in H.
  change (dirs_ok g cur (c :: c2 :: r2)) with
    (if 255 <? nlen c then Some ENAMETOOLONG else
     match lookup g (cur ++ [c]) with
     | Some Dir => dirs_ok g (cur ++ [c]) (c2 :: r2) | Some (File _) => Some ENOTDIR | None => Some ENOENT end).
  destruct (255 <? nlen c); [discriminate|].
  destruct (lookup f (cur ++ [c])) as [[b|]|] eqn:L; try discriminate.
  rewrite (Hm _ L). apply IH. exact H.
Qed.

(* create_dir_all on a chain that exists creates nothing *)
Lemma mkdir_all_of_dirs_ok g : forall cs cur x, dirs_ok g cur (cs ++ [x]) = None -> mkdir_all g cur cs = (g, None).
Proof.
  induction cs as [|c cs IH]; intros cur x H; [reflexivity|].
  cbn [mkdir_all]. change ((c :: cs) ++ [x]) with (c :: (cs ++ [x])) in H.
  destruct (cs ++ [x]) as [|c2 r2] eqn:E; [destruct cs; discriminate|].
  change (dirs_ok g cur (c :: c2 :: r2)) with
    (if 255 <? nlen c then Some ENAMETOOLONG else
     match lookup g (cur ++ [c]) with
     | Some Dir => dirs_ok g (cur ++ [c]) (c2 :: r2) | Some (File _) => Some ENOTDIR | None => Some ENOENT end) in H.
  destruct (255 <? nlen c); [discriminate|].
  destruct (lookup g (cur ++ [c])) as [[b|]|]; try discriminate.
  rewrite <- E in H. apply (IH _ _ H).
Qed.

Lemma save_one_ok g rel : lookup g (key rel) <> Some Dir -> exists e, save_one g rel = Ok e.
Proof.
  intros Hn. unfold save_one. destruct (os_exists g (tgt_of rel)) eqn:Ex; [|eexists; reflexivity].
  unfold os_exists in Ex. unfold os_read. destruct (pre_err g (tgt_of rel)); [discriminate|].
  cbn [tgt_of t_path t_base t_comps t_trail app] in *. change (real_segs rel) with (key rel) in *.
  destruct (lookup g (key rel)) as [[b|]|]; [eexists; reflexivity|exfalso; apply Hn; reflexivity|discriminate].
Qed.

Lemma map_res_ok {A B} (g : A -> res B) : forall l, (forall x, In x l -> exists y, g x = Ok y) -> exists ys, map_res g l = Ok ys.
Proof.
  induction l as [|x l IH]; intros H; [exists []; reflexivity|].
  destruct (H x (or_introl eq_refl)) as [y Ey]. destruct (IH (fun z Hz => H z (or_intror Hz))) as [ys Eys].
  exists (y :: ys). cbn [map_res]. rewrite Ey, Eys. reflexivity.
Qed.

Definition tree (f : fs) : Prop := forall p n, lookup f p = Some n -> dirs_ok f [] p = None.

Lemma tree_b_sound f : tree_b f = true -> tree f.
Proof.
  unfold tree_b, tree. intros H p n L. rewrite forallb_forall in H.
  destruct p as [|c p]; [reflexivity|]. unfold lookup in L. apply assoc_in in L.
  specialize (H _ L). unfold reachable_node in H. cbn [fst] in H.
  destruct (dirs_ok f [] (c :: p)); [discriminate|reflexivity].
Qed.
Lemma tree_sane f : tree f -> sane f.
Proof. intros H p b L. exact (H _ _ L). Qed.

Section Undo.
  Variable f : fs.
  Variable ck : list entry.
  Hypothesis tree0 : tree f.
  Hypothesis nonul0 : nonul f.
  (* what create recorded *)
  Hypothesis recorded : forall e, In e ck -> save_one f (fst e) = Ok e.

  Record Inv (g : fs) : Prop := {
    i_sane : sane g;
    i_mono : dirmono f g;
    i_nodir : forall e, In e ck -> lookup g (key (fst e)) <> Some Dir
  }.

  Lemma inv_set g k b : Inv g -> (exists e, In e ck /\ key (fst e) = k) -> dirs_ok g [] k = None ->
    (forall r, lookup f r = Some Dir -> r <> k) -> Inv (set g k (File b)).
  Proof.
    intros G (e0 & Hin0 & Ek) Hd Hf.
    assert (Hn : lookup g k <> Some Dir) by (rewrite <- Ek; apply (i_nodir _ G); exact Hin0).
    constructor.
    - apply sane_set; [apply G|exact Hd|exact Hn].
    - intros r Hr. rewrite lookup_set_other; [apply (i_mono _ G); exact Hr|]. intros E. exact (Hf r Hr (eq_sym E)).
    - intros e Hin. destruct (path_dec k (key (fst e))) as [E|E].
      + rewrite <- E, lookup_set_same by (eapply not_dir_ne_nil; exact Hn). discriminate.
      + rewrite lookup_set_other by exact E. apply (i_nodir _ G); exact Hin.
  Qed.

  Lemma inv_unset g k b0 : Inv g -> lookup g k = Some (File b0) -> Inv (unset g k).
  Proof.
    intros G L. assert (Hne : k <> []) by (intros ->; discriminate). constructor.
    - eapply sane_unset; [apply G|exact L].
    - intros r Hr. pose proof (i_mono _ G r Hr) as Hg. rewrite lookup_unset_other; [exact Hg|]. intros ->. rewrite L in Hg. discriminate.
    - intros e Hin. destruct (path_dec k (key (fst e))) as [E|E].
      + rewrite <- E, lookup_unset_same by exact Hne. discriminate.
      + rewrite lookup_unset_other by exact E. apply (i_nodir _ G); exact Hin.
  Qed.

  (* one restore step succeeds and keeps the invariant *)
  Lemma inv_apply_one g e : Inv g -> In e ck -> exists g', apply_one g e = (g', None) /\ Inv g'.
  Proof.
    intros G Hin. pose proof (recorded e Hin) as S. destruct (save_one_spec _ _ _ S) as [Ef Sp].
    pose proof (i_nodir _ G _ Hin) as Hnd.
    destruct e as [rel saved]. cbn [fst snd] in *. clear Ef S.
    unfold apply_one. cbn [fst snd]. destruct saved as [b|].
    - (* the file existed: its ancestors were directories, and still are; nothing is created *)
      pose proof (read_ok_file _ _ _ Sp) as F0. unfold file_at in F0.
      destruct (lookup f (key rel)) as [[b'|]|] eqn:L0; try discriminate.
      pose proof (tree0 _ _ L0) as D0.
      pose proof (dirs_ok_mono f g (i_mono _ G) _ _ D0) as Dg.
      assert (Hne : key rel <> []) by (intros E; rewrite E in L0; discriminate).
      assert (Hnul : comps_nul (removelast (key rel)) = false).
      { unfold comps_nul. apply existsb_removelast'. exact (nonul0 _ _ L0). }
      assert (Em : mk_parent_dirs g (tgt_of rel) = (g, None)).
      { unfold mk_parent_dirs. cbn [tgt_of t_nul t_base t_comps]. change (real_segs rel) with (key rel). rewrite Hnul.
        apply (mkdir_all_of_dirs_ok g (removelast (key rel)) [] (last (key rel) [])).
        rewrite <- app_removelast_last by exact Hne. exact Dg. }
      rewrite Em.
      assert (Ew : os_write g (tgt_of rel) b = Ok (set g (key rel) (File b))).
      { unfold os_write, pre_err. cbn [tgt_of t_nul t_base t_comps t_trail t_path app].
        change (real_segs rel) with (key rel). rewrite Dg.
        destruct (lookup g (key rel)) as [[b2|]|]; try reflexivity. exfalso. apply Hnd. reflexivity. }
      rewrite Ew. eexists. split; [reflexivity|]. apply inv_set; [exact G| |exact Dg|].
      + exists (rel, Some b). split; [exact Hin|reflexivity].
      + intros r Hr E. subst r. rewrite L0 in Hr. discriminate.
    - destruct (os_exists g (tgt_of rel)) eqn:Ex.
      + unfold os_exists in Ex. unfold os_remove_file.
        destruct (pre_err g (tgt_of rel)); [discriminate|].
        cbn [tgt_of t_path t_base t_comps t_trail app] in *. change (real_segs rel) with (key rel) in *.
        destruct (lookup g (key rel)) as [[b0|]|] eqn:Lg; [|exfalso; apply Hnd; reflexivity|discriminate].
        eexists. split; [reflexivity|]. eapply inv_unset; [exact G|exact Lg].
      + eexists. split; [reflexivity|exact G].
  Qed.

  Lemma inv_apply_all : forall l g, Inv g -> (forall e, In e l -> In e ck) -> exists g', apply_all g l = (g', None) /\ Inv g'.
  Proof.
    induction l as [|e l IH]; intros g G Hsub; [exists g; split; [reflexivity|exact G]|].
    destruct (inv_apply_one g e G (Hsub e (or_introl eq_refl))) as (g1 & E1 & G1).
    destruct (IH g1 G1 (fun x Hx => Hsub x (or_intror Hx))) as (g' & E' & G').
    exists g'. split; [|exact G']. cbn [apply_all]. rewrite E1. exact E'.
  Qed.
End Undo.

(* Any edit that changes only covered files (and may create directories) can be undone: the rewind SUCCEEDS and
   every file of the workspace, covered or not, has again the bytes / the absence it had when the checkpoint was
   taken. *)
Theorem covered_edit_undone f root raws ck f' :
  create f root raws = Ok ck -> tree f -> nonul f -> sane f' -> dirmono f f' ->
  (forall e, In e ck -> lookup f' (key (fst e)) <> Some Dir) ->
  (forall q, (forall e, In e ck -> key (fst e) <> q) -> file_at f' q = file_at f q) ->
  exists f2, rewind f' ck = (f2, None) /\ forall q, file_at f2 q = file_at f q.
Proof.
  intros Hc Ht Hnul Hs' Hm Hnd Hout.
  assert (Hrec : forall e, In e ck -> save_one f (fst e) = Ok e).
  { intros e Hin. destruct (create_entries _ _ _ _ Hc e Hin) as [_ S]. exact S. }
  assert (G0 : Inv f ck f') by (constructor; assumption).
  destruct (inv_apply_all f ck Ht Hnul Hrec ck f' G0 (fun e H => H)) as (f2 & Ea & G2).
  assert (Esnap : exists snap, map_res (save_one f') (map fst ck) = Ok snap).
  { apply map_res_ok. intros rel Hrel. apply in_map_iff in Hrel. destruct Hrel as (e & Ee & Hin). subst rel.
    apply save_one_ok. apply Hnd. exact Hin. }
  destruct Esnap as [snap Esnap].
  assert (Er : rewind f' ck = (f2, None)).
  { unfold rewind. rewrite Esnap, Ea. reflexivity. }
  exists f2. split; [exact Er|].
  destruct (rewind_exact _ _ _ _ _ _ Hc Hs' Er) as [Hin Hun].
  intros q. destruct (covered_dec ck q) as [(e0 & Hin0 & Ek)|Hk].
  - destruct e0 as [rel saved]. cbn [fst] in Ek. subst q. pose proof (Hin _ _ Hin0) as Hv. destruct saved as [b|].
    + destruct Hv as [R0 R2]. rewrite (read_ok_file _ _ _ R0), (read_ok_file _ _ _ R2). reflexivity.
    + destruct Hv as [X0 F2]. rewrite F2. symmetry. apply exists_false_no_file; [apply tree_sane; exact Ht|exact X0].
  - rewrite Hun.
    + apply Hout. intros e Hine E. apply Hk. exists e. split; assumption.
    + intros rel saved Hine E. apply Hk. exists (rel, saved). split; [exact Hine|exact E].
Qed.

(* ====================================================================================== *)
(* Part B: what the write tool changes                                                     *)
(* ====================================================================================== *)
Lemma pre_err_dirs f t : t_base t = [] -> pre_err f t = None -> dirs_ok f [] (t_path t) = None /\ t_nul t = false.
Proof.
  unfold pre_err, t_path. intros ->. destruct (t_nul t); [discriminate|]. cbn [app]. intros H. split; [exact H|reflexivity].
Qed.

Lemma pre_err_of_dirs f t : t_base t = [] -> t_nul t = false -> dirs_ok f [] (t_path t) = None -> pre_err f t = None.
Proof. unfold pre_err, t_path. intros -> ->. cbn [app]. intros H; exact H. Qed.

Lemma os_write_trail f t d f' : os_write f t d = Ok f' -> t_trail t = TNone.
Proof.
  unfold os_write. destruct (pre_err f t); [discriminate|].
  destruct (lookup f (t_path t)) as [[b|]|]; destruct (t_trail t); try discriminate; reflexivity.
Qed.

Lemma os_append_ok f t c d f' : os_append f t c d = Ok f' ->
  exists d', f' = set f (t_path t) (File d') /\ pre_err f t = None /\ lookup f (t_path t) <> Some Dir.
Proof.
  unfold os_append. destruct (pre_err f t); [discriminate|].
  destruct (lookup f (t_path t)) as [[b|]|]; [| discriminate |].
  - destruct (t_trail t); try discriminate. intros H; inversion H. eexists. repeat split; discriminate.
  - destruct c; [|discriminate]. destruct (t_trail t); try discriminate. intros H; inversion H. eexists. repeat split; discriminate.
Qed.

Lemma os_rename_ok f src dst f' : os_rename_file f src dst = Ok f' ->
  exists b, lookup f (t_path src) = Some (File b) /\ pre_err f dst = None /\ lookup f (t_path dst) <> Some Dir
            /\ f' = set (unset f (t_path src)) (t_path dst) (File b).
Proof.
  unfold os_rename_file. destruct (pre_err f src); [discriminate|].
  destruct (lookup f (t_path src)) as [[b|]|]; [|discriminate|discriminate].
  destruct (t_trail src); try discriminate.
  destruct (pre_err f dst); [discriminate|].
  destruct (lookup f (t_path dst)) as [[b2|]|]; [|discriminate|]; destruct (t_trail dst); try discriminate;
    intros H; inversion H; exists b; repeat split; discriminate.
Qed.

Lemma strict_prefix_irrefl k : ~ strict_prefix k k.
Proof. intros (suf & E & _ & Hs). apply Hs. eapply app_self_nil. exact E. Qed.

(* `if let Some(parent) = path.parent() { create_dir_all(parent) }`: directories only, never at the path itself *)
Lemma mkpar_props f t f1 er : t_base t = [] -> mk_parent_dirs f t = (f1, er) -> sane f ->
  sane f1 /\ dirmono f f1 /\ (forall q, file_at f1 q = file_at f q)
  /\ (forall r, lookup f1 r = lookup f r \/ (lookup f r = None /\ lookup f1 r = Some Dir /\ strict_prefix r (t_path t))).
Proof.
  intros Hb H Hs. unfold mk_parent_dirs in H. unfold t_path. rewrite Hb in *. cbn [app].
  destruct (comps_nul (removelast (t_comps t))).
  - inversion H; subst f1. repeat split; try assumption; try reflexivity. intros r Hr; exact Hr. intros r; left; reflexivity.
  - split; [eapply sane_mkdir; eassumption|]. split; [|split].
    + intros r Hr. destruct (mkdir_all_lookup _ _ _ _ _ H r) as [E|[E1 _]]; [rewrite E; exact Hr|rewrite Hr in E1; discriminate].
    + intros q. eapply mkdir_all_file_at; exact H.
    + intros r. destruct (mkdir_all_where _ _ _ _ _ H r) as [E|(E1 & E2 & pre & suf & Ec & Hp & Er)]; [left; exact E|].
      right. split; [exact E1|]. split; [exact E2|]. cbn [app] in Er. subst r. eapply removelast_strict; eassumption.
Qed.

Section WriteGood.
  Variable f1 : fs.
  Variable K : path -> Prop.
  Hypothesis sane1 : sane f1.

  Lemma good_write g t d g' : t_base t = [] -> Good f1 K g -> K (t_path t) -> os_write g t d = Ok g' -> Good f1 K g'.
  Proof.
    intros Hb G Hk H. destruct (os_write_ok _ _ _ _ H) as (E & Hpre & Hn). subst g'.
    destruct (pre_err_dirs _ _ Hb Hpre) as [Hd _]. apply good_set; assumption.
  Qed.

  Lemma good_append g t c d g' : t_base t = [] -> Good f1 K g -> K (t_path t) -> os_append g t c d = Ok g' -> Good f1 K g'.
  Proof.
    intros Hb G Hk H. destruct (os_append_ok _ _ _ _ _ H) as (d' & E & Hpre & Hn). subst g'.
    destruct (pre_err_dirs _ _ Hb Hpre) as [Hd _]. apply good_set; assumption.
  Qed.

  Lemma good_remove g t g' : Good f1 K g -> K (t_path t) -> os_remove_file g t = Ok g' -> Good f1 K g'.
  Proof.
    intros G Hk H. destruct (os_remove_ok _ _ _ H) as (E & b0 & L). subst g'. eapply good_unset; eassumption.
  Qed.

  Lemma good_rm_ignore g t : Good f1 K g -> K (t_path t) -> Good f1 K (rm_ignore g t).
  Proof.
    intros G Hk. unfold rm_ignore. destruct (os_remove_file g t) as [g'|e] eqn:E; [|exact G].
    eapply good_remove; eassumption.
  Qed.

  Lemma dirs_ok_unset_file g ks b kd : lookup g ks = Some (File b) -> dirs_ok g [] kd = None -> dirs_ok (unset g ks) [] kd = None.
  Proof.
    intros L D. rewrite <- D. apply dirs_ok_ext. intros pre suf E Hp Hsf. cbn [app].
    apply lookup_unset_other. intros ->.
    pose proof (dirs_ok_none_prefix g kd [] D pre suf E Hp Hsf) as LD. cbn [app] in LD. rewrite LD in L. discriminate.
  Qed.

  Lemma dirs_ok_set_self g k n : dirs_ok (set g k n) [] k = dirs_ok g [] k.
  Proof.
    apply dirs_ok_ext. intros pre suf E Hp Hsf. cbn [app]. apply lookup_set_other. intros ->.
    apply Hsf. eapply app_self_nil. exact E.
  Qed.

  Lemma good_rename g src dst g' : t_base dst = [] -> Good f1 K g -> K (t_path src) -> K (t_path dst) ->
    os_rename_file g src dst = Ok g' -> Good f1 K g'.
  Proof.
    intros Hb G Hs Hd H. destruct (os_rename_ok _ _ _ _ H) as (b & Ls & Hpre & Hn & E). subst g'.
    destruct (pre_err_dirs _ _ Hb Hpre) as [Dd _].
    apply good_set; [eapply good_unset; eassumption|exact Hd|eapply dirs_ok_unset_file; eassumption|].
    destruct (path_dec (t_path src) (t_path dst)) as [E|E].
    - rewrite <- E, lookup_unset_same by (intros E0; rewrite E0 in Ls; discriminate). discriminate.
    - rewrite lookup_unset_other by exact E. exact Hn.
  Qed.
End WriteGood.

(* removing the temporary file always succeeds once it has been written *)
Lemma rm_tmp g tt d : t_base tt = [] -> t_nul tt = false -> t_trail tt = TNone ->
  lookup g (t_path tt) = Some (File d) -> dirs_ok g [] (t_path tt) = None -> rm_ignore g tt = unset g (t_path tt).
Proof.
  intros Hb Hn Ht L D. unfold rm_ignore, os_remove_file. rewrite (pre_err_of_dirs _ _ Hb Hn D), L, Ht. reflexivity.
Qed.

Lemma arg_interp_tool raw x : arg_interp [1; 2; 3] raw = Ok x -> x = raw /\ is_absolute raw = false /\ has_parent raw = false.
Proof.
  cbn [arg_interp]. destruct (is_absolute raw); [discriminate|]. destruct (has_parent raw); [discriminate|].
  intros H; inversion H. repeat split.
Qed.
Lemma arg_interp_auto raw x : arg_interp [1; 2; 6] raw = Ok x -> x = raw /\ is_absolute raw = false /\ has_parent raw = false.
Proof.
  cbn [arg_interp]. destruct (is_absolute raw); [discriminate|]. destruct (has_parent raw); [discriminate|].
  intros H; inversion H. repeat split.
Qed.

Definition wk (raw : str) : path := t_path (mk_tgt [] raw).
Definition wkt (raw ext : str) : path := t_path (tmp_tgt raw ext).

(* the atomic branch after the parents exist *)
Lemma atomic_good f1 raw ext data f' er : sane f1 ->
  (let t := mk_tgt [] raw in let tt := tmp_tgt raw ext in
   match os_write f1 tt data with
   | Err e => (f1, Some e)
   | Ok f2 =>
     if os_exists f2 t then
       match os_remove_file f2 t with
       | Err e => (rm_ignore f2 tt, Some e)
       | Ok f3 => match os_rename_file f3 tt t with Ok f4 => (f4, None) | Err e => (rm_ignore f3 tt, Some e) end
       end
     else match os_rename_file f2 tt t with Ok f4 => (f4, None) | Err e => (rm_ignore f2 tt, Some e) end
   end) = (f', er) ->
  Good f1 (fun q => q = wk raw \/ q = wkt raw ext) f'
  /\ (wkt raw ext <> wk raw -> lookup f1 (wkt raw ext) = None -> lookup f' (wkt raw ext) = None).
Proof.
  intros Hs. cbv zeta. set (t := mk_tgt [] raw). set (tt := tmp_tgt raw ext).
  set (K := fun q => q = wk raw \/ q = wkt raw ext).
  assert (Hbt : t_base t = []) by reflexivity. assert (Hbtt : t_base tt = []) by reflexivity.
  assert (Kt : K (t_path t)) by (left; reflexivity). assert (Ktt : K (t_path tt)) by (right; reflexivity).
  pose proof (good_init f1 K Hs) as G1.
  destruct (os_write f1 tt data) as [f2|e] eqn:Ew.
  2:{ intros H; inversion H; subst f'. split; [exact G1|intros _ L; exact L]. }
  assert (G2 : Good f1 K f2) by (eapply good_write; eassumption).
  destruct (os_write_ok _ _ _ _ Ew) as (E2 & Hpre & Hnd). pose proof (os_write_trail _ _ _ _ Ew) as Htr.
  destruct (pre_err_dirs _ _ Hbtt Hpre) as [Dt Hnul].
  assert (Hne : t_path tt <> []) by (eapply not_dir_ne_nil; exact Hnd).
  assert (L2 : lookup f2 (t_path tt) = Some (File data)) by (rewrite E2; apply lookup_set_same; exact Hne).
  assert (D2 : dirs_ok f2 [] (t_path tt) = None) by (rewrite E2, dirs_ok_set_self; exact Dt).
  assert (Rm2 : rm_ignore f2 tt = unset f2 (t_path tt)) by (eapply rm_tmp; eassumption).
  assert (Hren : forall g f4, Good f1 K g -> os_rename_file g tt t = Ok f4 ->
            Good f1 K f4 /\ (wkt raw ext <> wk raw -> lookup f4 (wkt raw ext) = None)).
  { intros g f4 G H. split; [exact (good_rename f1 K g tt t f4 Hbt G Ktt Kt H)|].
    destruct (os_rename_ok _ _ _ _ H) as (b & Ls & _ & _ & E). subst f4. intros Hneq.
    change (wkt raw ext) with (t_path tt). change (wk raw) with (t_path t) in Hneq.
    rewrite lookup_set_other by (intros E; apply Hneq; symmetry; exact E). apply lookup_unset_same; exact Hne. }
  destruct (os_exists f2 t).
  - destruct (os_remove_file f2 t) as [f3|e] eqn:Er.
    + assert (G3 : Good f1 K f3) by exact (good_remove f1 K f2 t f3 G2 Kt Er).
      destruct (os_remove_ok _ _ _ Er) as (E3 & b0 & Lk).
      destruct (os_rename_file f3 tt t) as [f4|e] eqn:En.
      * intros H; inversion H; subst f'. destruct (Hren _ _ G3 En) as [G4 L4]. split; [exact G4|intros Hneq _; exact (L4 Hneq)].
      * intros H; inversion H; subst f'. split; [apply good_rm_ignore; assumption|]. intros Hneq _.
        change (wkt raw ext) with (t_path tt) in *. change (wk raw) with (t_path t) in Hneq.
        assert (L3 : lookup f3 (t_path tt) = Some (File data)).
        { rewrite E3, lookup_unset_other by (intros E; apply Hneq; symmetry; exact E). exact L2. }
        assert (D3 : dirs_ok f3 [] (t_path tt) = None) by (rewrite E3; eapply dirs_ok_unset_file; eassumption).
        rewrite (rm_tmp f3 tt data Hbtt Hnul Htr L3 D3). apply lookup_unset_same; exact Hne.
    + intros H; inversion H; subst f'. split; [apply good_rm_ignore; assumption|]. intros _ _.
      change (wkt raw ext) with (t_path tt). rewrite Rm2. apply lookup_unset_same; exact Hne.
  - destruct (os_rename_file f2 tt t) as [f4|e] eqn:En.
    + intros H; inversion H; subst f'. destruct (Hren _ _ G2 En) as [G4 L4]. split; [exact G4|intros Hneq _; exact (L4 Hneq)].
    + intros H; inversion H; subst f'. split; [apply good_rm_ignore; assumption|]. intros _ _.
      change (wkt raw ext) with (t_path tt). rewrite Rm2. apply lookup_unset_same; exact Hne.
Qed.

(* The write tool changes no file but the one its argument names - provided (atomic mode) the name of its temporary
   file is not taken; directories are only added, the named path does not become a directory. *)
Theorem write_tool_effect f raw ext mode data f' er :
  write_tool [1; 2; 3] f raw ext mode data = (f', er) -> sane f ->
  (mode = 0 -> lookup f (wkt raw ext) = None) ->
  sane f' /\ dirmono f f'
  /\ (lookup f' (wk raw) = Some Dir -> lookup f (wk raw) = Some Dir)
  /\ (forall q, q <> wk raw -> file_at f' q = file_at f q).
Proof.
  intros H Hs Hfresh. unfold write_tool in H.
  assert (Hid : sane f /\ dirmono f f /\ (lookup f (wk raw) = Some Dir -> lookup f (wk raw) = Some Dir)
                /\ (forall q, q <> wk raw -> file_at f q = file_at f q)).
  { repeat split; try assumption; try reflexivity. intros r Hr; exact Hr. intros X; exact X. }
  destruct (arg_interp [1; 2; 3] raw) as [x|e] eqn:Ea; [|inversion H; subst f'; exact Hid].
  destruct (arg_interp_tool _ _ Ea) as (Ex & _ & _). subst x.
  destruct (file_name raw); [|inversion H; subst f'; exact Hid]. clear Hid.
  set (t := mk_tgt [] raw) in *.
  assert (Hbt : t_base t = []) by reflexivity.
  destruct (mk_parent_dirs f t) as [f1 e1] eqn:Em.
  destruct (mkpar_props _ _ _ _ Hbt Em Hs) as (Hs1 & Hm1 & Hf1 & Hw1).
  assert (Hk1 : lookup f1 (wk raw) = Some Dir -> lookup f (wk raw) = Some Dir).
  { intros Hd. destruct (Hw1 (wk raw)) as [E|(_ & _ & Hsp)]; [rewrite <- E; exact Hd|].
    exfalso. exact (strict_prefix_irrefl _ Hsp). }
  assert (Hbase : sane f1 /\ dirmono f f1 /\ (lookup f1 (wk raw) = Some Dir -> lookup f (wk raw) = Some Dir)
                  /\ (forall q, q <> wk raw -> file_at f1 q = file_at f q)).
  { repeat split; try assumption. intros q _. apply Hf1. }
  destruct e1 as [e|]; [inversion H; subst f'; exact Hbase|].
  (* from Good (relative to f1) back to f *)
  assert (Hfin : forall (K : path -> Prop), (forall q, K q \/ ~ K q) -> K (wk raw) -> Good f1 K f' ->
            (forall q, K q -> q <> wk raw -> file_at f' q = file_at f q) ->
            sane f' /\ dirmono f f' /\ (lookup f' (wk raw) = Some Dir -> lookup f (wk raw) = Some Dir)
            /\ (forall q, q <> wk raw -> file_at f' q = file_at f q)).
  { intros K Kdec Kk G Hkq. split; [apply G|]. split; [intros r Hr; apply (g_mono _ _ _ G); apply Hm1; exact Hr|]. split.
    - intros Hd. apply Hk1. apply (g_nodir _ _ _ G); assumption.
    - intros q Hq. destruct (Kdec q) as [Hin|Hout]; [apply Hkq; assumption|].
      rewrite (g_out _ _ _ G q Hout). apply Hf1. }
  set (K1 := fun q : path => q = wk raw).
  assert (K1dec : forall q, K1 q \/ ~ K1 q) by (intros q; unfold K1; destruct (path_dec q (wk raw)); [left|right]; assumption).
  assert (K1k : K1 (t_path t)) by reflexivity.
  assert (K1q : forall q, K1 q -> q <> wk raw -> file_at f' q = file_at f q) by (intros q Hk Hq; contradiction).
  pose proof (good_init f1 K1 Hs1) as G1.
  destruct ((mode =? 2) || (mode =? 3)).
  { destruct (os_append f1 t (mode =? 2) data) as [f2|e] eqn:Eap; inversion H; subst f'; [|exact Hbase].
    apply (Hfin K1 K1dec K1k); [|exact K1q]. exact (good_append f1 K1 f1 t _ data f2 Hbt G1 K1k Eap). }
  destruct (mode =? 0) eqn:E0.
  2:{ destruct (os_write f1 t data) as [f2|e] eqn:Ew; inversion H; subst f'; [|exact Hbase].
      apply (Hfin K1 K1dec K1k); [|exact K1q]. exact (good_write f1 K1 f1 t data f2 Hbt G1 K1k Ew). }
  apply N.eqb_eq in E0. specialize (Hfresh E0).
  destruct (tmp_is_parent raw ext); [inversion H; subst f'; exact Hbase|].
  destruct (atomic_good f1 raw ext data f' er Hs1 H) as [G Lkt].
  apply (Hfin (fun q => q = wk raw \/ q = wkt raw ext)).
  - intros q. destruct (path_dec q (wk raw)) as [E|E]; [left; left; exact E|].
    destruct (path_dec q (wkt raw ext)) as [E2|E2]; [left; right; exact E2|right; intros [X|X]; contradiction].
  - left; reflexivity.
  - exact G.
  - intros q [Hq|Hq] Hne; [contradiction|]. subst q.
    assert (F0 : file_at f (wkt raw ext) = None) by (unfold file_at; rewrite Hfresh; reflexivity).
    rewrite F0. destruct (Hw1 (wkt raw ext)) as [E|(_ & Ed & _)].
    + unfold file_at. rewrite (Lkt Hne); [reflexivity|]. rewrite E. exact Hfresh.
    + unfold file_at. rewrite (g_mono _ _ _ G _ Ed). reflexivity.
Qed.

(* ====================================================================================== *)
(* Part C: the automatic checkpoint of `write` makes the edit undoable                      *)
(* ====================================================================================== *)
Lemma list_eqb_N a b : list_eqb N.eqb a b = true -> a = b.
Proof. apply list_eqb_spec. intros x y. apply N.eqb_eq. Qed.

Lemma cover_wf_spec found ts as_ tk prog : cover_wf found ts as_ tk prog = true ->
  ts = expected_tool_steps /\ as_ = expected_auto_steps /\ tk = expected_tmp_kind.
Proof.
  unfold cover_wf. rewrite !andb_true_iff. intros ((((_ & A) & B) & C) & _).
  split; [apply list_eqb_N; exact A|]. split; [apply list_eqb_N; exact B|apply N.eqb_eq; exact C].
Qed.

Lemma wk_key raw rel : real_segs rel = real_segs raw -> key rel = wk raw.
Proof. intros E. unfold key, wk. rewrite E. reflexivity. Qed.

Lemma save_one_err_dir f rel e : save_one f rel = Err e -> lookup f (key rel) = Some Dir.
Proof.
  unfold save_one. destruct (os_exists f (tgt_of rel)) eqn:Ex; [|discriminate].
  unfold os_exists in Ex. unfold os_read. destruct (pre_err f (tgt_of rel)); [discriminate|].
  cbn [tgt_of t_path t_base t_comps t_trail app] in *. change (real_segs rel) with (key rel) in *.
  destruct (lookup f (key rel)) as [[b|]|]; [discriminate|reflexivity|discriminate].
Qed.

Lemma save_one_dir_err f rel : tree f -> lookup f (key rel) = Some Dir -> save_one f rel = Err EISDIR.
Proof.
  intros Ht L. unfold save_one, os_exists, os_read, pre_err. cbn [tgt_of t_nul t_base t_comps t_trail t_path app].
  change (real_segs rel) with (key rel). rewrite (Ht _ _ L), L. reflexivity.
Qed.

(* For every extraction that passes cover_wf (Gen/AutoCover.v: this run's /repo): whatever the write tool is asked
   (any string, any mode, success or failure), when the tool returns
     - either ToolRunner took an automatic checkpoint before the call, and then rewinding to it SUCCEEDS and every
       file of the workspace - named by the call or not - has the bytes / the absence it had before the call,
     - or no checkpoint could be taken (the argument is refused, or names a directory), and then the call has not
       changed any file.
   The one hypothesis: in atomic mode the name of the temporary file (<stem>.<ext>, ext = "tmp-<uuid>") is not the
   name of an existing entry - tmp_kind = 1 says the extension carries a fresh uuid. *)
Theorem auto_write_undone found ts as_ tk prog :
  cover_wf found ts as_ tk prog = true ->
  forall f root raw ext mode data f' er,
  is_absolute root = true -> tree f -> nonul f ->
  (mode = 0 -> forall x, arg_interp ts raw = Ok x -> lookup f (t_path (tmp_tgt x ext)) = None) ->
  write_tool ts f raw ext mode data = (f', er) ->
  match auto_checkpoint as_ f root raw with
  | Some ck => exists f2, rewind f' ck = (f2, None) /\ forall q, file_at f2 q = file_at f q
  | None => forall q, file_at f' q = file_at f q
  end.
Proof.
  intros Hwf f root raw ext mode data f' er Hroot Ht Hnul Hfresh Hw.
  destruct (cover_wf_spec _ _ _ _ _ Hwf) as (-> & -> & _). unfold expected_tool_steps, expected_auto_steps in *.
  unfold auto_checkpoint.
  destruct (arg_interp [1; 2; 6] raw) as [a|e] eqn:Ea.
  2:{ (* refused by the checkpoint side: refused by the tool *)
      assert (Et : exists e', arg_interp [1; 2; 3] raw = Err e').
      { cbn [arg_interp] in *. destruct (is_absolute raw); [eexists; reflexivity|]. destruct (has_parent raw); [eexists; reflexivity|discriminate]. }
      destruct Et as [e' Et]. unfold write_tool in Hw. rewrite Et in Hw. inversion Hw; subst f'. reflexivity. }
  destruct (arg_interp_auto _ _ Ea) as (-> & Habs & Hpar).
  assert (Et : arg_interp [1; 2; 3] raw = Ok raw) by (cbn [arg_interp]; rewrite Habs, Hpar; reflexivity).
  assert (Hres : resolve_tool root raw = Ok (join root raw)) by (unfold resolve_tool; rewrite Habs, Hpar; reflexivity).
  destruct (auto_write_covers root raw _ [] Hroot Hres) as (rel & _ & Erel & Esegs & _).
  pose proof (wk_key _ _ Esegs) as Ek.
  assert (Hfr : mode = 0 -> lookup f (wkt raw ext) = None) by (intros Hm; exact (Hfresh Hm raw Et)).
  destruct (write_tool_effect _ _ _ _ _ _ _ Hw (tree_sane _ Ht) Hfr) as (Hs' & Hm & Hd & Hout).
  unfold create. cbn [map_res]. rewrite Erel. cbn [map_res].
  destruct (save_one f rel) as [e|x] eqn:Es.
  - assert (Hc : create f root [raw] = Ok [e]) by (unfold create; cbn [map_res]; rewrite Erel; cbn [map_res]; rewrite Es; reflexivity).
    destruct (save_one_spec _ _ _ Es) as [Ef _].
    apply (covered_edit_undone f root [raw] [e] f' Hc Ht Hnul Hs' Hm).
    + intros e0 [<-|[]] Hdir. rewrite Ef, Ek in Hdir. pose proof (Hd Hdir) as Hd0. rewrite <- Ek in Hd0.
      rewrite (save_one_dir_err _ _ Ht Hd0) in Es. discriminate.
    + intros q Hq. apply Hout. intros E. apply (Hq e (or_introl eq_refl)). rewrite Ef, Ek. symmetry. exact E.
  - (* the argument names a directory: the checkpoint fails, and the tool changes no file *)
    pose proof (save_one_err_dir _ _ _ Es) as L0. rewrite Ek in L0.
    intros q. destruct (path_dec q (wk raw)) as [->|Hq]; [|apply Hout; exact Hq].
    unfold file_at. rewrite L0, (Hm _ L0). reflexivity.
Qed.

(* ---------- the two seeded disagreements, on named witnesses ---------- *)
Require Import Coq.Strings.String.
Definition x_root : str := bs "/r/ws"%string.
Definition x_notes : str := bs "notes.txt"%string.
Definition x_notes_sp : str := bs "notes.txt "%string.
Definition x_ws : fs := [([x_notes], File (bs "one"%string))].
Definition x_data : bytes := bs "two"%string.
(* C14-4: builtins::resolve_path trims its argument ([4; 1; 2; 3]), files_for_invocation does not ([1; 2; 6]) *)
Definition x_trim_steps : list N := [4; 1; 2; 3].
Definition x_trim_ck : list entry := [(x_notes_sp, None)].
Definition x_trim_after : fs := [([x_notes], File x_data)].
Lemma trim_disagreement_loses_edit :
  tree_b x_ws = true /\ nonul_b x_ws = true
  /\ auto_checkpoint expected_auto_steps x_ws x_root x_notes_sp = Some x_trim_ck
  /\ write_tool x_trim_steps x_ws x_notes_sp corr_ext 1 x_data = (x_trim_after, None)
  /\ rewind x_trim_after x_trim_ck = (x_trim_after, None)
  /\ file_at x_ws [x_notes] = Some (bs "one"%string) /\ file_at x_trim_after [x_notes] = Some x_data.
Proof. vm_compute. repeat split. Qed.

Lemma auto_cover_trim_refuted :
  exists ts f root raw ext mode data ck f' f2 q,
    ts <> expected_tool_steps
    /\ tree_b f = true /\ nonul_b f = true
    /\ auto_checkpoint expected_auto_steps f root raw = Some ck
    /\ write_tool ts f raw ext mode data = (f', None)
    /\ rewind f' ck = (f2, None) /\ file_at f2 q <> file_at f q.
Proof.
  exists x_trim_steps, x_ws, x_root, x_notes_sp, corr_ext, 1, x_data, x_trim_ck, x_trim_after, x_trim_after, [x_notes].
  destruct trim_disagreement_loses_edit as (A & B & C & D & E & F & G).
  split; [discriminate|]. repeat split; try assumption. rewrite F, G. discriminate.
Qed.

(* C14-6: the temporary file is `path.with_extension("tmp")`: a sibling may own that name *)
Definition x_report : str := bs "report.txt"%string.
Definition x_report_tmp : str := bs "report.tmp"%string.
Definition x_tmp_ext : str := bs "tmp"%string.
Definition x_ws6 : fs := [([x_report], File (bs "r1"%string)); ([x_report_tmp], File (bs "precious"%string))].
Definition x_ck6 : list entry := [(x_report, Some (bs "r1"%string))].
Definition x_after6 : fs := [([x_report], File x_data)].
Definition x_rewound6 : fs := [([x_report], File (bs "r1"%string))].
Lemma fixed_tmp_loses_sibling :
  tree_b x_ws6 = true /\ nonul_b x_ws6 = true
  /\ auto_checkpoint expected_auto_steps x_ws6 x_root x_report = Some x_ck6
  /\ lookup x_ws6 (t_path (tmp_tgt x_report x_tmp_ext)) = Some (File (bs "precious"%string))
  /\ write_tool expected_tool_steps x_ws6 x_report x_tmp_ext 0 x_data = (x_after6, None)
  /\ rewind x_after6 x_ck6 = (x_rewound6, None)
  /\ file_at x_ws6 [x_report_tmp] = Some (bs "precious"%string) /\ file_at x_rewound6 [x_report_tmp] = None.
Proof. vm_compute. repeat split. Qed.

Lemma fixed_tmp_refuted :
  exists f root raw data ck f' f2 q,
    tree_b f = true /\ nonul_b f = true
    /\ auto_checkpoint expected_auto_steps f root raw = Some ck
    /\ write_tool expected_tool_steps f raw x_tmp_ext 0 data = (f', None)
    /\ rewind f' ck = (f2, None) /\ file_at f2 q <> file_at f q.
Proof.
  exists x_ws6, x_root, x_report, x_data, x_ck6, x_after6, x_rewound6, [x_report_tmp].
  destruct fixed_tmp_loses_sibling as (A & B & C & _ & D & E & F & G).
  repeat split; try assumption. rewrite F, G. discriminate.
Qed.

(* non-vacuity of auto_write_undone: the same call with the uuid-suffixed name *)
Lemma ex_auto_write_undone :
  tree_b x_ws6 = true /\ nonul_b x_ws6 = true
  /\ lookup x_ws6 (t_path (tmp_tgt x_report corr_ext)) = None
  /\ auto_checkpoint expected_auto_steps x_ws6 x_root x_report = Some x_ck6
  /\ exists f', write_tool expected_tool_steps x_ws6 x_report corr_ext 0 x_data = (f', None)
                /\ file_at f' [x_report] = Some x_data /\ rewind f' x_ck6 = (x_ws6, None).
Proof. repeat split; try (vm_compute; reflexivity). eexists. vm_compute. repeat split. Qed.

(* ---------- the decidable forms of the hypotheses, as evaluated by the correspondence ---------- *)
Theorem covered_edit_undone_b f root raws ck f' :
  create f root raws = Ok ck -> tree_b f = true -> nonul_b f = true -> sane_b f' = true ->
  (forall r, lookup f r = Some Dir -> lookup f' r = Some Dir) ->
  (forall rel saved, In (rel, saved) ck -> lookup f' (key rel) <> Some Dir) ->
  (forall q, (forall rel saved, In (rel, saved) ck -> key rel <> q) -> file_at f' q = file_at f q) ->
  exists f2, rewind f' ck = (f2, None) /\ forall q, file_at f2 q = file_at f q.
Proof.
  intros Hc Ht Hn Hs Hm Hd Ho.
  apply (covered_edit_undone f root raws ck f' Hc (tree_b_sound _ Ht) (nonul_b_sound _ Hn) (sane_b_sound _ Hs) Hm).
  - intros [rel saved] Hin. exact (Hd rel saved Hin).
  - intros q Hq. apply Ho. intros rel saved Hin. exact (Hq (rel, saved) Hin).
Qed.

Theorem write_tool_effect_b f raw ext mode data f' er :
  write_tool expected_tool_steps f raw ext mode data = (f', er) -> sane_b f = true ->
  (mode = 0 -> lookup f (t_path (tmp_tgt raw ext)) = None) ->
  (forall p b, lookup f' p = Some (File b) -> dirs_ok f' [] p = None)
  /\ (forall r, lookup f r = Some Dir -> lookup f' r = Some Dir)
  /\ (lookup f' (t_path (mk_tgt [] raw)) = Some Dir -> lookup f (t_path (mk_tgt [] raw)) = Some Dir)
  /\ (forall q, q <> t_path (mk_tgt [] raw) -> file_at f' q = file_at f q).
Proof. intros H Hs Hf. exact (write_tool_effect f raw ext mode data f' er H (sane_b_sound _ Hs) Hf). Qed.

Theorem auto_write_undone_b found ts as_ tk prog :
  cover_wf found ts as_ tk prog = true ->
  forall f root raw ext mode data f' er,
  is_absolute root = true -> tree_b f = true -> nonul_b f = true ->
  (mode = 0 -> forall x, arg_interp ts raw = Ok x -> lookup f (t_path (tmp_tgt x ext)) = None) ->
  write_tool ts f raw ext mode data = (f', er) ->
  match auto_checkpoint as_ f root raw with
  | Some ck => exists f2, rewind f' ck = (f2, None) /\ forall q, file_at f2 q = file_at f q
  | None => forall q, file_at f' q = file_at f q
  end.
Proof.
  intros Hwf f root raw ext mode data f' er Hr Ht Hn.
  exact (auto_write_undone found ts as_ tk prog Hwf f root raw ext mode data f' er Hr (tree_b_sound _ Ht) (nonul_b_sound _ Hn)).
Qed.
