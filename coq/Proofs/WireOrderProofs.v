(* C03 — the order of the sinks at an emit site, a log write that can fail, and the buffer a snapshot is written
   from (Model/Wire.v: emit_ops / emit_at / run_faulty / emit_capped).  Proofs only. *)
From RipV Require Import Base.Prelude Base.Json Base.JsonParse Model.Wire Proofs.JsonProofs Proofs.WireProofs.

(* ---- a site in the order read from continuities.rs: a successful step is `emit`, a failed one leaves no trace ---- *)
Lemma emit_ops_ok_cont s k e ch : emit_ops s ch true [SLog; SStore; SSend] k e = emit s k e.
Proof. reflexivity. Qed.
Lemma emit_ops_ok_cont' s k e ch : emit_ops s ch true [SLog; SSend; SStore] k e = emit s k e.
Proof. reflexivity. Qed.

Lemma wf_order_cases eo :
  wf_order eo = true ->
  eo_log_checked eo = true /\ (eo_ops eo = [SLog; SStore; SSend] \/ eo_ops eo = [SLog; SSend; SStore]).
Proof.
  unfold wf_order. destruct eo as [ops ch]. cbn [eo_ops eo_log_checked].
  destruct ops as [|o1 ops]; [discriminate|]. destruct o1; try discriminate.
  destruct ops as [|o2 ops]; [discriminate|]. destruct o2; try discriminate;
  (destruct ops as [|o3 ops]; [discriminate|]; destruct o3; try discriminate;
   destruct ops as [|o4 ops]; [|discriminate]; intros H; split; [exact H | auto]).
Qed.

Lemma wf_order_log_first eo : wf_order eo = true -> log_first eo = true.
Proof.
  intros H. destruct (wf_order_cases eo H) as [Hc [E | E]]; unfold log_first; rewrite E, Hc; reflexivity.
Qed.

Theorem emit_at_ok eo s k e : wf_order eo = true -> emit_at eo s k e true = emit s k e.
Proof.
  intros H. destruct (wf_order_cases eo H) as [_ [E | E]]; unfold emit_at; rewrite E; reflexivity.
Qed.

(* the checked log append comes first: when it fails nothing else has happened and nothing else happens *)
Theorem emit_at_failed eo s k e : log_first eo = true -> emit_at eo s k e false = k.
Proof.
  unfold log_first, emit_at. destruct (eo_ops eo) as [|o r]; [discriminate|]. destruct o; try discriminate.
  intros H. apply andb_true_iff in H. destruct H as [Hc _]. cbn [emit_ops]. rewrite Hc. reflexivity.
Qed.

Lemma run_faulty_from eo s steps : wf_order eo = true -> forall k,
  fold_left (fun k x => emit_at eo s k (fst x) (snd x)) steps k = fold_left (emit s) (logged steps) k.
Proof.
  intros H. induction steps as [|[e ok] steps IH]; intros k; [reflexivity|].
  cbn [fold_left fst snd]. unfold logged. cbn [filter snd]. destruct ok; cbn [map fst fold_left].
  - rewrite (emit_at_ok eo s k e H). apply IH.
  - rewrite (emit_at_failed eo s k e (wf_order_log_first eo H)). apply IH.
Qed.

(* after ANY history of appends, each with the fate of its log write: the sinks are those of the appends whose
   log write succeeded *)
Theorem run_faulty_eq eo s steps : wf_order eo = true -> run_faulty eo s steps = run_emits s (logged steps).
Proof. intros H. unfold run_faulty, run_emits. apply run_faulty_from. exact H. Qed.

Theorem views_agree_faulty eo s steps key :
  wf_order eo = true -> wf_schema s = true -> all_ok s (logged steps) ->
  let k := run_faulty eo s steps in
  view_log s key k = Some (map (canon_event s) (view_live s key k))
  /\ view_sidecar s key k = Some (map (canon_event s) (view_live s key k))
  /\ view_snapshot s key k = Some (map (canon_event s) (view_live s key k)).
Proof. intros Ho Hwf HF k. subst k. rewrite (run_faulty_eq eo s steps Ho). apply views_agree; assumption. Qed.

Theorem views_within_log_faulty eo s steps key e :
  wf_order eo = true -> wf_schema s = true -> all_ok s (logged steps) ->
  let k := run_faulty eo s steps in
  forall v, (view_sidecar s key k = Some v \/ view_snapshot s key k = Some v \/ v = map (canon_event s) (view_live s key k)) ->
            In e v -> exists all, map_opt (read_line s) (k_log k) = Some all /\ In e all.
Proof. intros Ho Hwf HF k. subst k. rewrite (run_faulty_eq eo s steps Ho). apply views_within_log; assumption. Qed.

(* the live subscriber received exactly the frames whose log write succeeded *)
Theorem live_is_logged eo s steps : wf_order eo = true -> k_live (run_faulty eo s steps) = logged steps.
Proof. intros Ho. rewrite (run_faulty_eq eo s steps Ho), run_emits_eq. reflexivity. Qed.

(* ---- any order whose first statement is the checked log append: inclusion in the log ---- *)
Definition within (s : schema) (es : list event) (k : sinks) : Prop :=
  k_log k = map (write_line s) es
  /\ (forall x, In x (k_buffer k) -> In x es) /\ (forall x, In x (k_live k) -> In x es)
  /\ (forall x, In x (k_sidecar k) -> exists e, In e es /\ x = (fst (stream_key s e), snd (stream_key s e), write_line s e)).

Lemma within_rest s es e : forall ops k ch,
  existsb is_log ops = false -> within s (es ++ [e]) k -> within s (es ++ [e]) (emit_ops s ch true ops k e).
Proof.
  induction ops as [|o r IH]; intros k ch Hn Hw; [exact Hw|].
  cbn [existsb] in Hn. apply orb_false_iff in Hn. destruct Hn as [Ho Hr]. destruct o; [discriminate| |]; cbn [emit_ops]; apply IH; try exact Hr.
  - destruct Hw as [H1 [H2 [H3 H4]]]. unfold within, add_store. cbn [k_log k_sidecar k_buffer k_live]. repeat split; try assumption.
    + intros x Hx. apply in_app_or in Hx. destruct Hx as [Hx | [<- | []]]; [auto | apply in_or_app; right; left; reflexivity].
    + intros x Hx. apply in_app_or in Hx. destruct Hx as [Hx | [<- | []]]; [auto|].
      exists e. split; [apply in_or_app; right; left; reflexivity | reflexivity].
  - destruct Hw as [H1 [H2 [H3 H4]]]. unfold within, add_live. cbn [k_log k_sidecar k_buffer k_live]. repeat split; try assumption.
    intros x Hx. apply in_app_or in Hx. destruct Hx as [Hx | [<- | []]]; [auto | apply in_or_app; right; left; reflexivity].
Qed.

Lemma within_weaken s es e k : within s es k -> k_log k = map (write_line s) es ->
  within s (es ++ [e]) (add_log s k e).
Proof.
  intros [H1 [H2 [H3 H4]]] _. unfold within, add_log. cbn [k_log k_sidecar k_buffer k_live]. repeat split.
  - rewrite H1, map_app. reflexivity.
  - intros x Hx. apply in_or_app. left. auto.
  - intros x Hx. apply in_or_app. left. auto.
  - intros x Hx. destruct (H4 x Hx) as [e0 [He0 E]]. exists e0. split; [apply in_or_app; left; exact He0 | exact E].
Qed.

Lemma within_run eo s : log_first eo = true -> forall steps es k,
  within s es k -> within s (es ++ logged steps) (fold_left (fun k x => emit_at eo s k (fst x) (snd x)) steps k).
Proof.
  intros Hlf. induction steps as [|[e ok] steps IH]; intros es k Hw.
  - unfold logged. cbn [filter map fold_left]. rewrite app_nil_r. exact Hw.
  - cbn [fold_left fst snd]. unfold logged. cbn [filter snd]. destruct ok; cbn [map fst].
    + replace (es ++ e :: map fst (filter snd steps)) with ((es ++ [e]) ++ logged steps) by (rewrite <- app_assoc; reflexivity).
      apply IH. unfold emit_at. unfold log_first in Hlf. destruct (eo_ops eo) as [|o r]; [discriminate|]. destruct o; try discriminate.
      apply andb_true_iff in Hlf. destruct Hlf as [_ Hr]. apply negb_true_iff in Hr. cbn [emit_ops].
      apply within_rest; [exact Hr|]. apply within_weaken; [exact Hw | apply Hw].
    + rewrite (emit_at_failed eo s k e Hlf). apply IH. exact Hw.
Qed.

Lemma within0 s : within s [] sinks0.
Proof. unfold within, sinks0. cbn. repeat split; try reflexivity; intros x []. Qed.

Lemma map_opt_out {A B} (f : A -> option B) (l : list A) : forall (v : list B) (y : B),
  map_opt f l = Some v -> In y v -> exists x, In x l /\ f x = Some y.
Proof.
  induction l as [|a l IH]; intros v y Hv Hy.
  - cbn [map_opt] in Hv. inversion Hv. subst v. destruct Hy.
  - rewrite map_opt_cons in Hv. destruct (f a) as [b|] eqn:Ea; [|discriminate].
    destruct (map_opt f l) as [bs|] eqn:El; [|discriminate]. inversion Hv. subst v.
    destruct Hy as [<- | Hy].
    + exists a. split; [left; reflexivity | exact Ea].
    + destruct (IH bs y eq_refl Hy) as [x [Hx Hfx]]. exists x. split; [right; exact Hx | exact Hfx].
Qed.

(* "nothing appears in a sidecar, a snapshot or a live stream that is not in the log" for EVERY emit order that
   starts with the checked log append, whatever follows it, and every history of successful and failed log writes *)
Theorem views_within_log_any_order eo s steps key e :
  log_first eo = true -> wf_schema s = true -> all_ok s (logged steps) ->
  let k := run_faulty eo s steps in
  forall v, (view_sidecar s key k = Some v \/ view_snapshot s key k = Some v \/ v = map (canon_event s) (view_live s key k)) ->
            In e v -> exists all, map_opt (read_line s) (k_log k) = Some all /\ In e all.
Proof.
  intros Hlf Hwf HF k v Hv Hin.
  assert (Hw : within s (logged steps) k).
  { subst k. unfold run_faulty. apply (within_run eo s Hlf steps [] sinks0 (within0 s)). }
  destruct Hw as [H1 [H2 [H3 H4]]].
  exists (map (canon_event s) (logged steps)). split; [rewrite H1; apply read_lines; assumption|].
  assert (Hcanon : forall x, In x (logged steps) -> read_line s (write_line s x) = Some (canon_event s x)).
  { intros x Hx. unfold all_ok in HF. rewrite Forall_forall in HF. destruct (HF x Hx) as [Hok Hd].
    apply read_write_line; auto using snapshot_depth_depth. }
  destruct Hv as [Hv | [Hv | Hv]].
  - (* sidecar: every line is the written line of a logged frame *)
    unfold view_sidecar in Hv.
    destruct (map_opt_out (read_line s) _ v e Hv Hin) as [ln [Hln Hrd]].
    apply in_map_iff in Hln. destruct Hln as [x [<- Hx]]. apply filter_In in Hx. destruct Hx as [Hx _].
    destruct (H4 x Hx) as [e0 [He0 ->]]. cbn [snd] in Hrd. rewrite (Hcanon e0 He0) in Hrd. inversion Hrd. apply in_map. exact He0.
  - (* snapshot: written from frames of the buffer, all of them logged *)
    unfold view_snapshot in Hv.
    assert (Hsub : forall x, In x (of_stream s key (k_buffer k)) -> In x (logged steps)).
    { intros x Hx. unfold of_stream in Hx. apply filter_In in Hx. apply H2. tauto. }
    assert (HF' : all_ok s (of_stream s key (k_buffer k))).
    { unfold all_ok in *. rewrite Forall_forall in *. intros x Hx. apply HF. auto. }
    rewrite (read_write_snapshot s _ Hwf HF') in Hv. inversion Hv. subst v.
    apply in_map_iff in Hin. destruct Hin as [x [<- Hx]]. apply in_map. auto.
  - subst v. apply in_map_iff in Hin. destruct Hin as [x [<- Hx]]. apply in_map.
    unfold view_live, of_stream in Hx. apply filter_In in Hx. apply H3. tauto.
Qed.

(* ---- witnesses ---- *)
Definition demo_failed_step : list (event * bool) := [(ev_plain, false)].
Definition demo_fault_history : list (event * bool) := [(demo_seq 0, true); (demo_seq 1, false); (demo_seq 1, true); (demo_seq 2, false)].

Lemma eo_cont_wf : wf_order eo_cont = true /\ log_first eo_cont = true /\ order_complete eo_cont = true.
Proof. repeat split; reflexivity. Qed.

Lemma demo_fault_history_ok :
  wf_schema demo_schema = true /\ all_ok demo_schema (logged demo_fault_history)
  /\ length (logged demo_fault_history) = 2%nat /\ length demo_fault_history = 4%nat.
Proof. split; [vm_compute; reflexivity|]. split; [repeat constructor; vm_compute; reflexivity|]. split; reflexivity. Qed.

(* the seeded change C03-4: the sidecar append in front of the checked log append *)
Lemma sidecar_first_witness :
  view_sidecar demo_schema (stream_key demo_schema ev_plain) (run_faulty eo_sidecar_first demo_schema demo_failed_step) = Some [ev_plain]
  /\ k_log (run_faulty eo_sidecar_first demo_schema demo_failed_step) = []
  /\ k_live (run_faulty eo_sidecar_first demo_schema demo_failed_step) = [].
Proof. vm_compute. repeat split; reflexivity. Qed.

Theorem sidecar_first_refuted :
  exists eo s steps key e,
    eo_log_checked eo = true /\ order_complete eo = true /\ wf_schema s = true /\ all_ok s (map fst steps)
    /\ (exists v, view_sidecar s key (run_faulty eo s steps) = Some v /\ In e v)
    /\ k_log (run_faulty eo s steps) = [].
Proof.
  exists eo_sidecar_first, demo_schema, demo_failed_step, (stream_key demo_schema ev_plain), ev_plain.
  destruct sidecar_first_witness as [H1 [H2 _]].
  split; [reflexivity|]. split; [reflexivity|]. split; [exact demo_schema_wf|].
  split; [repeat constructor; apply ev_plain_ok|].
  split; [exists [ev_plain]; split; [exact H1 | left; reflexivity] | exact H2].
Qed.

(* session.rs emit_event / TaskEmitter::emit as written: buffer, channel, then a log append whose error is dropped *)
Lemma unchecked_log_last_witness :
  view_live demo_schema (stream_key demo_schema ev_plain) (run_faulty eo_sess demo_schema demo_failed_step) = [ev_plain]
  /\ view_snapshot demo_schema (stream_key demo_schema ev_plain) (run_faulty eo_sess demo_schema demo_failed_step) = Some [ev_plain]
  /\ k_log (run_faulty eo_sess demo_schema demo_failed_step) = [].
Proof. vm_compute. repeat split; reflexivity. Qed.

Theorem unchecked_log_last_refuted :
  exists eo s steps key e,
    order_complete eo = true /\ wf_schema s = true /\ all_ok s (map fst steps)
    /\ In e (view_live s key (run_faulty eo s steps))
    /\ (exists v, view_snapshot s key (run_faulty eo s steps) = Some v /\ In e v)
    /\ k_log (run_faulty eo s steps) = [].
Proof.
  exists eo_sess, demo_schema, demo_failed_step, (stream_key demo_schema ev_plain), ev_plain.
  destruct unchecked_log_last_witness as [H1 [H2 H3]].
  split; [reflexivity|]. split; [exact demo_schema_wf|]. split; [repeat constructor; apply ev_plain_ok|].
  split; [rewrite H1; left; reflexivity|].
  split; [exists [ev_plain]; split; [exact H2 | left; reflexivity] | exact H3].
Qed.

(* ---- the buffer a snapshot is written from ---- *)
Theorem emit_capped_below s k e cap : (length (k_buffer k) < cap)%nat -> emit_capped cap s k e = emit s k e.
Proof.
  intros H. unfold emit_capped. cbn zeta. destruct (Nat.leb cap (length (k_buffer k))) eqn:E.
  - apply Nat.leb_le in E. lia.
  - unfold emit. cbn [k_log k_sidecar k_buffer k_live]. reflexivity.
Qed.

Definition demo_two : list event := [demo_seq 0; demo_seq 1].
Lemma capped_witness :
  view_snapshot demo_schema demo_key (fold_left (emit_capped 1 demo_schema) demo_two sinks0) = Some [demo_seq 1]
  /\ view_live demo_schema demo_key (fold_left (emit_capped 1 demo_schema) demo_two sinks0) = demo_two
  /\ view_log demo_schema demo_key (fold_left (emit_capped 1 demo_schema) demo_two sinks0) = Some demo_two.
Proof. vm_compute. repeat split; reflexivity. Qed.

(* the seeded change C03-6 (history capped, oldest frame dropped): the snapshot loses the head of the session *)
Theorem capped_buffer_refuted :
  exists cap s es key,
    wf_schema s = true /\ all_ok s es
    /\ view_log s key (fold_left (emit_capped cap s) es sinks0) = Some (map (canon_event s) (view_live s key (fold_left (emit_capped cap s) es sinks0)))
    /\ view_snapshot s key (fold_left (emit_capped cap s) es sinks0) <> Some (map (canon_event s) (view_live s key (fold_left (emit_capped cap s) es sinks0))).
Proof.
  exists 1%nat, demo_schema, demo_two, demo_key. destruct capped_witness as [H1 [H2 H3]].
  split; [exact demo_schema_wf|]. split; [repeat constructor; vm_compute; reflexivity|].
  rewrite H1, H2, H3. split; [vm_compute; reflexivity | vm_compute; discriminate].
Qed.

(* ---- the log's writer ---- *)
(* the log the fixed writer leaves is the log of the sinks model *)
Theorem log_file_is_model_log eo s steps : wf_order eo = true ->
  k_log (run_faulty eo s steps) = log_file (map (fun x => (write_line s (fst x), snd x)) steps).
Proof.
  intros Ho. rewrite (run_faulty_eq eo s steps Ho), run_emits_eq. cbn [k_log]. unfold log_file, logged.
  induction steps as [|[e ok] steps IH]; [reflexivity|]. cbn [map filter fst snd]. destruct ok; cbn [map fst]; rewrite IH; reflexivity.
Qed.

(* as long as no write fails the two writers leave the same file *)
Lemma log_file_unfixed_no_fault steps : forallb snd steps = true -> log_file_unfixed [] steps = log_file steps.
Proof.
  unfold log_file. induction steps as [|[l ok] steps IH]; [reflexivity|]. cbn [forallb snd]. intros H.
  apply andb_true_iff in H. destruct H as [-> H]. cbn [log_file_unfixed filter snd map fst app]. rewrite (IH H). reflexivity.
Qed.

(* W4 (fixed in /repo): one refused append, then a successful one that reuses its seq: the refused line is in the file *)
Definition demo_stale_steps : list (str * bool) := [([49], true); ([50], false); ([51], true)].
Theorem log_writer_keeps_failed_line_refuted :
  exists steps, log_file_unfixed [] steps <> log_file steps /\ exists l, In (l, false) steps /\ In l (log_file_unfixed [] steps).
Proof.
  exists demo_stale_steps. split; [vm_compute; discriminate|]. exists [50]. split; vm_compute; tauto.
Qed.
