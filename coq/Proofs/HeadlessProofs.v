(* C20 — the headless Output view prints exactly the concatenated text deltas (+ a final newline
   when missing) up to the first session_ended, for every frame sequence. *)
From RipV Require Import Base.Prelude Model.Headless.

Definition delta_of (k : hk) : str := match k with HDelta d => d | _ => [] end.
Definition is_delta (k : hk) : bool := match k with HDelta _ => true | _ => false end.
Definition is_ended (k : hk) : bool := match k with HEnded => true | _ => false end.
Definition deltas (ks : list hk) : str := concat (map delta_of ks).

Lemma last_opt_app (a b : str) :
  last_opt (a ++ b) = match last_opt b with Some c => Some c | None => last_opt a end.
Proof.
  unfold last_opt. rewrite rev_app_distr. destruct (rev b) as [|c r] eqn:E; cbn; reflexivity.
Qed.

Definition tnl_after (t0 : bool) (d : str) : bool :=
  match last_opt d with Some c => c =? 10 | None => t0 end.

Lemma tnl_after_app t0 a b : tnl_after (tnl_after t0 a) b = tnl_after t0 (a ++ b).
Proof. unfold tnl_after. rewrite last_opt_app. destruct (last_opt b); reflexivity. Qed.

(* state reached after frames without session_ended *)
Definition after (s : hst) (pre : list hk) : hst := fold_left (fun s k => fst (observe_frame s k)) pre s.
Definition stdouts (pre : list hk) : str :=
  concat (map (fun k => match k with HToolStdout c => c | _ => [] end) pre).

Lemma run_split s pre rest :
  forallb (fun k => negb (is_ended k)) pre = true ->
  run s (pre ++ HEnded :: rest) = deltas pre ++ final_text (after s pre).
Proof.
  revert s. induction pre as [|k pre IH]; intros s Hne.
  - cbn. reflexivity.
  - cbn [forallb] in Hne. apply andb_true_iff in Hne as [Hk Hne].
    unfold after, deltas. cbn [app run fold_left map concat].
    unfold step. destruct (observe_frame s k) as [s1 w] eqn:Eo. cbn [fst].
    assert (w = delta_of k) as ->.
    { destruct k; cbn in Eo; inversion Eo; reflexivity. }
    destruct k; try discriminate Hk; rewrite (IH _ Hne); unfold after, deltas; rewrite <- ?app_assoc; reflexivity.
Qed.

Lemma after_saw s pre : saw (after s pre) = saw s || existsb is_delta pre.
Proof.
  revert s. induction pre as [|k pre IH]; intros s; unfold after; cbn [fold_left existsb].
  - rewrite orb_false_r. reflexivity.
  - fold (after (fst (observe_frame s k)) pre). rewrite IH.
    destruct k; cbn [observe_frame fst is_delta]; destruct (saw s) eqn:Es; cbn [saw]; rewrite ?Es; reflexivity.
Qed.

Lemma after_tnl s pre : tnl (after s pre) = tnl_after (tnl s) (deltas pre).
Proof.
  revert s. induction pre as [|k pre IH]; intros s; unfold after, deltas; cbn [fold_left map concat].
  - unfold tnl_after, last_opt. reflexivity.
  - fold (after (fst (observe_frame s k)) pre). rewrite IH. fold (deltas pre).
    destruct k; cbn [observe_frame fst delta_of app]; try (destruct (saw s); reflexivity); try reflexivity.
    cbn [tnl]. fold (tnl_after (tnl s) d). apply tnl_after_app.
Qed.

Lemma after_tout s pre :
  saw s = false -> existsb is_delta pre = false -> tout (after s pre) = tout s ++ stdouts pre.
Proof.
  revert s. induction pre as [|k pre IH]; intros s Hs Hd; unfold after, stdouts; cbn [fold_left map concat].
  - rewrite app_nil_r. reflexivity.
  - fold (after (fst (observe_frame s k)) pre). fold (stdouts pre).
    cbn [existsb] in Hd. apply orb_false_iff in Hd as [Hk Hd].
    destruct k; try discriminate Hk; cbn [observe_frame fst]; rewrite ?Hs;
      (rewrite IH; [| cbn [saw]; assumption | assumption]); cbn [tout]; rewrite <- ?app_assoc; reflexivity.
Qed.

Theorem headless_output_is_deltas pre rest :
  forallb (fun k => negb (is_ended k)) pre = true -> existsb is_delta pre = true ->
  headless_output (pre ++ HEnded :: rest)
  = deltas pre ++ (if ends_nl (deltas pre) then [] else [10]).
Proof.
  intros Hne Hd. unfold headless_output. rewrite (run_split _ _ _ Hne). f_equal.
  unfold final_text. rewrite after_saw, Hd, after_tnl. cbn [h0 saw tnl orb].
  unfold tnl_after, ends_nl. destruct (last_opt (deltas pre)); reflexivity.
Qed.

(* frames after the first session_ended never influence the output *)
Theorem headless_ignores_after_end pre rest1 rest2 :
  forallb (fun k => negb (is_ended k)) pre = true ->
  headless_output (pre ++ HEnded :: rest1) = headless_output (pre ++ HEnded :: rest2).
Proof.
  intros Hne. unfold headless_output. rewrite !(run_split _ _ _ Hne). reflexivity.
Qed.

(* with no text delta, the buffered tool stdout is what gets shown first *)
Theorem headless_fallback_starts_with_tool_stdout pre rest :
  forallb (fun k => negb (is_ended k)) pre = true -> existsb is_delta pre = false ->
  exists tail, headless_output (pre ++ HEnded :: rest) = stdouts pre ++ tail.
Proof.
  intros Hne Hd. unfold headless_output. rewrite (run_split _ _ _ Hne).
  assert (deltas pre = []) as ->.
  { clear -Hd. unfold deltas. induction pre as [|k pre IH]; [reflexivity|].
    cbn [existsb] in Hd. apply orb_false_iff in Hd as [Hk Hd]. destruct k; try discriminate Hk; cbn; auto. }
  cbn [app]. unfold final_text. rewrite after_saw, Hd. cbn [h0 saw orb].
  rewrite (after_tout h0 pre eq_refl Hd). cbn [h0 tout app]. eexists. reflexivity.
Qed.

Example headless_demo :
  headless_output [HToolStdout [120]; HDelta [104; 105]; HOther; HDelta []; HEnded; HDelta [33]] = [104; 105; 10].
Proof. vm_compute. reflexivity. Qed.
