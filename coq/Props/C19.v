(* C19 — secrets never reach frames, artifacts, snapshots, caches, request dumps or diagnostics;
   diagnostics report only presence and source.
   Statements only; proofs are in Proofs/SecretFlowProofs.v.  Every theorem is closed by `exact`.

   PARTIAL CLAIM (DESIGN §4 C19 "weakest tie"): the theorems are about the data-flow MODEL
   Model/SecretFlow.v (layered configuration, resolution, request builders, agent loop with every
   frame it emits, request dump, doctor summary).  A "secret" is whatever sits in an inline `api_key`,
   in a header value, or in an environment variable other than the seven RIP_OPENRESPONSES_* variables
   whose values the code copies into frames (`public_env_names`).  `low_world` erases exactly these
   values (keeping only blank / non-blank, which decides presence).  TOOL OUTPUT is outside the claim
   (hypothesis `tools_blind`; the unrestricted statement is refuted below).  The provider is a function of
   (request index, endpoint, request BODY) — the property's "HTTP error whose body echoes the request
   body"; a provider that echoes request HEADERS is outside the quantifier.  Third-party crates'
   logging and everything the model does not contain is covered only by the canary search of the
   harness (rv c19). *)
From Coq Require Import Strings.String Strings.Ascii.
From RipV Require Import Base.Prelude Model.SecretFlow Proofs.SecretFlowProofs Gen.SecretUses.

(* Noninterference.  A run's environment is a `wscript`: validator, provider (a function of request index, endpoint
   and request BODY) and TOOLS, whose output is a function of the call and of the WORLD — the shell tools inherit the
   authority's whole environment and the file tools can read the configuration files.

   Full-strength statement (all fuels, all scripts, both entry points, all prompts / initial items): two worlds that
   differ only in secret values store and show the same frames on both streams and the same doctor summary. *)
Definition c19_noninterference_full : Prop :=
  forall (fuel : nat) (ws : wscript) (thread : bool) (w1 w2 : world) (prompt : str) (initial : list item),
    low_world w1 = low_world w2 ->
    persisted (run_w fuel ws thread w1 prompt initial) = persisted (run_w fuel ws thread w2 prompt initial)
    /\ doctor w1 = doctor w2.

(* It is FALSE of the faithful model (and of the code: KNOWN_FINDINGS C19/B1, corpus/C19/b1_printenv.json): with the
   key supplied through the environment, a provider-requested `bash -c 'printenv RIP_OPENRESPONSES_API_KEY'` puts the
   key into the tool-output frames. *)
Theorem c19_noninterference_full_refuted : ~ c19_noninterference_full.
Proof. exact noninterference_full_refuted. Qed.
Print Assumptions c19_noninterference_full_refuted.

(* Proved in part: under the hypothesis that tool output does not depend on secret values (`tools_blind`: the tools
   give the same answer in the world with every secret erased) the statement holds for everything else — every layer,
   inline or {env:..} indirection, env fallbacks, header values, per-request overrides; request-dump artifacts, error
   frames (transport, HTTP error echoing the body, validation), tool frames, provider cursor, doctor. *)
Theorem c19_noninterference_partial : forall (fuel : nat) (ws : wscript) (thread : bool) (w1 w2 : world)
                                             (prompt : str) (initial : list item),
  tools_blind ws ->
  low_world w1 = low_world w2 ->
  persisted (run_w fuel ws thread w1 prompt initial) = persisted (run_w fuel ws thread w2 prompt initial)
  /\ doctor w1 = doctor w2.
Proof. exact noninterference_blind_tools. Qed.
Print Assumptions c19_noninterference_partial.

(* the hypothesis is satisfiable (every tool that ignores the world) and is exactly what the witness violates *)
Example c19_world_independent_tools_are_blind : forall v p t, tools_blind (mkWScript v p (fun _ => t)).
Proof. exact const_tools_blind. Qed.
Example c19_printenv_tool_is_not_blind : ~ tools_blind leak_script.
Proof. exact printenv_not_blind. Qed.

(* After the fix of B1 (rip-tools secret_env.rs; shell.rs, ripd tasks/pipes.rs, pty.rs): what rip HANDS to a tool subprocess is
   the authority's environment without the credential variables (RIP_OPENRESPONSES_API_KEY, OPENAI_API_KEY,
   OPENROUTER_API_KEY and every `{ "env": NAME }` key source of the loaded configuration). *)
Theorem c19_tool_env_has_no_credential_variable : forall (w : world) (k : str),
  In k (secret_env_names w) -> getenv (tool_env w) k = None.
Proof. exact tool_env_has_no_credential_variable. Qed.
Print Assumptions c19_tool_env_has_no_credential_variable.

(* Noninterference for ALL tools that are functions of the call and of the environment rip hands them (every fuel,
   validator, provider, both entry points): worlds that differ only in secret values - inline keys, header values, the
   values of credential variables - store and show the same.  (A tool that fetches the secret itself with the user's
   OS permissions - a configuration file with an inline key, /proc/<authority pid>/environ - is a function of the whole
   world: c19_noninterference_full_refuted / hypothesis tools_blind.) *)
Theorem c19_noninterference_env_tools : forall (fuel : nat) (v : body -> list str) (p : N -> str -> body -> presp)
                                               (t : env -> tcall -> list str * str) (thread : bool) (w1 w2 : world)
                                               (prompt : str) (initial : list item),
  low_world w1 = low_world w2 ->
  tool_env w1 = tool_env w2 ->
  persisted (run_w fuel (mkWScript v p (fun w => t (tool_env w))) thread w1 prompt initial)
  = persisted (run_w fuel (mkWScript v p (fun w => t (tool_env w))) thread w2 prompt initial)
  /\ doctor w1 = doctor w2.
Proof. exact noninterference_env_tools. Qed.
Print Assumptions c19_noninterference_env_tools.

Example c19_b1_worlds_get_the_same_tool_env :
  tool_env (leak_world (lit "sk-AAAA")) = tool_env (leak_world (lit "sk-BBBB"))
  /\ tool_env (leak_world (lit "sk-AAAA")) = [(E_ENDPOINT, lit "http://127.0.0.1:9/v1/responses")].
Proof. exact leak_world_tool_env. Qed.
Example c19_printenv_prints_nothing_after_the_fix :
  tool_events (fst (persisted (run_w 10 fixed_script false (leak_world (lit "sk-AAAA")) (lit "probe") []))) = [[]].
Proof. exact fixed_tool_events. Qed.
Example c19_env_reference_is_removed_too : tool_env (envref_world (lit "sk-AAAA")) = [(lit "HOME", lit "/home/u")].
Proof. exact envref_world_tool_env. Qed.

(* The authority over TIME.  The configuration is re-read on every request while the process lives on: a process is a
   sequence of loads (engine start, every per-request resolution of the thread path, every doctor call - each sees the
   files as they are THEN) and subprocess spawns (bash / shell tool, pipes / pty task).  Every load adds the `{ "env":
   NAME }` names of what it loaded to a registry that only grows, and a spawn removes the three fixed variables + the
   registry AS IT IS AT SPAWN TIME.  EVERY subprocess spawned after configuration w was loaded - whatever the process
   loaded or spawned before (r0, pre) and whatever it loads or spawns later (rest) - gets an environment without the
   credential variables of w.  (Seeded change C19-4: a key source added to a configuration file while the authority runs.) *)
Theorem c19_tool_env_follows_the_loaded_configuration :
  forall (r0 : registry) (pre rest : list aevent) (w : world) (e : env) (k : str),
    In k (secret_env_names w) ->
    Forall (fun env => getenv env k = None)
           (skipn (length (spawn_envs r0 e pre)) (spawn_envs r0 e (pre ++ ALoad w :: rest))).
Proof. exact tool_env_follows_the_loaded_configuration. Qed.
Print Assumptions c19_tool_env_follows_the_loaded_configuration.

(* one load, one spawn is the environment of the theorems above *)
Theorem c19_tool_env_at_single_load : forall w : world, tool_env_at [w] (w_env w) = tool_env w.
Proof. exact tool_env_at_single. Qed.
Print Assumptions c19_tool_env_at_single_load.

(* what the code must NOT do: with the merged list built at the first spawn and reused ("spawn-path optimisation",
   spawn_envs_memo) the statement is false - start without files, spawn, the file naming ACME_LLM_TOKEN appears and is
   loaded, spawn: the second subprocess still sees the variable *)
Theorem c19_memoised_credential_list_refuted : ~ memoised_list_follows_configuration.
Proof. exact memoised_list_refuted. Qed.
Print Assumptions c19_memoised_credential_list_refuted.
Example c19_memoised_probe_sees_the_key :
  spawn_envs_memo [] None memo_env [ALoad memo_world_before; ASpawn; ALoad memo_world_after; ASpawn] = [memo_env; memo_env].
Proof. exact memo_probe_sees_the_key. Qed.
Example c19_faithful_probe_does_not :
  spawn_envs [] memo_env [ALoad memo_world_before; ASpawn; ALoad memo_world_after; ASpawn] = [memo_env; [(lit "HOME", lit "/home/u")]].
Proof. exact faithful_probe_does_not. Qed.

(* Noninterference for whole HISTORIES of one authority process (loads and runs in any order; a thread-path run loads
   first, a session-path run does not; tools = ALL functions of the call and of the environment rip hands them at that
   time): two histories that differ only in secret values - inline keys, header values, and the values of variables
   that are removed whenever a subprocess is spawned (ops_agree) - persist the same frames in every run. *)
Theorem c19_process_noninterference :
  forall (fuel : nat) (v : body -> list str) (p : N -> str -> body -> presp) (t : env -> tcall -> list str * str)
         (o1 o2 : list aop),
    ops_agree [] o1 o2 -> process_runs fuel v p t [] o1 = process_runs fuel v p t [] o2.
Proof. exact process_noninterference. Qed.
Print Assumptions c19_process_noninterference.
(* non-vacuity: the C19-4 sequence.  Before the file names ACME_LLM_TOKEN the variable is an ordinary one (the first
   run's `printenv` shows it); once the configuration naming it is loaded, the subprocess of the next run does not get it,
   and the histories from that load on agree for any two keys. *)
Example c19_history_second_run_hides_the_key :
  map (fun p => tool_events (fst p))
      (process_runs 10 (ws_validate leak_script) (ws_prov leak_script) printenv_acme [] (hist_ops (lit "sk-AAAA")))
  = [[[lit "sk-AAAA"]]; [[]]].
Proof. exact hist_second_run_hides_the_key. Qed.
Example c19_history_agrees_from_the_load_on :
  ops_agree [] [OLoad (hist_after (lit "sk-AAAA")); ORun true (hist_after (lit "sk-AAAA")) (lit "probe") []]
               [OLoad (hist_after (lit "sk-BBBB")); ORun true (hist_after (lit "sk-BBBB")) (lit "probe") []].
Proof. exact hist_tail_agrees. Qed.

(* T1 for the spawn path, regenerated from /repo on every run (tools/gen/secret_uses.py, `spawn_path_facts`): the fixed
   variable list of rip-tools/src/secret_env.rs is the model's; secret_env_names() rebuilds its answer from the
   registry on EVERY call (no static / OnceLock / lazy / thread_local / get_or_init in its body; the file's only static
   is the registry); register_secret_env_names only extends the set and nothing in the file removes from it;
   load_effective_config calls it unconditionally (top level of the body, no return / ? before it) with the
   ApiKeySource::Env names of config.provider; the per-request resolution, SessionEngine::new and the doctor load; and
   EVERY subprocess spawn site of rip-tools and ripd (Command::new / CommandBuilder::new) runs `for name in
   secret_env_names() { cmd.env_remove(name) }` unconditionally, before the call's own env and before the spawn; and no
   string literal shaped like a credential variable (.._KEY, _TOKEN, _SECRET, _PASSWORD, _CREDENTIALS) occurs in ripd, rip-cli
   or rip-tools outside that fixed list (a new fallback variable the spawn path would not know). *)
Theorem c19_code_spawn_path_as_modelled :
  sf_fixed_names gen_spawn_facts = [E_API_KEY; E_OPENAI; E_OPENROUTER]
  /\ sf_names_fresh gen_spawn_facts = true /\ sf_registry_grows_only gen_spawn_facts = true
  /\ sf_load_registers gen_spawn_facts = true /\ sf_loaders_found gen_spawn_facts = true
  /\ 1 <= sf_spawn_sites gen_spawn_facts /\ sf_spawn_sites gen_spawn_facts = sf_spawn_sites_stripping gen_spawn_facts
  /\ sf_unlisted_key_vars gen_spawn_facts = 0.
Proof. exact gen_spawn_path_as_modelled. Qed.
Print Assumptions c19_code_spawn_path_as_modelled.

(* T1, the STEP ORDER of the spawn sites: tools/gen/secret_uses.py reads, for every Command::new / CommandBuilder::new of rip-tools
   and ripd, the statements between the construction and the spawn - the cwd statement, the removal loop over secret_env_names()
   and WHERE it sits (top level of the function, then- / else-block of the cwd statement, another condition), the call's own env,
   the spawn.  The generated obligation: the sites are exactly the three the model has, and each one's step list, run by the
   model's interpreter of step lists, is the model's site (so c19_every_spawn_path_strips speaks about the code's order of steps). *)
Theorem c19_code_spawn_sites_as_modelled :
  map fst gen_spawn_site_steps = modelled_spawn_sites
  /\ Forall (fun s => forall (m : bool) (r : registry) (e : env) (q : spawn_req),
                        run_steps (snd s) m r q (cmd_new e) = site_cmd true m r e q) gen_spawn_site_steps.
Proof. exact gen_spawn_sites_as_modelled. Qed.
Print Assumptions c19_code_spawn_sites_as_modelled.
(* the step list the extractor reads off the seeded change C19-8 is the site that does not strip when `cwd` is given *)
Theorem c19_cwd_else_strip_steps_are_the_unstripped_site : forall (m : bool) (r : registry) (e : env) (q : spawn_req),
  run_steps [SCwd; SStripIfNoCwd; SOwnEnv; SSpawn] m r q (cmd_new e) = site_cmd false m r e q.
Proof. exact cwd_else_strip_steps_run. Qed.
Print Assumptions c19_cwd_else_strip_steps_are_the_unstripped_site.

(* ... and not only for today's order: EVERY step order in which, on both branches of the cwd statement, a removal loop has run by
   the time of the spawn (steps_safe) keeps the authority's credential variables from the child - whatever is in a child's
   environment under a credential name was put there by the call's own env.  The seeded order is not safe; neither is a removal
   that depends on the call bringing no env. *)
Theorem c19_any_safe_step_order_strips : forall (p : list sstep) (m : bool) (r : registry) (e : env) (q : spawn_req) (c : cmd) (k v : str),
  steps_safe p = true ->
  run_steps p m r q (cmd_new e) = Some c ->
  In k (stripped_names r) -> getenv (cm_env c) k = Some v -> In (k, v) (req_env q).
Proof. exact any_safe_step_order_strips. Qed.
Print Assumptions c19_any_safe_step_order_strips.
Example c19_step_orders_safe_or_not :
  steps_safe modelled_steps = true
  /\ steps_safe [SCwd; SStripIfNoCwd; SOwnEnv; SSpawn] = false
  /\ steps_safe [SCwd; SOwnEnv; SStripCond; SSpawn] = false
  /\ steps_safe [SCwd; SOwnEnv; SSpawn] = false
  /\ steps_safe [SCwd; SStripIfCwd; SStripIfNoCwd; SOwnEnv; SSpawn] = true
  /\ steps_safe [SOwnEnv; SStrip; SCwd; SSpawn] = true.
Proof. exact step_orders_safe_or_not. Qed.

(* The SPAWN PATH as a function of its arguments.  spawn_cmd is the command one of the three spawn sites builds (rip-tools
   shell.rs run_command for the bash / shell tool; ripd tasks/pipes.rs and tasks/pty.rs for background tasks, execution_mode
   absent = pipes) from the environment `e` of the authority, the registry `r` as it is at that moment and the request `q`
   (how it is spawned, the `cwd` argument - absent / below the root / the root itself / missing / refused -, the call's own
   `env`, the title): start from `e`; current_dir; env_remove for every name of secret_env_names(); env(k, v) for the call's
   own pairs; spawn.  For ALL r, e, q and every credential variable k (the three fixed names and every registered name): when
   something is spawned, k is in the child's environment exactly as the CALL's own `env` has it (the last pair naming k) -
   in particular not at all when the call supplies no `env` - never with the authority's value. *)
Theorem c19_every_spawn_path_strips : forall (r : registry) (e : env) (q : spawn_req) (c : cmd) (k : str),
  spawn_cmd r e q = Some c -> In k (stripped_names r) -> getenv (cm_env c) k = getenv (rev (req_env q)) k.
Proof. exact every_spawn_path_strips. Qed.
Print Assumptions c19_every_spawn_path_strips.

Theorem c19_child_without_own_env_sees_no_credential : forall (r : registry) (e : env) (q : spawn_req) (ce : env) (k : str),
  child_env r e q = Some ce -> In k (stripped_names r) -> sp_env q = None -> getenv ce k = None.
Proof. exact child_without_own_env_sees_no_credential. Qed.
Print Assumptions c19_child_without_own_env_sees_no_credential.

(* the child's environment is a function of the STRIPPED environment and of the request - whatever the site, the directory, the
   call's env - so two environments of the authority that differ only in credential variables give every child the same
   environment (this is what the tools of c19_process_noninterference / c19_noninterference_env_tools are handed) *)
Theorem c19_child_env_factors_through_the_stripped_environment : forall (r : registry) (e : env) (q : spawn_req),
  child_env r e q = child_env_of (spawn_env r e) q.
Proof. exact child_env_factors_through_the_stripped_environment. Qed.
Print Assumptions c19_child_env_factors_through_the_stripped_environment.

Theorem c19_child_env_noninterference : forall (r : registry) (e1 e2 : env) (q : spawn_req),
  spawn_env r e1 = spawn_env r e2 -> child_env r e1 q = child_env r e2 q.
Proof. exact child_env_noninterference. Qed.
Print Assumptions c19_child_env_noninterference.

(* over TIME: the credential variables of EVERY configuration the process has loaded so far are handled that way, for every way
   of spawning *)
Theorem c19_child_env_follows_the_loaded_configurations : forall (hist : list world) (w : world) (e : env) (q : spawn_req)
                                                                 (ce : env) (k : str),
  In w hist -> In k (secret_env_names w) ->
  child_env (reg_after hist) e q = Some ce ->
  getenv ce k = getenv (rev (req_env q)) k.
Proof. exact child_env_follows_the_loaded_configurations. Qed.
Print Assumptions c19_child_env_follows_the_loaded_configurations.

(* what the code must NOT do (seeded change C19-8): with the removal loop of run_pipes_task on the branch WITHOUT `cwd` only, a
   pipes task that is given a `cwd` keeps the authority's key; the same task without `cwd` does not (a check that never passes
   `cwd` sees nothing) *)
Theorem c19_strip_only_without_cwd_refuted : ~ spawn_path_strips spawn_cmd_cwd_unstripped.
Proof. exact strip_only_without_cwd_refuted. Qed.
Print Assumptions c19_strip_only_without_cwd_refuted.

Example c19_cwd_unstripped_example :
  option_map cm_env (spawn_cmd_cwd_unstripped [] cwdleak_env (cwdleak_req (Some (lit "sub")))) = Some cwdleak_env.
Proof. exact cwd_unstripped_pipes_task_with_cwd_sees_the_key. Qed.
Example c19_cwd_unstripped_without_cwd_example :
  option_map cm_env (spawn_cmd_cwd_unstripped [] cwdleak_env (cwdleak_req None)) = Some [(lit "HOME", lit "/home/u")].
Proof. exact cwd_unstripped_pipes_task_without_cwd_does_not. Qed.
Example c19_faithful_task_with_cwd_example :
  child_env [] cwdleak_env (cwdleak_req (Some (lit "sub"))) = Some [(lit "HOME", lit "/home/u")].
Proof. exact faithful_pipes_task_with_cwd_does_not. Qed.
(* (a pty task whose directory is missing IS spawned: portable_pty falls back to the home directory; the last line below) *)
(* non-vacuity: a pty task with a `cwd`, a registered reference and a call that itself supplies a credential variable and a new
   one: the child gets the call's pairs, not the authority's key, not the referenced variable *)
Example c19_call_env_reaches_the_child :
  child_env [lit "ACME_LLM_TOKEN"] ((lit "ACME_LLM_TOKEN", lit "sk-BBBB") :: cwdleak_env)
            (mkSpawn (VTask (Some XPty)) (Some (lit "./sub/")) true
                     (Some [(E_API_KEY, lit "from-the-call"); (lit "EXTRA", lit "1")]) (Some (lit "t")))
  = Some [(lit "EXTRA", lit "1"); (E_API_KEY, lit "from-the-call"); (lit "HOME", lit "/home/u")].
Proof. exact call_env_reaches_the_child. Qed.
Example c19_refused_and_missing_directories_spawn_nothing :
  child_env [] cwdleak_env (mkSpawn VTool (Some (lit "../outside")) false None None) = None
  /\ child_env [] cwdleak_env (mkSpawn VTool (Some (lit "/usr")) true None None) = None
  /\ child_env [] cwdleak_env (mkSpawn (VTask (Some XPipes)) (Some (lit "a/../b")) true None None) = None
  /\ child_env [] cwdleak_env (mkSpawn (VTask (Some XPipes)) (Some (lit "nope/missing")) false None None) = None
  /\ child_env [] cwdleak_env (mkSpawn (VTask (Some XPipes)) (Some (lit "..hidden/x..")) true None None) = Some [(lit "HOME", lit "/home/u")]
  /\ child_env [] cwdleak_env (mkSpawn (VTask (Some XPty)) (Some (lit "nope/missing")) false None None) = Some [(lit "HOME", lit "/home/u")].
Proof. exact refused_and_missing_directories_spawn_nothing. Qed.

(* the special case of tools given as a fixed function of the call *)
Theorem c19_noninterference : forall (fuel : nat) (sc : script) (thread : bool) (w1 w2 : world)
                                     (prompt : str) (initial : list item),
  low_world w1 = low_world w2 ->
  persisted (run fuel sc thread w1 prompt initial) = persisted (run fuel sc thread w2 prompt initial)
  /\ doctor w1 = doctor w2.
Proof. exact noninterference. Qed.
Print Assumptions c19_noninterference.

(* the same, as "every sink is a function of the public projection" *)
Theorem c19_sinks_factor_through_low : forall (fuel : nat) (sc : script) (thread : bool) (w : world)
                                              (prompt : str) (initial : list item),
  persisted (run fuel sc thread w prompt initial) = persisted (run fuel sc thread (low_world w) prompt initial)
  /\ doctor w = doctor (low_world w).
Proof. exact sinks_factor_through_low. Qed.
Print Assumptions c19_sinks_factor_through_low.

(* erasure forgets the value: secrets of the same blankness are indistinguishable after erasure *)
Theorem c19_erasure_forgets_values : forall a b : str, blank a = blank b -> mask a = mask b.
Proof. exact mask_same_blank. Qed.
Print Assumptions c19_erasure_forgets_values.

(* Diagnostics: the summary consists of public resolution results, the PRESENCE of a key (a boolean),
   its SOURCE label (absent, "inline" or "env:NAME") and the header NAMES. *)
Theorem c19_doctor_reports_presence_and_source_only : forall (w : world) (d : doctor_summary),
  doctor w = Some d ->
  exists r, resolve_world w no_ovr = Some r
    /\ d_has_key d = is_some (r_key r)
    /\ d_key_source d = r_key_source r
    /\ source_shape (d_key_source d)
    /\ d_header_names d = map fst (r_headers r)
    /\ d_provider_id d = r_provider_id r /\ d_route d = r_route r /\ d_endpoint d = r_endpoint r
    /\ d_model d = r_model r /\ d_stateless d = r_stateless r /\ d_parallel d = r_parallel r
    /\ d_followup d = r_followup r.
Proof. exact doctor_presence_and_source_only. Qed.
Print Assumptions c19_doctor_reports_presence_and_source_only.

(* Where the secret DOES go (session.rs: bearer_auth / request.header on the outgoing request): every request of a
   run carries exactly the configured endpoint, key and header list — and by c19_noninterference nothing else does. *)
Theorem c19_secret_attached_to_requests_only : forall (fuel : nat) (sc : script) (thread : bool) (w : world)
                                                      (prompt : str) (initial : list item) (c : orcfg),
  (if thread then thread_cfg w else session_cfg w) = Some c ->
  Forall (sent_ok c) (out_sent (run fuel sc thread w prompt initial)).
Proof. exact secret_attached_to_requests_only. Qed.
Print Assumptions c19_secret_attached_to_requests_only.

(* T1 (regenerated from /repo on every run by tools/gen/secret_uses.py): every syntactic use of a
   secret-bearing value in crates/ripd/src and crates/rip-cli/src (non-test code) is of a kind of flow the
   model has — declaration, copy between the secret-bearing records, resolution, presence test,
   bearer_auth, request.header, header-name projection, secret env read / set — never an argument of a
   formatting / printing / logging / panic macro, a serialisation, a field of a struct that is not
   secret-bearing (an Event, the doctor summary) or an unclassifiable use; the Debug / Serialize /
   Display capabilities of secret-bearing types are exactly the nine known today.  Errors count as values: the result
   of deserialising a secret-bearing type (or the configuration document into any typed target) is tainted on BOTH
   sides - serde's type errors quote the offending scalar - so the only such site, config.rs load_effective_config,
   must discard its error on the spot (UDeserErrDropped) or have it tracked into allowed uses only; the configuration
   document itself (file text / serde_json::Value) may be parsed, merged and moved but not formatted or serialised. *)
Theorem c19_code_uses_within_model_flows :
  gen_found_all = true
  /\ Forall (fun k => exists u, use_kind_code u = k /\ u <> UFormat /\ u <> USerialize /\ u <> UOther) gen_use_kinds
  /\ Forall (fun d => In d allowed_derives) gen_derives.
Proof. exact gen_uses_within_model_flows. Qed.
Print Assumptions c19_code_uses_within_model_flows.

(* The schema stage (config.rs load_effective_config): a merged document that is valid JSON of the wrong SHAPE - a string
   where the header map is expected, an unquoted numeric token, a provider without its id level - is dropped whole and
   silently; serde's type error QUOTES the offending scalar, which may be the secret.  The whole diagnostic report
   (`sources[*].error` texts + summary) depends on the world only through its low projection, in which the scalar at the
   mis-shaped position is erased as well. *)
Theorem c19_doctor_report_noninterference : forall w1 w2 : world,
  low_world w1 = low_world w2 -> doctor_report w1 = doctor_report w2.
Proof. exact doctor_report_noninterference. Qed.
Print Assumptions c19_doctor_report_noninterference.

(* Why the schema error must stay dropped (or be reported without the serde text): surfaced through the per-source report
   with the `error: Some(err.to_string())` idiom of the neighbouring parse-error branch it would make the diagnostic depend
   on the secret.  `source_errors_surfaced` is NOT what the code does; the statement is the justification of the T1 taint
   rule "an error produced by deserialising secret-bearing configuration is secret-tainted". *)
Theorem c19_surfaced_schema_error_refuted : ~ surfaced_noninterference.
Proof. exact surfaced_noninterference_refuted. Qed.
Print Assumptions c19_surfaced_schema_error_refuted.

Theorem c19_surfaced_schema_error_quotes_scalar : forall (q : str) (w : world), w_misfit w = Some q ->
  exists a b, source_errors_surfaced w = [a ++ q ++ b].
Proof. exact surfaced_quotes_the_scalar. Qed.
Print Assumptions c19_surfaced_schema_error_quotes_scalar.

(* Non-vacuity of the schema stage: two misfit worlds that differ in the secret at the offending position have the same
   low projection; the report has no error text and the summary is the env-only resolution (every layer dropped). *)
Example c19_misfit_worlds_low_equal : low_world (misfit_world misfit_q1) = low_world (misfit_world misfit_q2).
Proof. exact misfit_low_equal. Qed.
Example c19_misfit_report :
  doctor_report (misfit_world misfit_q1)
  = ([], Some (mkDoctor None None (lit "http://127.0.0.1:9/v1/responses") None false None [] false false None)).
Proof. exact misfit_doctor. Qed.

(* Process output: what the authority prints at start-up besides its address (stderr of `ripd`; authority.log when `rip`
   spawned it) - the warning about an unusable RIP_OPENRESPONSES_TOOL_CHOICE - is a function of public variables. *)
Theorem c19_startup_output_noninterference : forall w1 w2 : world,
  low_world w1 = low_world w2 -> startup_warnings (w_env w1) = startup_warnings (w_env w2).
Proof. exact startup_output_noninterference. Qed.
Print Assumptions c19_startup_output_noninterference.
Example c19_startup_warning_example :
  startup_warnings [(E_ENDPOINT, lit "localhost/v1/responses"); (E_API_KEY, lit "sk-AAAA"); (E_TOOL_CHOICE, lit "bogus")]
  = [lit "invalid RIP_OPENRESPONSES_TOOL_CHOICE=""bogus"": unsupported value (expected auto|none|required|function:<name>|json:<tool_choice_json>); defaulting to auto"].
Proof. exact startup_warning_example. Qed.

(* The JSON stage in front of the typed configuration.  The code merges the configuration FILES as JSON values (two objects
   merge key by key, anything else is replaced by the overlay) and types the merged value at the end; a `doc` is a file as
   far as the secret-bearing positions go, with their SHAPES (a scalar where a map is expected, a number where a string is
   expected, arrays, objects).  `world_of` = merge the files, decide whether the result fits the schema (`doc_error`: the
   scalar serde would quote), take the typed view.  Erasing every scalar at a secret-bearing position of every file,
   whatever its shape, commutes with all of that - so every theorem about typed worlds holds for worlds given by their
   possibly mis-shaped files: stored frames, the doctor report incl. per-source error texts, start-up output. *)
Theorem c19_world_of_files_commutes_with_erasure : forall j : jworld, world_of (low_jworld j) = low_world (world_of j).
Proof. exact world_of_low. Qed.
Print Assumptions c19_world_of_files_commutes_with_erasure.

Theorem c19_files_noninterference : forall (fuel : nat) (sc : script) (thread : bool) (j1 j2 : jworld)
                                           (prompt : str) (initial : list item),
  low_jworld j1 = low_jworld j2 ->
  persisted (run fuel sc thread (world_of j1) prompt initial) = persisted (run fuel sc thread (world_of j2) prompt initial)
  /\ doctor_report (world_of j1) = doctor_report (world_of j2)
  /\ startup_warnings (jw_env j1) = startup_warnings (jw_env j2).
Proof. exact files_noninterference. Qed.
Print Assumptions c19_files_noninterference.

(* a curl-style header string in a project file replaces the header map of the global file and makes the WHOLE configuration
   misfit (serde would quote the secret; the doctor shows the env-only resolution and no error text); a still higher file
   with a header map repairs it - and the global file's header is gone with the replaced string *)
Example c19_files_misfit_example :
  w_misfit (world_of (ex_jworld [ex_global; ex_bad (lit "tok-AAAA")])) = Some (lit "X-Api-Key: tok-AAAA")
  /\ low_jworld (ex_jworld [ex_global; ex_bad (lit "tok-AAAA")]) = low_jworld (ex_jworld [ex_global; ex_bad (lit "tok-BBBB")])
  /\ doctor_report (world_of (ex_jworld [ex_global; ex_bad (lit "tok-AAAA")]))
     = ([], Some (mkDoctor None None (lit "http://127.0.0.1:9/v1/responses") None false None [] false false None)).
Proof. exact ex_files_misfit. Qed.
Example c19_files_repaired_example :
  w_misfit (world_of (ex_jworld [ex_global; ex_bad (lit "tok-AAAA"); ex_repair])) = None
  /\ option_map d_header_names (doctor (world_of (ex_jworld [ex_global; ex_bad (lit "tok-AAAA"); ex_repair]))) = Some [lit "X-Api-Key"].
Proof. exact ex_files_repaired. Qed.

(* rip-cli (`rip run --provider P [--model ..] [--stateless-history] ..`, main.rs apply_openresponses_env): the CLI copies the
   provider's key variable into RIP_OPENRESPONSES_API_KEY of its own environment, which the authority it spawns inherits,
   and sends the public settings as per-request overrides.  In two worlds that differ only in secret values it bails out
   in both or goes on in worlds that again differ only in secret values; so the frames of the run, the doctor report and
   the start-up output of the spawned authority are the same. *)
Theorem c19_cli_provider_flags_preserve_low : forall (f : cli_flags) (w1 w2 : world),
  low_world w1 = low_world w2 ->
  option_map low_world (cli_world f w1) = option_map low_world (cli_world f w2).
Proof. exact cli_provider_flags_preserve_low. Qed.
Print Assumptions c19_cli_provider_flags_preserve_low.

Theorem c19_cli_run_noninterference : forall (f : cli_flags) (fuel : nat) (sc : script) (w1 w2 w1' w2' : world)
                                             (prompt : str) (initial : list item),
  low_world w1 = low_world w2 ->
  cli_world f w1 = Some w1' -> cli_world f w2 = Some w2' ->
  persisted (run fuel sc true w1' prompt initial) = persisted (run fuel sc true w2' prompt initial)
  /\ doctor_report w1' = doctor_report w2'
  /\ startup_warnings (w_env w1') = startup_warnings (w_env w2').
Proof. exact cli_run_noninterference. Qed.
Print Assumptions c19_cli_run_noninterference.

Example c19_cli_env_example :
  cli_env (mkFlags POpenai None false false None) [(E_OPENAI, lit "sk-AAAA")]
  = Some [(E_API_KEY, lit "sk-AAAA"); (E_ENDPOINT, lit "https://api.openai.com/v1/responses"); (E_OPENAI, lit "sk-AAAA")]
  /\ cli_env (mkFlags POpenrouter None false false None) [(E_OPENAI, lit "sk-AAAA")] = None.
Proof. exact cli_env_example. Qed.

(* Non-vacuity: two worlds with different keys / header values / env values have the same low
   projection; in both the secret DOES leave the process — in the outgoing request only. *)
Example c19_example_low_equal :
  low_world (ex_world (lit "sk-AAAA") (lit "tok-1") (lit "zz"))
  = low_world (ex_world (lit "sk-BBBBBBBB") (lit "tok-22") (lit "y")).
Proof. exact ex_low_equal. Qed.

Example c19_example_secret_reaches_the_request_only :
  map s_auth (out_sent (ex_run (lit "sk-AAAA") (lit "tok-1") (lit "zz"))) = [Some (lit "sk-AAAA"); Some (lit "sk-AAAA")]
  /\ map s_auth (out_sent (ex_run (lit "sk-BBBBBBBB") (lit "tok-22") (lit "y"))) = [Some (lit "sk-BBBBBBBB"); Some (lit "sk-BBBBBBBB")]
  /\ map s_headers (out_sent (ex_run (lit "sk-AAAA") (lit "tok-1") (lit "zz"))) = [[(lit "X-Api-Key", lit "tok-1")]; [(lit "X-Api-Key", lit "tok-1")]].
Proof. exact ex_sent_differ. Qed.

Example c19_example_run_is_nontrivial :
  (length (fst (persisted (ex_run (lit "sk-AAAA") (lit "tok-1") (lit "zz")))) = 12)%nat
  /\ doctor (ex_world (lit "sk-AAAA") (lit "tok-1") (lit "zz"))
     = Some (mkDoctor (Some (lit "acme")) (Some (lit "acme/m1")) (lit "http://127.0.0.1:9/v1/responses") (Some (lit "m1"))
                      true (Some (lit "inline")) [lit "X-Api-Key"] false false None).
Proof. exact ex_frames_nontrivial. Qed.
