(* C11 — workspace mutations never overlap and are logged in the order they happened.
   Statements only; proofs in Proofs/WsLockProofs.v.  [tr_of c actors sched] is the trace of the
   one-permit-semaphore LTS running the actors [actors : nat -> option akind] (any number of
   sessions / tasks) compiled with the configuration [c] under the schedule [sched]; the
   configuration regenerated from the source satisfies [wf_cfg] (obligation
   Gen.LockSpans.gen_lockspans_wf). *)
From RipV Require Import Base.Prelude Model.WsLock Proofs.WsLockProofs.

(* for every schedule and any number of actors: at most one actor is between Start and End of a
   mutating call (every prefix of a schedule is a schedule, so this covers every reachable point) *)
Theorem c11_mutex : forall c actors sched i j,
  wf_cfg c = true ->
  is_open (tr_of c actors sched) i = true ->
  is_open (tr_of c actors sched) j = true -> i = j.
Proof. exact c11_mutex_proof. Qed.
Print Assumptions c11_mutex.

(* the actor inside a mutating call is the holder of the single permit *)
Theorem c11_mutating_holds_permit : forall c actors sched i,
  wf_cfg c = true ->
  is_open (tr_of c actors sched) i = true -> holder (run (sys c actors) sched) = Some i.
Proof. exact c11_holder_proof. Qed.
Print Assumptions c11_mutating_holds_permit.

(* the same for any system of actors obeying the lock discipline (not only compiled ones) *)
Theorem c11_mutex_disciplined : forall f sched i j,
  wf_sys f ->
  is_open (trace (run f sched)) i = true ->
  is_open (trace (run f sched)) j = true -> i = j.
Proof. exact mutex_run. Qed.
Print Assumptions c11_mutex_disciplined.

(* read-only calls are never blocked: whatever the state of the permit, the next instruction of a
   read-only session is not an acquire and executes at once *)
Theorem c11_readonly_free : forall c actors sched i n l ins rest,
  wf_cfg c = true ->
  actors i = Some (AEnv n l) -> requires_lock c n = false ->
  code (run (sys c actors) sched) i = ins :: rest ->
  ins <> IAcq
  /\ code (step (run (sys c actors) sched) i) i = rest
  /\ trace (step (run (sys c actors) sched) i) = (i, ins) :: trace (run (sys c actors) sched).
Proof. exact c11_readonly_free_proof. Qed.
Print Assumptions c11_readonly_free.

(* ... for every actor of every system only an acquire can wait, and the code of a read-only call
   (envelope or agent-loop site, attached or not) contains no acquire *)
Theorem c11_only_acquire_waits : forall f sched i ins rest,
  code (run f sched) i = ins :: rest -> ins <> IAcq ->
  code (step (run f sched) i) i = rest
  /\ trace (step (run f sched) i) = (i, ins) :: trace (run f sched).
Proof. exact only_acquire_waits. Qed.
Print Assumptions c11_only_acquire_waits.

Theorem c11_readonly_call_no_acquire : forall c l k,
  wf_cfg c = true ->
  ~ In IAcq (compile_span l k false (span_ro c)) /\ ~ In IAcq (compile_span l k false (span_loop_ro c)).
Proof. exact readonly_call_no_acq. Qed.
Print Assumptions c11_readonly_call_no_acquire.

(* frames on the thread are in the order of the End events of the logged mutating calls: the
   frame list is the End list minus at most its newest element, and equal to it whenever the
   permit is free (in particular at the end of every complete run) *)
Theorem c11_order : forall c actors sched,
  wf_cfg c = true ->
  exists p, ends_a (tr_of c actors sched) = p ++ frames (tr_of c actors sched)
            /\ (length p <= 1)%nat
            /\ (holder (run (sys c actors) sched) = None -> p = []).
Proof. exact c11_order_proof. Qed.
Print Assumptions c11_order.

(* one side-effects frame per logged mutating call of an actor: its frames are its ended logged calls
   in the same order — all of them, except that the newest call's frame may still be pending while
   the actor holds the permit; a frame comes after the End of its call; when the run ends
   (IRunEnded) every ended call of the run has its frame already *)
Theorem c11_one_side_effect_frame_per_call : forall c actors sched i,
  wf_cfg c = true ->
  (own i (ends_a (tr_of c actors sched)) = own i (frames (tr_of c actors sched))
   \/ exists k, own i (ends_a (tr_of c actors sched)) = (i, k) :: own i (frames (tr_of c actors sched))
                /\ holder (run (sys c actors) sched) = Some i)
  /\ (forall k, In (i, IApp k) (tr_of c actors sched) ->
        happens_before (i, IEnd k true true) (i, IApp k) (tr_of c actors sched))
  /\ (forall l1 l2, tr_of c actors sched = l1 ++ (i, IRunEnded) :: l2 ->
        own i (ends_a l2) = own i (frames l2)).
Proof. exact c11_one_frame_proof. Qed.
Print Assumptions c11_one_side_effect_frame_per_call.

(* ... and every mutating tool call of a thread-attached session is a logged call *)
Theorem c11_attached_calls_logged : forall c a k a',
  wf_cfg c = true ->
  (exists n, a = AEnv n true) \/ (exists ns, a = ALoop ns true) ->
  In (IEnd k true a') (compile_actor c a) -> a' = true.
Proof. exact attached_calls_logged. Qed.
Print Assumptions c11_attached_calls_logged.

(* every compiled actor obeys the discipline; observed traces accepted by [replay] are runs *)
Theorem c11_compiled_disciplined : forall c a,
  wf_cfg c = true -> daccept DOut (compile_actor c a) = true.
Proof. exact compile_wf. Qed.
Print Assumptions c11_compiled_disciplined.

Theorem c11_replay_is_run : forall steps st st',
  replay st steps = Some st' -> st' = fold_left step (sched_of steps) st.
Proof. exact replay_is_run. Qed.
Print Assumptions c11_replay_is_run.

(* non-vacuity *)
Example c11_ref_cfg_wf : wf_cfg ref_cfg = true.
Proof. exact ref_cfg_wf. Qed.

Example c11_overlap_reachable :
  is_open (tr_of ref_cfg ex_actors ex_sched_overlap) 0 = true
  /\ is_open_ro (tr_of ref_cfg ex_actors ex_sched_overlap) 1 = true
  /\ is_open_ro (tr_of ref_cfg ex_actors ex_sched_overlap) 2 = true.
Proof. exact ex_overlap. Qed.

Example c11_blocked_then_ordered :
  frames (tr_of ref_cfg ex_actors ex_sched_blocked) = [(3%nat, 0%N); (0%nat, 0%N)]
  /\ ends_a (tr_of ref_cfg ex_actors ex_sched_blocked) = [(3%nat, 0%N); (0%nat, 0%N)]
  /\ holder (run (sys ref_cfg ex_actors) ex_sched_blocked) = None
  /\ code (run (sys ref_cfg ex_actors) ex_sched_blocked) 4%nat = [].
Proof. exact ex_blocked. Qed.

(* the generated obligation is not decoration: with the guard released before the append the frames
   come out of order, with the guard taken after the tool started two mutating calls overlap *)
Example c11_wf_needed_order :
  wf_cfg bad_cfg_release_early = false
  /\ holder (run (sys bad_cfg_release_early two_writers) sched_release_early) = None
  /\ ends_a (tr_of bad_cfg_release_early two_writers sched_release_early) = [(1%nat, 0%N); (0%nat, 0%N)]
  /\ frames (tr_of bad_cfg_release_early two_writers sched_release_early) = [(0%nat, 0%N); (1%nat, 0%N)].
Proof. exact bad_release_early. Qed.

Example c11_wf_needed_mutex :
  wf_cfg bad_cfg_acquire_late = false
  /\ is_open (tr_of bad_cfg_acquire_late two_writers [0%nat; 1%nat]) 0%nat = true
  /\ is_open (tr_of bad_cfg_acquire_late two_writers [0%nat; 1%nat]) 1%nat = true.
Proof. exact bad_acquire_late. Qed.

(* the classification obligation covers aliases: an allow list without `shell` is rejected, one
   with it is accepted *)
Example c11_alias_must_be_classified :
  wf_cfg bad_cfg_alias_forgotten = false /\ requires_lock bad_cfg_alias_forgotten s_shell = false
  /\ wf_cfg good_cfg_allow_list = true.
Proof. exact alias_forgotten. Qed.

(* S28, fixed in /repo c594d9b: a bash call abandoned by its timeout whose command keeps running
   (End after Release) breaks the discipline and mutual exclusion; with the fix the command is
   killed when the call ends, which is what the model's IEnd stands for *)
Example c11_timeout_unfixed_refuted :
  daccept DOut timeout_unfixed_code = false
  /\ is_open (trace (run timeout_unfixed_sys [0%nat; 0%nat; 0%nat; 0%nat; 0%nat; 1%nat; 1%nat])) 0%nat = true
  /\ is_open (trace (run timeout_unfixed_sys [0%nat; 0%nat; 0%nat; 0%nat; 0%nat; 1%nat; 1%nat])) 1%nat = true.
Proof. exact timeout_unfixed_refuted. Qed.

(* ---------- "... exactly one side-effects frame ..., LISTING THE FILES IT CHANGED" ----------
   Model/SideEffects.v: [run_call root f c] = the workspace after the mutating tool call [c] of a run attached to
   a thread and the affected_paths of its continuity_tool_side_effects frame, computed as the code does: the
   tool (apply_patch = Model/Patch.v, parser + Workspace::apply_patch with undo log and revert; write =
   Model/Checkpoint.v write_tool; a shell command = any new workspace), what the tool reports (`changed_files`:
   every path an operation names, BOTH ends of a move; `path` of write; nothing for a shell command), the files
   of the auto checkpoint when the call returned no artifacts, and session.rs
   summarize_continuity_tool_side_effects (normalise, sort, dedup).  [listed l q]: the list names the file whose
   component path is q.  Files are compared by content and existence ([file_at]). *)
From RipV Require Import Base.Fs Model.Paths Model.Checkpoint Model.Patch Model.SideEffects.
From RipV Require Import Proofs.FsProofs Proofs.SideEffectsProofs.
From RipV Require Proofs.CheckpointProofs Proofs.AutoCoverProofs.

(* apply_patch, every patch document (parsable or not), every workspace, success or failure at any operation:
   every file the call created, deleted or modified is listed; a frame without a list means nothing changed *)
Theorem c11_patch_frame_lists_changed_paths : forall (root : str) (f : fs) (input : list N) (f' : fs) (fr : option (list str)),
  fs_wf f -> run_call root f (CPatch input) = (f', fr) ->
  match fr with
  | Some l => forall q, file_at f' q <> file_at f q -> listed l q
  | None => forall q, file_at f' q = file_at f q
  end.
Proof. exact patch_frame_lists_changed. Qed.
Print Assumptions c11_patch_frame_lists_changed_paths.

(* both ends of every move of a successful patch are in the list (the source is deleted, the target created) *)
Theorem c11_move_lists_both_ends : forall (root : str) (f : fs) (input : list N) (f' : fs) (ch : list (list N))
    (ops : list op) (p q : list N) (hs : list hunk),
  apply_patch true [] f input = Applied f' ch -> parse_patch input = Some ops -> In (Upd p (Some q) hs) ops ->
  exists l, snd (run_call root f (CPatch input)) = Some l /\ In (normalize_rel p) l /\ In (normalize_rel q) l.
Proof. exact move_lists_both_ends. Qed.
Print Assumptions c11_move_lists_both_ends.

(* the list of a successful patch holds nothing but paths its operations name (it is NOT the exact diff: see
   c11_listed_but_unchanged below) *)
Theorem c11_patch_frame_lists_only_named_paths : forall (root : str) (f : fs) (input : list N) (f' : fs) (ch l : list (list N)),
  apply_patch true [] f input = Applied f' ch ->
  snd (run_call root f (CPatch input)) = Some l ->
  forall y, In y l -> exists ops p, parse_patch input = Some ops /\ In p (affected_paths ops) /\ y = normalize_rel p.
Proof. exact patch_frame_lists_only_named. Qed.
Print Assumptions c11_patch_frame_lists_only_named_paths.

(* write, all four modes, whether it succeeds or fails: no file but the one its argument names changes; a write
   that reports success is listed under that name.  [tmp_free]: the temporary name of the atomic mode is not taken
   (it carries a fresh uuid) *)
Theorem c11_write_frame_lists_changed_path : forall (root : str) (f : fs) (raw : str) (mode : N) (data : bytes) (ext : str)
    (f' : fs) (fr : option (list str)),
  CheckpointProofs.sane f -> tmp_free f (CWrite raw mode data ext) ->
  run_call root f (CWrite raw mode data ext) = (f', fr) ->
  (forall q, file_at f' q <> file_at f q -> q = comps raw)
  /\ (write_ok f (CWrite raw mode data ext) = true -> fr = Some [normalize_rel raw]).
Proof. exact write_frame_lists_changed. Qed.
Print Assumptions c11_write_frame_lists_changed_path.

(* every mutating tool call, whatever its outcome (a write that fails lists the file of its auto checkpoint, which
   is the one file it can have changed; when there is no checkpoint either - argument refused, or the path is a
   directory - nothing changed).  [is_absolute root]: the engine's workspace root.  A frame without a list belongs
   to a shell command or to a call that changed nothing *)
Theorem c11_frame_lists_changed_paths : forall (root : str) (f : fs) (c : call) (f' : fs) (fr : option (list str)),
  is_absolute root = true -> fs_wf f -> CheckpointProofs.sane f -> tmp_free f c ->
  run_call root f c = (f', fr) ->
  match fr with
  | Some l => forall q, file_at f' q <> file_at f q -> listed l q
  | None => is_shell c = true \/ forall q, file_at f' q = file_at f q
  end.
Proof. exact frame_lists_changed_paths_full. Qed.
Print Assumptions c11_frame_lists_changed_paths.

(* a shell command's frame carries no list, whatever the command did to the workspace (the property's "listing
   the files it changed" is not delivered for bash / shell: stated limitation, see props/C11.json) *)
Theorem c11_shell_frame_has_no_list : forall (root : str) (f after : fs), run_call root f (CShell after) = (after, None).
Proof. exact shell_frame_has_no_list. Qed.
Print Assumptions c11_shell_frame_has_no_list.

(* tie T1 (tools/gen/sidefx.py -> Gen/SideFx.v, regenerated on every run): which paths each arm of
   Workspace::apply_patch pushes to `changed_files` and under which condition, the sort + dedup, the artifacts of the
   two tools, the shape of summarize_continuity_tool_side_effects.  Every source that passes report_wf reports what
   the model reports; the source as it is passes; the shape "a moved file is reported under its new name only" is
   rejected and is exactly the refuted MvTargetOnly variant *)
From RipV Require Import Gen.SideFx.
Theorem c11_reported_as_built : forall (c : report_cfg) (ops : list op),
  report_wf c = true -> reported_by c ops = changed_files ops.
Proof. exact reported_as_built. Qed.
Print Assumptions c11_reported_as_built.

Theorem c11_generated_report_wf : gen_ok_sidefx = true /\ report_wf gen_report = true.
Proof. exact (conj gen_sidefx_found gen_sidefx_wf). Qed.
Print Assumptions c11_generated_report_wf.

Theorem c11_report_target_only_rejected :
  report_wf report_target_only = false /\ forall ops, reported_by report_target_only ops = reported MvTargetOnly ops.
Proof. exact report_target_only_rejected. Qed.
Print Assumptions c11_report_target_only_rejected.

Require Import Coq.Strings.String.
(* non-vacuity: a rename on a well-formed workspace — update a.txt, move it to n.txt: both names listed *)
Example c11_move_demo :
  snd (run_call root0 ws0 (CPatch patch_move)) = Some [s "a.txt"; s "n.txt"]
  /\ same_listing (fst (run_call root0 ws0 (CPatch patch_move))) ws0_moved = true
  /\ fs_wf ws0 /\ CheckpointProofs.sane ws0.
Proof. exact move_demo. Qed.

(* the condition is needed: when a move reports only its target (MvTargetOnly), the same call deletes a.txt and
   its frame does not list it *)
Theorem c11_move_source_unreported_refuted :
  exists l f', run_call_gen MvTargetOnly root0 ws0 (CPatch patch_move) = (f', Some l)
    /\ file_at f' (comps (s "a.txt")) <> file_at ws0 (comps (s "a.txt"))
    /\ ~ In (normalize_rel (s "a.txt")) l.
Proof. exact move_source_unlisted. Qed.
Print Assumptions c11_move_source_unreported_refuted.

(* the list is an upper bound, not the exact diff: a write of the content the file already has, a patch that
   fails (move onto an existing file: nothing changed, the auto checkpoint's files are listed), add + delete of
   one file in one patch *)
Example c11_listed_but_unchanged :
  (snd (run_call root0 ws0 call_same) = Some [s "a.txt"] /\ same_listing (fst (run_call root0 ws0 call_same)) ws0 = true)
  /\ (snd (run_call root0 ws0 (CPatch patch_onto)) = Some [s "a.txt"; s "b.txt"]
      /\ same_listing (fst (run_call root0 ws0 (CPatch patch_onto))) ws0 = true)
  /\ (snd (run_call root0 ws0 (CPatch patch_add_del)) = Some [s "n.txt"]
      /\ same_listing (fst (run_call root0 ws0 (CPatch patch_add_del))) ws0 = true).
Proof. exact (conj write_same_listed_unchanged (conj failed_patch_listed_unchanged add_delete_listed_unchanged)). Qed.

(* ---------- "... are ever IN PROGRESS at the same time": how long an execution that runs a shell command is in progress ----------
   Model/WsLockTree.v: the execution (a background task in pipes or pty mode, a bash / shell tool call) acquires the
   permit, spawns its command, waits for the shell, JOINS its two output streams and releases.  The command is any
   set of processes (the shell, children, double-forked grandchildren), each with a program of workspace writes and
   of closes of the streams it inherited; other executions acquire / write / release; every interleaving.
   [waiter_wf w]: the waiter releases only after both streams were joined by a plain await (a join that passes
   only at end-of-stream, i.e. when no live process holds the stream any more).  The three waiters are read from
   the source on every run (tools/gen/lockjoin.py -> Gen/LockJoin.v, on top of the C17 extractor pump_join.py).
   [ETreeWrite p k att h]: process p of the command writes; att = it still holds one of the execution's streams;
   h = who holds the permit at that moment. *)
From RipV Require Import Model.WsLockTree Proofs.WsLockTreeProofs Gen.LockJoin.

(* every write of a process that is still attached to the execution happens while the execution holds the permit;
   every write of another execution happens while that one holds it: they never overlap *)
Theorem c11_attached_writes_under_lock : forall (w : list top) (ps : list proc) (n : nat) (sched : list sch),
  waiter_wf w = true ->
  (forall p k h, In (ETreeWrite p k true h) (ttrace (trun w ps n sched)) -> h = Some 0%nat)
  /\ (forall j h, In (EOtherWrite j h) (ttrace (trun w ps n sched)) -> h = Some (S j)).
Proof. exact tree_writes_under_lock. Qed.
Print Assumptions c11_attached_writes_under_lock.

(* the same as an order of events: once the execution has released the permit nothing that is still attached to
   it writes any more (l1 = the events after the release; traces are newest first) *)
Theorem c11_no_attached_write_after_release : forall (w : list top) (ps : list proc) (n : nat) (sched : list sch) (l1 l2 : list ev),
  waiter_wf w = true ->
  ttrace (trun w ps n sched) = l1 ++ ETask TRel :: l2 ->
  forall p k h, ~ In (ETreeWrite p k true h) l1.
Proof. exact tree_no_attached_write_after_release. Qed.
Print Assumptions c11_no_attached_write_after_release.

(* the waiters of the pipes task, the pty task and the shell tool as they are in the source satisfy it *)
Theorem c11_generated_waiters_wf :
  gen_ok_lockjoin = true
  /\ waiter_wf gen_pipes_task_waiter && waiter_wf gen_pty_task_waiter && waiter_wf gen_shell_tool_waiter = true.
Proof. exact (conj gen_lockjoin_found gen_lockjoin_wf). Qed.
Print Assumptions c11_generated_waiters_wf.

(* a drain that is bounded in time (seeded change C11-10: the pumps are given 1 s each, then aborted) is rejected by
   the obligation, and with it an attached child writes while ANOTHER execution holds the permit *)
Theorem c11_bounded_drain_refuted :
  exists ps n sched p k j, In (ETreeWrite p k true (Some (S j))) (ttrace (trun bounded_waiter ps n sched)).
Proof. exact bounded_drain_refuted. Qed.
Print Assumptions c11_bounded_drain_refuted.

Example c11_bounded_waiter_rejected : waiter_wf bounded_waiter = false.
Proof. exact bounded_waiter_not_wf. Qed.

(* non-vacuity: the waiter as built is well-formed, and on the very schedule of the refutation it keeps the permit
   until the child (`( sleep 4; echo x > f ) & echo started`) has written *)
Example c11_waiter_as_built_holds :
  waiter_wf ref_waiter = true
  /\ tholder (trun ref_waiter bg_procs 1 sched_handover) = Some 0%nat
  /\ In (ETreeWrite 1 2 true (Some 0%nat)) (ttrace (trun ref_waiter bg_procs 1 sched_handover)).
Proof. exact (conj ref_waiter_wf ref_waiter_holds). Qed.

(* what is NOT claimed: a child that closed every stream it inherited before it writes is invisible to the
   execution; its write can land in the next execution's span (the property text does not speak of it) *)
Example c11_detached_child_outlives_span :
  In (ETreeWrite 1 2 false (Some 1%nat)) (ttrace (trun ref_waiter detached_procs 1 sched_detached)).
Proof. exact detached_child_outlives_span. Qed.

(* "... while read-only tools may overlap freely": a read-only call takes no workspace permit (c11_readonly_free), but
   every tool call takes one of the tool runner's slots for as long as it runs.  The number of slots is read from
   the source (a constant handed to the runner by SessionEngine::new): with at least two, a read-only call finds
   one next to the mutating call in progress; with one (seeded change C11-11) it waits for that call to end *)
Theorem c11_runner_admits_readonly_beside_mutator : forall slots readers : N,
  runner_wf slots = true -> (readers + 1 < slots)%N -> runner_admits slots (1 + readers) = true.
Proof. exact runner_readonly_beside_mutator. Qed.
Print Assumptions c11_runner_admits_readonly_beside_mutator.

Theorem c11_generated_runner_slots_ok : runner_wf gen_runner_slots = true.
Proof. exact gen_runner_slots_ok. Qed.
Print Assumptions c11_generated_runner_slots_ok.

Example c11_one_slot_serialises : runner_wf 1 = false /\ runner_admits 1 1 = false.
Proof. exact runner_one_slot_serialises. Qed.
