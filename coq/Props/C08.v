(* C08 — Compiled context is a pure function of thread truth up to the cut point.
   Statements only; proofs are in Proofs/CompileProofs.v.  Every theorem is closed by `exact`.
   `compile P texts l a` is the model of compile_context_bundle_for_run on the full-replay path for the
   thread `l` and the triggering message `a` (Model/Compile.v); `P` carries the two limits and the
   checkpoint visibility rule (p_fixed = true: the code as it is now, after the S9 repair). *)
From RipV Require Import Base.Prelude Model.Compile Proofs.CompileProofs.

(* The bundle is exactly: the selected summary refs, then the most recent <= limit messages with
   (selected checkpoint's to_seq) < seq <= cut, oldest first, each followed by the reply text of the last
   run_ended frame at or before the cut that names it; the cut is the frame before the next message
   after the triggering message, or the head (bundle_spec).  For every thread with increasing seqs,
   every limit, every level count, both visibility rules. *)
Theorem c08_bundle_meets_spec : forall (P : params) (texts : N -> N) (l : log) (a : N),
  incr l -> option_map snd (compile P texts l a) = bundle_spec P texts l a.
Proof. exact bundle_meets_spec. Qed.
Print Assumptions c08_bundle_meets_spec.

Theorem c08_cut_point_spec : forall (l : log) (a : N), incr l -> cut_point l a = cut_spec l a.
Proof. exact cut_point_spec. Qed.
Print Assumptions c08_cut_point_spec.

(* the logged selection decision and the bundle agree *)
Theorem c08_decision_matches_bundle : forall P texts l a d b,
  compile P texts l a = Some (d, b) ->
  d_strategy d = b_strategy b /\ b_strategy b = strategy_of (d_ckpts d)
  /\ firstn (length (d_ckpts d)) (b_items b) = summary_refs (d_ckpts d).
Proof. exact decision_matches_bundle. Qed.
Print Assumptions c08_decision_matches_bundle.

(* decision and bundle are a function of the frames at or before the cut alone *)
Theorem c08_pure_up_to_cut : forall P texts l a c,
  valid_log l = true -> p_fixed P = true -> cut_point l a = Some c ->
  compile P texts (upto c l) a = compile P texts l a.
Proof. exact pure_up_to_cut. Qed.
Print Assumptions c08_pure_up_to_cut.

(* when the triggering message is followed by another message, nothing appended later is noticed *)
Theorem c08_ignores_after_cut : forall P texts l later a g,
  valid_log (l ++ later) = true -> p_fixed P = true ->
  existsb (is_anchor a) l = true ->
  find (fun f => is_msg f && (a <? fseq f)) l = Some g ->
  compile P texts (l ++ later) a = compile P texts l a.
Proof. exact ignores_after_cut. Qed.
Print Assumptions c08_ignores_after_cut.

Example c08_ignores_after_cut_example :
  valid_log (s9_log ++ s9_later) = true /\ existsb (is_anchor 2) s9_log = true
  /\ find (fun f => is_msg f && (2 <? fseq f)) s9_log = Some (mkf 3 BMsg)
  /\ compile fixed_params no_texts (s9_log ++ s9_later) 2 = compile fixed_params no_texts s9_log 2
  /\ compile fixed_params no_texts s9_log 2 <> None.
Proof. exact ignores_after_cut_example. Qed.

(* S9: the visibility rule of the code before the repair (to_seq <= cut only) lets a checkpoint frame
   appended after the cut change the bundle — what the correspondence check guards against coming back *)
Theorem c08_late_checkpoint_refuted :
  exists l later a g,
    valid_log (l ++ later) = true /\ existsb (is_anchor a) l = true
    /\ find (fun f => is_msg f && (a <? fseq f)) l = Some g
    /\ compile unfixed_params no_texts (l ++ later) a <> compile unfixed_params no_texts l a.
Proof. exact late_checkpoint_refuted. Qed.
Print Assumptions c08_late_checkpoint_refuted.
