(* C08 — Compiled context is a pure function of thread truth up to the cut point.
   Statements only; proofs are in Proofs/CompileProofs.v.  Every theorem is closed by `exact`.
   `compile P texts l a` is the model of compile_context_bundle_for_run on the full-replay path for the
   thread `l` and the triggering message `a` (Model/Compile.v); `compile_with P texts evs cks from a` is the
   same computation over an input window `evs`, a checkpoint source `cks` and a cut `from` (what the other
   read paths feed it).  `P` carries the two limits and the checkpoint visibility rule:
   p_fixed = false is the code as it is (checkpoints selected by to_seq <= cut alone: S9, open finding),
   p_fixed = true the rule the property asks for (the checkpoint frame itself at or before the cut). *)
From RipV Require Import Base.Prelude Model.Compile Proofs.CompileProofs.

(* 1. WHAT is compiled.  The bundle is exactly: the selected summary refs, then the most recent <= limit
   messages with (selected checkpoint's to_seq) < seq <= cut, oldest first, each followed by the reply text
   of the last run_ended frame at or before the cut that names it; the cut is the frame before the next
   message after the triggering message, or the head.  Every thread with increasing seqs, every limit,
   every level count, both visibility rules. *)
Theorem c08_bundle_meets_spec : forall (P : params) (texts : N -> N) (l : log) (a : N),
  incr l -> option_map snd (compile P texts l a) = bundle_spec P texts l a.
Proof. exact bundle_meets_spec. Qed.
Print Assumptions c08_bundle_meets_spec.

Theorem c08_cut_point_spec : forall (l : log) (a : N), incr l -> cut_point l a = cut_spec l a.
Proof. exact cut_point_spec. Qed.
Print Assumptions c08_cut_point_spec.

(* the logged selection decision and the bundle agree *)
Theorem c08_decision_matches_bundle : forall P texts l a d b,
  compile P texts l a = Some (d, b) ->
  d_strategy d = b_strategy b /\ b_strategy b = strategy_of (d_ckpts d)
  /\ firstn (length (d_ckpts d)) (b_items b) = summary_refs (d_ckpts d).
Proof. exact decision_matches_bundle. Qed.
Print Assumptions c08_decision_matches_bundle.

(* 2. Independence of the READ PATH.  Whatever window a read path hands over (a suffix of the mr sidecar or
   of the full sidecar, cut at `from` or not, complete or holding `limit` messages), with the checkpoint
   sidecar as checkpoint source, decision and bundle equal the full-replay result. *)
Theorem c08_paths_agree : forall P texts keep l a from evs,
  incr l -> wf_refs l = true -> cut_point l a = Some from ->
  admissible_input keep (p_limit P) l from evs ->
  Some (compile_with P texts evs (filter is_ckpt l) from a) = compile P texts l a.
Proof. exact all_paths_agree. Qed.
Print Assumptions c08_paths_agree.

(* the tail path's own cut-point computation (messages of the scanned tail + head of the stream) *)
Theorem c08_tail_cut_agrees : forall keep l pre evs a,
  incr l -> (forall f, mr_keep f = true -> keep f = true) ->
  filter keep l = pre ++ evs -> existsb (is_anchor a) evs = true ->
  tail_cut evs (head_seq l) a = cut_point l a.
Proof. exact tail_cut_agrees. Qed.
Print Assumptions c08_tail_cut_agrees.

Example c08_paths_agree_example :
  valid_log ex_log = true /\ wf_refs ex_log = true /\ cut_point ex_log 58 = Some 60
  /\ filter mr_keep ex_log = firstn 6 (filter mr_keep ex_log) ++ ex_tail
  /\ firstn 6 (filter mr_keep ex_log) <> []
  /\ (16 <= count_msgs_upto 60 ex_tail)%nat
  /\ tail_cut ex_tail (head_seq ex_log) 58 = Some 60.
Proof. exact paths_agree_example. Qed.

(* 3. Independence of LATER FRAMES.  Exact dependence, both rules: decision and bundle are a function of the
   frames at or before the cut and of the visible checkpoint frames. *)
Theorem c08_depends_on_prefix_and_visible : forall P texts l a c,
  incr l -> cut_point l a = Some c ->
  compile P texts l a = Some (compile_with P texts (upto c l) (filter (visible (p_fixed P) c) l) c a).
Proof. exact depends_on_prefix_and_visible. Qed.
Print Assumptions c08_depends_on_prefix_and_visible.

(* full statement: when the triggering message is followed by another message, nothing appended later is noticed *)
Definition c08_ignores_after_cut_full (P : params) : Prop := forall texts l later a g,
  valid_log (l ++ later) = true ->
  existsb (is_anchor a) l = true ->
  find (fun f => is_msg f && (a <? fseq f)) l = Some g ->
  compile P texts (l ++ later) a = compile P texts l a.

(* proved for the repaired rule ... *)
Theorem c08_ignores_after_cut_repaired : forall P, p_fixed P = true -> c08_ignores_after_cut_full P.
Proof. exact (fun P Fx texts l later a g V Ea Fg => ignores_after_cut P texts l later a g V Fx Ea Fg). Qed.
Print Assumptions c08_ignores_after_cut_repaired.

(* ... and, as a function of the prefix alone *)
Theorem c08_pure_up_to_cut_repaired : forall P texts l a c,
  valid_log l = true -> p_fixed P = true -> cut_point l a = Some c ->
  compile P texts (upto c l) a = compile P texts l a.
Proof. exact pure_up_to_cut. Qed.
Print Assumptions c08_pure_up_to_cut_repaired.

(* for the code as it is: partial — the missing hypothesis is that no later frame is a checkpoint with
   to_seq at or before the cut (messages, runs, replies, side effects, jobs, later-cut checkpoints: not noticed) *)
Theorem c08_ignores_after_cut_partial : forall P texts l later a g,
  valid_log (l ++ later) = true ->
  existsb (is_anchor a) l = true ->
  find (fun f => is_msg f && (a <? fseq f)) l = Some g ->
  (forall f, In f later -> visible (p_fixed P) (fseq g - 1) f = false) ->
  compile P texts (l ++ later) a = compile P texts l a.
Proof. exact ignores_after_cut_general. Qed.
Print Assumptions c08_ignores_after_cut_partial.

Example c08_ignores_after_cut_example :
  valid_log (s9_log ++ [mkf 4 BMsg; mkf 5 (BCkpt true 4 0); mkf 6 (BRunEnded 0 1)]) = true
  /\ existsb (is_anchor 2) s9_log = true
  /\ find (fun f => is_msg f && (2 <? fseq f)) s9_log = Some (mkf 3 BMsg)
  /\ forallb (fun f => negb (visible false (3 - 1) f)) [mkf 4 BMsg; mkf 5 (BCkpt true 4 0); mkf 6 (BRunEnded 0 1)] = true.
Proof. exact ignores_after_cut_general_example. Qed.

(* S9: the full statement is false of the code as it is — a checkpoint frame appended after the cut with
   to_seq at or before it changes decision and bundle (witness replayed on the implementation:
   corpus/C08/s9_late_checkpoint.json; open finding `checkpoint_after_cut_selected`) *)
Theorem c08_late_checkpoint_refuted :
  exists l later a g,
    valid_log (l ++ later) = true /\ existsb (is_anchor a) l = true
    /\ find (fun f => is_msg f && (a <? fseq f)) l = Some g
    /\ compile unfixed_params no_texts (l ++ later) a <> compile unfixed_params no_texts l a.
Proof. exact late_checkpoint_refuted. Qed.
Print Assumptions c08_late_checkpoint_refuted.

(* 4. CONCURRENT APPENDS.  The tail path takes the messages from the mr sidecar and the head from the full sidecar; an
   append writes the full sidecar line first, the mr line after it (write order re-read from the source on every run).
   While a frame that is not in the mr projection is being appended, the compile sees the thread after the append
   (every stage of the append: the projection is unchanged, the head is the new frame) ... *)
Theorem c08_racing_non_mr_frame : forall keep l f a,
  incr (l ++ [f]) -> (forall g, mr_keep g = true -> keep g = true) -> keep f = false ->
  existsb (is_anchor a) (filter keep l) = true ->
  tail_cut (filter keep l) (head_seq (l ++ [f])) a = cut_point (l ++ [f]) a.
Proof. exact racing_cut_non_mr_frame. Qed.
Print Assumptions c08_racing_non_mr_frame.

(* ... S24 (fixed, /repo 40d4693): a frame that IS in the mr projection (message, run_ended).  The repaired readers
   take the head through head_seq_seen_by_messages_runs_v1 (`head_seen true`): when the full sidecar's last frame
   belongs in the mr sidecar and the reader's view of the mr sidecar does not hold it yet, the head is the frame before
   it.  A compile that runs at any stage of the append of f then takes the cut of the thread BEFORE the append while f
   is in the full sidecar only (f in the mr projection), and the cut of the thread AFTER it otherwise ... *)
Theorem c08_racing_append_linearizes : forall l f a,
  valid_log (l ++ [f]) = true -> l <> [] ->
  existsb (is_anchor a) (filter mr_keep l) = true ->
  tail_cut (filter mr_keep l) (head_seen true (l ++ [f]) (filter mr_keep l)) a
    = (if mr_keep f then cut_point l a else cut_point (l ++ [f]) a)
  /\ tail_cut (filter mr_keep (l ++ [f])) (head_seen true (l ++ [f]) (filter mr_keep (l ++ [f]))) a
    = cut_point (l ++ [f]) a.
Proof. exact racing_append_linearizes. Qed.
Print Assumptions c08_racing_append_linearizes.

(* ... and decision and bundle are those of that thread state (f not a checkpoint: the checkpoint sidecar is untouched) *)
Theorem c08_racing_compile_linearizes : forall P texts l f a from,
  valid_log (l ++ [f]) = true -> wf_refs (l ++ [f]) = true -> l <> [] -> is_ckpt f = false ->
  tail_cut (filter mr_keep l) (head_seen true (l ++ [f]) (filter mr_keep l)) a = Some from ->
  Some (compile_with P texts (filter mr_keep l) (filter is_ckpt l) from a)
  = if mr_keep f then compile P texts l a else compile P texts (l ++ [f]) a.
Proof. exact racing_compile_linearizes. Qed.
Print Assumptions c08_racing_compile_linearizes.

(* the code before the fix (head = the full sidecar's last seq, `head_seen false` = head_seq): while a MESSAGE is being
   appended the cut is neither that of the thread before nor after (witness replayed on the implementation:
   corpus/C08/s24_cut_during_append.json; the check is red with the fix reverted) *)
Theorem c08_racing_cut_refuted :
  exists l f a,
    valid_log (l ++ [f]) = true
    /\ tail_cut (filter mr_keep l) (head_seq (l ++ [f])) a <> cut_point l a
    /\ tail_cut (filter mr_keep l) (head_seq (l ++ [f])) a <> cut_point (l ++ [f]) a.
Proof. exact racing_cut_refuted. Qed.
Print Assumptions c08_racing_cut_refuted.

Example c08_racing_cut_unfixed_example :
  valid_log (race_log ++ [race_frame]) = true /\ race_log <> []
  /\ existsb (is_anchor 2) (filter mr_keep race_log) = true
  /\ tail_cut (filter mr_keep race_log) (head_seen false (race_log ++ [race_frame]) (filter mr_keep race_log)) 2 = Some 3
  /\ cut_point race_log 2 = Some 2 /\ cut_point (race_log ++ [race_frame]) 2 = Some 2
  /\ tail_cut (filter mr_keep race_log) (head_seen true (race_log ++ [race_frame]) (filter mr_keep race_log)) 2 = Some 2.
Proof. exact racing_cut_unfixed_refuted. Qed.

(* ... and a compile that SPANS complete appends (the readers read the head first: head of the thread l, then the mr
   sidecar after `later` was appended completely — any number of frames): the cut is the cut of the thread after the appends
   when one of them is a message, of the thread before them otherwise; decision and bundle are those of that thread state
   when none of the appended frames is a checkpoint (a checkpoint appended in between is found by the lookups that run
   afterwards: the S9 shape, open).  Replayed on the implementation by the span phase of rv c08 (the compile is held at the
   rip_verif point between the two reads while the appends complete). *)
Theorem c08_span_cut_linearizes : forall l later a,
  incr (l ++ later) -> existsb (is_anchor a) (filter mr_keep l) = true ->
  tail_cut (filter mr_keep (l ++ later)) (head_seq l) a
  = if existsb is_msg later then cut_point (l ++ later) a else cut_point l a.
Proof. exact span_cut_linearizes. Qed.
Print Assumptions c08_span_cut_linearizes.

Theorem c08_span_compile_linearizes : forall P texts l later a from,
  valid_log (l ++ later) = true -> wf_refs (l ++ later) = true -> l <> [] ->
  forallb (fun f => negb (is_ckpt f)) later = true ->
  existsb (is_anchor a) (filter mr_keep l) = true ->
  tail_cut (filter mr_keep (l ++ later)) (head_seq l) a = Some from ->
  Some (compile_with P texts (filter mr_keep (l ++ later)) (filter is_ckpt (l ++ later)) from a)
  = if existsb is_msg later then compile P texts (l ++ later) a else compile P texts l a.
Proof. exact span_compile_linearizes. Qed.
Print Assumptions c08_span_compile_linearizes.

Example c08_span_example :
  valid_log (race_log ++ [mkf 3 (BRunEnded 0 2); mkf 4 BOther]) = true
  /\ tail_cut (filter mr_keep (race_log ++ [mkf 3 (BRunEnded 0 2); mkf 4 BOther])) (head_seq race_log) 2 = Some 2
  /\ tail_cut (filter mr_keep (race_log ++ [mkf 3 BOther; mkf 4 BMsg])) (head_seq race_log) 2 = Some 3
  /\ cut_point (race_log ++ [mkf 3 BOther; mkf 4 BMsg]) 2 = Some 3.
Proof. exact span_example. Qed.

(* ... S25 (fixed): a CHECKPOINT frame in flight (full sidecar written, checkpoint sidecar / index not yet).  The head is
   the checkpoint frame; the repaired *_for_compile_v1 lookups (compaction_checkpoint_caches_behind_head_v1, `ckpts_seen
   true`) answer from the stream when the checkpoint caches do not hold the head yet: the thread AFTER the append *)
Theorem c08_racing_checkpoint_linearizes : forall P texts l f a from,
  valid_log (l ++ [f]) = true -> wf_refs (l ++ [f]) = true -> is_ckpt f = true ->
  tail_cut (filter mr_keep l) (head_seen true (l ++ [f]) (filter mr_keep l)) a = Some from ->
  Some (compile_with P texts (filter mr_keep l) (ckpts_seen true (l ++ [f]) (filter is_ckpt l)) from a)
  = compile P texts (l ++ [f]) a.
Proof. exact racing_checkpoint_linearizes. Qed.
Print Assumptions c08_racing_checkpoint_linearizes.

(* before that fix (`ckpts_seen false` = the caches as found): cut = the checkpoint frame, checkpoints = those of the thread
   before it — neither state of the thread (replayed on the implementation: corpus/C08/s25_checkpoint_during_append.json) *)
Theorem c08_racing_checkpoint_refuted :
  valid_log (race_log ++ [race_ckpt]) = true /\ wf_refs (race_log ++ [race_ckpt]) = true
  /\ tail_cut (filter mr_keep race_log) (head_seen true (race_log ++ [race_ckpt]) (filter mr_keep race_log)) 2 = Some 3
  /\ Some (compile_with unfixed_params no_texts (filter mr_keep race_log) (ckpts_seen false (race_log ++ [race_ckpt]) (filter is_ckpt race_log)) 3 2)
     <> compile unfixed_params no_texts race_log 2
  /\ Some (compile_with unfixed_params no_texts (filter mr_keep race_log) (ckpts_seen false (race_log ++ [race_ckpt]) (filter is_ckpt race_log)) 3 2)
     <> compile unfixed_params no_texts (race_log ++ [race_ckpt]) 2
  /\ option_map (fun r => b_items (snd r)) (compile unfixed_params no_texts (race_log ++ [race_ckpt]) 2) = Some [ISummary 0 1; IUser 2].
Proof. exact racing_checkpoint_unfixed_refuted. Qed.
Print Assumptions c08_racing_checkpoint_refuted.

(* 5. WHICH checkpoints.  The selected checkpoints are visible cumulative checkpoints, at most max_levels of them; the
   last one has the largest to_seq of all visible cumulative checkpoints (on a tie the frame with the largest seq);
   each earlier one is the largest at or below half of its successor's to_seq (same tie rule); and the ladder stops
   early only when nothing lies at or below half of its lowest to_seq (or that is <= 1).  Both rules, every thread. *)
Theorem c08_hierarchy_spec : forall fixed from n l,
  let E := elig fixed from l in
  let H := hierarchy fixed from n l in
  (length H <= n)%nat
  /\ incl H E
  /\ (H = [] <-> (n = O \/ E = []))
  /\ (forall latest rest, rev H = latest :: rest ->
        (forall e, In e E -> ck_to e <= ck_to latest /\ (ck_to e = ck_to latest -> ck_seq e <= ck_seq latest))
        /\ ladderE E (ck_to latest) rest
        /\ ((length H < n)%nat ->
             let final := last (map ck_to rest) (ck_to latest) in
             final <= 1 \/ forall e, In e E -> final / 2 < ck_to e)).
Proof. exact hierarchy_spec. Qed.
Print Assumptions c08_hierarchy_spec.

Example c08_hierarchy_example :
  map ck_seq (hierarchy false 60 3 hier_log) = [63; 64; 65]
  /\ map ck_to (hierarchy false 60 3 hier_log) = [7; 20; 41]
  /\ hierarchy true 60 3 hier_log = []
  /\ map ck_to (hierarchy false 60 2 hier_log) = [20; 41]
  /\ map ck_to (hierarchy false 6 3 hier_log) = [1; 3].
Proof. exact hierarchy_example. Qed.

(* the decision cause "no_supported_compaction_checkpoint" is dead: when no cumulative checkpoint is visible, the latest
   visible checkpoint (if any) is of another kind *)
Theorem c08_no_supported_cause_unreachable : forall P texts evs l from a,
  p_max_refs P <> O -> d_cause (fst (compile_with P texts evs l from a)) <> 1.
Proof. exact no_supported_cause_unreachable. Qed.
Print Assumptions c08_no_supported_cause_unreachable.

(* 6. BOUNDARIES, evaluated on the model of the code as it is (the same inputs are in the harness corpus) *)
Example c08_boundary_examples :
  (* exactly `limit` messages: all of them; one more: the oldest is dropped *)
  users (compile code16 no_texts (mkf 0 BOther :: plain_msgs 16 1) 16) = map N.of_nat (seq 1 16)
  /\ users (compile code16 no_texts (mkf 0 BOther :: plain_msgs 17 1) 17) = map N.of_nat (seq 2 16)
  (* anchor = head: the cut is the head; anchor followed by non-message frames only: still the head *)
  /\ option_map (fun r => b_from (snd r)) (compile code16 no_texts (mkf 0 BOther :: plain_msgs 3 1) 3) = Some 3
  /\ option_map (fun r => b_from (snd r)) (compile code16 no_texts (mkf 0 BOther :: plain_msgs 3 1 ++ [mkf 4 BOther; mkf 5 BOther]) 3) = Some 5
  (* mid-thread anchor: the cut is the frame before the next message *)
  /\ option_map (fun r => b_from (snd r)) (compile code16 no_texts (mkf 0 BOther :: plain_msgs 2 1 ++ [mkf 3 BOther; mkf 4 BMsg]) 2) = Some 3
  (* a checkpoint whose to_seq is the anchor itself: the bundle holds the summary ref and no message *)
  /\ option_map (fun r => b_items (snd r)) (compile code16 no_texts (mkf 0 BOther :: plain_msgs 2 1 ++ [mkf 3 (BCkpt true 2 7)]) 2)
     = Some [ISummary 7 2]
  (* to_seq tie: the later frame's artifact is referenced *)
  /\ option_map (fun r => b_items (snd r)) (compile code16 no_texts (mkf 0 BOther :: plain_msgs 2 1 ++ [mkf 3 (BCkpt true 1 7); mkf 4 (BCkpt true 1 8)]) 2)
     = Some [ISummary 8 1; IUser 2]
  (* halving thresholds: latest to_seq 1 -> no second level; latest 2 -> threshold 1; latest 3 -> threshold 1 *)
  /\ map ck_to (hierarchy false 9 3 [mkf 5 (BCkpt true 1 0)]) = [1]
  /\ map ck_to (hierarchy false 9 3 [mkf 5 (BCkpt true 1 0); mkf 6 (BCkpt true 2 1)]) = [1; 2]
  /\ map ck_to (hierarchy false 9 3 [mkf 5 (BCkpt true 1 0); mkf 6 (BCkpt true 3 1); mkf 7 (BCkpt true 2 2)]) = [1; 3]
  /\ map ck_to (hierarchy false 9 3 [mkf 5 (BCkpt true 0 0); mkf 6 (BCkpt true 1 1)]) = [1]
  (* unknown anchor / anchor that is not a message / empty thread: no bundle *)
  /\ compile code16 no_texts (mkf 0 BOther :: plain_msgs 2 1) 9 = None
  /\ compile code16 no_texts (mkf 0 BOther :: plain_msgs 2 1) 0 = None
  /\ compile code16 no_texts [] 0 = None.
Proof. exact boundary_examples. Qed.

(* 7. Two of the read paths as executable producers (budgets in frames: the byte budgets of the code only decide how
   many frames a scan returns).  The mr tail scan with ANY budget k, once the acceptance test of
   load_context_compile_input_recent_messages_v1 passes, and the mr seek window give the full-replay result. *)
Theorem c08_tail_path_agrees : forall P texts k l a evs from,
  incr l -> wf_refs l = true ->
  tail_path (p_limit P) k l a = Some (evs, from) ->
  Some (compile_with P texts evs (filter is_ckpt l) from a) = compile P texts l a.
Proof. exact tail_path_agrees. Qed.
Print Assumptions c08_tail_path_agrees.

(* the same for whatever the acceptance test counts, provided it is the sound rule; WHICH rule the source uses is read
   from `let message_count = …` on every run (Gen/CompileConsts.v: gen_tail_count, obligation gen_tail_count_ok :
   tail_count_sound gen_tail_count = true) *)
Theorem c08_tail_path_rule_agrees : forall r P texts k l a evs from,
  tail_count_sound r = true ->
  incr l -> wf_refs l = true ->
  tail_path_with r (p_limit P) k l a = Some (evs, from) ->
  Some (compile_with P texts evs (filter is_ckpt l) from a) = compile P texts l a.
Proof. exact tail_path_rule_agrees. Qed.
Print Assumptions c08_tail_path_rule_agrees.

(* ... and the hypothesis is needed: counting every message of the scanned tail (also those after the cut) accepts a
   truncated tail — 40 messages, the newest 20 frames scanned, anchor = 5th message of the tail: 5 messages in the
   bundle where the full replay gives 16 *)
Theorem c08_tail_count_all_refuted :
  valid_log count_all_log = true /\ wf_refs count_all_log = true
  /\ tail_path_with CountAll 16 20 count_all_log 25 = Some (count_all_tail, 25)
  /\ tail_path_with CountUpToCut 16 20 count_all_log 25 = None
  /\ users (Some (compile_with code16 no_texts count_all_tail (filter is_ckpt count_all_log) 25 25)) = [21; 22; 23; 24; 25]
  /\ users (compile code16 no_texts count_all_log 25) = map N.of_nat (seq 10 16)
  /\ Some (compile_with code16 no_texts count_all_tail (filter is_ckpt count_all_log) 25 25) <> compile code16 no_texts count_all_log 25.
Proof. exact tail_count_all_refuted. Qed.
Print Assumptions c08_tail_count_all_refuted.

Theorem c08_window_path_agrees : forall P texts l a from,
  incr l -> wf_refs l = true -> cut_point l a = Some from ->
  Some (compile_with P texts (mr_window (p_limit P) l from) (filter is_ckpt l) from a) = compile P texts l a.
Proof. exact window_path_agrees. Qed.
Print Assumptions c08_window_path_agrees.

(* S26 (fixed): before the fix the mr seek window was handed over as it was when its back-scan hit its bound (64 MiB /
   100 000 frames), with fewer than `limit` messages although older ones exist: 40 messages, bound 12 frames, anchor the
   newest: 12 messages in the bundle, the full replay gives 16 (replayed on the implementation with 18 messages of 5 MiB;
   since the fix the bounded scan answers None and the caller falls back — re-read from the source: gen_window_accept_ok) *)
Theorem c08_window_cap_refuted :
  valid_log count_all_log = true /\ wf_refs count_all_log = true /\ cut_point count_all_log 40 = Some 40
  /\ users (Some (compile_with code16 no_texts (mr_window_capped 16 12 count_all_log 40) (filter is_ckpt count_all_log) 40 40))
     = map N.of_nat (seq 29 12)
  /\ users (compile code16 no_texts count_all_log 40) = map N.of_nat (seq 25 16)
  /\ mr_window_capped 16 16 count_all_log 40 = mr_window 16 count_all_log 40.
Proof. exact window_cap_refuted. Qed.
Print Assumptions c08_window_cap_refuted.

Example c08_producers_example :
  option_map snd (tail_path 16 34 ex_log 58) = Some 60
  /\ tail_path 16 10 ex_log 58 = None
  /\ count_msgs_upto 60 (mr_window 16 ex_log 60) = 16%nat
  /\ (length (mr_window 16 ex_log 60) < length (filter mr_keep ex_log))%nat.
Proof. exact producers_example. Qed.
