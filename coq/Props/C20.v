(* C20 — Surfaces are total, bounded, deterministic folds over the frame stream.
   Statements only; proofs are in Proofs/{Tui,Headless,Summary,Views}Proofs.v.  Every theorem is closed by `exact`. *)
From RipV Require Import Base.Prelude Model.Tui Proofs.TuiProofs Model.Headless Proofs.HeadlessProofs.
From RipV Require Model.Summary Proofs.SummaryProofs Model.Views Proofs.ViewsProofs Gen.TuiCutSites Gen.TuiAmbient.

(* memory bounds after ANY frame sequence (any order, gaps, repeats, mixed streams, any capacities) *)
Theorem c20_bounds : forall (max_frames : nat) (max_out : N) (af : bool) (evs : list ev),
  let s := run_tui max_frames max_out af evs in
  (length (frames (st_frames s)) <= Nat.max max_frames 1)%nat
  /\ blen (st_output s) <= N.max max_out 1
  /\ all_tools_le 8192 (st_tools s) /\ all_tasks_le 8192 (st_tasks s).
Proof. exact tui_bounds. Qed.
Print Assumptions c20_bounds.

Theorem c20_frames_bounded : forall (m : nat) (fs : list frame),
  (length (frames (fold_left fs_push fs (fs_new m))) <= Nat.max m 1)%nat.
Proof. exact frames_bounded. Qed.
Print Assumptions c20_frames_bounded.

(* The tool / task / job maps grow with the number of ids (by design).  What does hold, for every frame sequence:
   at most one entry per DISTINCT id for which a creating frame was seen (tool_started; tool_task_spawned or
   tool_task_status; continuity_job_spawned or _ended), the artifact set holds at most the distinct artifact ids
   the frames carried, no duplicate keys, and the text the state holds is within
   the output cap plus 8192 bytes for each of the 2 (tool) / 3 (task) preview slots of those ids. *)
Theorem c20_maps_bounded_by_distinct_ids : forall (max_frames : nat) (max_out : N) (af : bool) (evs : list ev),
  let s := run_tui max_frames max_out af evs in
  (nlen (st_tools s) <= distinct (tool_ids evs) /\ NoDup (keys (st_tools s)))
  /\ (nlen (st_tasks s) <= distinct (task_ids evs) /\ NoDup (keys (st_tasks s)))
  /\ (nlen (st_jobs s) <= distinct (job_ids evs) /\ NoDup (keys (st_jobs s)))
  /\ (nlen (st_artifacts s) <= distinct (art_ids evs) /\ NoDup (keys (st_artifacts s)))
  /\ held_bytes s <= N.max max_out 1 + 8192 * (2 * distinct (tool_ids evs) + 3 * distinct (task_ids evs)).
Proof. exact tui_maps_bounded. Qed.
Print Assumptions c20_maps_bounded_by_distinct_ids.

(* ... and no bound independent of the ids exists: n distinct tool ids give n entries *)
Theorem c20_maps_unbounded_in_ids : forall n : nat, exists evs, length (st_tools (run_tui 1 1 true evs)) = n.
Proof. exact tui_maps_grow_with_ids. Qed.
Print Assumptions c20_maps_unbounded_in_ids.

(* a lookup by seq returns that frame or nothing — for every store whatsoever *)
Theorem c20_lookup_sound : forall (s : fstore) (q : N) (f : frame),
  fs_get_by_seq s q = Some f -> fseq f = q /\ In f (frames s).
Proof. exact lookup_sound. Qed.
Print Assumptions c20_lookup_sound.

(* the same for the positional lookup: index_of_seq answers with the slot of a frame that carries that seq *)
Theorem c20_index_lookup_sound : forall (s : fstore) (q : N) (i : nat),
  fs_index_of_seq s q = Some i -> exists f, nth_error (frames s) i = Some f /\ fseq f = q.
Proof. exact index_lookup_sound. Qed.
Print Assumptions c20_index_lookup_sound.

Theorem c20_selected_event_sound : forall (s : tui) (f : frame),
  selected_event s = Some f -> st_selected s = Some (fseq f).
Proof. exact selected_event_sound. Qed.
Print Assumptions c20_selected_event_sound.

(* on gap-free streams the lookup is also complete *)
Theorem c20_lookup_complete_consecutive : forall (s : fstore) (i : nat) (f : frame),
  Consec s -> nth_error (frames s) i = Some f -> fs_get_by_seq s (fseq f) = Some f.
Proof. exact lookup_complete_consecutive. Qed.
Print Assumptions c20_lookup_complete_consecutive.

Theorem c20_index_complete_consecutive : forall (s : fstore) (i : nat) (f : frame),
  Consec s -> nth_error (frames s) i = Some f -> fs_index_of_seq s (fseq f) = Some i.
Proof. exact index_complete_consecutive. Qed.
Print Assumptions c20_index_complete_consecutive.

Theorem c20_push_keeps_consecutive : forall (s : fstore) (f : frame),
  Consec s -> (1 <= maxf s)%nat ->
  (frames s = [] \/ fseq f = base s + nlen (frames s)) -> base s + nlen (frames s) < U64MAX ->
  Consec (fs_push s f).
Proof. exact push_consec. Qed.
Print Assumptions c20_push_keeps_consecutive.

(* truncation keeps a suffix, cut on a character boundary: the Rust slice cannot panic and no
   text is invented or reordered *)
Theorem c20_cut_is_suffix : forall (maxb : N) (t c : str),
  exists pre, t ++ c = pre ++ fst (push_bounded maxb t c).
Proof. exact push_bounded_suffix. Qed.
Print Assumptions c20_cut_is_suffix.

Theorem c20_cut_on_char_boundary : forall (k : N) (s : str),
  exists pre, s = pre ++ drop_to k s /\ (k <= blen s -> k <= blen pre) /\ (blen s < k -> drop_to k s = []).
Proof. exact drop_to_suffix. Qed.
Print Assumptions c20_cut_on_char_boundary.

(* the lookup without the seq comparison (the code before the repair, S14) is unsound on a
   reachable store: this is what the correspondence check guards against coming back *)
Theorem c20_unchecked_lookup_refuted :
  exists fs m q f, fs_get_by_seq_unchecked (fold_left fs_push fs (fs_new m)) q = Some f /\ fseq f <> q.
Proof. exact lookup_unchecked_refuted. Qed.
Print Assumptions c20_unchecked_lookup_refuted.

(* ... and so is the slot arithmetic `seq - base_seq` without the comparison (index_of_seq before 72a656f, S14b):
   it points at a frame with another seq *)
Theorem c20_slot_lookup_refuted :
  exists fs m q i f, fs_slot_of_seq (fold_left fs_push fs (fs_new m)) q = Some i
    /\ nth_error (frames (fold_left fs_push fs (fs_new m))) i = Some f /\ fseq f <> q.
Proof. exact slot_lookup_refuted. Qed.
Print Assumptions c20_slot_lookup_refuted.

(* headless Output view (rip-cli render_message): for EVERY frame sequence, what is printed up to the
   first session_ended is exactly the concatenation of the text deltas, plus one newline when the
   text does not end with one; frames after the end never matter *)
Theorem c20_headless_output_is_deltas : forall (pre rest : list hk),
  forallb (fun k => negb (is_ended k)) pre = true -> existsb is_delta pre = true ->
  headless_output (pre ++ HEnded :: rest) = deltas pre ++ (if ends_nl (deltas pre) then [] else [10]).
Proof. exact headless_output_is_deltas. Qed.
Print Assumptions c20_headless_output_is_deltas.

Theorem c20_headless_ignores_after_end : forall (pre rest1 rest2 : list hk),
  forallb (fun k => negb (is_ended k)) pre = true ->
  headless_output (pre ++ HEnded :: rest1) = headless_output (pre ++ HEnded :: rest2).
Proof. exact headless_ignores_after_end. Qed.
Print Assumptions c20_headless_ignores_after_end.

Theorem c20_headless_fallback_starts_with_tool_stdout : forall (pre rest : list hk),
  forallb (fun k => negb (is_ended k)) pre = true -> existsb is_delta pre = false ->
  exists tail, headless_output (pre ++ HEnded :: rest) = stdouts pre ++ tail.
Proof. exact headless_fallback_starts_with_tool_stdout. Qed.
Print Assumptions c20_headless_fallback_starts_with_tool_stdout.

(* ---------- headless raw and metrics views (rip-cli render_message + metrics.rs), Model/Views.v ---------- *)
(* raw view = identity on frame lines: exactly the lines received, each with its newline, up to and including
   the first session_ended *)
Theorem c20_raw_view_identity : forall (pre : list Views.line) (e : Views.line) (rest : list Views.line),
  forallb ViewsProofs.valid_open pre = true -> ViewsProofs.valid_end e = true ->
  Views.raw_view (pre ++ e :: rest) = (ViewsProofs.echo (pre ++ [e]), Views.END_STOPPED, nlen pre).
Proof. exact ViewsProofs.raw_view_identity_until_end. Qed.
Print Assumptions c20_raw_view_identity.

Theorem c20_raw_view_identity_no_end : forall ls : list Views.line,
  forallb ViewsProofs.valid_open ls = true -> Views.raw_view ls = (ViewsProofs.echo ls, Views.END_EXHAUSTED, nlen ls).
Proof. exact ViewsProofs.raw_view_identity_no_end. Qed.
Print Assumptions c20_raw_view_identity_no_end.

(* a line that is not a frame is refused (error), and nothing of it is printed, in both views *)
Theorem c20_views_refuse_non_frame : forall (pre : list Views.line) (bad : Views.line) (rest : list Views.line),
  forallb ViewsProofs.valid_open pre = true -> ViewsProofs.not_frame bad = true ->
  Views.raw_view (pre ++ bad :: rest) = (ViewsProofs.echo pre, Views.END_ERROR, nlen pre)
  /\ Views.metrics_view (pre ++ bad :: rest) = ([], Views.END_ERROR, nlen pre).
Proof. exact ViewsProofs.views_refuse_non_frame. Qed.
Print Assumptions c20_views_refuse_non_frame.

(* metrics view: silent until the first session_ended, then one line = the JSON of the fold of the frames up to
   and including it *)
Theorem c20_metrics_view_is_fold : forall (pre : list Views.line) (e : Views.line) (rest : list Views.line),
  forallb ViewsProofs.valid_open pre = true -> ViewsProofs.valid_end e = true ->
  Views.metrics_view (pre ++ e :: rest)
  = (Views.metrics_json (ViewsProofs.msteps Views.mstate0 (ViewsProofs.frames_of (pre ++ [e]))) ++ [10],
     Views.END_STOPPED, nlen pre).
Proof. exact ViewsProofs.metrics_view_is_fold_until_end. Qed.
Print Assumptions c20_metrics_view_is_fold.

(* ttft_ms / e2e_ms of that fold: first output (resp. first end) minus first start, saturating at 0, null when one
   of the two frames was never seen — whatever else the stream contains, in whatever order *)
Theorem c20_metrics_ttft_e2e : forall fs : list Views.mframe,
  let m := Views.ms_metrics (ViewsProofs.msteps Views.mstate0 fs) in
  Views.delta (Views.x_started m) (Views.x_first_out m)
    = Views.delta (ViewsProofs.first_ts ViewsProofs.is_started fs) (ViewsProofs.first_ts ViewsProofs.is_output fs)
  /\ Views.delta (Views.x_started m) (Views.x_ended m)
    = Views.delta (ViewsProofs.first_ts ViewsProofs.is_started fs) (ViewsProofs.first_ts Views.is_ended fs).
Proof. exact ViewsProofs.metrics_ttft_e2e. Qed.
Print Assumptions c20_metrics_ttft_e2e.

(* both views stop at the first session_ended *)
Theorem c20_views_ignore_after_end : forall (pre : list Views.line) (e : Views.line) (rest1 rest2 : list Views.line),
  forallb ViewsProofs.valid_open pre = true -> ViewsProofs.valid_end e = true ->
  Views.raw_view (pre ++ e :: rest1) = Views.raw_view (pre ++ e :: rest2)
  /\ Views.metrics_view (pre ++ e :: rest1) = Views.metrics_view (pre ++ e :: rest2).
Proof. exact ViewsProofs.views_ignore_after_end. Qed.
Print Assumptions c20_views_ignore_after_end.

(* the metrics are a function of the frames alone (not of how the lines are laid out), and both views end at the
   same line of every stream *)
Theorem c20_metrics_depend_on_frames_only : forall ls1 ls2 : list Views.line,
  map Views.l_frame ls1 = map Views.l_frame ls2 -> Views.metrics_view ls1 = Views.metrics_view ls2.
Proof. exact ViewsProofs.metrics_view_depends_on_frames_only. Qed.
Print Assumptions c20_metrics_depend_on_frames_only.

Theorem c20_views_end_together : forall ls : list Views.line,
  snd (fst (Views.raw_view ls)) = snd (fst (Views.metrics_view ls)) /\ snd (Views.raw_view ls) = snd (Views.metrics_view ls).
Proof. exact ViewsProofs.views_end_together. Qed.
Print Assumptions c20_views_end_together.

Example c20_views_demo :
  Views.raw_view ViewsProofs.demo_lines = ([123; 49; 125; 10; 32; 123; 50; 125; 10; 123; 51; 125; 10], Views.END_STOPPED, 2)
  /\ Views.metrics_view ViewsProofs.demo_lines = (ViewsProofs.demo_metrics_text, Views.END_STOPPED, 2)
  /\ nlen ViewsProofs.demo_metrics_text = 215
  /\ firstn 12 ViewsProofs.demo_metrics_text = [123;34;101;50;101;95;109;115;34;58;48;44]
  /\ Views.raw_view (skipn 3 ViewsProofs.demo_lines) = ([], Views.END_ERROR, 0).
Proof. exact ViewsProofs.demo_views. Qed.

(* ---------- timeline summaries (rip-tui summary.rs: event_type / event_summary over all 38 kinds) ---------- *)
(* bounded: at most 652 characters (a 64-character value, the ellipsis, every character escaped to at most 10,
   two quotes) for every frame, whatever its payload — except the kinds that copy a field verbatim *)
Theorem c20_summary_bounded : forall (unp : list N) (k : Summary.skind),
  Summary.passthrough k = None -> (length (Summary.event_summary unp k) <= 652)%nat.
Proof. exact SummaryProofs.summary_bounded. Qed.
Print Assumptions c20_summary_bounded.

(* tool_started / tool_task_spawned / tool_task_signalled and an error-free provider event with a name show the
   field as it is: their summary is as long as the frame makes it (summary.rs does not truncate them) *)
Theorem c20_summary_verbatim_kinds : forall (unp : list N) (k : Summary.skind) (s : Summary.str),
  Summary.passthrough k = Some s -> Summary.event_summary unp k = s.
Proof. exact SummaryProofs.summary_passthrough. Qed.
Print Assumptions c20_summary_verbatim_kinds.

Definition c20_summary_bounded_full : Prop :=
  forall (unp : list N) (k : Summary.skind), (length (Summary.event_summary unp k) <= 652)%nat.
Theorem c20_summary_bounded_full_refuted : forall (unp : list N) (n : nat),
  exists k, (n < length (Summary.event_summary unp k))%nat.
Proof. exact SummaryProofs.summary_unbounded_for_passthrough. Qed.
Print Assumptions c20_summary_bounded_full_refuted.

(* truncate cuts between two characters: the kept part is a prefix of exactly max_len characters of the input,
   followed by the ellipsis; shorter inputs come back unchanged *)
Theorem c20_truncate_on_char_boundary : forall (n : nat) (s : Summary.str),
  ((length s <= n)%nat /\ Summary.trunc n s = s)
  \/ ((n < length s)%nat /\ exists pre suf, s = pre ++ suf /\ length pre = n /\ Summary.trunc n s = pre ++ [Summary.ELLIPSIS]).
Proof. exact SummaryProofs.trunc_prefix. Qed.
Print Assumptions c20_truncate_on_char_boundary.

(* the summary and the type name depend on the frame's payload only (not on seq, time, ids); the 38 type names
   are pairwise different *)
Theorem c20_summary_depends_on_frame_only : forall (unp : list N) (f1 f2 : Summary.sframe),
  Summary.sf_kind f1 = Summary.sf_kind f2 ->
  Summary.summary_of unp f1 = Summary.summary_of unp f2 /\ Summary.type_of f1 = Summary.type_of f2.
Proof. exact SummaryProofs.summary_depends_on_frame_only. Qed.
Print Assumptions c20_summary_depends_on_frame_only.

Theorem c20_event_type_injective : forall k1 k2 : Summary.skind,
  Summary.event_type k1 = Summary.event_type k2 -> Summary.kind_tag k1 = Summary.kind_tag k2.
Proof. exact SummaryProofs.event_type_injective. Qed.
Print Assumptions c20_event_type_injective.

Example c20_summary_demo :
  Summary.event_summary [] (Summary.SSessionStarted SummaryProofs.demo_long)
    = [34] ++ repeat 97 63 ++ [8364; Summary.ELLIPSIS; 34]
  /\ length (Summary.event_summary [] (Summary.SSessionStarted SummaryProofs.demo_long)) = 67%nat
  /\ Summary.event_summary [8203] (Summary.SToolFailed [8203; 10]) = [34; 92; 117; 123; 50; 48; 48; 98; 125; 92; 110; 34]
  /\ Summary.passthrough (Summary.SSessionStarted SummaryProofs.demo_long) = None.
Proof. exact SummaryProofs.demo_summary. Qed.

(* ---------- T1: every byte-position cut of a string in crates/rip-tui/src and rip-cli main.rs (regenerated from
   the source on every run) is brought onto a character boundary first; the local `truncate` helpers count
   characters ---------- *)
Theorem c20_cut_sites_on_char_boundaries :
  TuiCutSites.gen_ok_cut_sites && TuiCutSites.gen_cut_fns_char_based && TuiCutSites.cut_sites_wf TuiCutSites.gen_cut_sites = true.
Proof. exact TuiCutSites.gen_cut_sites_ok. Qed.
Print Assumptions c20_cut_sites_on_char_boundaries.

(* ---------- T1: "computed from the sequence of frames alone": the code of state.rs, frame_store.rs and summary.rs
   (regenerated list, every run) mentions no clock, environment, randomness, file, process, socket, hash-ordered
   collection, global or thread — the model's purity (update, push, event_summary are Gallina functions of their
   arguments) is a property of the source, not only of the model ---------- *)
Theorem c20_state_fold_reads_only_its_frames :
  TuiAmbient.gen_ok_tui_ambient && (N.of_nat (length TuiAmbient.gen_tui_ambient) =? 0) = true.
Proof. exact TuiAmbient.gen_tui_ambient_ok. Qed.
Print Assumptions c20_state_fold_reads_only_its_frames.

Example c20_headless_demo :
  headless_output [HToolStdout [120]; HDelta [104; 105]; HOther; HDelta []; HEnded; HDelta [33]] = [104; 105; 10].
Proof. exact headless_demo. Qed.

(* non-vacuity *)
Example c20_demo_nontrivial :
  let s := run_tui 3 10 true demo_evs in
  length (frames (st_frames s)) = 3%nat /\ st_truncated s = true /\ st_output s = [8364]
  /\ fs_get_by_seq (st_frames s) 8 = None /\ fs_get_by_seq_unchecked (st_frames s) 8 <> None.
Proof. exact demo_state_nontrivial. Qed.
