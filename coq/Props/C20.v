(* C20 — Surfaces are total, bounded, deterministic folds over the frame stream.
   Statements only; proofs are in Proofs/TuiProofs.v.  Every theorem is closed by `exact`. *)
From RipV Require Import Base.Prelude Model.Tui Proofs.TuiProofs Model.Headless Proofs.HeadlessProofs.

(* memory bounds after ANY frame sequence (any order, gaps, repeats, mixed streams, any capacities) *)
Theorem c20_bounds : forall (max_frames : nat) (max_out : N) (af : bool) (evs : list ev),
  let s := run_tui max_frames max_out af evs in
  (length (frames (st_frames s)) <= Nat.max max_frames 1)%nat
  /\ blen (st_output s) <= N.max max_out 1
  /\ all_tools_le 8192 (st_tools s) /\ all_tasks_le 8192 (st_tasks s).
Proof. exact tui_bounds. Qed.
Print Assumptions c20_bounds.

Theorem c20_frames_bounded : forall (m : nat) (fs : list frame),
  (length (frames (fold_left fs_push fs (fs_new m))) <= Nat.max m 1)%nat.
Proof. exact frames_bounded. Qed.
Print Assumptions c20_frames_bounded.

(* a lookup by seq returns that frame or nothing — for every store whatsoever *)
Theorem c20_lookup_sound : forall (s : fstore) (q : N) (f : frame),
  fs_get_by_seq s q = Some f -> fseq f = q /\ In f (frames s).
Proof. exact lookup_sound. Qed.
Print Assumptions c20_lookup_sound.

Theorem c20_selected_event_sound : forall (s : tui) (f : frame),
  selected_event s = Some f -> st_selected s = Some (fseq f).
Proof. exact selected_event_sound. Qed.
Print Assumptions c20_selected_event_sound.

(* on gap-free streams the lookup is also complete *)
Theorem c20_lookup_complete_consecutive : forall (s : fstore) (i : nat) (f : frame),
  Consec s -> nth_error (frames s) i = Some f -> fs_get_by_seq s (fseq f) = Some f.
Proof. exact lookup_complete_consecutive. Qed.
Print Assumptions c20_lookup_complete_consecutive.

Theorem c20_push_keeps_consecutive : forall (s : fstore) (f : frame),
  Consec s -> (1 <= maxf s)%nat ->
  (frames s = [] \/ fseq f = base s + nlen (frames s)) -> base s + nlen (frames s) < U64MAX ->
  Consec (fs_push s f).
Proof. exact push_consec. Qed.
Print Assumptions c20_push_keeps_consecutive.

(* truncation keeps a suffix, cut on a character boundary: the Rust slice cannot panic and no
   text is invented or reordered *)
Theorem c20_cut_is_suffix : forall (maxb : N) (t c : str),
  exists pre, t ++ c = pre ++ fst (push_bounded maxb t c).
Proof. exact push_bounded_suffix. Qed.
Print Assumptions c20_cut_is_suffix.

Theorem c20_cut_on_char_boundary : forall (k : N) (s : str),
  exists pre, s = pre ++ drop_to k s /\ (k <= blen s -> k <= blen pre) /\ (blen s < k -> drop_to k s = []).
Proof. exact drop_to_suffix. Qed.
Print Assumptions c20_cut_on_char_boundary.

(* the lookup without the seq comparison (the code before the repair, S14) is unsound on a
   reachable store: this is what the correspondence check guards against coming back *)
Theorem c20_unchecked_lookup_refuted :
  exists fs m q f, fs_get_by_seq_unchecked (fold_left fs_push fs (fs_new m)) q = Some f /\ fseq f <> q.
Proof. exact lookup_unchecked_refuted. Qed.
Print Assumptions c20_unchecked_lookup_refuted.

(* headless Output view (rip-cli render_message): for EVERY frame sequence, what is printed up to the
   first session_ended is exactly the concatenation of the text deltas, plus one newline when the
   text does not end with one; frames after the end never matter *)
Theorem c20_headless_output_is_deltas : forall (pre rest : list hk),
  forallb (fun k => negb (is_ended k)) pre = true -> existsb is_delta pre = true ->
  headless_output (pre ++ HEnded :: rest) = deltas pre ++ (if ends_nl (deltas pre) then [] else [10]).
Proof. exact headless_output_is_deltas. Qed.
Print Assumptions c20_headless_output_is_deltas.

Theorem c20_headless_ignores_after_end : forall (pre rest1 rest2 : list hk),
  forallb (fun k => negb (is_ended k)) pre = true ->
  headless_output (pre ++ HEnded :: rest1) = headless_output (pre ++ HEnded :: rest2).
Proof. exact headless_ignores_after_end. Qed.
Print Assumptions c20_headless_ignores_after_end.

Theorem c20_headless_fallback_starts_with_tool_stdout : forall (pre rest : list hk),
  forallb (fun k => negb (is_ended k)) pre = true -> existsb is_delta pre = false ->
  exists tail, headless_output (pre ++ HEnded :: rest) = stdouts pre ++ tail.
Proof. exact headless_fallback_starts_with_tool_stdout. Qed.
Print Assumptions c20_headless_fallback_starts_with_tool_stdout.

Example c20_headless_demo :
  headless_output [HToolStdout [120]; HDelta [104; 105]; HOther; HDelta []; HEnded; HDelta [33]] = [104; 105; 10].
Proof. exact headless_demo. Qed.

(* non-vacuity *)
Example c20_demo_nontrivial :
  let s := run_tui 3 10 true demo_evs in
  length (frames (st_frames s)) = 3%nat /\ st_truncated s = true /\ st_output s = [8364]
  /\ fs_get_by_seq (st_frames s) 8 = None /\ fs_get_by_seq_unchecked (st_frames s) 8 <> None.
Proof. exact demo_state_nontrivial. Qed.
