(* C13 — no path argument can reach outside the workspace root.
   Statements only; proofs are in Proofs/PathsProofs.v.  Every theorem is closed by `exact`.
   Path strings are lists of code points; `kresolve cwd p` is where the operating system lands when
   it is handed the string p while the process working directory is cwd (no symbolic links);
   `real_segs raw` are the segments of raw other than '' and '.'. *)
From RipV Require Import Base.Prelude Base.Fs Model.Paths Proofs.PathsProofs Gen.Resolvers.

(* the resolver of read / write / ls / grep / bash cwd / task cwd and Workspace::safe_join: whatever
   string is accepted lands exactly at <root>/<real segments of the string> — for every root, every
   string and every process working directory *)
Theorem c13_resolver_sound : forall (root raw p : str) (cwd : list str),
  resolve_tool root raw = Ok p -> kresolve cwd p = kresolve cwd root ++ real_segs raw.
Proof. exact resolver_sound. Qed.
Print Assumptions c13_resolver_sound.

Theorem c13_resolver_under : forall (root raw p : str) (cwd : list str),
  resolve_tool root raw = Ok p -> under cwd root p.
Proof. exact resolver_under. Qed.
Print Assumptions c13_resolver_under.

(* absolute strings and strings with a parent-directory segment are refused ... *)
Theorem c13_resolver_refuses : forall (root raw : str),
  is_absolute raw = true \/ has_parent raw = true ->
  resolve_tool root raw = Err V_ABS \/ resolve_tool root raw = Err V_PARENT.
Proof. exact resolver_refuses. Qed.
Print Assumptions c13_resolver_refuses.

(* ... and nothing else is *)
Theorem c13_resolver_accepts : forall (root raw : str),
  is_absolute raw = false -> has_parent raw = false -> resolve_tool root raw = Ok (join root raw).
Proof. exact resolver_accepts. Qed.
Print Assumptions c13_resolver_accepts.

(* patch headers (Add / Delete / Update / Move to) as the apply_patch tool uses them *)
Theorem c13_patch_header_sound : forall (root raw p : str) (cwd : list str),
  patch_target root raw = Ok p -> kresolve cwd p = kresolve cwd root ++ real_segs (trim raw).
Proof. exact patch_target_sound. Qed.
Print Assumptions c13_patch_header_sound.

Theorem c13_patch_header_refuses : forall (raw : str),
  trim raw = [] \/ is_absolute (trim raw) = true \/ has_parent (trim raw) = true ->
  exists e, parse_rel_path raw = Err e.
Proof. exact patch_refuses. Qed.
Print Assumptions c13_patch_header_refuses.

(* checkpoint create / rewind (as repaired): the string recorded for a requested path is relative
   and free of `..`; the path create probes and reads and the path rewind writes or deletes are the
   same string, it lands below the root whatever the process working directory is, and so does the
   copy inside the checkpoint store *)
Theorem c13_checkpoint_recorded_path_guarded : forall (root raw rel : str),
  to_relative root raw = Ok rel -> is_absolute rel = false /\ has_parent rel = false.
Proof. exact to_relative_ok. Qed.
Print Assumptions c13_checkpoint_recorded_path_guarded.

Theorem c13_checkpoint_paths_confined : forall (root raw rel : str) (cwd : list str),
  to_relative root raw = Ok rel ->
  under cwd root (probe_path root rel) /\ under cwd root (restore_path root rel)
  /\ probe_path root rel = restore_path root rel.
Proof. exact checkpoint_paths_confined. Qed.
Print Assumptions c13_checkpoint_paths_confined.

Theorem c13_checkpoint_store_copy_confined : forall (root raw rel files_root : str) (cwd : list str),
  to_relative root raw = Ok rel -> under cwd files_root (join files_root rel).
Proof. exact store_copy_confined. Qed.
Print Assumptions c13_checkpoint_store_copy_confined.

(* `..` is refused by checkpoint create whether the string is relative or absolute (a root without `..`) *)
Theorem c13_checkpoint_refuses_parent : forall (root raw : str),
  is_absolute root = true -> has_parent root = false -> has_parent raw = true ->
  to_relative root raw = Err V_PARENT \/ to_relative root raw = Err V_OUTSIDE.
Proof. exact to_relative_refuses_parent. Qed.
Print Assumptions c13_checkpoint_refuses_parent.

(* a relative string: refused iff it has `..`; otherwise recorded under a name with the same real
   segments, i.e. the very file the file tools address for that string *)
Theorem c13_checkpoint_relative : forall (root raw : str),
  is_absolute root = true -> is_absolute raw = false ->
  (has_parent raw = true -> to_relative root raw = Err V_PARENT)
  /\ (has_parent raw = false -> exists rel, to_relative root raw = Ok rel /\ real_segs rel = real_segs raw).
Proof. exact to_relative_relative. Qed.
Print Assumptions c13_checkpoint_relative.

(* the auto-checkpoint taken before `write` / `apply_patch` (as repaired): a request the tool refuses
   is refused before anything is handed to the checkpoint store *)
Theorem c13_refused_write_reaches_no_store : forall (root raw : str) (e : N),
  resolve_tool root raw = Err e -> auto_write_paths raw = Err e.
Proof. exact auto_write_refused_before_store. Qed.
Print Assumptions c13_refused_write_reaches_no_store.

Theorem c13_refused_patch_reaches_no_store : forall (root raw : str) (e : N),
  patch_target root raw = Err e -> parse_rel_path raw = Err e.
Proof. exact auto_patch_refused_before_store. Qed.
Print Assumptions c13_refused_patch_reaches_no_store.

(* tie T1: the resolvers are interpreted from STEP LISTS; tools/gen/resolvers.py reads the lists from /repo's
   source on every run (Gen/Resolvers.v).  For every source whose lists are well-formed: the three tool / task /
   safe_join resolvers (ids 1-3) are sound, parse_rel_path (4) yields a trimmed string that passes them,
   to_relative (5) yields a string that passes them and lands below the root, and the auto-checkpoint's write
   guard (6) refuses whatever the tool refuses *)
Theorem c13_generated_resolvers_sound : forall (found : bool) (st ord : list (N * list N)),
  resolvers_wf found st ord = true ->
  forall (root raw p : str) (cwd : list str),
    (interp (steps_of st 1) root raw = Ok p \/ interp (steps_of st 2) root raw = Ok p \/ interp (steps_of st 3) root raw = Ok p ->
       kresolve cwd p = kresolve cwd root ++ real_segs raw)
    /\ (interp (steps_of st 4) root raw = Ok p -> resolve_tool root p = Ok (join root p) /\ p = trim raw)
    /\ (interp (steps_of st 5) root raw = Ok p ->
          resolve_tool root p = Ok (restore_path root p) /\ kresolve cwd (restore_path root p) = kresolve cwd root ++ real_segs p)
    /\ (forall e, resolve_tool root raw = Err e -> interp (steps_of st 6) root raw = Err e).
Proof. exact generated_resolvers_sound. Qed.
Print Assumptions c13_generated_resolvers_sound.

(* the lists read from /repo's working tree on this run are well-formed; so are the order facts: create_checkpoint
   relativises and joins to the root before it touches the store and probes / reads only the joined path, rewind
   joins the recorded path to the root, every path-taking tool resolves its argument before its first
   file-system or process use, and there is no builtin module the extractor does not know *)
Theorem c13_repo_resolvers_wf : resolvers_wf gen_resolvers_found gen_resolver_steps gen_path_orders = true.
Proof. exact gen_resolvers_ok. Qed.
Print Assumptions c13_repo_resolvers_wf.

(* the behaviour before the repairs (S10): the relativised string kept `..`, so rewind's
   `root.join(rel)` left the root *)
Theorem c13_to_relative_unfixed_refuted :
  exists root raw rel, to_relative_unfixed root raw = Ok rel /\ underb [] root (restore_path root rel) = false.
Proof. exact to_relative_unfixed_refuted. Qed.
Print Assumptions c13_to_relative_unfixed_refuted.

(* ... create probed the raw string (process cwd) while rewind restored root.join(rel) ... *)
Theorem c13_probe_unfixed_cwd_refuted :
  exists cwd root raw rel, is_absolute raw = false /\ has_parent raw = false
    /\ to_relative_unfixed root raw = Ok rel
    /\ kresolve cwd (probe_path_unfixed root raw) <> kresolve cwd (restore_path root rel).
Proof. exact probe_unfixed_cwd_refuted. Qed.
Print Assumptions c13_probe_unfixed_cwd_refuted.

(* ... and the auto-checkpoint stored a path the tool then refused *)
Theorem c13_auto_write_unfixed_refuted :
  exists root raw rel e, auto_write_paths_unfixed raw = Ok raw /\ to_relative root raw = Ok rel
    /\ resolve_tool root raw = Err e.
Proof. exact auto_write_unfixed_refuted. Qed.
Print Assumptions c13_auto_write_unfixed_refuted.

(* the hypotheses are satisfiable *)
Example c13_ex_resolve : resolve_tool w_root w_dotted = Ok w_dotted_abs.
Proof. exact ex_resolve. Qed.
Example c13_ex_patch : patch_target w_root w_header = Ok w_header_abs.
Proof. exact ex_patch. Qed.
Example c13_ex_to_relative : to_relative w_root w_messy_abs = Ok w_dotted.
Proof. exact ex_to_relative. Qed.
Example c13_ex_fixed_refuses_witnesses :
  to_relative w_root w_up = Err V_PARENT /\ to_relative w_root w_abs_up = Err V_PARENT
  /\ to_relative w_root w_plain = Ok w_plain /\ to_relative w_root w_abs_in = Ok w_plain.
Proof. exact to_relative_fixed_on_witnesses. Qed.
