(* C13 — no path argument can reach outside the workspace root.
   Statements only; proofs are in Proofs/PathsProofs.v.  Every theorem is closed by `exact`.
   Path strings are lists of code points; `kresolve cwd p` is where the operating system lands when
   it is handed the string p while the process working directory is cwd (no symbolic links);
   `real_segs raw` are the segments of raw other than '' and '.'. *)
From RipV Require Import Base.Prelude Base.Fs Model.Paths Proofs.PathsProofs Proofs.PathToolsProofs Proofs.PathToolsWitness
  Gen.Resolvers.

(* the resolver of read / write / ls / grep / bash cwd / task cwd and Workspace::safe_join: whatever
   string is accepted lands exactly at <root>/<real segments of the string> — for every root, every
   string and every process working directory *)
Theorem c13_resolver_sound : forall (root raw p : str) (cwd : list str),
  resolve_tool root raw = Ok p -> kresolve cwd p = kresolve cwd root ++ real_segs raw.
Proof. exact resolver_sound. Qed.
Print Assumptions c13_resolver_sound.

Theorem c13_resolver_under : forall (root raw p : str) (cwd : list str),
  resolve_tool root raw = Ok p -> under cwd root p.
Proof. exact resolver_under. Qed.
Print Assumptions c13_resolver_under.

(* absolute strings and strings with a parent-directory segment are refused ... *)
Theorem c13_resolver_refuses : forall (root raw : str),
  is_absolute raw = true \/ has_parent raw = true ->
  resolve_tool root raw = Err V_ABS \/ resolve_tool root raw = Err V_PARENT.
Proof. exact resolver_refuses. Qed.
Print Assumptions c13_resolver_refuses.

(* ... and nothing else is *)
Theorem c13_resolver_accepts : forall (root raw : str),
  is_absolute raw = false -> has_parent raw = false -> resolve_tool root raw = Ok (join root raw).
Proof. exact resolver_accepts. Qed.
Print Assumptions c13_resolver_accepts.

(* patch headers (Add / Delete / Update / Move to) as the apply_patch tool uses them *)
Theorem c13_patch_header_sound : forall (root raw p : str) (cwd : list str),
  patch_target root raw = Ok p -> kresolve cwd p = kresolve cwd root ++ real_segs (trim raw).
Proof. exact patch_target_sound. Qed.
Print Assumptions c13_patch_header_sound.

Theorem c13_patch_header_refuses : forall (raw : str),
  trim raw = [] \/ is_absolute (trim raw) = true \/ has_parent (trim raw) = true ->
  exists e, parse_rel_path raw = Err e.
Proof. exact patch_refuses. Qed.
Print Assumptions c13_patch_header_refuses.

(* checkpoint create / rewind (as repaired): the string recorded for a requested path is relative
   and free of `..`; the path create probes and reads and the path rewind writes or deletes are the
   same string, it lands below the root whatever the process working directory is, and so does the
   copy inside the checkpoint store *)
Theorem c13_checkpoint_recorded_path_guarded : forall (root raw rel : str),
  to_relative root raw = Ok rel -> is_absolute rel = false /\ has_parent rel = false.
Proof. exact to_relative_ok. Qed.
Print Assumptions c13_checkpoint_recorded_path_guarded.

Theorem c13_checkpoint_paths_confined : forall (root raw rel : str) (cwd : list str),
  to_relative root raw = Ok rel ->
  under cwd root (probe_path root rel) /\ under cwd root (restore_path root rel)
  /\ probe_path root rel = restore_path root rel.
Proof. exact checkpoint_paths_confined. Qed.
Print Assumptions c13_checkpoint_paths_confined.

Theorem c13_checkpoint_store_copy_confined : forall (root raw rel files_root : str) (cwd : list str),
  to_relative root raw = Ok rel -> under cwd files_root (join files_root rel).
Proof. exact store_copy_confined. Qed.
Print Assumptions c13_checkpoint_store_copy_confined.

(* `..` is refused by checkpoint create whether the string is relative or absolute (a root without `..`) *)
Theorem c13_checkpoint_refuses_parent : forall (root raw : str),
  is_absolute root = true -> has_parent root = false -> has_parent raw = true ->
  to_relative root raw = Err V_PARENT \/ to_relative root raw = Err V_OUTSIDE.
Proof. exact to_relative_refuses_parent. Qed.
Print Assumptions c13_checkpoint_refuses_parent.

(* a relative string: refused iff it has `..`; otherwise recorded under a name with the same real
   segments, i.e. the very file the file tools address for that string *)
Theorem c13_checkpoint_relative : forall (root raw : str),
  is_absolute root = true -> is_absolute raw = false ->
  (has_parent raw = true -> to_relative root raw = Err V_PARENT)
  /\ (has_parent raw = false -> exists rel, to_relative root raw = Ok rel /\ real_segs rel = real_segs raw).
Proof. exact to_relative_relative. Qed.
Print Assumptions c13_checkpoint_relative.

(* the auto-checkpoint taken before `write` / `apply_patch` (as repaired): a request the tool refuses
   is refused before anything is handed to the checkpoint store *)
Theorem c13_refused_write_reaches_no_store : forall (root raw : str) (e : N),
  resolve_tool root raw = Err e -> auto_write_paths raw = Err e.
Proof. exact auto_write_refused_before_store. Qed.
Print Assumptions c13_refused_write_reaches_no_store.

Theorem c13_refused_patch_reaches_no_store : forall (root raw : str) (e : N),
  patch_target root raw = Err e -> parse_rel_path raw = Err e.
Proof. exact auto_patch_refused_before_store. Qed.
Print Assumptions c13_refused_patch_reaches_no_store.

(* tie T1: the resolvers are interpreted from STEP LISTS; tools/gen/resolvers.py reads the lists from /repo's
   source on every run (Gen/Resolvers.v).  For every source whose lists are well-formed: the three tool / task /
   safe_join resolvers (ids 1-3) are sound, parse_rel_path (4) yields a trimmed string that passes them,
   to_relative (5) yields a string that passes them and lands below the root, and the auto-checkpoint's write
   guard (6) refuses whatever the tool refuses *)
Theorem c13_generated_resolvers_sound : forall (found : bool) (st ord : list (N * list N)),
  resolvers_wf found st ord = true ->
  forall (root raw p : str) (cwd : list str),
    (interp (steps_of st 1) root raw = Ok p \/ interp (steps_of st 2) root raw = Ok p \/ interp (steps_of st 3) root raw = Ok p ->
       kresolve cwd p = kresolve cwd root ++ real_segs raw)
    /\ (interp (steps_of st 4) root raw = Ok p -> resolve_tool root p = Ok (join root p) /\ p = trim raw)
    /\ (interp (steps_of st 5) root raw = Ok p ->
          resolve_tool root p = Ok (restore_path root p) /\ kresolve cwd (restore_path root p) = kresolve cwd root ++ real_segs p)
    /\ (forall e, resolve_tool root raw = Err e -> interp (steps_of st 6) root raw = Err e).
Proof. exact generated_resolvers_sound. Qed.
Print Assumptions c13_generated_resolvers_sound.

(* the lists read from /repo's working tree on this run are well-formed; so are the order facts: create_checkpoint
   relativises and joins to the root before it touches the store and probes / reads only the joined path, rewind
   joins the recorded path to the root, every path-taking tool resolves its argument before its first
   file-system or process use, and there is no builtin module the extractor does not know *)
Theorem c13_repo_resolvers_wf : resolvers_wf gen_resolvers_found gen_resolver_steps gen_path_orders = true.
Proof. exact gen_resolvers_ok. Qed.
Print Assumptions c13_repo_resolvers_wf.

(* the behaviour before the repairs (S10): the relativised string kept `..`, so rewind's
   `root.join(rel)` left the root *)
Theorem c13_to_relative_unfixed_refuted :
  exists root raw rel, to_relative_unfixed root raw = Ok rel /\ underb [] root (restore_path root rel) = false.
Proof. exact to_relative_unfixed_refuted. Qed.
Print Assumptions c13_to_relative_unfixed_refuted.

(* ... create probed the raw string (process cwd) while rewind restored root.join(rel) ... *)
Theorem c13_probe_unfixed_cwd_refuted :
  exists cwd root raw rel, is_absolute raw = false /\ has_parent raw = false
    /\ to_relative_unfixed root raw = Ok rel
    /\ kresolve cwd (probe_path_unfixed root raw) <> kresolve cwd (restore_path root rel).
Proof. exact probe_unfixed_cwd_refuted. Qed.
Print Assumptions c13_probe_unfixed_cwd_refuted.

(* ... and the auto-checkpoint stored a path the tool then refused *)
Theorem c13_auto_write_unfixed_refuted :
  exists root raw rel e, auto_write_paths_unfixed raw = Ok raw /\ to_relative root raw = Ok rel
    /\ resolve_tool root raw = Err e.
Proof. exact auto_write_unfixed_refuted. Qed.
Print Assumptions c13_auto_write_unfixed_refuted.

(* ---------- what the tools do with the resolved path ----------
   `tool_run progs t ex root raw ext names` = the verdict and every (operation, path string) a path-taking tool hands to
   the operating system: read, write (append / atomic with its temporary file / plain), ls and grep (the walk and every
   entry `names` below it), the working directory of the bash tool and of pipes / pty tasks with and without a cwd
   argument, the four patch headers of apply_patch incl. its undo, checkpoint create (source side) and rewind (snapshot,
   restore, undo).  The programs are (operation, derivation) lists READ FROM THE SOURCE (Gen/Resolvers.v); `ex` says which
   path strings exist (create_dir_all walks up to the first existing ancestor; the workspace root exists).
   For every tool, every root without `..`, every string, every process working directory: a refused request makes no
   access at all, and every access of an accepted one lands at or below the workspace root.  The one hypothesis is about
   std's Path::with_extension (the atomic write's temporary file), which is NOT confined for every file name - see
   c13_write_tmp_dotdot_refuted - and is discharged by c13_write_tmp_confined for every string that ends with its file
   name (`inside R q`: q is absolute, free of `..`, and its real segments extend R). *)
Theorem c13_tools_confined : forall (t : tool) (ex : str -> bool) (root raw ext : str) (names : list str) (cwd : list str)
    (found : bool) (progs : list (N * list (N * N))) (v : N) (accs : list (N * str)),
  tools_wf found progs = true ->
  is_absolute root = true -> has_parent root = false ->
  (forall s, is_absolute s = true -> has_parent s = false -> real_segs s = real_segs root -> ex s = true) ->
  forallb proper_name names = true ->
  (forall p, tool_path t root raw = Ok p -> real_segs p <> real_segs root ->
     inside (real_segs root) (with_extension p ext)) ->
  tool_run progs t ex root raw ext names = (v, accs) ->
  (v <> 0 -> accs = []) /\ (forall o q, In (o, q) accs -> under cwd root q).
Proof. exact tools_confined. Qed.
Print Assumptions c13_tools_confined.

(* the temporary file of an atomic write to `d ++ name` (d empty or a directory text ending in '/'; name a file name
   other than `..x`): next to the target, below the root *)
Theorem c13_write_tmp_confined : forall (root d name ext : str),
  is_absolute root = true -> has_parent root = false -> no_sep root = false ->
  is_absolute d = false -> has_parent d = false -> (d = [] \/ exists dir, d = dir ++ [47]) ->
  proper_name name = true -> tmp_safe name = true -> ext <> [] -> ~ In 47 ext ->
  inside (real_segs root) (with_extension (join root (d ++ name)) ext).
Proof. exact write_tmp_inside. Qed.
Print Assumptions c13_write_tmp_confined.

(* Path::parent and the create_dir_all chain, entries of a walk: where they land *)
Theorem c13_parent_lands_above : forall (q q' : str),
  is_absolute q = true -> parent q = Some q' -> is_absolute q' = true /\ real_segs q' = removelast (real_segs q).
Proof. exact parent_spec. Qed.
Print Assumptions c13_parent_lands_above.

Theorem c13_walk_entries_below : forall (names : list str) (q : str),
  is_absolute q = true -> has_parent q = false -> forallb proper_name names = true ->
  is_absolute (descend q names) = true /\ has_parent (descend q names) = false
  /\ real_segs (descend q names) = real_segs q ++ names.
Proof. exact descend_props. Qed.
Print Assumptions c13_walk_entries_below.

(* tie T1: the (operation, derivation) list of every path-taking function as read from /repo on this run: every
   file-system / process call takes the resolver's result, its parent behind the stated check, its with_extension, an
   entry of the walk started at it, or (no cwd argument) the workspace root - nothing else *)
Theorem c13_repo_tools_wf : tools_wf gen_tools_found gen_tool_progs = true.
Proof. exact gen_tools_ok. Qed.
Print Assumptions c13_repo_tools_wf.

(* the write tool before 0a47111 (S10b): the parent chain / temporary file of '' '.' './' lie next to the root *)
Theorem c13_write_unguarded_refuted :
  exists raw o q, In (o, q) (snd (tool_run_unguarded expected_progs TWrite t_ex t_root raw t_ext t_names))
    /\ underb [] t_root q = false.
Proof. exact write_unguarded_refuted. Qed.
Print Assumptions c13_write_unguarded_refuted.

(* std's with_extension on a file name `..x`: the "temporary file" is the directory above (an open that always fails
   with EISDIR; replayed on the real tool: "write failed", nothing created or changed) - why c13_tools_confined carries
   its hypothesis *)
Theorem c13_write_tmp_dotdot_refuted :
  exists raw o q, tool_refuses_dir TWrite raw = false
    /\ In (o, q) (snd (tool_run expected_progs TWrite t_ex t_root raw t_ext t_names))
    /\ underb [] t_root q = false /\ tmp_safe raw = false.
Proof. exact write_tmp_dotdot_refuted. Qed.
Print Assumptions c13_write_tmp_dotdot_refuted.

(* the hypotheses are satisfiable *)
Example c13_ex_resolve : resolve_tool w_root w_dotted = Ok w_dotted_abs.
Proof. exact ex_resolve. Qed.
Example c13_ex_patch : patch_target w_root w_header = Ok w_header_abs.
Proof. exact ex_patch. Qed.
Example c13_ex_to_relative : to_relative w_root w_messy_abs = Ok w_dotted.
Proof. exact ex_to_relative. Qed.
Example c13_ex_fixed_refuses_witnesses :
  to_relative w_root w_up = Err V_PARENT /\ to_relative w_root w_abs_up = Err V_PARENT
  /\ to_relative w_root w_plain = Ok w_plain /\ to_relative w_root w_abs_in = Ok w_plain.
Proof. exact to_relative_fixed_on_witnesses. Qed.
Example c13_ex_tool_write : tool_run expected_progs TWrite t_ex t_root t_raw t_ext t_names = (0, t_write_accs).
Proof. exact ex_write_run. Qed.
Example c13_ex_tool_grep : tool_run expected_progs TGrep t_ex t_root t_dir t_ext t_names = (0, t_grep_accs).
Proof. exact ex_grep_run. Qed.
Example c13_ex_tool_refused : tool_run expected_progs TWrite t_ex t_root t_up t_ext t_names = (V_PARENT, [])
  /\ tool_run expected_progs TWrite t_ex t_root t_dotslash t_ext t_names = (V_NOFILE, [])
  /\ tool_run expected_progs TCwdDefault t_ex t_root [] t_ext t_names = (0, [(9, t_root)]).
Proof. exact ex_refused_run. Qed.
Example c13_ex_tool_hyps : is_absolute t_root = true /\ has_parent t_root = false /\ no_sep t_root = false
  /\ forallb proper_name t_names = true /\ t_ext <> [] /\ ~ In 47 t_ext
  /\ proper_name t_name = true /\ tmp_safe t_name = true.
Proof. exact ex_hyps. Qed.
