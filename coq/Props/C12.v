(* C12 — Patch application is all-or-nothing and exact when it succeeds.
   Statements only; proofs are in Proofs/PatchProofs.v, Proofs/PatchAtomic.v, Proofs/FsProofs.v,
   Proofs/PatchEffects.v, Proofs/PatchSections.v.
   Model: Model/Patch.v (parser, hunks, Workspace::apply_patch with the first-seen undo list) over
   the file-system model Base/Fs.v.  `apply_patch true` is the code after fix 6739939, `apply_patch
   false` the code before it. *)
From RipV Require Import Base.Prelude Base.Fs Model.Patch Proofs.FsProofs Proofs.PatchProofs Proofs.PatchAtomic Proofs.PatchText Proofs.PatchParse Proofs.PatchExamples Proofs.PatchEffects Proofs.PatchSections.

(* ---- ATOMICITY (the code after fix 6739939).  For every well-formed workspace tree f (unique
   keys, every entry's ancestors are directories), every patch document (well-formed or not), every
   operation sequence and every failure position inside every operation: if the apply fails, every
   path holds the same file bytes as before (so no file is lost, none is changed, no new file
   remains).  `file_at g p = None` covers both "absent" and "a directory". *)
Theorem c12_atomic : forall (f : fs) (input : list N) (g : fs) (e : N),
  fs_wf f -> apply_patch true [] f input = Failed g e -> forall p, file_at g p = file_at f p.
Proof. exact apply_patch_atomic. Qed.
Print Assumptions c12_atomic.

Theorem c12_atomic_ops : forall (f : fs) (ops : list op) (g : fs) (e : N),
  fs_wf f -> apply_ops true [] f ops = Failed g e -> forall p, file_at g p = file_at f p.
Proof. exact apply_ops_atomic. Qed.
Print Assumptions c12_atomic_ops.

(* the whole picture after a failure, directories included: the workspace is the old one (every
   file AND every directory still there, unchanged) plus possibly directories where there was nothing *)
Theorem c12_failed_is_old_plus_empty_dirs : forall (f : fs) (input : list N) (g : fs) (e : N),
  fs_wf f -> apply_patch true [] f input = Failed g e ->
  (forall q n, lookup f q = Some n -> lookup g q = Some n) /\
  (forall q, lookup f q = None -> lookup g q = None \/ lookup g q = Some Dir).
Proof. exact apply_patch_failed_ext. Qed.
Print Assumptions c12_failed_is_old_plus_empty_dirs.

(* what the revert does in general: under the invariant C between operations, reverting the undo
   list u on state f yields, at every path, the first-seen recorded content (or the current one) *)
Theorem c12_revert_spec : forall (u : list (list N * option bytes)) (f : fs),
  C f u -> forall p, file_at (revert true [] f u) p = expect u f p.
Proof. exact revert_spec. Qed.
Print Assumptions c12_revert_spec.

Theorem c12_success_keeps_tree : forall (f : fs) (ops : list op) (g : fs) (c : list (list N)),
  fs_wf f -> apply_ops true [] f ops = Applied g c -> fs_wf g.
Proof. exact apply_ops_wf. Qed.
Print Assumptions c12_success_keeps_tree.

(* fs_wf is decidable; check_case evaluates wf_fsb on the workspace listing before and after every
   implementation run, so the hypothesis of c12_atomic is checked on every observed workspace *)
Theorem c12_wf_decidable_sound : forall (f : fs), wf_fsb f = true -> fs_wf f.
Proof. exact wf_fsb_sound. Qed.
Print Assumptions c12_wf_decidable_sound.

(* the hypotheses are satisfiable by a failing run that has already mutated the workspace *)
Example c12_atomic_nonvacuous : fs_wf wit_fs /\ apply_patch true [] wit_fs wit_patch = Failed wit_fs ENOENT.
Proof. exact (conj (wf_single _ _) wit_fixed_run). Qed.

(* atomicity speaks of FILES: directories created by a failed add are left behind (DESIGN §4 C12 N) *)
Theorem c12_dirs_not_rolled_back_refuted :
  exists f input g e p, fs_wf f /\ apply_patch true [] f input = Failed g e /\ lookup f p = None /\ lookup g p = Some Dir.
Proof. exact failed_keeps_dirs_refuted. Qed.
Print Assumptions c12_dirs_not_rolled_back_refuted.

(* ---- success: the workspace is the result of performing the operations in order (spec_ops has no
   undo bookkeeping), and the reported files are exactly the named ones, sorted, without repeats *)
Theorem c12_success_spec : forall (fixed : bool) (root : path) (f : fs) (ops : list op) (f' : fs) (changed : list (list N)),
  apply_ops fixed root f ops = Applied f' changed ->
  spec_ops root f ops = Ok f' /\ changed = sort_dedup (map normalize_rel (affected_paths ops)).
Proof. exact success_spec. Qed.
Print Assumptions c12_success_spec.

(* the same on the files only, with no reference to the file-system model's operations: the meaning of
   the operations.  effects m ops m' chains, in order: Add p c — p holds no file, afterwards it holds c;
   Del p — p holds a file, afterwards none; Upd p hs — p holds UTF-8 text b, afterwards the hunks applied
   to b; with Move to t — t is another path holding no file, afterwards p holds none and t the new text;
   every other path is untouched *)
Theorem c12_success_effects : forall (f : fs) (ops : list op) (f' : fs) (changed : list (list N)),
  fs_wf f -> apply_ops true [] f ops = Applied f' changed ->
  effects (file_at f) ops (file_at f') /\ changed = sort_dedup (map normalize_rel (affected_paths ops)).
Proof. exact success_effects. Qed.
Print Assumptions c12_success_effects.

(* ---- several sections of one patch on the same path.  Every update section works on the text the
   sections BEFORE it have left at its path (m = the files after performing `pre` in order) — never on
   anything the path held earlier in the same patch *)
Theorem c12_section_sees_earlier_sections :
  forall (f : fs) (pre : list op) (p : list N) (mv : option (list N)) (hs : list hunk) (post : list op) (f' : fs) (ch : list (list N)),
  fs_wf f -> apply_ops true [] f (pre ++ Upd p mv hs :: post) = Applied f' ch ->
  exists m b b', effects (file_at f) pre m /\ m (comps p) = Some b /\ utf8_ok b = true /\ apply_hunks_to_text b hs = Some b'.
Proof. exact section_sees_earlier_sections. Qed.
Print Assumptions c12_section_sees_earlier_sections.

(* a path re-created by `Add File` (after it was moved away, deleted, or never existed): the next
   section on that path works on the ADDED content c, whatever the path held before (`pre` is
   arbitrary: it may have updated p and moved it away); with no move and no later section on the
   path, the path ends up holding c with the hunks applied *)
Theorem c12_update_after_recreation :
  forall (f : fs) (pre : list op) (p1 c : list N) (mid : list op) (p : list N) (mv : option (list N)) (hs : list hunk)
         (post : list op) (f' : fs) (ch : list (list N)),
  fs_wf f -> apply_ops true [] f (pre ++ Add p1 c :: mid ++ Upd p mv hs :: post) = Applied f' ch ->
  comps p1 = comps p -> ~ In (comps p) (map comps (affected_paths mid)) ->
  exists b', apply_hunks_to_text c hs = Some b' /\
    (mv = None -> ~ In (comps p) (map comps (affected_paths post)) -> file_at f' (comps p) = Some b').
Proof. exact update_after_recreation. Qed.
Print Assumptions c12_update_after_recreation.

(* the same for a path re-created by another section's `Move to`: the next section on it works on the
   moved-in text (r's text with r's hunks applied) *)
Theorem c12_update_after_move_in :
  forall (f : fs) (pre : list op) (r t : list N) (hs0 : list hunk) (mid : list op) (p : list N) (mv : option (list N))
         (hs : list hunk) (post : list op) (f' : fs) (ch : list (list N)),
  fs_wf f -> apply_ops true [] f (pre ++ Upd r (Some t) hs0 :: mid ++ Upd p mv hs :: post) = Applied f' ch ->
  comps t = comps p -> ~ In (comps p) (map comps (affected_paths mid)) ->
  exists m b0 b1 b', effects (file_at f) pre m /\ m (comps r) = Some b0 /\
    apply_hunks_to_text b0 hs0 = Some b1 /\ apply_hunks_to_text b1 hs = Some b'.
Proof. exact update_after_move_in. Qed.
Print Assumptions c12_update_after_move_in.

(* and hunks that only fit what the path held EARLIER are refused with the whole patch: when they do
   not apply to the added content, the apply fails and every file keeps its bytes *)
Theorem c12_stale_context_is_refused :
  forall (f : fs) (pre : list op) (p1 c : list N) (mid : list op) (p : list N) (mv : option (list N)) (hs : list hunk) (post : list op),
  fs_wf f -> comps p1 = comps p -> ~ In (comps p) (map comps (affected_paths mid)) ->
  apply_hunks_to_text c hs = None ->
  exists g e, apply_ops true [] f (pre ++ Add p1 c :: mid ++ Upd p mv hs :: post) = Failed g e /\
    forall q, file_at g q = file_at f q.
Proof. exact stale_context_is_refused. Qed.
Print Assumptions c12_stale_context_is_refused.

(* instances: update + move away, re-create (other spelling of the same path), update: the last section
   sees the re-created file; its context only in the moved-away text: refused, nothing changed; chain
   a -> b -> a followed by an update of a *)
Example c12_ex_sections_wf : fs_wf sec_fs.
Proof. exact sec_wf. Qed.
Example c12_ex_update_after_move_and_readd :
  apply_ops true [] sec_fs sec_ops_ok = Applied sec_after_ok sec_changed_ok.
Proof. exact sec_ok_run. Qed.
Example c12_ex_stale_context_refused : apply_ops true [] sec_fs sec_ops_stale = Failed sec_fs EINVALDATA.
Proof. exact sec_stale_run. Qed.
Example c12_ex_chain_there_and_back :
  apply_ops true [] sec_fs sec_ops_chain = Applied sec_after_chain sec_changed_chain.
Proof. exact sec_chain_run. Qed.

Theorem c12_success_complete : forall (fixed : bool) (root : path) (f : fs) (ops : list op) (f' : fs),
  spec_ops root f ops = Ok f' -> apply_ops fixed root f ops = Applied f' (changed_files ops).
Proof. exact success_complete. Qed.
Print Assumptions c12_success_complete.

Theorem c12_fails_iff_some_op_fails : forall (fixed : bool) (root : path) (f : fs) (ops : list op),
  (exists g e, apply_ops fixed root f ops = Failed g e) <-> (exists e, spec_ops root f ops = Err e).
Proof. exact fails_iff_spec_fails. Qed.
Print Assumptions c12_fails_iff_some_op_fails.

Theorem c12_changed_exactly_named : forall (l : list (list N)) (y : list N),
  In y (sort_dedup l) <-> In y l.
Proof. exact sort_dedup_in. Qed.
Print Assumptions c12_changed_exactly_named.

Theorem c12_changed_sorted_no_repeats : forall (l : list (list N)), strictly_sorted (sort_dedup l).
Proof. exact sort_dedup_sorted. Qed.
Print Assumptions c12_changed_sorted_no_repeats.

(* ---- line endings and trailing newline.  A canonical text is a non-empty list of lines free of
   CR and LF rendered with one separator (LF, or CRLF when the text shows at least one CRLF) and an
   optional trailing separator.  On every canonical text an update is exactly: edit the line list
   (cursor-forward hunk application), render it again with the SAME separator and the SAME
   trailing-newline flag. *)
Theorem c12_line_endings : forall (ls : list line) (tr : bool) (le : list N) (hs : list hunk),
  canon ls tr -> style_ok le ls tr ->
  apply_hunks_to_text (join_lines ls tr le) hs =
  match apply_hunks_lines ls 0 hs with Some ls' => Some (join_lines ls' tr le) | None => None end.
Proof. exact hunks_on_canonical. Qed.
Print Assumptions c12_line_endings.

Theorem c12_split_join_roundtrip : forall (ls : list line) (tr : bool) (le : list N),
  canon ls tr -> le = LF \/ le = CRLF -> split_lines (join_lines ls tr le) = (ls, tr).
Proof. exact split_lines_join. Qed.
Print Assumptions c12_split_join_roundtrip.

(* for ANY text (canonical or not): a trailing newline is kept whenever anything is left, and a
   file without CR stays without CR when the patch adds none *)
Theorem c12_trailing_newline_kept : forall (text : bytes) (hs : list hunk) (out : bytes),
  apply_hunks_to_text text hs = Some out -> ends_nl text = true -> out <> [] -> ends_nl out = true.
Proof. exact trailing_newline_kept. Qed.
Print Assumptions c12_trailing_newline_kept.

Theorem c12_lf_file_stays_lf : forall (text : bytes) (hs : list hunk) (out : bytes),
  ~ In 13 text -> (forall h, In h hs -> Forall (fun l => ~ In 13 l) (h_after h)) ->
  apply_hunks_to_text text hs = Some out -> ~ In 13 out.
Proof. exact lf_file_stays_lf. Qed.
Print Assumptions c12_lf_file_stays_lf.

Example c12_canonical_nonvacuous :
  canon [[97]; [98]] true /\ style_ok CRLF [[97]; [98]] true /\
  apply_hunks_to_text (join_lines [[97]; [98]] true CRLF) [{| h_before := [[98]]; h_after := [[99]; [100]] |}]
  = Some (join_lines [[97]; [99]; [100]] true CRLF).
Proof. exact canonical_demo. Qed.

(* what the code does outside the canonical texts (the statement's "preserve" fails there):
   a mixed LF/CRLF file is normalised to CRLF even by an identity hunk; a lone CR ending the last
   line of a file without final newline is dropped; when the file has no final newline and the last
   remaining line is empty, the result ends in a newline *)
Theorem c12_identity_hunk_rewrites_mixed_file_refuted :
  exists text h out, h_before h = h_after h /\ apply_hunks_to_text text [h] = Some out /\ out <> text.
Proof. exact identity_hunk_not_identity_refuted. Qed.
Print Assumptions c12_identity_hunk_rewrites_mixed_file_refuted.

Theorem c12_lone_cr_dropped_refuted :
  exists text h out, h_before h = h_after h /\ apply_hunks_to_text text [h] = Some out /\ In 13 text /\ ~ In 13 out.
Proof. exact lone_cr_dropped_refuted. Qed.
Print Assumptions c12_lone_cr_dropped_refuted.

Theorem c12_no_final_newline_not_always_kept_refuted :
  exists text hs out, apply_hunks_to_text text hs = Some out /\ ends_nl text = false /\ ends_nl out = true.
Proof. exact no_trailing_newline_not_always_kept_refuted. Qed.
Print Assumptions c12_no_final_newline_not_always_kept_refuted.

(* ---- hunk application: a hunk with context replaces exactly the FIRST occurrence of its `before`
   lines at or after the cursor (never an earlier one, never a later one) and moves the cursor
   behind what it inserted; a hunk without context appends; missing context refuses the update *)
Theorem c12_hunk_replaces_first_occurrence : forall (h : hunk) (r : list hunk) (ls : list line) (cur : nat),
  h_before h <> [] -> forall res, apply_hunks_lines ls cur (h :: r) = Some res ->
  exists pre post, ls = pre ++ h_before h ++ post /\ (cur <= List.length pre)%nat /\
    (forall i, (cur <= i < List.length pre)%nat -> ~ occurs_at ls (h_before h) i) /\
    apply_hunks_lines (pre ++ h_after h ++ post) (List.length pre + List.length (h_after h)) r = Some res.
Proof. exact hunk_step. Qed.
Print Assumptions c12_hunk_replaces_first_occurrence.

Theorem c12_hunk_without_context_appends : forall (h : hunk) (r : list hunk) (ls : list line) (cur : nat),
  h_before h = [] ->
  apply_hunks_lines ls cur (h :: r) = apply_hunks_lines (ls ++ h_after h) (List.length (ls ++ h_after h)) r.
Proof. exact hunk_append. Qed.
Print Assumptions c12_hunk_without_context_appends.

Theorem c12_hunk_missing_context_fails : forall (h : hunk) (r : list hunk) (ls : list line) (cur : nat),
  h_before h <> [] -> (cur <= List.length ls)%nat ->
  (forall i, (cur <= i)%nat -> ~ occurs_at ls (h_before h) i) -> apply_hunks_lines ls cur (h :: r) = None.
Proof. exact hunk_missing_context_fails. Qed.
Print Assumptions c12_hunk_missing_context_fails.

(* ---- malformed documents: the parser is a total function; a rejected document touches nothing *)
Theorem c12_malformed_untouched : forall (fixed : bool) (root : path) (f : fs) (input : list N),
  parse_patch input = None -> apply_patch fixed root f input = Failed f EINVALDATA.
Proof. exact malformed_untouched. Qed.
Print Assumptions c12_malformed_untouched.

Theorem c12_parse_paths_safe : forall (input : list N) (ops : list op),
  parse_patch input = Some ops -> Forall op_safe ops.
Proof. exact parse_paths_safe. Qed.
Print Assumptions c12_parse_paths_safe.

(* ---- the format is complete and unambiguous: every sequence of operations whose payload lines are
   clean (no LF, not ending in CR; paths already trimmed, relative, without `..`; every update has
   at least one non-empty hunk) has a document (header, `+` lines / `@@` + `-`/`+` lines, footer),
   and the parser returns exactly that sequence — with every line verbatim *)
Theorem c12_parse_render_roundtrip : forall (ops : list sop),
  Forall sop_ok ops -> parse_patch (render ops) = Some (map to_op ops).
Proof. exact parse_render. Qed.
Print Assumptions c12_parse_render_roundtrip.

Example c12_parse_render_nonvacuous : Forall sop_ok demo_ops.
Proof. exact demo_ok. Qed.

(* ---- the rollback before fix 6739939 is not atomic: delete a; add a/b; fail  ==>  a is lost *)
Theorem c12_atomic_unfixed_refuted :
  exists f input g e p, apply_patch false [] f input = Failed g e /\ file_at f p <> file_at g p.
Proof. exact atomic_unfixed_refuted. Qed.
Print Assumptions c12_atomic_unfixed_refuted.

Example c12_witness_unfixed : apply_patch false [] wit_fs wit_patch = Failed wit_after_unfixed ENOENT.
Proof. exact wit_unfixed_run. Qed.
Example c12_witness_fixed : apply_patch true [] wit_fs wit_patch = Failed wit_fs ENOENT.
Proof. exact wit_fixed_run. Qed.

(* ---- concrete instances: the hypotheses above are met by non-trivial inputs ---- *)
(* a well-formed workspace; update+move (CRLF kept), re-add of the moved path, delete: success *)
Example c12_ex_workspace_wf : wf_fsb ex_fs = true.
Proof. exact ex_wf. Qed.
Example c12_ex_success : apply_patch true [] ex_fs ex_patch_ok = Applied ex_after_ok ex_changed.
Proof. exact ex_ok_run. Qed.
(* the same three operations applied, then a hunk without its context: all rolled back (directory n stays) *)
Example c12_ex_rollback_after_three_ops : apply_patch true [] ex_fs ex_patch_fail = Failed ex_after_fail EINVALDATA.
Proof. exact ex_fail_run. Qed.
Example c12_ex_malformed : parse_patch ex_bad_patch = None.
Proof. exact ex_malformed. Qed.
Example c12_ex_parsed : exists ops, parse_patch ex_patch_ok = Some ops /\ List.length ops = 3%nat.
Proof. exact ex_parsed. Qed.
(* repeated context: each hunk takes the first occurrence after the previous one; a third one finds none *)
Example c12_ex_hunks_forward : apply_hunks_lines ex_lines 0 [ex_h1; ex_h1] = Some ex_hunks_result.
Proof. exact ex_hunks_run. Qed.
Example c12_ex_hunks_missing_context : apply_hunks_lines ex_lines 0 [ex_h1; ex_h1; ex_h1] = None.
Proof. exact ex_hunks_fail. Qed.
Example c12_ex_lf_text : apply_hunks_to_text ex_lf_in [ex_lf_hunk] = Some ex_lf_out.
Proof. exact ex_text_lf. Qed.
