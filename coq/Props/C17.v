(* C17 — Captured process output is faithful; a task has one well-formed lifecycle.
   Statements only; proofs are in Proofs/CaptureProofs.v (+ Proofs/TaskLifecycleProofs.v).
   Every theorem is closed by `exact`.  `chunks` is ANY way the OS may cut the output into reads
   (sizes 0, 1, around the preview limit, 8192, the cap, inside multi-byte characters). *)
From RipV Require Import Base.Prelude Model.TaskLifecycle Model.Capture Proofs.CaptureProofs.

(* background tasks: the log of a stream is byte for byte the first `cap` bytes written, whatever the
   chunking, cap 0 included; the counters say so *)
Theorem c17_stored_is_prefix_log : forall (cap : N) (chunks : list bytes),
  let w := fst (lw_run (lw_new cap) chunks) in
  lw_file w = take cap (concat chunks)
  /\ lw_nstored w = nlen (lw_file w)
  /\ lw_total w = nlen (concat chunks)
  /\ lw_trunc w = (cap <? nlen (concat chunks)).
Proof. exact log_stored_is_prefix. Qed.
Print Assumptions c17_stored_is_prefix_log.

(* foreground shell tool: totals, the preview = first min(limit,total) bytes, and — iff more than the
   preview limit was written and the cap is not 0 — an artifact whose blob is byte for byte the first
   `amax` bytes written and whose id is the hash of exactly those bytes (H abstract: any hash) *)
Theorem c17_stored_is_prefix_capture : forall (H : bytes -> N) (pmax amax : N) (chunks : list bytes),
  let c := capture_stream H pmax amax chunks in
  let out := concat chunks in
  cp_bytes_total c = nlen out
  /\ cp_truncated c = (pmax <? nlen out)
  /\ cp_bytes_preview c = N.min pmax (nlen out)
  /\ cp_lines c = lines (lossy (take pmax out))
  /\ match cp_artifact c with
     | Some a => pmax < nlen out /\ amax <> 0
                 /\ cp_blob c = take amax out /\ a_id a = H (take amax out)
                 /\ a_bytes a = nlen (take amax out) /\ a_trunc a = (amax <? nlen out)
     | None => nlen out <= pmax \/ amax = 0
     end.
Proof. exact capture_stored_is_prefix. Qed.
Print Assumptions c17_stored_is_prefix_capture.

(* the (offset, bytes) ranges returned by the appends are consecutive from 0, end at the stored
   length, and each range holds in the final log exactly the stored part of its chunk *)
Theorem c17_append_ranges_tile : forall (cap : N) (chunks : list bytes),
  let '(w, is_) := lw_run (lw_new cap) chunks in
  consecutive 0 (map range_of is_)
  /\ tiles 0 (map range_of is_) = nlen (lw_file w)
  /\ ranges_hold (lw_file w) is_ chunks.
Proof. exact log_ranges_tile. Qed.
Print Assumptions c17_append_ranges_tile.

(* truncate_utf8 (inline previews of delta frames, pages, the shell preview): the text is the decoding
   of a byte prefix within the limit, and it IS that byte prefix whenever something was cut or the
   prefix is valid UTF-8 *)
Theorem c17_preview_prefix : forall (bs : bytes) (m : N),
  let '(t, tr, used) := truncate_utf8 bs m in
  tr = (m <? nlen bs) /\ used <= nlen bs /\ (tr = true -> used <= m) /\ (tr = false -> used = nlen bs)
  /\ t = lossy (take used bs)
  /\ (tr = true -> t = take used bs)
  /\ (utf8_ok (take used bs) = true -> t = take used bs).
Proof. exact truncate_utf8_spec. Qed.
Print Assumptions c17_preview_prefix.
