(* C17 — Captured process output is faithful; a task has one well-formed lifecycle.
   Statements only; proofs are in Proofs/CaptureProofs.v (+ Proofs/TaskLifecycleProofs.v).
   Every theorem is closed by `exact`.  `chunks` is ANY way the OS may cut the output into reads
   (sizes 0, 1, around the preview limit, 8192, the cap, inside multi-byte characters). *)
From RipV Require Import Base.Prelude Model.TaskLifecycle Model.Capture Proofs.CaptureProofs
  Proofs.TaskLifecycleProofs Proofs.PtyLifecycleProofs Gen.PumpJoin Gen.TaskFailSites.

(* background tasks: the log of a stream is byte for byte the first `cap` bytes written, whatever the
   chunking, cap 0 included; the counters say so *)
Theorem c17_stored_is_prefix_log : forall (cap : N) (chunks : list bytes),
  let w := fst (lw_run (lw_new cap) chunks) in
  lw_file w = take cap (concat chunks)
  /\ lw_nstored w = nlen (lw_file w)
  /\ lw_total w = nlen (concat chunks)
  /\ lw_trunc w = (cap <? nlen (concat chunks)).
Proof. exact log_stored_is_prefix. Qed.
Print Assumptions c17_stored_is_prefix_log.

(* foreground shell tool: totals, the preview = the first min(limit,total) bytes (minus an incomplete
   character at the cut when something was cut), and — iff more than the
   preview limit was written and the cap is not 0 — an artifact whose blob is byte for byte the first
   `amax` bytes written and whose id is the hash of exactly those bytes (H abstract: any hash) *)
Theorem c17_stored_is_prefix_capture : forall (H : bytes -> N) (pmax amax : N) (chunks : list bytes),
  let c := capture_stream H pmax amax chunks in
  let out := concat chunks in
  cp_bytes_total c = nlen out
  /\ cp_truncated c = (pmax <? nlen out)
  /\ (let pv := shell_preview (take pmax out) (pmax <? nlen out) in
      cp_bytes_preview c = nlen pv /\ cp_lines c = lines (lossy pv) /\ nlen pv <= pmax)
  /\ match cp_artifact c with
     | Some a => pmax < nlen out /\ amax <> 0
                 /\ cp_blob c = take amax out /\ a_id a = H (take amax out)
                 /\ a_bytes a = nlen (take amax out) /\ a_trunc a = (amax <? nlen out)
     | None => nlen out <= pmax \/ amax = 0
     end.
Proof. exact capture_stored_is_prefix. Qed.
Print Assumptions c17_stored_is_prefix_capture.

(* the (offset, bytes) ranges returned by the appends are consecutive from 0, end at the stored
   length, and each range holds in the final log exactly the stored part of its chunk *)
Theorem c17_append_ranges_tile : forall (cap : N) (chunks : list bytes),
  let '(w, is_) := lw_run (lw_new cap) chunks in
  consecutive 0 (map range_of is_)
  /\ tiles 0 (map range_of is_) = nlen (lw_file w)
  /\ ranges_hold (lw_file w) is_ chunks.
Proof. exact log_ranges_tile. Qed.
Print Assumptions c17_append_ranges_tile.

(* truncate_utf8 (inline previews of delta frames, pages, the shell preview): the text is the decoding
   of a byte prefix within the limit, and it IS that byte prefix whenever something was cut or the
   prefix is valid UTF-8 *)
Theorem c17_preview_prefix : forall (bs : bytes) (m : N),
  let '(t, tr, used) := truncate_utf8 bs m in
  tr = (m <? nlen bs) /\ used <= nlen bs /\ (tr = true -> used <= m) /\ (tr = false -> used = nlen bs)
  /\ t = lossy (take used bs)
  /\ (tr = true -> t = take used bs)
  /\ (utf8_ok (take used bs) = true -> t = take used bs).
Proof. exact truncate_utf8_spec. Qed.
Print Assumptions c17_preview_prefix.

(* the output pump: it stores what the log writer stores, every chunk gets one delta frame carrying the
   append's range, so the ranges referenced by the output frames are consecutive, non-overlapping,
   cover [0, stored) and name their chunk's bytes — for every chunking, cap and preview limit, 0
   included *)
Theorem c17_frame_ranges_tile : forall (cap plimit : N) (chunks : list bytes),
  let '(w, fs) := pump cap plimit chunks in
  w = fst (lw_run (lw_new cap) chunks)
  /\ map df_info fs = snd (lw_run (lw_new cap) chunks)
  /\ consecutive 0 (map range_of (map df_info fs))
  /\ tiles 0 (map range_of (map df_info fs)) = nlen (lw_file w)
  /\ ranges_hold (lw_file w) (map df_info fs) chunks.
Proof. exact pump_frames_tile. Qed.
Print Assumptions c17_frame_ranges_tile.

(* the inline previews of the delta frames: valid UTF-8 output, every read at least 3 bytes below the
   per-frame limit min(max_bytes, 8192): the previews concatenate to the output exactly, however the
   reads split multi-byte characters (S20 repaired: an incomplete character is carried to the next
   frame) *)
Theorem c17_delta_previews_exact : forall (cap plimit : N) (chunks : list bytes),
  utf8_ok (concat chunks) = true ->
  Forall (fun c => nlen c + 3 <= N.min plimit OUTPUT_EVENT_MAX_BYTES) chunks ->
  concat (map df_preview (snd (pump cap plimit chunks))) = concat chunks.
Proof. exact delta_previews_exact. Qed.
Print Assumptions c17_delta_previews_exact.

(* S20 — the pump that decodes every read on its own (the code before the repair): "éé" read as
   1 + 3 bytes gives previews with U+FFFD.  The witness meets the hypotheses of the theorem above. *)
Theorem c17_delta_previews_perchunk_refuted :
  exists cap plimit chunks,
    utf8_ok (concat chunks) = true
    /\ Forall (fun c => nlen c + 3 <= N.min plimit OUTPUT_EVENT_MAX_BYTES) chunks
    /\ concat (map df_preview (snd (pump_perchunk cap plimit chunks))) <> concat chunks.
Proof. exact delta_previews_perchunk_refuted. Qed.
Print Assumptions c17_delta_previews_perchunk_refuted.

(* S17 — the pump before the repair (frame only when the preview is non-empty): with preview limit 0
   the frames' ranges do not cover the stored log.  Replayed on the real code, fixed in /repo. *)
Theorem c17_frame_ranges_unfixed_refuted :
  exists cap plimit chunks,
    let '(w, fs) := pump_unfixed cap plimit chunks in
    tiles 0 (map range_of (map df_info fs)) <> nlen (lw_file w).
Proof. exact pump_unfixed_ranges_refuted. Qed.
Print Assumptions c17_frame_ranges_unfixed_refuted.

(* S12 — the range reader before the repair: a valid UTF-8 log read in pages of >= 4 bytes, each page
   advancing by the reported `bytes`, does not concatenate to the log ("aééé", pages of 4). *)
Theorem c17_pages_unfixed_refuted :
  exists file maxb fuel,
    utf8_ok file = true /\ 4 <= maxb
    /\ concat (map pg_content (page_walk read_range_unfixed fuel file 0 maxb)) <> file.
Proof. exact pages_unfixed_refuted. Qed.
Print Assumptions c17_pages_unfixed_refuted.

(* reading stored output page by page: a valid UTF-8 log read in pages of >= 4 bytes (the widest
   character), each page starting where the previous one said it ended (offset + bytes), comes back
   exactly — the page texts concatenate to the log and the byte counts add up to its length *)
Theorem c17_pages_reassemble : forall (file : bytes) (maxb : N) (fuel : nat),
  utf8_ok file = true -> 4 <= maxb -> nlen file < N.of_nat fuel ->
  let ps := page_walk read_range fuel file 0 maxb in
  concat (map pg_content ps) = file /\ sumN (map pg_bytes ps) = nlen file.
Proof. exact pages_reassemble. Qed.
Print Assumptions c17_pages_reassemble.

Example c17_pages_reassemble_hyp :
  utf8_ok s12_file = true /\ 4 <= 4 /\ nlen s12_file < N.of_nat 20
  /\ map pg_bytes (page_walk read_range 20 s12_file 0 4) = [3; 4].
Proof. exact pages_hyp_example. Qed.

(* for EVERY log (binary included) and every max_bytes >= 1 the pages' byte ranges tile the log *)
Theorem c17_pages_tile_any_file : forall (file : bytes) (maxb : N) (fuel : nat),
  1 <= maxb -> nlen file < N.of_nat fuel ->
  sumN (map pg_bytes (page_walk read_range fuel file 0 maxb)) = nlen file.
Proof. exact pages_tile_any_file. Qed.
Print Assumptions c17_pages_tile_any_file.

(* the shell tool's inline preview of valid UTF-8 output is exactly a byte prefix of the output
   (never an invented U+FFFD), also when the limit falls inside a character (S19 repaired) *)
Theorem c17_shell_preview_exact : forall (pmax : N) (out : bytes),
  utf8_ok out = true ->
  let pv := shell_preview (take pmax out) (pmax <? nlen out) in
  lossy pv = pv /\ exists rest, out = pv ++ rest.
Proof. exact shell_preview_exact. Qed.
Print Assumptions c17_shell_preview_exact.

Example c17_shell_preview_hyp :
  utf8_ok s19_out = true /\ shell_preview (take 3 s19_out) (3 <? nlen s19_out) = [195; 169].
Proof. exact shell_preview_example. Qed.

(* ---------------- lifecycle ----------------
   `run sched` executes ANY list of actions of the waiter, the two output pumps, the child and cancel
   requests (disabled actions are skipped, so every list is a schedule: every interleaving, a cancel
   at any moment, repeated cancels, early EOF, wait failures, refused requests).  The frames emitted
   are a prefix of a word of  Spawned · Running? · Delta* · (CancelReq · Delta* · Cancelled)? · Status
   and a complete word exactly when the waiter has finished. *)
Theorem c17_lifecycle : forall sched : list act,
  let s := run sched in
  let t := trace s in
  r_prefix_ok (recognise t) = true /\ (s_main s = MEnd <-> r_complete (recognise t) = true).
Proof. exact lifecycle_language. Qed.
Print Assumptions c17_lifecycle.

(* S12b — run_task before the repair: a refused request (unsupported tool / invalid args / artifacts
   dir) failed before the spawn frame; the stream was the single frame `Status failed`, which does not
   open with a spawn frame.  Replayed on the real code (POST /tasks with args {"command": 17}), fixed. *)
Theorem c17_spawnless_opening_unfixed_refuted :
  exists sched, trace (run_unfixed sched) = [LStatus 4]
                /\ r_prefix_ok (recognise (trace (run_unfixed sched))) = false.
Proof. exact spawnless_unfixed_refuted. Qed.
Print Assumptions c17_spawnless_opening_unfixed_refuted.

(* nothing follows the terminal status frame, whatever happens afterwards *)
Theorem c17_terminal_is_last : forall sched more : list act,
  s_main (run sched) = MEnd -> trace (run (sched ++ more)) = trace (run sched).
Proof. exact terminal_is_last. Qed.
Print Assumptions c17_terminal_is_last.

(* frames are only appended *)
Theorem c17_trace_monotone : forall sched more : list act,
  exists suffix, trace (run (sched ++ more)) = trace (run sched) ++ suffix.
Proof. exact trace_monotone. Qed.
Print Assumptions c17_trace_monotone.

(* what the recogniser accepts, spelled out: one spawn frame first, running at most once and right
   after it, deltas only while running, a cancel request before the cancelled frame, exactly one
   terminal status and it is last *)
Theorem c17_language_shape : forall t : list lev, shape (recognise t) t.
Proof. exact recognise_shape. Qed.
Print Assumptions c17_language_shape.

Example c17_cancelled_task :
  trace (run sched_cancel)
  = [LSpawned; LRunning; LDelta 0; LDelta 1; LCancelReq; LDelta 0; LCancelled; LStatus 3]
  /\ s_main (run sched_cancel) = MEnd.
Proof. exact sched_cancel_trace. Qed.

(* ---------------- T1: the pumps are joined before the terminal frame ----------------
   `gen_pipes_waiter` (Gen/PumpJoin.v) is REGENERATED from run_pipes_task on every run: the waiter's steps
   in source order, with HOW each pump handle is waited for (JAwait = `h.await` as a statement of the body;
   JBounded = anything else: inside timeout(..)/select!, handed to a helper, aborted, dropped).
   `gen_pump_join_ok` is the generated obligation skel_wf gen_pipes_waiter = true.  `run_w ops` is the
   system whose waiter leaves the join step as soon as every pump it REALLY waits for has returned. *)
Theorem c17_lifecycle_any_waiter : forall ops : list wop, skel_wf ops = true -> forall sched : list act,
  let s := run_w ops sched in
  let t := trace s in
  r_prefix_ok (recognise t) = true /\ (s_main s = MEnd <-> r_complete (recognise t) = true).
Proof. exact lifecycle_language_skel. Qed.
Print Assumptions c17_lifecycle_any_waiter.

Example c17_waiter_canonical_wf : skel_wf waiter_canonical = true.
Proof. exact waiter_canonical_wf. Qed.

Theorem c17_lifecycle_code : forall sched : list act,
  let s := run_w gen_pipes_waiter sched in
  let t := trace s in
  r_prefix_ok (recognise t) = true /\ (s_main s = MEnd <-> r_complete (recognise t) = true).
Proof. exact (lifecycle_language_skel gen_pipes_waiter gen_pump_join_ok). Qed.
Print Assumptions c17_lifecycle_code.

Theorem c17_terminal_is_last_code : forall sched more : list act,
  s_main (run_w gen_pipes_waiter sched) = MEnd ->
  trace (run_w gen_pipes_waiter (sched ++ more)) = trace (run_w gen_pipes_waiter sched).
Proof. exact (terminal_is_last_skel gen_pipes_waiter gen_pump_join_ok). Qed.
Print Assumptions c17_terminal_is_last_code.

(* once the terminal frame is out no pump reads any more: nothing is appended to a log and no delta frame
   can be produced, whatever the process tree does afterwards — the byte counts of the terminal frame's
   summaries are those of the stored logs *)
Theorem c17_log_frozen_after_terminal_code : forall (sched more : list act) (i : N),
  s_main (run_w gen_pipes_waiter sched) = MEnd ->
  step (run_w gen_pipes_waiter (sched ++ more)) (APumpEmit i) = None
  /\ step (run_w gen_pipes_waiter (sched ++ more)) (APumpSilent i) = None.
Proof. exact (no_append_after_terminal_skel gen_pipes_waiter gen_pump_join_ok). Qed.
Print Assumptions c17_log_frozen_after_terminal_code.

(* seed C17-1 — the wait for the pumps bounded by a timeout (same steps, same order, only the join kind
   differs): the shell exits, the waiter gives up, a descendant's late output follows the terminal frame *)
Theorem c17_bounded_join_refuted :
  exists (ops : list wop) (sched more : list act),
    map wop_shape ops = map wop_shape waiter_canonical
    /\ s_main (run_w ops sched) = MEnd
    /\ trace (run_w ops (sched ++ more)) <> trace (run_w ops sched)
    /\ r_prefix_ok (recognise (trace (run_w ops (sched ++ more)))) = false.
Proof. exact bounded_join_refuted. Qed.
Print Assumptions c17_bounded_join_refuted.

(* the obligation is necessary: EVERY join discipline other than "both handles awaited unconditionally"
   has a schedule in which a frame follows the terminal frame *)
Theorem c17_unjoined_pump_refuted : forall j : join_spec, join_wf j = false ->
  exists (sched more : list act),
    s_main (run_j j sched) = MEnd
    /\ trace (run_j j (sched ++ more)) <> trace (run_j j sched)
    /\ r_prefix_ok (recognise (trace (run_j j (sched ++ more)))) = false.
Proof. exact unjoined_pump_refutes. Qed.
Print Assumptions c17_unjoined_pump_refuted.

(* ---------------- the cancel channel as run_task subscribes to it today ----------------
   OBSERVATION (replayed on the real code: corpus/C17/task_early_cancel.json; not a violation of the property,
   which orders the cancel-request frame and the cancelled status when they exist): `run_sub` is `run` with
   run_task's `cancel_tx.subscribe()` as its first statement — the value current at that moment counts as seen.
   However many requests were acknowledged (202) before run_task started, and whatever happens afterwards short
   of a NEW request, no cancel-request frame (hence no cancelled status) ever appears. *)
Theorem c17_early_cancel_never_recorded : forall (n : nat) (more : list act),
  (forall a, In a more -> a <> ACancel) ->
  ~ In LCancelReq (trace (run_sub (repeat ACancel n ++ ASpawnFrame :: more))).
Proof. exact early_cancel_never_recorded. Qed.
Print Assumptions c17_early_cancel_never_recorded.

Example c17_early_cancel_example :
  trace (run_sub [ACancel; ASpawnFrame; AStartRunning; ATakeCancel; AChildExit; AWaitReturns true;
                  APumpEof 0; APumpEof 1; AJoined; AEmitFinal]) = [LSpawned; LRunning; LStatus 2]
  /\ trace (run_sub [ASpawnFrame; ACancel; AStartRunning; ATakeCancel; AChildExit; AKillWaitReturns true;
                     APumpEof 0; APumpEof 1; AJoined; AEmitCancelled; AEmitFinal])
     = [LSpawned; LRunning; LCancelReq; LCancelled; LStatus 3].
Proof. exact early_cancel_example. Qed.

(* the lifecycle theorem for this refinement as well (c17_lifecycle covers it and a run_task that would
   notice the early request) *)
Theorem c17_lifecycle_subscribed : forall sched : list act,
  let s := run_sub sched in
  let t := trace s in
  r_prefix_ok (recognise t) = true /\ (s_main s = MEnd <-> r_complete (recognise t) = true).
Proof. exact lifecycle_language_sub. Qed.
Print Assumptions c17_lifecycle_subscribed.

(* ---------------- T1: the refusal / failure paths ----------------
   `gen_fail_sites` (Gen/TaskFailSites.v) is REGENERATED from run_task / run_pipes_task / run_pty_task on every
   run: one entry per `fail_task(..)` call — where it sits (before the spawn-frame emit / after it and before
   Running / after Running) and whether the function returns right after it; `gen_fail_sites_ok` is the generated
   obligation sites_wf gen_fail_sites = true.  `run_f sites` is the system in which a failure is the failure of
   the k-th site (FFail k) instead of the abstract APostSpawnFail. *)
Theorem c17_lifecycle_any_fail_sites : forall sites : list fail_site, sites_wf sites = true ->
  forall sched : list act_f,
  let s := run_f sites sched in
  let t := trace s in
  r_prefix_ok (recognise t) = true /\ (s_main s = MEnd <-> r_complete (recognise t) = true).
Proof. exact lifecycle_language_sites. Qed.
Print Assumptions c17_lifecycle_any_fail_sites.

Theorem c17_lifecycle_fail_sites_code : forall sched : list act_f,
  let s := run_f gen_fail_sites sched in
  let t := trace s in
  r_prefix_ok (recognise t) = true /\ (s_main s = MEnd <-> r_complete (recognise t) = true).
Proof. exact (lifecycle_language_sites gen_fail_sites gen_fail_sites_ok). Qed.
Print Assumptions c17_lifecycle_fail_sites_code.

Theorem c17_terminal_is_last_fail_sites_code : forall sched more : list act_f,
  s_main (run_f gen_fail_sites sched) = MEnd ->
  trace (run_f gen_fail_sites (sched ++ more)) = trace (run_f gen_fail_sites sched).
Proof. exact (terminal_is_last_sites gen_fail_sites gen_fail_sites_ok). Qed.
Print Assumptions c17_terminal_is_last_fail_sites_code.

(* a task that ended without ever reporting running was refused: its whole stream is Spawned . Status failed
   (what POST /tasks with invalid args, a cwd outside the workspace, a PATH without bash or an uncreatable
   artifacts dir produce on the real code: harness variants 2, 3, 9, 10) *)
Theorem c17_refused_stream_shape : forall sched : list act,
  s_main (run sched) = MEnd -> ~ In LRunning (trace (run sched)) -> trace (run sched) = [LSpawned; LStatus 4].
Proof. exact refused_stream_shape. Qed.
Print Assumptions c17_refused_stream_shape.

(* necessity: a site list with ANY site that sits before the spawn frame (S12b), after Running, or does not
   return has a schedule whose frames leave the language *)
Theorem c17_bad_fail_site_refuted : forall sites : list fail_site, sites_wf sites = false ->
  exists sched : list act_f, r_prefix_ok (recognise (trace (run_f sites sched))) = false.
Proof. exact bad_site_refutes. Qed.
Print Assumptions c17_bad_fail_site_refuted.

Example c17_fail_sites_example :
  sites_wf [{| fs_where := FAfterSpawn; fs_returns := true |}; {| fs_where := FAfterSpawn; fs_returns := true |}] = true
  /\ trace (run_f [{| fs_where := FAfterSpawn; fs_returns := true |}] [FFail 0; FAct ASpawnFrame; FFail 0; FFail 0; FAct AStartRunning])
     = [LSpawned; LStatus 4].
Proof. exact sites_example. Qed.

(* ---------------- PTY tasks (run_pty_task) ----------------
   `prun keeps sched` executes ANY list of actions of the PTY waiter's loop (its four select arms, the loop exit, the
   closing emits) and of its four event sources: the child (exit), the cancel channel, the control channel (stdin /
   resize / signal requests) and the reader thread (chunks read from the master side, end of output once every
   descriptor of the slave side is closed).  `keeps` = the authority keeps its own descriptor of the slave side (the
   code before /repo 35c2d72).  For BOTH values the frames are a prefix of a word of
     Spawned . Running? . (Delta|Ack)* . (CancelReq . (Delta|Ack)* . Cancelled)? . Status
   (Ack = stdin_written / resized / signalled) and a complete word exactly when the waiter has finished. *)
Theorem c17_pty_lifecycle : forall (keeps : bool) (sched : list pact),
  let s := prun keeps sched in
  let t := ptrace s in
  r_prefix_ok (precognise t) = true /\ (q_pc s = QEnd <-> r_complete (precognise t) = true).
Proof. exact pty_lifecycle_language. Qed.
Print Assumptions c17_pty_lifecycle.

(* nothing follows the terminal status frame of a PTY task, whatever the four sources do afterwards *)
Theorem c17_pty_terminal_is_last : forall (keeps : bool) (sched more : list pact),
  q_pc (prun keeps sched) = QEnd -> ptrace (prun keeps (sched ++ more)) = ptrace (prun keeps sched).
Proof. exact pty_terminal_is_last. Qed.
Print Assumptions c17_pty_terminal_is_last.

Example c17_pty_cancelled_task :
  map pev_code (ptrace (prun false sched_pty_cancel)) = [0; 1; 12; 30; 31; 2; 12; 3; 23]
  /\ q_pc (prun false sched_pty_cancel) = QEnd.
Proof. exact sched_pty_cancel_trace. Qed.

(* the task ENDS: from every reachable state of the waiter that dropped the slave there is a finite continuation (the
   process terminates, the slave side is closed, the reader sees the end, the loop consumes what is queued) after
   which the terminal status has been emitted *)
Theorem c17_pty_task_can_always_end : forall sched : list pact, exists more : list pact,
  q_pc (prun false (sched ++ more)) = QEnd.
Proof. exact pty_can_always_end. Qed.
Print Assumptions c17_pty_task_can_always_end.

(* T1: `gen_pty_keeps_slave` (Gen/PumpJoin.v) is REGENERATED from run_pty_task on every run: false iff `<pair>.slave`
   is mentioned exactly twice - by spawn_command and by a body-level drop(..) between the spawn and the wait loop -
   and the pair is not moved or forgotten; `gen_pty_slave_ok` is the generated obligation *)
Theorem c17_pty_task_can_always_end_code : forall sched : list pact, exists more : list pact,
  q_pc (prun gen_pty_keeps_slave (sched ++ more)) = QEnd.
Proof. exact (eq_ind_r (fun k => forall sched, exists more, q_pc (prun k (sched ++ more)) = QEnd) pty_can_always_end gen_pty_slave_ok). Qed.
Print Assumptions c17_pty_task_can_always_end_code.

(* S29 - the code before /repo 35c2d72 (the authority keeps the slave side open: the master never reports end of
   output).  Once such a task is running it is in its loop in EVERY finite run: no terminal status, ever. *)
Theorem c17_pty_kept_slave_never_terminal : forall sched : list pact,
  let s := prun true sched in
  In (PE LRunning) (ptrace s) -> q_pc s = QLoop /\ r_complete (precognise (ptrace s)) = false.
Proof. exact pty_kept_slave_never_terminal. Qed.
Print Assumptions c17_pty_kept_slave_never_terminal.

(* the witness (`echo hi` on a terminal; replayed on the real code: corpus/C17/s29_pty_echo.json with 35c2d72
   reverted): the same events end the repaired task and leave the old one running whatever happens afterwards *)
Theorem c17_pty_output_never_closes_refuted :
  exists sched : list pact,
    q_pc (prun false sched) = QEnd
    /\ In (PE LRunning) (ptrace (prun true sched))
    /\ forall more : list pact,
         q_pc (prun true (sched ++ more)) = QLoop /\ r_complete (precognise (ptrace (prun true (sched ++ more)))) = false.
Proof. exact pty_output_never_closes_refuted. Qed.
Print Assumptions c17_pty_output_never_closes_refuted.

(* once the terminal frame is out the waiter takes no chunk from the reader's channel, handles no control request and
   no cancel request: no append to the log, no frame, whatever the four sources do - the summary's counts are final *)
Theorem c17_pty_frozen_after_terminal : forall (keeps : bool) (sched more : list pact) (ap : bool),
  q_pc (prun keeps sched) = QEnd ->
  pstep keeps (prun keeps (sched ++ more)) QLoopChunk = None
  /\ pstep keeps (prun keeps (sched ++ more)) (QLoopCtl ap) = None
  /\ pstep keeps (prun keeps (sched ++ more)) QLoopCancel = None.
Proof. exact pty_frozen_after_terminal. Qed.
Print Assumptions c17_pty_frozen_after_terminal.

(* what the PTY recogniser accepts, spelled out: one spawn frame first, running right after it, output frames and
   acknowledgements only while running, a cancel request before the cancelled frame, exactly one terminal status, last *)
Theorem c17_pty_language_shape : forall t : list pev, pshape (precognise t) t.
Proof. exact precognise_shape. Qed.
Print Assumptions c17_pty_language_shape.
