(* C05 — a crash at any write boundary leaves a store that restarts gap-free.
   Statements only; proofs are in Proofs/CrashProofs.v, the model in Model/Crash.v.
   `crash fixed k hist` = the disk after the first k instructions (file-system effects, in-memory updates and
   named crash points, in source order) of ANY history, every volatile thing (BufWriter contents, next_seq map,
   in-memory index) dropped, then ContinuityStore::new;  `run_ops fixed … base more` = ANY further operations.
   `env_runb` = the environment's part (fresh UUIDs: a thread id chosen for creation is not in the log, a
   session whose counter is not in memory is new).  `fixed` = /repo with the two repairs (bd2ee56, 0b0d2b0). *)
From RipV Require Import Base.Prelude Model.CrashCold Model.Crash Proofs.CrashProofs Proofs.CrashCacheProofs Proofs.CrashIndexProofs Proofs.CrashArtifactProofs Proofs.CrashRoundsProofs Proofs.CrashColdProofs Gen.CrashEffects Proofs.CrashGenProofs.

(* whole store replays, every stream 0,1,2,.., whole lines only *)
Theorem c05_recover_valid : forall (hist : list op) (k : nat) (base : N) (more : list op),
  env_runb fixed init 0 hist = true -> nlen hist <= base ->
  env_runb fixed (crash fixed k hist) base more = true ->
  exists fs, replay_validated (run_ops fixed (crash fixed k hist) base more) = Some fs
             /\ Numbered fs
             /\ truth (run_ops fixed (crash fixed k hist) base more) = enc fs.
Proof. exact recover_valid. Qed.
Print Assumptions c05_recover_valid.

(* what rip-log's validator accepts is exactly "each frame carries the number of earlier frames of its stream" *)
Theorem c05_validated_is_numbered : forall fs : list frame, validate fs = true -> Numbered fs.
Proof. exact validate_numbered. Qed.
Print Assumptions c05_validated_is_numbered.

(* every append acknowledged before the crash or after the restart is in the log exactly once *)
Theorem c05_acked_exactly_once : forall (hist : list op) (k : nat) (base : N) (more : list op),
  env_runb fixed init 0 hist = true -> nlen hist <= base ->
  env_runb fixed (crash fixed k hist) base more = true ->
  exists fs, replay_validated (run_ops fixed (crash fixed k hist) base more) = Some fs
             /\ forall fid, In fid (acks (crash fixed k hist))
                            \/ In fid (acks (run_ops fixed (crash fixed k hist) base more)) ->
                            cfid fid fs = 1.
Proof. exact acked_exactly_once. Qed.
Print Assumptions c05_acked_exactly_once.

(* the torn-line question for the single-write append: at EVERY crash point the log is a sequence of whole
   lines that validates (never a partial line, so restart never appends onto one) *)
Theorem c05_crash_leaves_whole_lines : forall (hist : list op) (k : nat),
  env_runb fixed init 0 hist = true ->
  exists fs, truth (crash fixed k hist) = enc fs /\ validate fs = true
             /\ torn (truth (crash fixed k hist)) = false
             /\ replay_validated (crash fixed k hist) = Some fs.
Proof. exact crash_whole_lines. Qed.
Print Assumptions c05_crash_leaves_whole_lines.

(* numbering continues: the first locked append to a thread after restart is refused (thread not in the log)
   or gets seq = the number of frames the thread has in the recovered log — whatever the sidecar says *)
Theorem c05_numbering_continues : forall (hist : list op) (k : nat) (base c len : N) (fs0 : list frame),
  env_runb fixed init 0 hist = true -> nlen hist <= base ->
  replay_validated (crash fixed k hist) = Some fs0 ->
  replay_validated (run_ops fixed (crash fixed k hist) base [OAppend c len]) = Some fs0
  \/ replay_validated (run_ops fixed (crash fixed k hist) base [OAppend c len])
     = Some (fs0 ++ [mkf (2 * c) (cnt (2 * c) fs0) (4 * base) len None]).
Proof. exact numbering_continues. Qed.
Print Assumptions c05_numbering_continues.

(* the hypotheses are satisfiable: a history with every kind of operation (frames below and above the
   BufWriter capacity, checkpoint, branch, handoff, cache loss), killed at instruction 230, restarted,
   continued; 8 acknowledgements before the crash, 12 at the end *)
Example c05_hypotheses_satisfiable :
  env_runb fixed init 0 ex_hist = true /\ nlen ex_hist <= 10
  /\ env_runb fixed (crash fixed 230 ex_hist) 10 ex_more = true
  /\ nlen (acks (crash fixed 230 ex_hist)) = 8
  /\ nlen (acks (run_ops fixed (crash fixed 230 ex_hist) 10 ex_more)) = 12.
Proof. exact ex_env. Qed.
Print Assumptions c05_hypotheses_satisfiable.

(* S7 (repaired by /repo bd2ee56): with the two-write append (`v_s7`) a crash between body and newline of an
   8 192-byte frame leaves a torn line; the acknowledged follow-up append is glued onto it; replay fails *)
Theorem c05_torn_line_unfixed_refuted :
  env_runb v_s7 init 0 s7_hist = true /\ env_runb v_s7 (crash v_s7 38 s7_hist) 2 s7_more = true
  /\ has_ok (compile v_s7 (crash v_s7 38 s7_hist) 2 (OAppend 0 10)) = true
  /\ replay_validated (run_ops v_s7 (crash v_s7 38 s7_hist) 2 s7_more) = None
  /\ torn (truth (crash v_s7 38 s7_hist)) = true.
Proof. exact s7_witness. Qed.
Print Assumptions c05_torn_line_unfixed_refuted.

(* S3 (repaired by /repo 0b0d2b0): numbering from the sidecar tail (`v_s3`) after a crash between the
   truth-log flush and the sidecar append re-issues a seq; the recovered log was valid, the acknowledged
   follow-up append makes replay fail *)
Theorem c05_dup_after_crash_unfixed_refuted :
  env_runb v_s3 init 0 s3_hist = true /\ env_runb v_s3 (crash v_s3 64 s3_hist) 3 s3_more = true
  /\ has_ok (compile v_s3 (crash v_s3 64 s3_hist) 3 (OAppend 0 10)) = true
  /\ replay_validated (crash v_s3 64 s3_hist) <> None
  /\ replay_validated (run_ops v_s3 (crash v_s3 64 s3_hist) 3 s3_more) = None.
Proof. exact s3_witness. Qed.
Print Assumptions c05_dup_after_crash_unfixed_refuted.

(* the flush after EVERY frame is needed: were output-chunk frames of session / task streams left in the
   BufWriter (`v_nf`; seeded change "the closing frame flushes them"), the acknowledged append (frame 4) would be
   absent from the disk of a process that dies right after the call returned; with `fixed` it is there once *)
Theorem c05_unflushed_ack_unfixed_refuted :
  env_runb v_nf init 0 nf_hist = true
  /\ In 4 (acks (crash v_nf 1000 nf_hist))
  /\ cfid 4 (frames_of (truth (crash v_nf 1000 nf_hist))) = 0
  /\ cfid 4 (frames_of (truth (crash fixed 1000 nf_hist))) = 1.
Proof. exact nf_witness. Qed.
Print Assumptions c05_unflushed_ack_unfixed_refuted.

(* OPEN (read side of S3, KNOWN_FINDINGS class full_sidecar_wellformed_stale_prefix): "the caches are
   reconciled or ignored" is false of the recovered store — after a crash between the truth-log flush and the
   sidecar append, replay_events serves the well-formed sidecar, a proper prefix of the thread's stream *)
Theorem c05_caches_reconciled_after_crash_refuted :
  env_runb fixed init 0 stale_hist = true
  /\ snd (replay_events (crash fixed 43 stale_hist) 0) = Some [mkf 0 0 0 300 None]
  /\ stream 0 (frames_of (truth (crash fixed 43 stale_hist))) = [mkf 0 0 0 300 None; mkf 0 1 4 10 None].
Proof. exact stale_witness. Qed.
Print Assumptions c05_caches_reconciled_after_crash_refuted.

(* The positive half of the last clause, for the full sidecar (second invariant SOK: every full sidecar on disk
   is, at EVERY instruction boundary, a chunk-prefix of the thread's perfect sidecar, or something try_replay
   refuses now and after any later appended line): what try_replay ACCEPTS after any crash point, restart and any
   further operations is a PREFIX of the thread's stream in the truth log — stale at worst, never inconsistent
   (no hole, no foreign or duplicated frame, no frame the log does not hold) *)
Theorem c05_caches_after_crash : forall (hist : list op) (k : nat) (base : N) (more : list op) (c : N) (evs : list frame),
  env_runb fixed init 0 hist = true -> nlen hist <= base ->
  env_runb fixed (crash fixed k hist) base more = true ->
  try_replay (run_ops fixed (crash fixed k hist) base more) c = Some evs ->
  exists fs rest, replay_validated (run_ops fixed (crash fixed k hist) base more) = Some fs
                  /\ stream (2 * c) fs = evs ++ rest.
Proof. exact caches_after_crash. Qed.
Print Assumptions c05_caches_after_crash.

(* "reconciled or ignored" for replay_events on the recovered store: it answers (never Err) with a prefix of the
   thread's stream, and when try_replay refuses the sidecar (absent, torn-and-glued, hole, wrong numbering) the
   answer is the whole stream read from the truth log (the sidecar is ignored and rebuilt) *)
Theorem c05_replay_events_after_crash : forall (hist : list op) (k : nat) (base : N) (more : list op) (c : N),
  env_runb fixed init 0 hist = true -> nlen hist <= base ->
  env_runb fixed (crash fixed k hist) base more = true ->
  exists fs evs rest, replay_validated (run_ops fixed (crash fixed k hist) base more) = Some fs
    /\ snd (replay_events (run_ops fixed (crash fixed k hist) base more) c) = Some evs
    /\ stream (2 * c) fs = evs ++ rest
    /\ (try_replay (run_ops fixed (crash fixed k hist) base more) c = None -> rest = []).
Proof. exact replay_events_after_crash. Qed.
Print Assumptions c05_replay_events_after_crash.

(* the hypotheses of c05_caches_after_crash are met by the open finding's state: the stale sidecar is accepted *)
Example c05_caches_after_crash_nonvacuous :
  env_runb fixed init 0 stale_hist = true /\ nlen stale_hist <= 2 /\ env_runb fixed (crash fixed 43 stale_hist) 2 [] = true
  /\ try_replay (run_ops fixed (crash fixed 43 stale_hist) 2 []) 0 = Some [mkf 0 0 0 300 None].
Proof. exact stale_is_prefix. Qed.
Print Assumptions c05_caches_after_crash_nonvacuous.

(* ---- the thread index (continuities/index.json) across a crash.  save_index = write the temp file, rename it over
   index.json.  For EVERY code version, EVERY history and EVERY number k of executed instructions (no hypothesis): with
   n = the number of operations complete after k instructions, the index on disk is the one a clean run of the first n
   operations leaves (OLD) or the one the first n+1 leave (NEW) — never none, never something in between *)
Theorem c05_rename_atomic_views : forall (v : ver) (hist : list op) (k : nat),
  idx (crash v k hist) = idx (run_ops v init 0 (firstn (done_ops v k init 0 hist) hist))
  \/ idx (crash v k hist) = idx (run_ops v init 0 (firstn (S (done_ops v k init 0 hist)) hist)).
Proof. exact crash_atomic_views. Qed.
Print Assumptions c05_rename_atomic_views.

(* what ANY completed (= acknowledged) operation left in index.json is still there after a crash at ANY later
   instruction, restart and ANY further operations (`idx_ext a b`: if a exists then b exists, lists every thread a
   lists, and has a's default thread if a has one) *)
Theorem c05_index_never_loses : forall (v : ver) (hist : list op) (k j : nat) (base : N) (more : list op),
  (j <= done_ops v k init 0 hist)%nat ->
  idx_ext (idx (run_ops v init 0 (firstn j hist))) (idx (run_ops v (crash v k hist) base more)).
Proof. exact index_never_loses. Qed.
Print Assumptions c05_index_never_loses.

(* the default thread a completed operation had on disk is what the restarted store answers ensure_default with
   (from its index: no log scan, no new thread) *)
Theorem c05_default_survives : forall (v : ver) (hist : list op) (k j : nat) (x : idxv) (d c len : N),
  (j <= done_ops v k init 0 hist)%nat ->
  idx (run_ops v init 0 (firstn j hist)) = Some x -> ix_default x = Some d ->
  ix_default (midx (crash v k hist)) = Some d /\ compile v (crash v k hist) (nlen hist) (OEnsure c len) = [IOk].
Proof. exact default_survives. Qed.
Print Assumptions c05_default_survives.

(* the index is saved BEFORE the call returns: a branch / handoff that returns Ok has its child listed on disk, an
   ensure_default that returns Ok has the default it answers on disk (`K` = memory index equals disk index, true of
   `init`, of every restarted store and after every operation) *)
Theorem c05_created_thread_listed : forall (v : ver) (s : st) (i : N) (o : op) (p c : N), K s ->
  (exists l0 l1, o = OBranch p c l0 l1) \/ (exists a l0 l1, o = OHandoff p c a l0 l1) ->
  has_ok (compile v s i o) = true ->
  exists x, idx (run_instrs s (compile v s i o)) = Some x /\ In c (ix_known x).
Proof. exact created_listed. Qed.
Print Assumptions c05_created_thread_listed.

Theorem c05_ensured_default_on_disk : forall (v : ver) (s : st) (i c len : N), K s ->
  has_ok (compile v s i (OEnsure c len)) = true ->
  exists x d, idx (run_instrs s (compile v s i (OEnsure c len))) = Some x /\ ix_default x = Some d
              /\ ix_default (midx (run_instrs s (compile v s i (OEnsure c len)))) = Some d.
Proof. exact ensured_default_on_disk. Qed.
Print Assumptions c05_ensured_default_on_disk.

Theorem c05_index_boundary_invariant : forall (v : ver) (ops : list op) (s : st) (i : N), K s ->
  K (run_ops v s i ops) /\ idx_ext (idx s) (idx (run_ops v s i ops)).
Proof. exact run_ops_boundary. Qed.
Print Assumptions c05_index_boundary_invariant.

(* the hypotheses are met: crashes inside the branch of [ensure_default; message; branch], before and after the rename *)
Example c05_index_views_nonvacuous :
  (2 <= done_ops fixed 70 init 0 ul_hist)%nat
  /\ idx (run_ops fixed init 0 (firstn 2 ul_hist)) = Some {| ix_default := Some 0; ix_known := [0] |}
  /\ idx (crash fixed 70 ul_hist) = Some {| ix_default := Some 0; ix_known := [0] |}
  /\ idx (crash fixed 200 ul_hist) = Some {| ix_default := Some 0; ix_known := [0; 1] |}.
Proof. exact ul_example. Qed.
Print Assumptions c05_index_views_nonvacuous.

(* REFUTED for "unlink the destination, then rename" (`unlink_first`: fs::remove_file(index.json) inserted before
   fs::rename(tmp, index.json), the pattern local_authority.rs uses; seeded change C05-4): the process dies between the
   two effects of the branch's index save.  The two completed operations had thread 0 listed and default and their
   frames acknowledged; the log is intact and holds the half-created child (thread 1); but there is NO index.json, the
   restarted store lists nothing, and ensure_default adopts the child as the workspace's default thread.  With rip's
   save_index the same boundary leaves the old index (and the new one in the temp file) *)
Theorem c05_unlink_then_rename_refuted :
  idx (run_ops fixed init 0 (firstn 2 ul_hist)) = Some {| ix_default := Some 0; ix_known := [0] |}
  /\ In 0 (acks (crashx unlink_first fixed ul_k ul_hist)) /\ In 4 (acks (crashx unlink_first fixed ul_k ul_hist))
  /\ option_map (map (fun f => (f_sid f, f_seq f))) (replay_validated (crashx unlink_first fixed ul_k ul_hist))
     = Some [(0, 0); (0, 1); (2, 0)]
  /\ idx (crashx unlink_first fixed ul_k ul_hist) = None
  /\ ix_known (midx (crashx unlink_first fixed ul_k ul_hist)) = []
  /\ compile fixed (crashx unlink_first fixed ul_k ul_hist) 3 (OEnsure 9 300) = [IIdxMem (Some 1) None] ++ save_index ++ [IOk]
  /\ idx (crash fixed ul_k_fixed ul_hist) = Some {| ix_default := Some 0; ix_known := [0] |}
  /\ idx_tmp (crash fixed ul_k_fixed ul_hist) = Some {| ix_default := Some 0; ix_known := [0; 1] |}.
Proof. exact ul_witness. Qed.
Print Assumptions c05_unlink_then_rename_refuted.

(* ---- artifacts (compaction summaries, handoff bundles): the blob is complete (temp + rename) BEFORE the frame that
   names it is handed to the log writer.  For EVERY code version, EVERY history, EVERY crash point k, restart and ANY
   further operations: every artifact named by a frame of the log is in the artifact store (no dangling reference,
   which an append-only log could never repair) *)
Theorem c05_artifact_before_frame : forall (v : ver) (hist : list op) (k : nat) (base : N) (more : list op) (f : frame) (a : N),
  In f (frames_of (truth (run_ops v (crash v k hist) base more))) -> f_art f = Some a ->
  In a (arts (run_ops v (crash v k hist) base more)).
Proof. exact artifact_before_frame. Qed.
Print Assumptions c05_artifact_before_frame.

(* non-vacuous: a crash after the checkpoint's frame is in the log (artifact 7 complete), and a crash between the blob's
   temp write and its rename (no frame names it yet: the .tmp file is an orphan nothing references) *)
Example c05_artifact_before_frame_nonvacuous :
  map f_art (frames_of (truth (crash fixed 1000 art_hist))) = [None; None; Some 7]
  /\ arts (crash fixed 1000 art_hist) = [7]
  /\ map f_art (frames_of (truth (crash fixed 57 art_hist))) = [None; None]
  /\ arts (crash fixed 57 art_hist) = [] /\ art_tmps (crash fixed 57 art_hist) = [7].
Proof. exact art_example. Qed.
Print Assumptions c05_artifact_before_frame_nonvacuous.

(* ---- the snapshot file (rip_log::write_snapshot = create, ONE write of the whole JSON array, flush; the effect list is
   read from the source by T1): a crash at ANY of its instructions leaves the file as it was (before the create), EMPTY, or
   COMPLETE, whatever the payload length — never a proper part of the payload.  An empty file does not parse: the readers
   (aggregate_session_output_text) fall back to the log; a complete one equals the stream in the log (harness oracle:
   verify_snapshot on every recovered store) *)
Theorem c05_snapshot_file_views : forall (old : option (list chunk)) (payload : list chunk) (k : nat),
  snap_crash old payload k = old \/ snap_crash old payload k = Some [] \/ snap_crash old payload k = Some payload.
Proof. exact snapshot_views. Qed.
Print Assumptions c05_snapshot_file_views.

Theorem c05_snapshot_file_complete : forall (old : option (list chunk)) (payload : list chunk) (k : nat),
  (5 <= k)%nat -> snap_crash old payload k = Some payload.
Proof. exact snapshot_complete. Qed.
Print Assumptions c05_snapshot_file_complete.

Example c05_snapshot_file_nonvacuous :
  snap_crash None [Body (mkf 1 0 0 100 None)] 4 = Some []
  /\ snap_crash None [Body (mkf 1 0 0 9000 None)] 3 = Some [Body (mkf 1 0 0 9000 None)]
  /\ snap_crash (Some [NL]) [Body (mkf 1 0 0 100 None)] 0 = Some [NL].
Proof. exact snapshot_example. Qed.
Print Assumptions c05_snapshot_file_nonvacuous.

(* ---- ANY NUMBER of crash / restart rounds.  `run_rounds fixed init 0 rs`: round (ops, k) runs the first k instructions
   of its operations from the restarted state of the previous round, then the process dies again — so a crash may hit the
   recovery work itself (the sidecar rebuild of the first append after a restart, the index back-fill).  After all rounds
   and ANY further operations the store has every property of the single-crash theorems *)
Theorem c05_rounds_recover_valid : forall (rs : list (list op * nat)) (more : list op),
  env_rounds fixed init 0 rs = true ->
  env_runb fixed (fst (run_rounds fixed init 0 rs)) (snd (run_rounds fixed init 0 rs)) more = true ->
  let fin := run_ops fixed (fst (run_rounds fixed init 0 rs)) (snd (run_rounds fixed init 0 rs)) more in
  exists fs, replay_validated fin = Some fs /\ Numbered fs /\ truth fin = enc fs
             /\ (forall fid, In fid (acks fin) -> cfid fid fs = 1)
             /\ (forall c evs, try_replay fin c = Some evs -> exists rest, stream (2 * c) fs = evs ++ rest).
Proof. exact rounds_recover_valid. Qed.
Print Assumptions c05_rounds_recover_valid.

(* acknowledgements are never withdrawn by a round, so `acks fin` above holds every append acknowledged in any round *)
Theorem c05_rounds_keep_acks : forall (v : ver) (rs : list (list op * nat)) (s : st) (i : N),
  incl (acks s) (acks (fst (run_rounds v s i rs))).
Proof. exact acks_rounds. Qed.
Print Assumptions c05_rounds_keep_acks.

Theorem c05_rounds_index_never_loses : forall (v : ver) (rs rs' : list (list op * nat)) (more : list op),
  let s1 := run_rounds v init 0 rs in
  let s2 := run_rounds v (fst s1) (snd s1) rs' in
  idx_ext (idx (fst s1)) (idx (run_ops v (fst s2) (snd s2) more)).
Proof. exact rounds_index_never_loses. Qed.
Print Assumptions c05_rounds_index_never_loses.

Theorem c05_rounds_artifact_before_frame : forall (v : ver) (rs : list (list op * nat)) (more : list op) (f : frame) (a : N),
  let s1 := run_rounds v init 0 rs in
  In f (frames_of (truth (run_ops v (fst s1) (snd s1) more))) -> f_art f = Some a ->
  In a (arts (run_ops v (fst s1) (snd s1) more)).
Proof. exact rounds_artifact_before_frame. Qed.
Print Assumptions c05_rounds_artifact_before_frame.

(* three rounds — a crash inside a message append (log line flushed, sidecar stale), a crash inside the sidecar REBUILD the
   next append starts with, a crash inside a branch right after its index save — then three more operations *)
Example c05_rounds_nonvacuous :
  env_rounds fixed init 0 rd_rounds = true
  /\ env_runb fixed (fst (run_rounds fixed init 0 rd_rounds)) (snd (run_rounds fixed init 0 rd_rounds)) rd_more = true
  /\ snd (run_rounds fixed init 0 rd_rounds) = 4
  /\ option_map (map (fun f => (f_sid f, f_seq f)))
       (replay_validated (run_ops fixed (fst (run_rounds fixed init 0 rd_rounds)) 4 rd_more))
     = Some [(0, 0); (0, 1); (2, 0); (0, 2); (2, 1)].
Proof. exact rd_example. Qed.
Print Assumptions c05_rounds_nonvacuous.

(* T1 (Gen/CrashEffects.v is regenerated from /repo on every run): the order of file-system effects, crash points and
   counter updates read from EventLog::append, append_best_effort, rebuild_best_effort, the 11 locked appends,
   create_continuity(_locked), branch, handoff, save_index, write_blob_atomic and load_next_seq_for equals the
   skeleton of the model's compiled programs, the artifact is written before the checkpoint frame, and the code
   version read from the source (one write per log line, the log decides the next seq, flush after every frame) is
   the one the theorems above are about *)
Theorem c05_effect_order_tied : gen_crash_effects_ok_b = true /\ gen_ver = fixed.
Proof. exact effects_tied. Qed.
Print Assumptions c05_effect_order_tied.

(* the central statements over the GENERATED code version, for every version passing the generated check *)
Theorem c05_recover_valid_generated : forall (hist : list op) (k : nat) (base : N) (more : list op),
  env_runb gen_ver init 0 hist = true -> nlen hist <= base ->
  env_runb gen_ver (crash gen_ver k hist) base more = true ->
  exists fs, replay_validated (run_ops gen_ver (crash gen_ver k hist) base more) = Some fs
             /\ Numbered fs
             /\ truth (run_ops gen_ver (crash gen_ver k hist) base more) = enc fs
             /\ (forall fid, In fid (acks (crash gen_ver k hist)) \/ In fid (acks (run_ops gen_ver (crash gen_ver k hist) base more)) ->
                             cfid fid fs = 1)
             /\ (forall c evs, try_replay (run_ops gen_ver (crash gen_ver k hist) base more) c = Some evs ->
                               exists rest, stream (2 * c) fs = evs ++ rest).
Proof. exact recover_valid_generated. Qed.
Print Assumptions c05_recover_valid_generated.

(* ---- the first append of EVERY writer after a restart (Model/CrashCold.v).  A restart forgets every in-memory
   counter; each writer has its own `None => ..` arm that finds the seq on disk.  One thread's stream at the level of
   seq numbers: log, full sidecar (written after the log: it lags by the frame of a call that died in between),
   counter; `srcs w` = where writer w takes its cold-start seq from.  When every writer that appends takes it from
   the log (load_next_seq_for as repaired in /repo 0b0d2b0), then after ANY sequence of complete appends, appends that
   die between their log flush and their sidecar write (+ restart) and clean restarts, by ANY writers: the stream is
   0,1,2,.., the sidecar is a prefix of it, and whenever a counter is in memory it is the stream's length and the
   sidecar is the whole stream *)
Theorem c05_cold_start_numbered : forall (srcs : nat -> src) (es : list ev),
  (forall w, In w (writers es) -> srcs w = FromLog) ->
  numbered_b (c_log (CrashCold.run srcs created es)) = true
  /\ (exists k, c_side (CrashCold.run srcs created es) = firstn k (c_log (CrashCold.run srcs created es)))
  /\ (forall m, c_ctr (CrashCold.run srcs created es) = Some m ->
        m = N.of_nat (length (c_log (CrashCold.run srcs created es)))
        /\ c_side (CrashCold.run srcs created es) = c_log (CrashCold.run srcs created es)).
Proof. exact cold_start_numbered. Qed.
Print Assumptions c05_cold_start_numbered.

(* .. over the sources READ FROM THE CODE in this run (Gen/CrashEffects.v gen_cold_start: per locked append, is
   load_next_seq_for the only source of a seq in the `None =>` arm of `match next_seq.get(..)`), writers 0..10 *)
Theorem c05_cold_start_generated : forall es : list ev,
  (forall w, In w (writers es) -> (w < 11)%nat) ->
  numbered_b (c_log (CrashCold.run (srcs_of gen_cold_start) created es)) = true.
Proof. exact cold_start_generated. Qed.
Print Assumptions c05_cold_start_generated.

(* ONE writer that trusts the sidecar's tail (seed C05-11: append_compaction_checkpoint_created through
   try_read_last_seq) breaks it, all others numbering from the log: append, an append that dies after its log flush,
   restart, the sidecar-tail writer first: seq 2 is issued twice *)
Theorem c05_cold_start_side_tail_refuted : exists (srcs : nat -> src) (es : list ev),
  (forall w, w <> 1%nat -> srcs w = FromLog) /\ numbered_b (c_log (CrashCold.run srcs created es)) = false.
Proof. exact cold_start_side_tail_refuted. Qed.
Print Assumptions c05_cold_start_side_tail_refuted.

Example c05_cold_start_nonvacuous :
  c_log (CrashCold.run (fun _ => FromLog) created [EAppend 0; ECrashMid 3; EAppend 7; ERestart; EAppend 10]) = [0; 1; 2; 3; 4]
  /\ c_side (CrashCold.run (fun _ => FromLog) created [EAppend 0; ECrashMid 3]) = [0; 1].
Proof. exact cold_start_example. Qed.
Print Assumptions c05_cold_start_nonvacuous.
