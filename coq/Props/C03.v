(* C03 — Replay fidelity: live frames, log, sidecar and snapshot are the same frames; any frame survives a
   write/read round trip without losing or altering a field and is assigned to the same stream.
   Statements only; proofs are in Proofs/WireProofs.v.  Every theorem is closed by `exact`.

   The codec model (Model/Wire.v) is schema-driven; every theorem below holds for EVERY schema `s` with
   `wf_schema s = true`.  The schema of today's rip-kernel source is regenerated on every run
   (Gen/EventSchema.v) together with the obligation `gen_schema_wf : wf_schema gen_schema = true`.
     frame_ok s e     : e is a well-typed frame of schema s whose strings are Rust Strings (Unicode scalar values)
     depth_ok s e     : the written document nests less than 128 deep (serde_json's recursion limit)
     wire_event s e   : no Some(x) printing as `null` sits in a field that is skipped when None
     exact_event s e  : no Some(x) printing as `null` anywhere (such a value cannot come out of the reader) *)
From RipV Require Import Base.Prelude Base.Json Base.JsonParse Model.Wire Model.WireSized Proofs.WireProofs Proofs.WireOrderProofs Proofs.WireSizedProofs Model.WireRun Proofs.RunSitesProofs Proofs.WireRunProofs Gen.EventSchema Gen.Sinks Gen.RequestHead.

(* the premise of everything below holds for the schema extracted from the current source *)
Theorem c03_current_schema_wf : wf_schema gen_schema = true.
Proof. exact gen_schema_wf. Qed.
Print Assumptions c03_current_schema_wf.

(* every place where ripd publishes a frame (16 sites in continuities.rs, session.rs, tasks/mod.rs today) hands one and
   the same unmodified Event to the log append, to the store next to it (sidecar / snapshot buffer) and to the
   broadcast channel — the premise under which `emit` of Model/Wire.v (c03_views_agree and its corollaries) is what the code does *)
Theorem c03_current_sinks_same_frame : gen_ok_sinks && wf_sinks gen_sinks = true.
Proof. exact gen_sinks_ok. Qed.
Print Assumptions c03_current_sinks_same_frame.

(* serde level (JSON as a tree): reading what the writer wrote yields the canonical form of the frame — every
   field, optional fields absent / present, defaults, aliases, skipped fields, nested helper structs and enums *)
Theorem c03_decode_encode : forall (s : schema) (e : event),
  wf_schema s = true -> wt_event s e = true -> decode_event s (encode_event s e) = Some (canon_event s e).
Proof. exact decode_encode. Qed.
Print Assumptions c03_decode_encode.

(* one line of events.jsonl / of a sidecar: text written by the compact printer, read by the parser and the reader.
   The frame read back re-serialises to the identical line and is assigned to the same stream. *)
Theorem c03_roundtrip_wire : forall (s : schema) (e : event),
  wf_schema s = true -> frame_ok s e = true -> depth_ok s e = true -> wire_event s e = true ->
  exists e', read_line s (write_line s e) = Some e' /\ write_line s e' = write_line s e
             /\ event_kind s e' = event_kind s e /\ e_sid e' = e_sid e /\ e_var e' = e_var e.
Proof. exact roundtrip_wire. Qed.
Print Assumptions c03_roundtrip_wire.

(* no field lost or altered: the frame read back IS the frame written *)
Theorem c03_roundtrip_exact : forall (s : schema) (e : event),
  wf_schema s = true -> frame_ok s e = true -> depth_ok s e = true -> exact_event s e = true ->
  read_line s (write_line s e) = Some e.
Proof. exact roundtrip_exact. Qed.
Print Assumptions c03_roundtrip_exact.

(* same stream when read back — with no guard on Some(null) at all *)
Theorem c03_stream_preserved : forall (s : schema) (e : event),
  wf_schema s = true -> frame_ok s e = true -> depth_ok s e = true ->
  exists e', read_line s (write_line s e) = Some e' /\ stream_key s e' = stream_key s e.
Proof. exact stream_preserved. Qed.
Print Assumptions c03_stream_preserved.

(* the stream kind is a function of the frame type alone (no field value can move a frame to another stream) *)
Theorem c03_kind_of_variant_only : forall (s : schema) (e e' : event),
  e_var e = e_var e' -> event_kind s e = event_kind s e'.
Proof. exact kind_of_variant_only. Qed.
Print Assumptions c03_kind_of_variant_only.

(* snapshots: pretty-printed array of frames *)
Theorem c03_pretty_roundtrip : forall (s : schema) (es : list event),
  wf_schema s = true -> all_ok s es -> read_snapshot s (write_snapshot s es) = Some (map (canon_event s) es).
Proof. exact read_write_snapshot. Qed.
Print Assumptions c03_pretty_roundtrip.

Theorem c03_pretty_roundtrip_exact : forall (s : schema) (es : list event),
  wf_schema s = true -> all_ok s es -> Forall (fun e => exact_event s e = true) es ->
  read_snapshot s (write_snapshot s es) = Some es.
Proof. exact snapshot_exact. Qed.
Print Assumptions c03_pretty_roundtrip_exact.

(* the four views of every stream after ANY sequence of emitted frames: the log read back and filtered by stream,
   the sidecar of the stream, the snapshot of the stream and what a live subscriber received *)
Theorem c03_views_agree : forall (s : schema) (es : list event) (key : N * str),
  wf_schema s = true -> all_ok s es ->
  let k := run_emits s es in
  view_log s key k = Some (map (canon_event s) (view_live s key k))
  /\ view_sidecar s key k = Some (map (canon_event s) (view_live s key k))
  /\ view_snapshot s key k = Some (map (canon_event s) (view_live s key k)).
Proof. exact views_agree. Qed.
Print Assumptions c03_views_agree.

Theorem c03_views_exact : forall (s : schema) (es : list event) (key : N * str),
  wf_schema s = true -> all_ok s es -> Forall (fun e => exact_event s e = true) es ->
  let k := run_emits s es in
  view_log s key k = Some (view_live s key k)
  /\ view_sidecar s key k = Some (view_live s key k)
  /\ view_snapshot s key k = Some (view_live s key k).
Proof. exact views_exact. Qed.
Print Assumptions c03_views_exact.

(* nothing appears in a sidecar, a snapshot or a live stream that is not in the log *)
Theorem c03_views_within_log : forall (s : schema) (es : list event) (key : N * str) (e : event),
  wf_schema s = true -> all_ok s es ->
  let k := run_emits s es in
  forall v, (view_sidecar s key k = Some v \/ view_snapshot s key k = Some v \/ v = map (canon_event s) (view_live s key k)) ->
            In e v -> exists all, map_opt (read_line s) (k_log k) = Some all /\ In e all.
Proof. exact views_within_log. Qed.
Print Assumptions c03_views_within_log.

(* ---- the ORDER of the sinks at an emit site, and a log write that can fail (disk full, I/O error) ----
   An emit site is a list of statements (SLog | SStore | SSend) plus whether the log append's result is checked (`?`);
   emit_at eo s k e ok runs them for frame e, ok = the log write succeeds; run_faulty folds it over a history of
   (frame, fate of its log write); logged steps = the frames whose log write succeeded.
   The order of every emit site of today's source is regenerated on every run (ss_order in Gen/Sinks.v):
   every continuity append path is [SLog; SStore; SSend] with the log append checked, under the seq mutex (wf_sinks_order). *)
Theorem c03_current_sinks_order : gen_ok_sinks && wf_sinks_order gen_sinks = true.
Proof. exact gen_sinks_order_ok. Qed.
Print Assumptions c03_current_sinks_order.

(* an append whose log write fails leaves no trace — in the sidecar, in the buffer, on the channel — for EVERY order that
   starts with the checked log append *)
Theorem c03_failed_append_leaves_no_trace : forall (eo : emit_order) (s : schema) (k : sinks) (e : event),
  log_first eo = true -> emit_at eo s k e false = k.
Proof. exact emit_at_failed. Qed.
Print Assumptions c03_failed_append_leaves_no_trace.

(* after ANY history of appends with failing and succeeding log writes the four views agree, and the live subscriber
   received exactly the frames whose log write succeeded (for the order read from continuities.rs) *)
Theorem c03_views_agree_under_log_faults : forall (eo : emit_order) (s : schema) (steps : list (event * bool)) (key : N * str),
  wf_order eo = true -> wf_schema s = true -> all_ok s (logged steps) ->
  let k := run_faulty eo s steps in
  view_log s key k = Some (map (canon_event s) (view_live s key k))
  /\ view_sidecar s key k = Some (map (canon_event s) (view_live s key k))
  /\ view_snapshot s key k = Some (map (canon_event s) (view_live s key k)).
Proof. exact views_agree_faulty. Qed.
Print Assumptions c03_views_agree_under_log_faults.

Theorem c03_live_is_logged : forall (eo : emit_order) (s : schema) (steps : list (event * bool)),
  wf_order eo = true -> k_live (run_faulty eo s steps) = logged steps.
Proof. exact live_is_logged. Qed.
Print Assumptions c03_live_is_logged.

(* nothing appears in a sidecar, a snapshot or a live stream that is not in the log — for EVERY emit order whose first
   statement is the checked log append (whatever follows it) and every history of failing and succeeding log writes *)
Theorem c03_views_within_log_under_log_faults : forall (eo : emit_order) (s : schema) (steps : list (event * bool)) (key : N * str) (e : event),
  log_first eo = true -> wf_schema s = true -> all_ok s (logged steps) ->
  let k := run_faulty eo s steps in
  forall v, (view_sidecar s key k = Some v \/ view_snapshot s key k = Some v \/ v = map (canon_event s) (view_live s key k)) ->
            In e v -> exists all, map_opt (read_line s) (k_log k) = Some all /\ In e all.
Proof. exact views_within_log_any_order. Qed.
Print Assumptions c03_views_within_log_under_log_faults.

(* the order is necessary: with the sidecar append in FRONT of the checked log append (the seeded change C03-4) a failed
   append leaves a frame in the sidecar that is not in the log *)
Theorem c03_sidecar_first_refuted :
  exists eo s steps key e,
    eo_log_checked eo = true /\ order_complete eo = true /\ wf_schema s = true /\ all_ok s (map fst steps)
    /\ (exists v, view_sidecar s key (run_faulty eo s steps) = Some v /\ In e v)
    /\ k_log (run_faulty eo s steps) = [].
Proof. exact sidecar_first_refuted. Qed.
Print Assumptions c03_sidecar_first_refuted.

(* session.rs emit_event and TaskEmitter::emit AS WRITTEN (buffer, channel, then a log append whose error is dropped:
   the order the extractor finds for them): when the log write fails the frame is live and in the snapshot but not in
   the log.  Replayed on the real SessionEngine (events.jsonl on /dev/full): known finding W3. *)
Theorem c03_unchecked_log_last_refuted :
  exists eo s steps key e,
    order_complete eo = true /\ wf_schema s = true /\ all_ok s (map fst steps)
    /\ In e (view_live s key (run_faulty eo s steps))
    /\ (exists v, view_snapshot s key (run_faulty eo s steps) = Some v /\ In e v)
    /\ k_log (run_faulty eo s steps) = [].
Proof. exact unchecked_log_last_refuted. Qed.
Print Assumptions c03_unchecked_log_last_refuted.

(* ---- the log's writer (finding W4, fixed in /repo d50b48c) ----
   log_file steps = the lines of the appends whose write succeeded (the fixed writer: a failed call leaves nothing in the
   buffer; regenerated: lw_forgets_failed in c03_current_log_write) — this is the log of the sinks model;
   log_file_unfixed = a writer that keeps the line of a failed write and hands it to the next successful one (std
   BufWriter, as found): the refused line reaches the file *)
Theorem c03_log_file_is_model_log : forall (eo : emit_order) (s : schema) (steps : list (event * bool)),
  wf_order eo = true ->
  k_log (run_faulty eo s steps) = log_file (map (fun x => (write_line s (fst x), snd x)) steps).
Proof. exact log_file_is_model_log. Qed.
Print Assumptions c03_log_file_is_model_log.

Theorem c03_log_writer_keeps_failed_line_refuted :
  exists steps, log_file_unfixed [] steps <> log_file steps /\ exists l, In (l, false) steps /\ In l (log_file_unfixed [] steps).
Proof. exact log_writer_keeps_failed_line_refuted. Qed.
Print Assumptions c03_log_writer_keeps_failed_line_refuted.

(* ---- frames of EVERY size: the gate of EventLog::append ----
   The sinks model takes the fate of a log write as an input.  `fate g s e d` = the disk takes the write (d) AND the gate g of
   `EventLog::append` lets THIS frame through, where a gate is the list of statements in front of the write that can make
   the function return, and `bytes (write_line s e)` is the length `line.len()` they can look at.  The gate of today's
   source is regenerated on every run (tools/gen/sinks.py: every `return` / `?` before `write_all`): it holds only the
   serialiser's `?`; the sidecar append's gate holds only I/O failures and "not a continuity frame". *)
Theorem c03_current_append_gate : gen_ok_append_gate && wf_append_gate gen_append_gate && wf_side_gate gen_side_gate = true.
Proof. exact gen_append_gate_ok. Qed.
Print Assumptions c03_current_append_gate.

(* append accepts every frame the kernel can produce: behind such a gate the fate of a log write is the disk's alone,
   whatever the frame (no hypothesis on its type, its size, its characters, its nesting) ... *)
Theorem c03_append_accepts_every_frame : forall (g : append_gate) (s : schema) (e : event) (d : bool),
  wf_append_gate g = true -> fate g s e d = d.
Proof. exact fate_is_the_disks. Qed.
Print Assumptions c03_append_accepts_every_frame.

(* ... so a history behind the gate is the history of the fault model (every theorem above about run_faulty applies) *)
Theorem c03_gated_history_is_faulty_history : forall (g : append_gate) (eo : emit_order) (s : schema) (steps : list (event * bool)),
  wf_append_gate g = true -> run_gated g eo s steps = run_faulty eo s steps.
Proof. exact run_gated_open. Qed.
Print Assumptions c03_gated_history_is_faulty_history.

(* on a healthy disk the four views agree after ANY list of frames of ANY size, at the continuity append paths and at the
   session / task emitters as written (store, channel, unchecked log append last) alike *)
Theorem c03_views_agree_every_size : forall (g : append_gate) (eo : emit_order) (s : schema) (es : list event) (key : N * str),
  wf_append_gate g = true -> (eo = eo_sess \/ wf_order eo = true) -> wf_schema s = true -> all_ok s es ->
  view_log s key (run_gated g eo s (healthy es)) = Some (map (canon_event s) (view_live s key (run_gated g eo s (healthy es))))
  /\ view_sidecar s key (run_gated g eo s (healthy es)) = Some (map (canon_event s) (view_live s key (run_gated g eo s (healthy es))))
  /\ view_snapshot s key (run_gated g eo s (healthy es)) = Some (map (canon_event s) (view_live s key (run_gated g eo s (healthy es)))).
Proof. exact views_agree_sized. Qed.
Print Assumptions c03_views_agree_every_size.

Theorem c03_live_is_emitted_every_size : forall (g : append_gate) (eo : emit_order) (s : schema) (es : list event),
  wf_append_gate g = true -> (eo = eo_sess \/ wf_order eo = true) -> k_live (run_gated g eo s (healthy es)) = es.
Proof. exact live_is_emitted_sized. Qed.
Print Assumptions c03_live_is_emitted_every_size.

(* the gate must be open: a limit on the line length (the seeded change C03-9: `if line.len() > n { return Err }`) behind the
   session emitter as written, on a healthy disk, every stream numbered 0,1,2,..: a frame over the limit is delivered live and
   written to the snapshot, never reaches the log, and the log holds the stream without its seq 0 (every validated replay fails) *)
Theorem c03_size_limit_refuted :
  exists n s es key e,
    wf_schema s = true /\ all_ok s es /\ seqs_from 0 (of_stream s key es) = true
    /\ In e (view_live s key (run_gated [GSerialize; GMaxLine n] eo_sess s (healthy es)))
    /\ (exists v, view_snapshot s key (run_gated [GSerialize; GMaxLine n] eo_sess s (healthy es)) = Some v /\ In e v)
    /\ (exists l, view_log s key (run_gated [GSerialize; GMaxLine n] eo_sess s (healthy es)) = Some l
                  /\ ~ In e l /\ seqs_from 0 l = false).
Proof. exact size_limit_refuted. Qed.
Print Assumptions c03_size_limit_refuted.

(* the same limit behind a continuity append path (log append first, checked): the refused frame is nowhere, the views agree
   (what is lost there is the append, which the caller is told) *)
Theorem c03_size_limit_behind_checked_append : forall (n : N) (s : schema) (steps : list (event * bool)) (key : N * str),
  wf_schema s = true ->
  all_ok s (logged (map (fun x => (fst x, fate [GSerialize; GMaxLine n] s (fst x) (snd x))) steps)) ->
  view_log s key (run_gated [GSerialize; GMaxLine n] eo_cont s steps)
  = Some (map (canon_event s) (view_live s key (run_gated [GSerialize; GMaxLine n] eo_cont s steps)))
  /\ view_snapshot s key (run_gated [GSerialize; GMaxLine n] eo_cont s steps)
     = Some (map (canon_event s) (view_live s key (run_gated [GSerialize; GMaxLine n] eo_cont s steps))).
Proof. exact size_limit_cont_views_agree. Qed.
Print Assumptions c03_size_limit_behind_checked_append.

(* the correspondence on frames of several MiB: the harness ships a frame as its JSON tree with long strings run-length
   folded; the model computes byte length and code-point sum of the written line on the folded form.  For EVERY weight and
   EVERY folded document that is the weight of the printed text of the unfolded document *)
Theorem c03_folded_weight_is_printed_weight : forall (w : N -> N) (j : sjson), ssum w j = wsum w (Json.print (unfold j)).
Proof. exact ssum_unfold. Qed.
Print Assumptions c03_folded_weight_is_printed_weight.

(* ... and the views it predicts for a frame are those of emit_at for the two orders of the code *)
Theorem c03_site_views_sound : forall (s : schema) (k : sinks) (e : event) (ok : bool),
  site_views eo_sess ok = (true, true, ok) /\ site_views eo_cont ok = (ok, ok, ok)
  /\ k_live (emit_at eo_sess s k e ok) = k_live k ++ [e]
  /\ k_buffer (emit_at eo_sess s k e ok) = k_buffer k ++ [e]
  /\ k_log (emit_at eo_sess s k e ok) = k_log k ++ (if ok then [write_line s e] else [])
  /\ k_live (emit_at eo_cont s k e ok) = k_live k ++ (if ok then [e] else [])
  /\ k_buffer (emit_at eo_cont s k e ok) = k_buffer k ++ (if ok then [e] else [])
  /\ k_log (emit_at eo_cont s k e ok) = k_log k ++ (if ok then [write_line s e] else []).
Proof. exact site_views_sound. Qed.
Print Assumptions c03_site_views_sound.

(* ---- the buffer a snapshot is written from is never shortened ----
   emit_capped cap = emit on a buffer that drops its oldest frame once it holds cap frames (the seeded change C03-6);
   below the cap it is emit; the source has no shortening call on the history buffers (regenerated on every run) *)
Theorem c03_current_buffer_use : gen_ok_buffer && wf_buffer_use gen_buffer_use = true.
Proof. exact gen_buffer_use_ok. Qed.
Print Assumptions c03_current_buffer_use.

Theorem c03_capped_buffer_below_cap : forall (s : schema) (k : sinks) (e : event) (cap : nat),
  (length (k_buffer k) < cap)%nat -> emit_capped cap s k e = emit s k e.
Proof. exact emit_capped_below. Qed.
Print Assumptions c03_capped_buffer_below_cap.

Theorem c03_capped_buffer_refuted :
  exists cap s es key,
    wf_schema s = true /\ all_ok s es
    /\ view_log s key (fold_left (emit_capped cap s) es sinks0) = Some (map (canon_event s) (view_live s key (fold_left (emit_capped cap s) es sinks0)))
    /\ view_snapshot s key (fold_left (emit_capped cap s) es sinks0) <> Some (map (canon_event s) (view_live s key (fold_left (emit_capped cap s) es sinks0))).
Proof. exact capped_buffer_refuted. Qed.
Print Assumptions c03_capped_buffer_refuted.

(* ---- the sidecar is a cache that can be lost while the store lives ----
   hstep: HEmit e (an append path) | HLose key (one stream's sidecar disappears) | HLoseAll (the sidecar directory
   disappears) | HReplay key (ContinuityStore::replay_events).  After ANY such history, what replay_events serves for a
   stream (the past of a late subscriber) is what the log holds for it and what the live subscriber received, whenever
   the store's check of the sidecar has the shape read from today's source (wf_replay_check: first line seq 0,
   successor seqs, empty file refused, fallback to the log) and the stream is numbered 0,1,2,.. (C01).
   wire_ok s es : wire_event holds for every emitted frame (the rebuilt sidecar is written from decoded frames). *)
Theorem c03_replay_after_cache_loss : forall (rc : replay_check) (s : schema) (hs : list hstep) (key : N * str),
  wf_schema s = true -> wf_replay_check rc = true ->
  all_ok s (emitted hs) -> wire_ok s (emitted hs) ->
  seqs_from 0 (of_stream s key (emitted hs)) = true ->
  let k := run_hist rc s hs in
  fst (replay_events rc s key k) = Some (map (canon_event s) (view_live s key k))
  /\ view_log s key k = Some (map (canon_event s) (view_live s key k))
  /\ k_live k = emitted hs.
Proof. exact replay_after_loss. Qed.
Print Assumptions c03_replay_after_cache_loss.

(* the shape of try_replay / replay_events and of the two append-to-disk steps (write, then an unconditional flush)
   in today's source — regenerated on every run *)
Theorem c03_current_replay_check : gen_ok_replay && wf_replay_check gen_replay_check = true.
Proof. exact gen_replay_check_ok. Qed.
Print Assumptions c03_current_replay_check.

Theorem c03_current_log_write : gen_ok_log_write && wf_log_write gen_log_write = true.
Proof. exact gen_log_write_ok. Qed.
Print Assumptions c03_current_log_write.

(* JSON taken from outside is bounded where it enters a frame (MAX_PAYLOAD_NESTING + frame + snapshot array < 128):
   the source-side reason why depth_ok / snapshot_depth_ok hold for the frames the system emits *)
Theorem c03_current_payload_bound : wf_payload_bound gen_payload_bound gen_payload_guards = true.
Proof. exact gen_payload_bound_ok. Qed.
Print Assumptions c03_current_payload_bound.

(* "first line seq 0" is necessary: with only "each frame follows the frame before it", a sidecar re-created by the
   appends after a loss is served as the whole stream *)
Theorem c03_replay_needs_first_zero_refuted :
  exists rc s hs key,
    rc_successor rc = true /\ rc_empty_refused rc = true /\ rc_fallback_log rc = true
    /\ wf_schema s = true /\ all_ok s (emitted hs) /\ wire_ok s (emitted hs)
    /\ seqs_from 0 (of_stream s key (emitted hs)) = true
    /\ fst (replay_events rc s key (run_hist rc s hs)) <> Some (map (canon_event s) (view_live s key (run_hist rc s hs))).
Proof. exact replay_needs_first_zero_refuted. Qed.
Print Assumptions c03_replay_needs_first_zero_refuted.

(* ---- the guards are necessary (faithful model: this is what serde does) ---- *)
(* Some(null) in a field skipped when None: the key vanishes on the second write *)
Theorem c03_some_null_skipped_refuted :
  exists s e, wf_schema s = true /\ frame_ok s e = true /\ depth_ok s e = true
              /\ exists e', read_line s (write_line s e) = Some e' /\ write_line s e' <> write_line s e.
Proof. exact some_null_skipped_refuted. Qed.
Print Assumptions c03_some_null_skipped_refuted.

(* Some(null) in an always-written Option: same line, different value *)
Theorem c03_exact_needs_guard_refuted :
  exists s e, wf_schema s = true /\ frame_ok s e = true /\ depth_ok s e = true /\ wire_event s e = true
              /\ exists e', read_line s (write_line s e) = Some e' /\ e' <> e /\ write_line s e' = write_line s e.
Proof. exact exact_needs_guard_refuted. Qed.
Print Assumptions c03_exact_needs_guard_refuted.

(* a payload nested 127 deep: the writer writes the frame, the reader refuses it *)
Theorem c03_depth_limit_refuted :
  exists s e, wf_schema s = true /\ frame_ok s e = true /\ wire_event s e = true /\ exact_event s e = true
              /\ read_line s (write_line s e) = None.
Proof. exact depth_limit_refuted. Qed.
Print Assumptions c03_depth_limit_refuted.

(* a schema that is not well-formed (skip_serializing_if without default on a non-Option) loses frames *)
Theorem c03_skip_without_default_refuted :
  exists s e, wf_schema s = false /\ frame_ok s e = true /\ depth_ok s e = true /\ exact_event s e = true
              /\ read_line s (write_line s e) = None.
Proof. exact skip_without_default_refuted. Qed.
Print Assumptions c03_skip_without_default_refuted.

(* ---- who numbers a session's frames: the run (Model/WireRun.v).  The views agree for ANY numbering; replaying the store from
   disk goes through the validated replay, which accepts a stream only when it is numbered 0,1,2,.. in file order ---- *)

(* the head of a provider request (capture frame behind RIP_OPENRESPONSES_DUMP_REQUEST, then request_started), re-read from
   stream_openresponses_request on every run: with the switch on and off it is a concatenation of "build, emit, bump" sites *)
Theorem c03_current_request_head : gen_ok_request_head && wf_head gen_request_head = true.
Proof. exact gen_request_head_ok. Qed.
Print Assumptions c03_current_request_head.

(* every run made of emit sites numbers its frames c, c+1, .. and hands the counter back at c + number of frames *)
Theorem c03_run_counter : forall (c : N) (p : list rstmt),
  wf_run p = true ->
  r_out (rrun c p) = number c (sites_of p)
  /\ nums_from c (r_out (rrun c p)) = true
  /\ r_cnt (rrun c p) = c + N.of_nat (length (r_out (rrun c p))).
Proof. exact run_numbered. Qed.
Print Assumptions c03_run_counter.

(* such a run behind the session emitter as written and an open append gate, on a healthy disk, for EVERY schema, every frame
   maker that stores the number it is given, every program of sites: live = the run's frames, log view = snapshot = the live
   frames, and the stream the store will replay is numbered from 0 (the validated replay accepts it) *)
Theorem c03_run_of_sites_replays : forall (g : append_gate) (s : schema) (key : N * str) (mk : N -> N -> event) (p : list rstmt),
  wf_append_gate g = true -> wf_schema s = true -> wf_run p = true ->
  (forall t n, e_seq (mk t n) = n) -> (forall t n, stream_key s (mk t n) = key) -> all_ok s (run_frames mk 0 p) ->
  view_live s key (sess_sinks g s (run_frames mk 0 p)) = run_frames mk 0 p
  /\ view_log s key (sess_sinks g s (run_frames mk 0 p)) = Some (map (canon_event s) (run_frames mk 0 p))
  /\ view_snapshot s key (sess_sinks g s (run_frames mk 0 p)) = Some (map (canon_event s) (run_frames mk 0 p))
  /\ seqs_from 0 (map (canon_event s) (run_frames mk 0 p)) = true.
Proof. exact run_of_sites_replays. Qed.
Print Assumptions c03_run_of_sites_replays.

(* .. in particular a run around ANY head that meets the regenerated obligation, with the switch on and with the switch off *)
Theorem c03_run_around_head_replays : forall (g : append_gate) (s : schema) (key : N * str) (mk : N -> N -> event) (h : head) (capture : bool),
  wf_append_gate g = true -> wf_schema s = true -> wf_head h = true ->
  (forall t n, e_seq (mk t n) = n) -> (forall t n, stream_key s (mk t n) = key) ->
  all_ok s (run_frames mk 0 (run_around capture h)) ->
  view_live s key (sess_sinks g s (run_frames mk 0 (run_around capture h))) = run_frames mk 0 (run_around capture h)
  /\ view_log s key (sess_sinks g s (run_frames mk 0 (run_around capture h))) = Some (map (canon_event s) (run_frames mk 0 (run_around capture h)))
  /\ view_snapshot s key (sess_sinks g s (run_frames mk 0 (run_around capture h))) = Some (map (canon_event s) (run_frames mk 0 (run_around capture h)))
  /\ seqs_from 0 (map (canon_event s) (run_frames mk 0 (run_around capture h))) = true.
Proof. exact run_around_head_replays. Qed.
Print Assumptions c03_run_around_head_replays.

(* request_started built (seq and all) BEFORE the capture frame and emitted after it (the seeded change C03-10): with the switch
   off the run is the run of the code; with the switch on the three views still agree frame for frame - every sink receives
   the frames as they were built - and the stream in the log reads 0,1,1,3: the validated replay refuses it *)
Theorem c03_request_head_built_early_refuted :
  exists h s key es,
    wf_head h = false /\ wf_schema s = true /\ all_ok s es /\ es = run_frames demo_mk 0 (run_around true h)
    /\ view_live s key (sess_sinks [GSerialize] s es) = es
    /\ view_log s key (sess_sinks [GSerialize] s es) = Some (map (canon_event s) es)
    /\ view_snapshot s key (sess_sinks [GSerialize] s es) = Some (map (canon_event s) es)
    /\ seqs_from 0 (map (canon_event s) es) = false
    /\ run_frames demo_mk 0 (run_around false h) = run_frames demo_mk 0 (run_around false head_code).
Proof. exact head_misnumbered_refuted. Qed.
Print Assumptions c03_request_head_built_early_refuted.

(* the capture frame built first and emitted after request_started (the seeded change C01-11): the same *)
Theorem c03_capture_frame_emitted_late_refuted :
  wf_head head_capture_emitted_late = false
  /\ seqs_from 0 (map (canon_event demo_schema) late_frames) = false
  /\ seqs_from 0 (map (canon_event demo_schema) code_frames) = true.
Proof. exact head_capture_late_refuted. Qed.
Print Assumptions c03_capture_frame_emitted_late_refuted.

(* ---- the hypotheses are satisfiable ---- *)
Example c03_demo_schema_wf : wf_schema demo_schema = true.
Proof. exact demo_schema_wf. Qed.

Example c03_demo_frame_ok :
  frame_ok demo_schema ev_plain = true /\ depth_ok demo_schema ev_plain = true /\ snapshot_depth_ok demo_schema ev_plain = true
  /\ wire_event demo_schema ev_plain = true /\ exact_event demo_schema ev_plain = true.
Proof. exact ev_plain_ok. Qed.

Example c03_demo_history_ok : all_ok demo_schema [ev_plain; ev_some_null_kept].
Proof. exact ev_plain_all_ok. Qed.

(* a history with a loss between appends meets the hypotheses of c03_replay_after_cache_loss (4 frames in the stream) *)
Example c03_demo_loss_history_ok :
  wf_schema demo_schema = true /\ all_ok demo_schema (emitted demo_loss_history) /\ wire_ok demo_schema (emitted demo_loss_history)
  /\ seqs_from 0 (of_stream demo_schema demo_key (emitted demo_loss_history)) = true
  /\ length (of_stream demo_schema demo_key (emitted demo_loss_history)) = 4%nat.
Proof. exact demo_loss_history_ok. Qed.

Example c03_code_replay_check_wf : wf_replay_check rc_code = true.
Proof. exact rc_code_wf. Qed.

(* the order read from continuities.rs meets the hypotheses; a history with two failed log writes (one of them retried) *)
Example c03_code_order_wf : wf_order eo_cont = true /\ log_first eo_cont = true /\ order_complete eo_cont = true.
Proof. exact eo_cont_wf. Qed.

Example c03_demo_fault_history_ok :
  wf_schema demo_schema = true /\ all_ok demo_schema (logged demo_fault_history)
  /\ length (logged demo_fault_history) = 2%nat /\ length demo_fault_history = 4%nat.
Proof. exact demo_fault_history_ok. Qed.

(* the gate read from today's source is open, the seeded one is not; a frame over the limit and one under it; folding:
   a line of 19 000 013 bytes computed from a 2-run document, and a small one checked against the printed text *)
Example c03_code_gate_wf : wf_append_gate [GSerialize] = true /\ wf_side_gate [GKind; GIo; GIo; GSerialize] = true
                           /\ wf_append_gate demo_limited = false.
Proof. exact gate_code_wf. Qed.

Example c03_demo_sized_ok :
  wf_schema demo_schema = true /\ all_ok demo_schema demo_sized
  /\ seqs_from 0 (of_stream demo_schema demo_key demo_sized) = true
  /\ (demo_limit <? bytes (write_line demo_schema demo_long)) = true
  /\ (bytes (write_line demo_schema (demo_seq 1)) <=? demo_limit) = true.
Proof. exact demo_sized_ok. Qed.

Example c03_fold_demo :
  ssum utf8_len (SObj [([107], SStr [([97; 99; 107; 58; 32], 1); ([34; 10; 1; 233; 8364; 128512], 1000000)])]) = 19000013
  /\ bytes (Json.print (unfold (SObj [([107], SStr [([97; 99; 107; 58; 32], 1); ([34; 10; 1; 233; 8364; 128512], 3)])]))) = 70.
Proof. exact fold_demo. Qed.

Example c03_run_of_sites_example :
  wf_run (run_around true head_code) = true /\ (forall t n, e_seq (demo_mk t n) = n)
  /\ (forall t n, stream_key demo_schema (demo_mk t n) = demo_key) /\ all_ok demo_schema code_frames
  /\ r_out (rrun 0 (run_around true head_code)) = [(7, 0); (0, 1); (1, 2); (8, 3)]
  /\ r_out (rrun 0 (run_around false head_code)) = [(7, 0); (1, 1); (8, 2)].
Proof. exact run_of_sites_example. Qed.
