(* C02 - the truth log is append-only; read-only, dry-run and no-op capabilities never write.
   Statements only; proofs are in Proofs/ContStoreProofs.v and Proofs/LogProofs.v. *)
From RipV Require Import Base.Prelude Model.Frames Model.Log Model.ContStore
  Proofs.LogProofs Proofs.ContStoreProofs.

(* one micro-step of any actor running ANY program (well-formed or not) in ANY state leaves the
   log as it was or adds exactly one frame at the end *)
Theorem c02_step_appends_at_most_one_frame : forall (st : state) (a : N),
  s_log (step st a) = s_log st \/ exists f, s_log (step st a) = s_log st ++ [f].
Proof. exact step_log. Qed.
Print Assumptions c02_step_appends_at_most_one_frame.

(* hence for every number of actors, every mix of calls and every schedule the old log is a prefix *)
Theorem c02_prefix_any_schedule : forall (sched : list N) (st : state),
  exists fs, s_log (run sched st) = s_log st ++ fs.
Proof. exact run_log. Qed.
Print Assumptions c02_prefix_any_schedule.

(* byte view: previous file content is an exact prefix; what was added splits into whole,
   newline-terminated frame lines with nothing left over - for every frame printer that never
   emits LF inside a line *)
Theorem c02_bytes_prefix_whole_lines : forall (enc : frame -> bytes) (sched : list N) (st : state),
  (forall f, ~ In 10 (enc f)) ->
  exists fs, log_bytes enc (s_log (run sched st)) = log_bytes enc (s_log st) ++ log_bytes enc fs
             /\ split_lines (log_bytes enc fs) = (map enc fs, []).
Proof. exact run_bytes. Qed.
Print Assumptions c02_bytes_prefix_whole_lines.

Theorem c02_restart_keeps_log : forall st, s_log (restart st) = s_log st.
Proof. exact restart_keeps_log. Qed.
Print Assumptions c02_restart_keeps_log.

(* status, cut-point, replay, streaming, dry-run and no-op invocations add nothing - for every
   capability, thread id (known or not), argument facts and store state *)
Theorem c02_silent_invocations_add_nothing : forall (cp : cap) (c : N) (f : cfacts) (st : state),
  silent cp f = true -> s_log (exec (cap_prog cp c f) st) = s_log st.
Proof. exact silent_calls_keep_log. Qed.
Print Assumptions c02_silent_invocations_add_nothing.

Theorem c02_read_only_capabilities_always_silent : forall (cp : cap) (f : cfacts),
  cap_can_append cp = false -> silent cp f = true.
Proof. exact read_only_caps_silent. Qed.
Print Assumptions c02_read_only_capabilities_always_silent.

(* ... also when any number of them run concurrently under any schedule *)
Theorem c02_quiet_calls_concurrently : forall (ps : list (list mstep * N)) (sched : list N) (st : state),
  Forall (fun x => quiet_prog (fst x) = true) ps -> s_log (run sched (spawn ps st)) = s_log st.
Proof. exact quiet_calls_keep_log. Qed.
Print Assumptions c02_quiet_calls_concurrently.

(* a write capability aimed at a thread id that does not exist fails before it appends (`rest`:
   whatever the same call would have done afterwards, e.g. the run_spawned append of a POST) *)
Theorem c02_unknown_thread_adds_nothing : forall st c t ar rest,
  skip_call rest = [] ->
  s_mu st = None -> s_next st c = None -> s_side st c = None -> cstream c (s_log st) = [] ->
  s_log (exec (MTarget c :: locked_append t ar ++ rest) st) = s_log st.
Proof. exact unknown_thread_append_silent. Qed.
Print Assumptions c02_unknown_thread_adds_nothing.

(* non-vacuity: the same model does append for the non-silent invocations *)
Example c02_demo_nontrivial :
  let st := exec (create_prog []) empty_state in
  let f := {| cf_ok := true; cf_stride0 := false; cf_dry := false; cf_planned := 1%nat;
              cf_inflight := false; cf_execute := true; cf_created := 1%nat; cf_ended := true |} in
  map seq (s_log (exec (cap_prog CapPost 0 f) st)) = [0; 1; 2]
  /\ map seq (s_log (exec (cap_prog CapAuto 0 f) st)) = [0; 1; 2; 3]
  /\ silent CapAuto f = false
  /\ map seq (s_log (exec (cap_prog CapPost 77 f) st)) = [0].
Proof. exact c02_demo. Qed.
