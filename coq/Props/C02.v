(* C02 - the truth log is append-only; read-only, dry-run and no-op capabilities never write.
   Statements only; proofs are in Proofs/ContStoreProofs.v and Proofs/LogProofs.v. *)
From RipV Require Import Base.Prelude Model.Frames Model.Log Model.ContStore Model.LogBytes
  Model.CapEffects Model.SidecarInv Proofs.LogProofs Proofs.ContStoreProofs Proofs.LogBytesProofs
  Proofs.CapEffectsProofs Proofs.SidecarInvProofs Model.C02Cases Proofs.C02CasesProofs Model.NoopPlan Proofs.NoopPlanProofs Model.C02Decide Proofs.C02DecideProofs Model.LogFile Proofs.LogFileProofs Gen.LogOpen Gen.Effects.

(* one micro-step of any actor running ANY program (well-formed or not) in ANY state leaves the
   log as it was or adds exactly one frame at the end *)
Theorem c02_step_appends_at_most_one_frame : forall (st : state) (a : N),
  s_log (step st a) = s_log st \/ exists f, s_log (step st a) = s_log st ++ [f].
Proof. exact step_log. Qed.
Print Assumptions c02_step_appends_at_most_one_frame.

(* hence for every number of actors, every mix of calls and every schedule the old log is a prefix *)
Theorem c02_prefix_any_schedule : forall (sched : list N) (st : state),
  exists fs, s_log (run sched st) = s_log st ++ fs.
Proof. exact run_log. Qed.
Print Assumptions c02_prefix_any_schedule.

(* byte view: previous file content is an exact prefix; what was added splits into whole,
   newline-terminated frame lines with nothing left over - for every frame printer that never
   emits LF inside a line *)
Theorem c02_bytes_prefix_whole_lines : forall (enc : frame -> bytes) (sched : list N) (st : state),
  (forall f, ~ In 10 (enc f)) ->
  exists fs, log_bytes enc (s_log (run sched st)) = log_bytes enc (s_log st) ++ log_bytes enc fs
             /\ split_lines (log_bytes enc fs) = (map enc fs, []).
Proof. exact run_bytes. Qed.
Print Assumptions c02_bytes_prefix_whole_lines.

Theorem c02_restart_keeps_log : forall st, s_log (restart st) = s_log st.
Proof. exact restart_keeps_log. Qed.
Print Assumptions c02_restart_keeps_log.

(* status, cut-point, replay, streaming, dry-run and no-op invocations add nothing - for every
   capability, thread id (known or not), argument facts and store state *)
Theorem c02_silent_invocations_add_nothing : forall (cp : cap) (c : N) (f : cfacts) (st : state),
  silent cp f = true -> s_log (exec (cap_prog cp c f) st) = s_log st.
Proof. exact silent_calls_keep_log. Qed.
Print Assumptions c02_silent_invocations_add_nothing.

Theorem c02_read_only_capabilities_always_silent : forall (cp : cap) (f : cfacts),
  cap_can_append cp = false -> silent cp f = true.
Proof. exact read_only_caps_silent. Qed.
Print Assumptions c02_read_only_capabilities_always_silent.

(* ... also when any number of them run concurrently under any schedule *)
Theorem c02_quiet_calls_concurrently : forall (ps : list (list mstep * N)) (sched : list N) (st : state),
  Forall (fun x => quiet_prog (fst x) = true) ps -> s_log (run sched (spawn ps st)) = s_log st.
Proof. exact quiet_calls_keep_log. Qed.
Print Assumptions c02_quiet_calls_concurrently.

(* a write capability aimed at a thread id that does not exist fails before it appends (`rest`:
   whatever the same call would have done afterwards, e.g. the run_spawned append of a POST) *)
Theorem c02_unknown_thread_adds_nothing : forall st c t ar rest,
  skip_call rest = [] ->
  s_mu st = None -> s_next st c = None -> s_side st c = None -> cstream c (s_log st) = [] ->
  s_log (exec (MTarget c :: locked_append t ar ++ rest) st) = s_log st.
Proof. exact unknown_thread_append_silent. Qed.
Print Assumptions c02_unknown_thread_adds_nothing.

(* ---------- T1: the call graph of the source, regenerated on every run (Gen/Effects.v) ----------
   every row of the generated table "capability -> can its function reach self.event_log.append"
   says what the model's table says ... *)
Theorem c02_generated_call_graph_agrees : forall (cp : cap) (b : bool),
  In (cp, b) gen_cap_reaches_append -> b = cap_can_append cp.
Proof. exact (effects_agree_rows gen_cap_reaches_append (proj1 (andb_prop _ _ (proj1 (andb_prop _ _ gen_effects_ok))))). Qed.
Print Assumptions c02_generated_call_graph_agrees.

(* ... so a capability from which the source cannot reach an append adds nothing, whatever its
   arguments, the thread id and the store state *)
Theorem c02_unreachable_capabilities_add_nothing : forall (cp : cap),
  In (cp, false) gen_cap_reaches_append ->
  forall (c : N) (f : cfacts) (st : state), s_log (exec (cap_prog cp c f) st) = s_log st.
Proof. exact (unreachable_caps_silent gen_cap_reaches_append (proj1 (andb_prop _ _ (proj1 (andb_prop _ _ gen_effects_ok))))). Qed.
Print Assumptions c02_unreachable_capabilities_add_nothing.

(* the same for the thread routes of the HTTP router (handler -> store methods it calls) *)
Theorem c02_generated_routes_agree : forall (i : N) (b : bool),
  In (i, b) gen_route_reaches_append -> exists cp, route_cap i = Some cp /\ b = cap_can_append cp.
Proof. exact (routes_agree_rows gen_route_reaches_append gen_routes_ok). Qed.
Print Assumptions c02_generated_routes_agree.

(* non-vacuity: compaction_status_v1 cannot reach an append, compaction_auto_schedule_v1 can;
   GET /threads/{id}/events cannot, POST .../compaction-auto-schedule can *)
Example c02_call_graph_nontrivial :
  has_cap_row gen_cap_reaches_append 5 false = true /\ has_cap_row gen_cap_reaches_append 15 true = true
  /\ has_route_row gen_route_reaches_append 6 false = true /\ has_route_row gen_route_reaches_append 13 true = true.
Proof. exact (conj eq_refl (conj eq_refl (conj eq_refl eq_refl))). Qed.

(* ---------- which ids get a cache file ----------
   The thread id of a call reaches the cache's path_for verbatim (`../events` names the truth log).
   In the model a sidecar exists only for an id that some frame IN THE LOG carries as stream id - for
   every number of actors, every program, every schedule ... *)
Theorem c02_sidecars_only_for_ids_in_the_log : forall (sched : list N) (st : state) (c : N),
  SideInv st -> s_side (run sched st) c <> None ->
  exists f, In f (s_log (run sched st)) /\ sid f = c.
Proof. exact sidecars_named_any_schedule. Qed.
Print Assumptions c02_sidecars_only_for_ids_in_the_log.

(* ... and for every history of capability calls (any ids, known or not), cache faults and restarts *)
Theorem c02_sidecars_only_for_ids_in_the_log_histories : forall (ks : list call) (c : N),
  s_side (snd (run_calls empty_state ks)) c <> None ->
  exists f, In f (s_log (snd (run_calls empty_state ks))) /\ sid f = c.
Proof. exact sidecars_named_any_history. Qed.
Print Assumptions c02_sidecars_only_for_ids_in_the_log_histories.

(* false without the emptiness guard of replay_events (seeded change C02-1): one read of an id that
   no frame names leaves a cache file for it *)
Theorem c02_sidecars_unguarded_rebuild_refuted :
  snd (replay_events_unguarded empty_state 7) 7 <> None /\ ~ (exists f, In f (s_log empty_state) /\ sid f = 7).
Proof. exact unguarded_rebuild_refuted. Qed.
Print Assumptions c02_sidecars_unguarded_rebuild_refuted.

Example c02_sidecar_demo :
  let st := snd (run_calls empty_state [KCap CapEnsureDefault 0 fact_ok; KCap CapReplay 0 fact_ok; KCap CapReplay 99 fact_ok]) in
  s_side st 0 <> None /\ s_side st 4294967295 = None /\ map sid (s_log st) = [0].
Proof. exact sidecar_demo. Qed.

(* ---------- byte level: what is IN THE FILE after every write(2) of EventLog::append ----------
   BufWriter rule (Model/LogBytes.v): bytes reach the file when the buffer is flushed or when one
   write is at least as large as the capacity.  For EVERY capacity, every sequence of frames appended
   with the single write of frame+LF, and every instant (= after each write(2)): the file is the old
   bytes followed by whole, newline-terminated frames - a reader, a second handle or a crash never
   meets part of a line. *)
Theorem c02_file_is_whole_lines_at_every_step :
  forall (cap : N) (enc : frame -> bytes) (l fs : list frame) (b : bytes),
  (forall f, ~ In 10 (enc f)) ->
  In b (bw_trace cap (bw_at (log_bytes enc l)) (appends_single enc fs)) ->
  exists k, b = log_bytes enc l ++ log_bytes enc (firstn k fs)
            /\ split_lines (log_bytes enc (firstn k fs)) = (map enc (firstn k fs), []).
Proof. exact file_whole_lines_every_step. Qed.
Print Assumptions c02_file_is_whole_lines_at_every_step.

Theorem c02_file_after_appends : forall (cap : N) (enc : frame -> bytes) (l fs : list frame),
  bw_final cap (bw_at (log_bytes enc l)) (appends_single enc fs) = bw_at (log_bytes enc (l ++ fs)).
Proof. exact file_after_appends. Qed.
Print Assumptions c02_file_after_appends.

(* T1: the writer calls read off EventLog::append on this run ARE that single-write program *)
Theorem c02_generated_append_is_single_write : forall (enc : frame -> bytes) (pieces : frame -> list bytes) (f : frame),
  prog_of_shape enc pieces f gen_append_shape = append_single enc f.
Proof. exact (fun enc pieces f => shape_single_prog enc pieces f gen_append_shape gen_append_shape_ok). Qed.
Print Assumptions c02_generated_append_is_single_write.

(* frame and terminator as two writes (the shape before /repo bd2ee56): every frame whose printed
   form fills the buffer is in the file WITHOUT its newline at some instant *)
Theorem c02_two_write_append_exposes_partial_line :
  forall (cap : N) (enc : frame -> bytes) (l : list frame) (f : frame),
  (forall g, ~ In 10 (enc g)) -> cap <= blen (enc f) -> enc f <> [] ->
  exists b, In b (bw_trace cap (bw_at (log_bytes enc l)) (append_two_writes enc f))
            /\ partial_tail b = enc f /\ partial_tail b <> [].
Proof. exact two_writes_partial_line. Qed.
Print Assumptions c02_two_write_append_exposes_partial_line.

(* a serializer streaming into the BufWriter (serde_json::to_writer + write_all(b"\n")): every frame
   longer than the buffer is in the file in part at some instant, however it is cut into pieces *)
Theorem c02_streamed_append_exposes_partial_line :
  forall (cap : N) (enc : frame -> bytes) (l : list frame) (pieces : list bytes),
  (forall g, ~ In 10 (enc g)) -> ~ In 10 (concat pieces) -> cap < blen (concat pieces) ->
  exists b, In b (bw_trace cap (bw_at (log_bytes enc l)) (append_streamed pieces)) /\ partial_tail b <> [].
Proof. exact streamed_partial_line. Qed.
Print Assumptions c02_streamed_append_exposes_partial_line.

(* so `c02_file_is_whole_lines_at_every_step` is FALSE of those two shapes at std's capacity 8192 *)
Theorem c02_file_is_whole_lines_two_writes_refuted :
  exists b, In b (bw_trace bufwriter_capacity (bw_at (log_bytes w_enc [w_frame])) (append_two_writes w_enc w_frame))
            /\ partial_tail b <> [].
Proof. exact w_two_writes_refuted. Qed.
Print Assumptions c02_file_is_whole_lines_two_writes_refuted.

Theorem c02_file_is_whole_lines_streamed_refuted :
  exists b, In b (bw_trace bufwriter_capacity (bw_at (log_bytes w_enc [w_frame])) (append_streamed w_pieces))
            /\ partial_tail b <> [].
Proof. exact w_streamed_refuted. Qed.
Print Assumptions c02_file_is_whole_lines_streamed_refuted.

(* non-vacuity: capacity 4, lines of 7 bytes: the single-write append passes through old, old+f1,
   old+f1+f2 only; the two-write append passes through old+"{1}AAA" *)
Example c02_byte_trace_demo :
  bw_trace 4 (bw_at (log_bytes d_enc [w_frame])) (appends_single d_enc (tl d_frames)) =
  [log_bytes d_enc [w_frame]; log_bytes d_enc (firstn 2 d_frames); log_bytes d_enc (firstn 2 d_frames);
   log_bytes d_enc (firstn 2 d_frames); log_bytes d_enc d_frames; log_bytes d_enc d_frames]
  /\ bw_trace 4 (bw_at (log_bytes d_enc [w_frame])) (append_two_writes d_enc (nth 1 d_frames w_frame)) =
     [log_bytes d_enc [w_frame]; log_bytes d_enc [w_frame] ++ d_enc (nth 1 d_frames w_frame);
      log_bytes d_enc (firstn 2 d_frames)].
Proof. exact d_trace. Qed.

(* non-vacuity: the same model does append for the non-silent invocations *)
Example c02_demo_nontrivial :
  let st := exec (create_prog []) empty_state in
  let f := {| cf_ok := true; cf_stride0 := false; cf_dry := false; cf_planned := 1%nat;
              cf_inflight := false; cf_execute := true; cf_created := 1%nat; cf_ended := true |} in
  map seq (s_log (exec (cap_prog CapPost 0 f) st)) = [0; 1; 2]
  /\ map seq (s_log (exec (cap_prog CapAuto 0 f) st)) = [0; 1; 2; 3]
  /\ silent CapAuto f = false
  /\ map seq (s_log (exec (cap_prog CapPost 77 f) st)) = [0].
Proof. exact c02_demo. Qed.

(* ---------- second round (builder log02b) ----------
   T1: every method of impl ContinuityStore that a READ-ONLY capability shares with a capability that may
   append (reachable from both in the regenerated call graph) is listed in Gen/Effects.v with its
   "can reach self.event_log.append" bit; the list is not empty and no shared helper can append.
   (Seed C02-5 put an append into find_inflight_compaction_job_id_best_effort_v1, which
   compaction_status_v1 shares with the scheduler.) *)
Theorem c02_shared_helpers_cannot_append :
  gen_shared_helpers <> [] /\ forall n b, In (n, b) gen_shared_helpers -> b = false.
Proof. exact (shared_helpers_rows gen_shared_helpers gen_shared_helpers_ok). Qed.
Print Assumptions c02_shared_helpers_cannot_append.

(* Histories of the correspondence, second round (Model/C02Cases.v, call2): capability calls, faults on
   the full sidecar, faults on ONE derived cache file, garbage lines appended to / inserted into the
   full sidecar, restarts, and ageing (every timestamp moved, store re-opened).  For every such
   history and every point in it: the log at that point is a prefix of the log at the end ... *)
Theorem c02_prefix_extended_histories : forall (ks1 ks2 : list call2),
  exists fs, s_log (snd (run_calls2 empty_state (ks1 ++ ks2)))
             = s_log (snd (run_calls2 empty_state ks1)) ++ fs.
Proof. exact history2_prefix. Qed.
Print Assumptions c02_prefix_extended_histories.

(* ... a fault of any of these kinds, a restart and the passing of time leave the log as it is, in
   every state ... *)
Theorem c02_faults_garbage_and_time_keep_the_log : forall (st : state) (k : call2),
  is_fault2 k = true -> s_log (do_call2 st k) = s_log st.
Proof. exact fault2_keeps_log. Qed.
Print Assumptions c02_faults_garbage_and_time_keep_the_log.

(* ... an invocation the property names as silent (read-only; dry run; stride 0; nothing planned) adds
   nothing in whatever state such a history has led to ... *)
Theorem c02_silent_invocation_anywhere_in_a_history : forall (ks : list call2) (cp : cap) (th : nat) (f : cfacts),
  silent cp f = true ->
  s_log (do_call2 (snd (run_calls2 empty_state ks)) (K (KCap cp th f))) = s_log (snd (run_calls2 empty_state ks)).
Proof. exact (fun ks cp th f H => silent_call2_keeps_log (snd (run_calls2 empty_state ks)) cp th f H). Qed.
Print Assumptions c02_silent_invocation_anywhere_in_a_history.

(* ... and a sidecar still exists only for ids that a frame in the log carries *)
Theorem c02_sidecars_only_for_ids_in_the_log_extended_histories : forall (ks : list call2) (c : N),
  s_side (snd (run_calls2 empty_state ks)) c <> None ->
  exists f, In f (s_log (snd (run_calls2 empty_state ks))) /\ sid f = c.
Proof. exact sidecars_named_any_history2. Qed.
Print Assumptions c02_sidecars_only_for_ids_in_the_log_extended_histories.

(* non-vacuity: the settings of seeds C02-6 / C02-5 as a model history (2 messages, auto creates a
   checkpoint, comp sidecar torn, garbage in the full sidecar, an hour passes, auto with nothing to
   do, status): frames in the log after each step *)
Example c02_extended_history_demo :
  fst (run_calls2 empty_state demo2_history) = [1; 2; 3; 6; 6; 6; 6; 6; 6].
Proof. exact demo2. Qed.

(* ---------- "nothing to do" (Model/NoopPlan.v) ----------
   The planner of compaction-auto / compaction-auto-schedule as the code runs it (cut points of the stride, newest
   32; per cut point the "latest checkpoint at or before" lookup through the checkpoint cache <id>.comp.v1.jsonl:
   absent -> rebuilt and scanned, unparsable -> the caller's fallback loop over the replayed stream, parsable ->
   answered from its lines as found) against the judgement of the truth log alone (`unplanned`: cut points no
   checkpoint frame sits on).  For every thread, stride, max_new and every cache state that is absent, unparsable
   or the projection of the stream: the code plans exactly the first max_new unplanned cut points ... *)
Theorem c02_planner_agrees_with_the_truth_log : forall (t : pthread) (cc : comp_cache) (stride : N) (max_new : nat),
  coherent t cc -> planned false t cc stride max_new = firstn max_new (unplanned t stride).
Proof. exact planned_coherent. Qed.
Print Assumptions c02_planner_agrees_with_the_truth_log.

(* ... so when the truth log leaves nothing to do, auto and auto-schedule (with whatever dry_run, execute,
   block_on_inflight) are silent invocations: they add nothing, in every state of the store model *)
Theorem c02_nothing_to_do_adds_nothing :
  forall (t : pthread) (cc : comp_cache) (stride : N) (max_new : nat) (cp : cap) (f : cfacts) (c : N) (st : state),
  coherent t cc -> unplanned t stride = [] ->
  cp = CapAuto \/ cp = CapAutoSchedule ->
  cf_planned f = length (planned false t cc stride max_new) ->
  s_log (exec (cap_prog cp c f) st) = s_log st.
Proof. exact nothing_to_do_is_silent. Qed.
Print Assumptions c02_nothing_to_do_adds_nothing.

(* FALSE for a cache file that parses but is not the projection - the code answers from it as found (open
   findings S4c-noop-appends: zero bytes; S4-noop-appends: re-created by the last append): 6 messages, checkpoints
   on 2, 4, 6, nothing to do, yet cut points are planned *)
Theorem c02_nothing_to_do_zero_length_cache_refuted :
  unplanned w_thread6 2 = [] /\ planned false w_thread6 (seen false (CLines [])) 2 32 = [6; 4; 2].
Proof. exact zero_length_cache_refuted. Qed.
Print Assumptions c02_nothing_to_do_zero_length_cache_refuted.
(* `seen zl`: how the source looks at the file (zl = false: `path.exists()`, the zero-byte file is answered from as
   found - the witness above; zl = true: the file must hold data, a zero-byte file counts as absent - the S4c
   repair).  Which one the source does is regenerated on every run (gen_zero_length_comp_sidecar_is_absent,
   obligation gen_zero_length_policy_ok) and the correspondence cases are checked under that value.  Under
   zl = true the zero-byte state is coherent: the planner agrees with the truth log for every thread *)
Theorem c02_zero_length_cache_counts_as_absent : forall (t : pthread) (stride : N) (max_new : nat),
  planned false t (seen true (CLines [])) stride max_new = firstn max_new (unplanned t stride).
Proof. exact zero_length_counts_as_absent. Qed.
Print Assumptions c02_zero_length_cache_counts_as_absent.
Theorem c02_seen_changes_only_the_zero_length_state : forall (zl : bool) (cc : comp_cache),
  cc <> CLines [] -> seen zl cc = cc.
Proof. exact seen_other. Qed.
Print Assumptions c02_seen_changes_only_the_zero_length_state.

Theorem c02_nothing_to_do_partial_cache_refuted :
  unplanned w_thread6 2 = [] /\ planned false w_thread6 (CLines [(6, 9)]) 2 32 = [4; 2].
Proof. exact partial_cache_refuted. Qed.
Print Assumptions c02_nothing_to_do_partial_cache_refuted.

(* the fallback loop with `>=` instead of `>` (seeded change C02-6): indistinguishable while the cache answers,
   for every thread ... *)
Theorem c02_skip_eq_fallback_hidden_while_the_cache_answers :
  forall (t : pthread) (cc : comp_cache) (stride : N) (max_new : nat),
  cc = CAbsent \/ cc = CLines (t_cps t) ->
  planned true t cc stride max_new = planned false t cc stride max_new.
Proof. exact skip_eq_fallback_hidden. Qed.
Print Assumptions c02_skip_eq_fallback_hidden_while_the_cache_answers.

(* ... and it plans every covered cut point again once the cache file is unparsable *)
Theorem c02_skip_eq_fallback_refuted :
  unplanned w_thread6 2 = [] /\ planned true w_thread6 CUnparsable 2 32 = [6; 4; 2]
  /\ planned false w_thread6 CUnparsable 2 32 = [].
Proof. exact skip_eq_fallback_refuted. Qed.
Print Assumptions c02_skip_eq_fallback_refuted.

(* non-vacuity: a thread with work left (unparsable cache, stride 2; parsable cache, stride 1, max_new 2),
   the window of 32 on 70 messages, strides u64::MAX and 0 *)
Example c02_planner_demo :
  planned false {| t_msgs := [1; 2; 3; 4; 5]; t_cps := [(4, 6)] |} CUnparsable 2 32 = [2]
  /\ planned false {| t_msgs := [1; 2; 3; 4; 5]; t_cps := [(4, 6)] |} (CLines [(4, 6)]) 1 2 = [5; 3]
  /\ length (cut_seqs {| t_msgs := map N.of_nat (List.seq 1 70); t_cps := [] |} 2) = 32%nat
  /\ cut_seqs w_thread6 18446744073709551615 = [] /\ cut_seqs w_thread6 0 = [].
Proof. exact planner_demo. Qed.

(* ---------- third round (builder log02c): the decisions before an append (Model/C02Decide.v) ----------
   provider-cursor-rotate and ensure_default are no-ops exactly when a SEARCH finds something (ensure) or
   nothing (rotate).  In the histories of this round (Model/C02Cases.v, call3) the model takes those decisions
   itself - from what the code reads - instead of being told the outcome by the implementation's response;
   the theorems say that the decision is the one the TRUTH LOG alone gives.

   ROTATE.  No provider cursor frame of the thread in the truth log passes the request's filters (a filter
   that is present is passed only by a recorded value that is present and equal; recorded endpoint / model are
   optional) => the call appends nothing - for every state whose sidecars hold only frames of the log ... *)
Theorem c02_rotate_nothing_to_find_adds_nothing : forall (st : state) (known : bool) (c : N) (rq : rot_req),
  SideSub st -> rotate_has_target rq c (s_log st) = false ->
  s_log (exec (rotate_prog false known c rq st) st) = s_log st.
Proof. exact rotate_nothing_in_the_log_adds_nothing. Qed.
Print Assumptions c02_rotate_nothing_to_find_adds_nothing.

(* ... which is every state a history of capability calls (any filters, any recorded fields), cursor appends with
   and without endpoint / model, frames written behind the store's back, cache faults, garbage, index faults,
   restarts for any workspace and ageing can lead to *)
Theorem c02_rotate_nothing_to_find_anywhere_in_a_history : forall (ks : list call3) (th : nat) (fp fe fm : N),
  let d := snd (run_calls3 dstate0 ks) in
  rotate_has_target (req_of fp fe fm) (nth_thread (s_log (d_st d)) th) (s_log (d_st d)) = false ->
  s_log (d_st (fst (do_call3 d (DRotate th fp fe fm)))) = s_log (d_st d).
Proof. exact rotate_noop_anywhere_in_a_history. Qed.
Print Assumptions c02_rotate_nothing_to_find_anywhere_in_a_history.

(* a thread id the in-memory index does not list (index behind the log): not_found, nothing appended *)
Theorem c02_rotate_unlisted_thread_adds_nothing : forall (lenient : bool) (st : state) (c : N) (rq : rot_req),
  s_log (exec (rotate_prog lenient false c rq st) st) = s_log st.
Proof. exact rotate_unknown_adds_nothing. Qed.
Print Assumptions c02_rotate_unlisted_thread_adds_nothing.

(* FALSE of the reading `recorded.is_some_and(|r| r != filter)` (seeded change C02-7): a cursor frame without a
   model, a request for model 5: nothing to find by the truth log, yet a frame is appended; the two readings
   agree on every frame that records both fields - which is all the repository's tests have *)
Theorem c02_rotate_lenient_filter_refuted :
  rotate_has_target w_rot_req 0 (s_log w_rot_state) = false
  /\ map seq (s_log (exec (rotate_prog true true 0 w_rot_req w_rot_state) w_rot_state)) = [0; 1; 2]
  /\ map seq (s_log (exec (rotate_prog false true 0 w_rot_req w_rot_state) w_rot_state)) = [0; 1].
Proof. exact rotate_lenient_filter_refuted. Qed.
Print Assumptions c02_rotate_lenient_filter_refuted.

Theorem c02_rotate_lenient_filter_hidden_on_full_frames : forall (rq : rot_req) (f : frame) (p e m : N),
  cursor_fields f = Some (p, Some e, Some m) -> rot_match true rq f = rot_match false rq f.
Proof. exact rot_match_lenient_same_on_full_frames. Qed.
Print Assumptions c02_rotate_lenient_filter_hidden_on_full_frames.

(* ENSURE_DEFAULT (the store's one get-or-create).  The log holds a thread of the store's workspace => the call
   appends nothing - for EVERY in-memory index and EVERY state of continuities/index.json (the statement does
   not mention them) ... *)
Theorem c02_ensure_thread_in_the_log_adds_nothing : forall (d : dstate),
  log_has_ws (d_ws d) (s_log (d_st d)) = true ->
  s_log (d_st (fst (ensure false d))) = s_log (d_st d).
Proof. exact ensure_thread_in_the_log_adds_nothing. Qed.
Print Assumptions c02_ensure_thread_in_the_log_adds_nothing.

(* ... spelled out for a restart: whatever is left in index.json (absent, unreadable, another version, any older or
   foreign content) and whichever workspace the store is opened for ... *)
Theorem c02_ensure_after_restart_any_index_file : forall (d : dstate) (file : idx_file) (ws : N),
  log_has_ws ws (s_log (d_st d)) = true ->
  s_log (d_st (fst (ensure false (reopen {| d_st := d_st d; d_ws := d_ws d; d_file := file; d_mem := d_mem d |} ws))))
  = s_log (d_st d).
Proof. exact ensure_after_restart_any_index_file. Qed.
Print Assumptions c02_ensure_after_restart_any_index_file.

(* ... and at any point of any history: index fault, restart, ensure *)
Theorem c02_ensure_idempotent_anywhere_in_a_history : forall (ks : list call3) (x : idx_fault) (ws : N),
  let d := snd (run_calls3 dstate0 ks) in
  log_has_ws ws (s_log (d_st d)) = true ->
  s_log (d_st (snd (run_calls3 d [DIdx x; DReopen ws; DEnsure]))) = s_log (d_st d).
Proof. exact ensure_idempotent_anywhere_in_a_history. Qed.
Print Assumptions c02_ensure_idempotent_anywhere_in_a_history.

(* the answer comes from the log: when the in-memory index names only threads the log holds for that workspace
   (MemSound), the thread answered is a thread of the workspace in the log *)
Theorem c02_ensure_answers_from_the_log : forall (d : dstate),
  MemSound d -> log_has_ws (d_ws d) (s_log (d_st d)) = true -> validate (s_log (d_st d)) = true ->
  answer_code (d_ws d) (s_log (d_st (fst (ensure false d)))) (snd (ensure false d)) = 1.
Proof. exact ensure_answers_from_the_log. Qed.
Print Assumptions c02_ensure_answers_from_the_log.

(* FALSE of `scan the log only when index.json is missing` (seeded change C02-9): the thread is in the log, the
   file is there but lists nothing, the store is restarted: a second continuity_created (seq 0) is appended *)
Theorem c02_ensure_skip_scan_when_index_file_exists_refuted :
  log_has_ws 0 (s_log (d_st w_ens_state)) = true
  /\ map seq (s_log (d_st (fst (ensure true w_ens_state)))) = [0; 0]
  /\ map seq (s_log (d_st (fst (ensure false w_ens_state)))) = [0]
  /\ snd (ensure false w_ens_state) = Some 0.
Proof. exact ensure_skip_refuted. Qed.
Print Assumptions c02_ensure_skip_scan_when_index_file_exists_refuted.

(* ... invisible while the file is missing or the in-memory index knows the workspace *)
Theorem c02_ensure_skip_scan_hidden_without_file_or_in_one_process : forall (d : dstate),
  d_file d = IAbsent \/ ws_lookup (ix_ws (d_mem d)) (d_ws d) <> None ->
  ensure true d = ensure false d.
Proof. exact ensure_skip_hidden. Qed.
Print Assumptions c02_ensure_skip_scan_hidden_without_file_or_in_one_process.

(* prefix over the histories of this round; index faults and re-opening leave the log as it is *)
Theorem c02_prefix_decided_histories : forall (ks1 ks2 : list call3),
  exists fs, s_log (d_st (snd (run_calls3 dstate0 (ks1 ++ ks2))))
             = s_log (d_st (snd (run_calls3 dstate0 ks1))) ++ fs.
Proof. exact history3_prefix. Qed.
Print Assumptions c02_prefix_decided_histories.

Theorem c02_index_faults_and_reopening_keep_the_log : forall (d : dstate) (x : idx_fault) (ws : N),
  s_log (d_st (fst (do_call3 d (DIdx x)))) = s_log (d_st d)
  /\ s_log (d_st (fst (do_call3 d (DReopen ws)))) = s_log (d_st d).
Proof. exact index_fault_and_reopen_keep_the_log. Qed.
Print Assumptions c02_index_faults_and_reopening_keep_the_log.

(* non-vacuity: frames in the log (and the answer code of each ensure) along a history with two workspaces, a
   crash between the log append of the second thread and save_index, another version, a child, a lost index, a
   third workspace; a rotate that finds nothing and one that rotates *)
Example c02_decided_history_demo :
  fst (run_calls3 dstate0 demo3_history) = [1; 1; 2; 2; 3; 3; 4; 1; 4; 4; 4; 1; 4; 4; 4; 1; 6; 6; 6; 6; 1; 6; 7; 1].
Proof. exact demo3. Qed.

Example c02_ensure_hypotheses_satisfiable :
  MemSound w_ens_state /\ log_has_ws 0 (s_log (d_st w_ens_state)) = true /\ validate (s_log (d_st w_ens_state)) = true.
Proof. exact mem_sound_demo. Qed.

(* T1: what the two searches look at, read off the source on every run (Gen/Effects.v): in ensure_default the log
   scan is on the straight-line path behind the in-memory index hit (no test of what is on disk before it) - the
   model's `ensure false`; the filter closure of provider_cursor_rotate_v1 compares the recorded endpoint / model
   with `Some(filter)` - the model's `rot_match false` *)
Theorem c02_generated_decisions_are_the_models :
  gen_ensure_scans_the_log_whenever_memory_misses = true /\ gen_rotate_filters_reject_absent_fields = true.
Proof. exact (andb_prop _ _ gen_decisions_ok). Qed.
Print Assumptions c02_generated_decisions_are_the_models.

(* ================= fourth round (builder log02d): the FILE across restarts, whatever state it is in =================
   Model/LogFile.v: the bytes of events.jsonl under FOpen (EventLog::new and everything that opens the log through it:
   ContinuityStore::new, SessionEngine::new, the CLI's local mode, build_app), FRead (replay*, last_seq, the read-only
   capabilities), FTorn d (whatever a crash or a partial write left at the end: d is ANY byte string, with or without
   line ends, valid JSON or garbage, 1 byte or megabytes) and FAppend line (one O_APPEND write). *)

(* opening is the identity on the file - for every content *)
Theorem c02_open_preserves_bytes : forall (b : bytes), open_file OKeep b = b.
Proof. exact open_keep_id. Qed.
Print Assumptions c02_open_preserves_bytes.

(* any number of opens and reads in any order: the same bytes, for every content *)
Theorem c02_opens_and_reads_preserve_bytes : forall (ops : list fop) (b : bytes),
  forallb opens_or_reads ops = true -> ffinal OKeep b ops = b.
Proof. exact opens_and_reads_keep_bytes. Qed.
Print Assumptions c02_opens_and_reads_preserve_bytes.

(* append-only across process lifetimes: for every initial content and every history of opens, reads, torn writes and
   appends, the content at any earlier moment is an exact prefix of the content at any later moment *)
Theorem c02_prefix_across_restarts_and_torn_tails : forall (b : bytes) (ops1 ops2 : list fop),
  is_prefix_of (ffinal OKeep b ops1) (ffinal OKeep b (ops1 ++ ops2)).
Proof. exact history_prefix. Qed.
Print Assumptions c02_prefix_across_restarts_and_torn_tails.

Theorem c02_prefix_at_every_step_across_restarts : forall (b : bytes) (ops : list fop) (i j : nat) (x y : bytes),
  (i <= j)%nat -> nth_error (ftrace OKeep b ops) i = Some x -> nth_error (ftrace OKeep b ops) j = Some y ->
  is_prefix_of x y.
Proof. exact trace_prefix. Qed.
Print Assumptions c02_prefix_at_every_step_across_restarts.

(* what the code does with the next frame after a torn tail (bd2ee56: frame + LF in one write; the open does not look
   at the tail): after any number of restarts and reads the frame is put behind the torn bytes - every earlier byte
   stays, the file is whole lines again, every earlier line is untouched, and the torn bytes share ONE line with the
   new frame *)
Theorem c02_append_after_torn_tail : forall (enc : frame -> bytes) (b d : bytes) (f : frame) (ops : list fop),
  forallb opens_or_reads ops = true ->
  ffinal OKeep b (FTorn d :: ops ++ [FAppend (frame_line enc f)]) = b ++ d ++ enc f ++ [10].
Proof. exact append_after_torn_tail. Qed.
Print Assumptions c02_append_after_torn_tail.

Theorem c02_append_after_torn_tail_whole_lines : forall (enc : frame -> bytes) (l : list frame) (d : bytes) (f : frame),
  (forall g, ~ In 10 (enc g)) -> ~ In 10 d ->
  split_lines (log_bytes enc l ++ d ++ enc f ++ [10]) = (map enc l ++ [d ++ enc f], []).
Proof. exact append_after_torn_tail_lines. Qed.
Print Assumptions c02_append_after_torn_tail_whole_lines.

(* FALSE of an open that cuts an unterminated tail off, looking at the last `window` bytes (seeded change C02-10; the
   64 KiB witness as a small instance: window 4, log "a\n", torn part "bbbb"): the content before the restart is not a
   prefix of the content after it - and the WHOLE log is gone *)
Theorem c02_open_cutting_unterminated_tail_refuted :
  exists (w : N) (b d : bytes),
    ~ is_prefix_of (ffinal OKeep b [FTorn d]) (ffinal (OCutTail w) b [FTorn d; FOpen])
    /\ ffinal (OCutTail w) b [FTorn d; FOpen] = [].
Proof. exact open_cutting_tail_refuted. Qed.
Print Assumptions c02_open_cutting_unterminated_tail_refuted.

(* ... with a torn part shorter than the window the whole lines survive, the restart still rewrites the file *)
Theorem c02_open_cutting_short_tail_refuted :
  exists (w : N) (b d : bytes),
    ~ is_prefix_of (ffinal OKeep b [FTorn d]) (ffinal (OCutTail w) b [FTorn d; FOpen])
    /\ ffinal (OCutTail w) b [FTorn d; FOpen] = b.
Proof. exact open_cutting_tail_small_refuted. Qed.
Print Assumptions c02_open_cutting_short_tail_refuted.

(* ... in general: no file that ends in anything but LF survives such an open, whatever the window *)
Theorem c02_open_cutting_tail_never_keeps_a_torn_tail : forall (w : N) (b : bytes) (x : N),
  w <> 0 -> x <> 10 -> ~ is_prefix_of (b ++ [x]) (open_file (OCutTail w) (b ++ [x])).
Proof. exact open_cutting_tail_never_keeps_a_torn_tail. Qed.
Print Assumptions c02_open_cutting_tail_never_keeps_a_torn_tail.

(* ... and invisible on an empty file and on a file of whole lines - every state a test reaches that lets its appends finish *)
Theorem c02_open_cutting_tail_hidden_on_whole_lines : forall (w : N) (b : bytes),
  b = [] \/ (exists b', b = b' ++ [10]) -> open_file (OCutTail w) b = b.
Proof. exact cut_tail_hidden_on_whole_lines. Qed.
Print Assumptions c02_open_cutting_tail_hidden_on_whole_lines.

(* T1: the file-system effects in the call closure of EventLog::new / of the readers of impl EventLog, read off the
   source on every run, leave the bytes of an existing log alone - for every content *)
Theorem c02_generated_open_and_read_paths_keep_bytes : forall (b : bytes),
  effects_bytes gen_open_effects b = Some b /\ effects_bytes gen_read_effects b = Some b.
Proof. exact (fun b => conj (open_effects_ok_keep_bytes gen_open_effects b gen_open_effects_ok)
                            (read_effects_ok_keep_bytes gen_read_effects b gen_read_effects_ok)). Qed.
Print Assumptions c02_generated_open_and_read_paths_keep_bytes.

(* non-vacuity: (bytes in the file, bytes after the last LF) along a history with a torn tail, two restarts and reads,
   a glued append, a torn region with a line end inside, a restart, a clean append *)
Example c02_file_history_demo :
  model_obs_logfile {| lf_ops := lf_demo_ops; lf_expect := [] |} =
  [5; 0;  8; 3;  8; 3;  8; 3;  8; 3;  12; 0;  18; 4;  18; 4;  20; 0].
Proof. exact lf_demo. Qed.
