(* C09 — compaction follows message count alone; idempotent and replay-safe.
   Statements only; proofs are in Proofs/CompactionProofs.v.  Every theorem is closed by `exact`. *)
From RipV Require Import Base.Prelude Model.Compaction Proofs.CompactionProofs.

(* Cut points are exactly the k*stride-th messages, latest k first (k = K, K-1, … >= 1 with
   K = message_count / stride), at most clamp(limit) of them, each identified by that message's (seq, id).
   `ks n K` is the list [K; K-1; …] cut at n elements / at 1 (c09_ks_shape). *)
Theorem c09_cut_points_exact : forall (K : consts) (stride lim : N) (l : list ev),
  stride <> 0 ->
  map (fun c => (cp_ord c, Some (cp_seq c, cp_mid c))) (cut_points K stride lim l)
  = map (fun k => (k * stride, nth_error (msgs l) (N.to_nat (k * stride - 1))))
        (ks (limit_of K lim) (nlen (msgs l) / stride)).
Proof. exact cut_points_exact. Qed.
Print Assumptions c09_cut_points_exact.

Theorem c09_ks_shape : forall (n : nat) (k : N),
  length (ks n k) = Nat.min n (N.to_nat k)
  /\ forall i, (i < Nat.min n (N.to_nat k))%nat -> nth_error (ks n k) i = Some (k - N.of_nat i).
Proof. exact (fun n k => conj (ks_length n k) (ks_nth n k)). Qed.
Print Assumptions c09_ks_shape.

(* a cut point counts as checkpointed exactly when a checkpoint frame for that seq exists (any number of
   checkpoint frames: the bounded scan answers only when it covered them all, otherwise truth is read) … *)
Theorem c09_checkpointed_iff : forall (K : consts) (stride lim : N) (l : list ev) (c : cutpt),
  In c (cut_points K stride lim l) ->
  (cp_done c = true <-> exists e r a m, In e l /\ ebody e = BCkpt r a (cp_seq c) m).
Proof. exact checkpointed_iff. Qed.
Print Assumptions c09_checkpointed_iff.

(* … the latest such frame (largest frame seq, i.e. latest in stream order) winning: the reported
   latest_checkpoint_id is the id of a checkpoint frame for that seq that no other such frame follows *)
Theorem c09_checkpointed_latest_wins : forall (K : consts) (stride lim : N) (l : list ev) (c : cutpt),
  In c (cut_points K stride lim l) ->
  (forall i, cp_ck c = Some i <-> exists b, latest_for (ckpts l) (cp_seq c) b /\ ck_id b = i
                                          /\ cut_lookup K l (cp_seq c) = Some b)
  /\ (cp_done c = false -> cp_ck c = None).
Proof. exact checkpointed_latest_wins. Qed.
Print Assumptions c09_checkpointed_latest_wins.

(* the code before the fix (bounded backward scan trusted even when cut short) violated it: with a scan window
   of 2 checkpoint frames, a cut point whose frame is the third-newest is reported not checkpointed *)
Theorem c09_checkpointed_iff_unfixed_refuted :
  map (fun c => (cp_seq c, cp_done c)) (cut_points_unfixed small_window 1 2 unfixed_log) = [(2, true); (1, false)]
  /\ map (fun c => (cp_seq c, cp_done c)) (cut_points small_window 1 2 unfixed_log) = [(2, true); (1, true)]
  /\ In {| eseq := 3; eid := 4; ebody := BCkpt 0 1 1 (Some 2) |} unfixed_log.
Proof. exact unfixed_refuted. Qed.
Print Assumptions c09_checkpointed_iff_unfixed_refuted.

Theorem c09_stride_zero_rejected : forall (K : consts) (s : st),
  (forall lim, step K s (OCut (Some 0) lim) = (s, [1; 10]))
  /\ step K s (OStatus (Some 0)) = (s, [1; 10])
  /\ (forall mx d, step K s (OAuto (Some 0) mx d) = (s, [1; 10]))
  /\ (forall mx b e d, step K s (OSched (Some 0) mx b e d) = (s, [1; 10])).
Proof. exact stride_zero_rejected. Qed.
Print Assumptions c09_stride_zero_rejected.

Theorem c09_manual_stride_zero_rejected : forall (K : consts) (s : st) (md art : option N),
  msgs (log s) <> [] -> (md <> None \/ art <> None) ->
  manual K {| mr_md := md; mr_art := art; mr_to_mid := None; mr_to_seq := None; mr_stride := Some 0 |} s = (s, Err 6).
Proof. exact manual_stride_zero_rejected. Qed.
Print Assumptions c09_manual_stride_zero_rejected.

(* non-vacuity: a reachable thread with two cut points, one checkpointed twice (the later frame wins) *)
Example c09_demo_cut_points :
  map (fun c => (cp_ord c, cp_seq c, cp_mid c, cp_done c, cp_ck c)) (cut_points real_consts 2 32 demo_log)
  = [(4, 5, 6, false, None); (2, 2, 3, true, Some 9)]
  /\ map eid (filter (fun e => match ebody e with BCkpt _ _ 2 _ => true | _ => false end) demo_log) = [8; 9].
Proof. exact demo_cut_points. Qed.
