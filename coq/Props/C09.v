(* C09 — compaction follows message count alone; idempotent and replay-safe.
   Statements only; proofs are in Proofs/CompactionProofs.v.  Every theorem is closed by `exact`. *)
From RipV Require Import Base.Prelude Model.Compaction Proofs.CompactionProofs Proofs.CompactionSummaryProofs
  Proofs.CompactionCacheProofs.
From RipV Require Model.Cache Proofs.CacheProofs.
From Coq Require Import Sorting.Sorted Sorting.Permutation.

(* Cut points are exactly the k*stride-th messages, latest k first (k = K, K-1, … >= 1 with
   K = message_count / stride), at most clamp(limit) of them, each identified by that message's (seq, id).
   `ks n K` is the list [K; K-1; …] cut at n elements / at 1 (c09_ks_shape). *)
Theorem c09_cut_points_exact : forall (K : consts) (stride lim : N) (l : list ev),
  stride <> 0 ->
  map (fun c => (cp_ord c, Some (cp_seq c, cp_mid c))) (cut_points K stride lim l)
  = map (fun k => (k * stride, nth_error (msgs l) (N.to_nat (k * stride - 1))))
        (ks (limit_of K lim) (nlen (msgs l) / stride)).
Proof. exact cut_points_exact. Qed.
Print Assumptions c09_cut_points_exact.

Theorem c09_ks_shape : forall (n : nat) (k : N),
  length (ks n k) = Nat.min n (N.to_nat k)
  /\ forall i, (i < Nat.min n (N.to_nat k))%nat -> nth_error (ks n k) i = Some (k - N.of_nat i).
Proof. exact (fun n k => conj (ks_length n k) (ks_nth n k)). Qed.
Print Assumptions c09_ks_shape.

(* a cut point counts as checkpointed exactly when a checkpoint frame for that seq exists (any number of
   checkpoint frames: the bounded scan answers only when it covered them all, otherwise truth is read) … *)
Theorem c09_checkpointed_iff : forall (K : consts) (stride lim : N) (l : list ev) (c : cutpt),
  In c (cut_points K stride lim l) ->
  (cp_done c = true <-> exists e r a m, In e l /\ ebody e = BCkpt r a (cp_seq c) m).
Proof. exact checkpointed_iff. Qed.
Print Assumptions c09_checkpointed_iff.

(* … the latest such frame (largest frame seq, i.e. latest in stream order) winning: the reported
   latest_checkpoint_id is the id of a checkpoint frame for that seq that no other such frame follows *)
Theorem c09_checkpointed_latest_wins : forall (K : consts) (stride lim : N) (l : list ev) (c : cutpt),
  In c (cut_points K stride lim l) ->
  (forall i, cp_ck c = Some i <-> exists b, latest_for (ckpts l) (cp_seq c) b /\ ck_id b = i
                                          /\ cut_lookup K l (cp_seq c) = Some b)
  /\ (cp_done c = false -> cp_ck c = None).
Proof. exact checkpointed_latest_wins. Qed.
Print Assumptions c09_checkpointed_latest_wins.

(* on a valid stream "largest frame seq" is "last in stream order": no checkpoint frame for that seq follows the winner *)
Theorem c09_latest_is_last_in_stream : forall (l : list ev) (s : N) (b : ck) (x y : list ck),
  valid l -> latest_for (ckpts l) s b -> ckpts l = x ++ b :: y -> Forall (fun k => ck_to k <> s) y.
Proof. exact latest_is_last. Qed.
Print Assumptions c09_latest_is_last_in_stream.

(* the code before the fix (bounded backward scan trusted even when cut short) violated it: with a scan window
   of 2 checkpoint frames, a cut point whose frame is the third-newest is reported not checkpointed *)
Theorem c09_checkpointed_iff_unfixed_refuted :
  map (fun c => (cp_seq c, cp_done c)) (cut_points_unfixed small_window 1 2 unfixed_log) = [(2, true); (1, false)]
  /\ map (fun c => (cp_seq c, cp_done c)) (cut_points small_window 1 2 unfixed_log) = [(2, true); (1, true)]
  /\ In {| eseq := 3; eid := 4; ebody := BCkpt 0 1 1 (Some 2) |} unfixed_log.
Proof. exact unfixed_refuted. Qed.
Print Assumptions c09_checkpointed_iff_unfixed_refuted.

Theorem c09_stride_zero_rejected : forall (K : consts) (s : st),
  (forall lim, step K s (OCut (Some 0) lim) = (s, [1; 10]))
  /\ step K s (OStatus (Some 0)) = (s, [1; 10])
  /\ (forall mx d, step K s (OAuto (Some 0) mx d) = (s, [1; 10]))
  /\ (forall mx b e d, step K s (OSched (Some 0) mx b e d) = (s, [1; 10])).
Proof. exact stride_zero_rejected. Qed.
Print Assumptions c09_stride_zero_rejected.

Theorem c09_manual_stride_zero_rejected : forall (K : consts) (s : st) (md art : option N),
  msgs (log s) <> [] -> (md <> None \/ art <> None) ->
  manual K {| mr_md := md; mr_art := art; mr_to_mid := None; mr_to_seq := None; mr_stride := Some 0 |} s = (s, Err 6).
Proof. exact manual_stride_zero_rejected. Qed.
Print Assumptions c09_manual_stride_zero_rejected.

(* ---------- auto-compaction ---------- *)
(* `valid l`: frame seqs strictly increase along the stream (C01 gives seq = position); it holds in every state
   reachable through the modelled operations *)
Theorem c09_reachable_valid : forall (K : consts) (ops : list op) (s : st) (acc : list N),
  valid (log s) -> valid (log (fst (run_ops K s ops acc))).
Proof. exact reachable_valid. Qed.
Print Assumptions c09_reachable_valid.

(* Running auto-compaction (not dry, something planned) appends exactly
     [job_spawned j planned] ++ checkpoints ++ [job_ended j completed made]
   where the checkpoints are one per planned cut, in ascending to_seq order (`plan_sort planned`, a sorted
   permutation of the plan), each carrying its plan entry's to_seq / to_message_id and referencing a readable
   summary artifact whose coverage is that same (to_seq, to_message_id) (`ck_for`); `made` (the response's
   result and job_ended.result.created) names those frames; j is a job id not used before (auto_outcome). *)
Theorem c09_auto_creates_planned : forall (K : consts) (ostride omax : option N) (odry : option bool) (s : st),
  valid (log s) ->
  opt_or ostride (k_default_stride K) <> 0 ->
  opt_orb odry false = false ->
  plan_cuts K (opt_or ostride (k_default_stride K))
            (clamp (k_maxnew_lo K) (k_maxnew_hi K) (opt_or omax 1)) (log s) <> [] ->
  exists s' r,
    auto K ostride omax odry s = (s', Ok r)
    /\ ar_status r = 2 /\ ar_err r = None /\ ar_job r = Some (fresh_job (log s))
    /\ ar_planned r = plan_cuts K (opt_or ostride (k_default_stride K))
                                (clamp (k_maxnew_lo K) (k_maxnew_hi K) (opt_or omax 1)) (log s)
    /\ auto_outcome K (opt_or ostride (k_default_stride K)) (ar_planned r) s s' (fresh_job (log s)) (ar_result r).
Proof. exact auto_creates_planned. Qed.
Print Assumptions c09_auto_creates_planned.

(* the plan is the first max_new not-yet-checkpointed cut points, latest first *)
Theorem c09_plan_is_first_undone : forall (K : consts) (stride maxnew : N) (l : list ev),
  plan_cuts K stride maxnew l = firstn (N.to_nat maxnew) (map plan_of (undone K stride l)).
Proof. exact plan_cuts_undone. Qed.
Print Assumptions c09_plan_is_first_undone.

(* after a completed run exactly the not-planned remainder is left to do … *)
Theorem c09_auto_remaining : forall (K : consts) (stride maxnew : N) (s s' : st) (j : N) (made : list created),
  valid (log s) -> stride <> 0 ->
  auto_outcome K stride (plan_cuts K stride maxnew (log s)) s s' j made ->
  undone K stride (log s') = skipn (N.to_nat maxnew) (undone K stride (log s)).
Proof. exact undone_after. Qed.
Print Assumptions c09_auto_remaining.

(* … so when max_new covered the backlog, repeating the call appends nothing and creates nothing *)
Theorem c09_auto_idempotent : forall (K : consts) (ostride omax : option N) (odry : option bool) (s : st),
  valid (log s) ->
  opt_or ostride (k_default_stride K) <> 0 ->
  opt_orb odry false = false ->
  (length (undone K (opt_or ostride (k_default_stride K)) (log s))
   <= N.to_nat (clamp (k_maxnew_lo K) (k_maxnew_hi K) (opt_or omax 1)))%nat ->
  let s' := fst (auto K ostride omax odry s) in
  exists r', auto K ostride omax odry s' = (s', Ok r') /\ ar_status r' = 0 /\ ar_job r' = None /\ ar_result r' = [].
Proof. exact auto_idempotent. Qed.
Print Assumptions c09_auto_idempotent.

(* nothing to do => auto and schedule answer noop and leave the state untouched (any flags) *)
Theorem c09_noop_appends_nothing : forall (K : consts) (ostride omax : option N) (oblock oexec odry : option bool) (s : st),
  opt_or ostride (k_default_stride K) <> 0 ->
  undone K (opt_or ostride (k_default_stride K)) (log s) = [] ->
  (exists r, auto K ostride omax odry s = (s, Ok r) /\ ar_status r = 0 /\ ar_job r = None /\ ar_planned r = [] /\ ar_result r = [])
  /\ (exists r, sched K ostride omax oblock oexec odry s = (s, Ok r) /\ sr_decision r = 0 /\ sr_job r = None /\ sr_planned r = []).
Proof. exact (fun K a b c d e s H1 H2 => conj (auto_noop K a b e s H1 H2) (sched_noop K a b c d e s H1 H2)). Qed.
Print Assumptions c09_noop_appends_nothing.

(* status: next_cut_point is the first not-yet-checkpointed cut point (what auto would plan first) *)
Theorem c09_status_next_is_first_undone : forall (K : consts) (ostride : option N) (s : st) (r : status_resp),
  status K ostride s = Ok r ->
  ss_next r = hd_error (map plan_of (undone K (opt_or ostride (k_default_stride K)) (log s)))
  /\ ss_count r = nlen (msgs (log s)) /\ ss_inflight r = find_inflight K (log s).
Proof. exact status_next_first_undone. Qed.
Print Assumptions c09_status_next_is_first_undone.

(* ---------- the scheduler (sequentially) ---------- *)
(* not dry, something planned, no in-flight job seen (or block_on_inflight=false): the call appends
   [job_spawned j planned; decided(scheduled, j, planned)] and, with execute, the planned checkpoints in ascending
   order (readable summaries of matching coverage) and [job_ended j completed made]; without execute nothing more *)
Theorem c09_sched_creates_planned : forall (K : consts) (ostride omax : option N) (oblock oexec odry : option bool) (s : st),
  valid (log s) ->
  opt_or ostride (k_default_stride K) <> 0 ->
  opt_orb odry false = false ->
  plan_cuts K (opt_or ostride (k_default_stride K)) (clamp (k_maxnew_lo K) (k_maxnew_hi K) (opt_or omax 1)) (log s) <> [] ->
  (if opt_orb oblock true then find_inflight K (log s) else None) = None ->
  exists s' r,
    sched K ostride omax oblock oexec odry s = (s', Ok r)
    /\ sr_decision r = (if opt_orb oexec true then 4 else 3) /\ sr_err r = None /\ sr_job r = Some (fresh_job (log s))
    /\ sr_planned r = plan_cuts K (opt_or ostride (k_default_stride K))
                                (clamp (k_maxnew_lo K) (k_maxnew_hi K) (opt_or omax 1)) (log s)
    /\ sched_outcome (opt_or ostride (k_default_stride K)) (sr_planned r) (opt_orb oexec true) s s'
                     (fresh_job (log s)) (sr_result r)
                     (BDecided 3 (Some (fresh_job (log s))) (sr_planned r) (opt_or ostride (k_default_stride K))
                               (clamp (k_maxnew_lo K) (k_maxnew_hi K) (opt_or omax 1)) (opt_orb oblock true)
                               (opt_orb oexec true) (nlen (msgs (log s)))).
Proof. exact sched_creates_planned. Qed.
Print Assumptions c09_sched_creates_planned.

(* a summarizer job in flight inside the scanned tail and block_on_inflight: exactly one frame, the decision
   skipped_inflight, is appended; no job, nothing created *)
Theorem c09_sched_skipped_inflight : forall (K : consts) (ostride omax : option N) (oblock oexec odry : option bool) (s : st) (j0 : N),
  opt_or ostride (k_default_stride K) <> 0 ->
  opt_orb odry false = false ->
  plan_cuts K (opt_or ostride (k_default_stride K)) (clamp (k_maxnew_lo K) (k_maxnew_hi K) (opt_or omax 1)) (log s) <> [] ->
  opt_orb oblock true = true -> find_inflight K (log s) = Some j0 ->
  exists s' r e,
    sched K ostride omax oblock oexec odry s = (s', Ok r) /\ sr_decision r = 2 /\ sr_job r = None /\ sr_result r = []
    /\ log s' = log s ++ [e]
    /\ ebody e = BDecided 2 None (sr_planned r) (sr_stride r) (sr_maxnew r) true (sr_exec r) (nlen (msgs (log s)))
    /\ sr_planned r = plan_cuts K (opt_or ostride (k_default_stride K))
                                (clamp (k_maxnew_lo K) (k_maxnew_hi K) (opt_or omax 1)) (log s).
Proof. exact sched_skipped. Qed.
Print Assumptions c09_sched_skipped_inflight.

Example c09_demo_sched :
  valid (log demo_inflight)
  /\ find_inflight real_consts (log demo_inflight) = Some 1
  /\ plan_cuts real_consts 1 (clamp 1 32 1) (log demo_inflight) = [{| pl_ord := 2; pl_seq := 2; pl_mid := 3 |}]
  /\ map (fun e => enc_body (ebody e)) (skipn 3 (log demo_inflight))
     = [[3; 1; 1; 1; 2; 2; 3]; [5; 3; 1; 1; 1; 2; 2; 3; 1; 1; 1; 0; 2]].
Proof. exact demo_sched_facts. Qed.

(* ---------- manual checkpoints ---------- *)
(* accepted => the target is a message of the thread (seq and id), exactly one checkpoint frame is appended and its
   summary is readable with matching coverage; refused => nothing changes *)
Theorem c09_manual_boundary : forall (K : consts) (r : manual_req) (s : st),
  match manual K r s with
  | (s', Err _) => s' = s
  | (s', Ok (ck, a, ts, tm, rule)) =>
      In (ts, tm) (msgs (log s))
      /\ log s' = log s ++ [{| eseq := next_seq (log s); eid := ck; ebody := BCkpt rule a ts (Some tm) |}]
      /\ exists v, art_read s' a = Some v /\ su_to_seq v = ts
  end.
Proof. exact manual_boundary. Qed.
Print Assumptions c09_manual_boundary.

Theorem c09_manual_non_boundary_rejected : forall (K : consts) (r : manual_req) (s : st),
  (forall q, mr_to_seq r = Some q -> ~ In q (map fst (msgs (log s)))) ->
  (forall m, mr_to_mid r = Some m -> ~ In m (map snd (msgs (log s)))) ->
  (mr_to_seq r <> None \/ mr_to_mid r <> None) ->
  exists e, manual K r s = (s, Err e).
Proof. exact manual_non_boundary_rejected. Qed.
Print Assumptions c09_manual_non_boundary_rejected.

(* non-vacuity: 7 messages, stride 2, max_new 2: a valid reachable state with a non-empty plan; the frames the
   run appends; what the second call would plan; a backlog that max_new = 32 covers; a refused non-boundary *)
Example c09_demo_auto :
  valid (log demo7)
  /\ plan_cuts real_consts 2 (clamp 1 32 2) (log demo7) = demo7_plan2
  /\ map plan_of (undone real_consts 2 (log demo7)) = demo7_plan2 ++ [{| pl_ord := 2; pl_seq := 2; pl_mid := 3 |}]
  /\ map (fun e => enc_body (ebody e)) (skipn 9 (log (fst (auto real_consts (Some 2) (Some 2) None demo7))))
     = [ [3; 1; 2; 2; 6; 7; 8; 4; 5; 6]; [2; 3; 1; 5; 1; 6]; [2; 3; 2; 7; 1; 8]; [4; 1; 0; 2; 11; 1; 5; 6; 12; 2; 7; 8] ]
  /\ plan_cuts real_consts 2 (clamp 1 32 2) (log (fst (auto real_consts (Some 2) (Some 2) None demo7)))
     = [{| pl_ord := 2; pl_seq := 2; pl_mid := 3 |}]
  /\ (length (undone real_consts 2 (log demo7)) <= N.to_nat (clamp 1 32 32))%nat.
Proof. exact (conj demo7_valid demo7_facts). Qed.

Example c09_demo_manual_non_boundary :
  (forall q, mr_to_seq demo_manual_req = Some q -> ~ In q (map fst (msgs (log demo7))))
  /\ manual real_consts demo_manual_req demo7 = (demo7, Err 5).
Proof. exact demo_manual_non_boundary. Qed.

(* ---------- concurrent schedule / auto calls ---------- *)
(* No lock spans a call: every read (plan, in-flight scan, re-plan, replay snapshot, base look-up) and every append
   is a separate atomic step (`astep`); `sys_steps` is any interleaving of any number of calls and of clients
   appending messages meanwhile (`aspec`).  From a valid stream
   whose job frames are well bracketed, every interleaving ends in a valid stream (seqs strictly increase) in which
   every job id has exactly one job_spawned frame, at most one job_ended frame, and the job_ended comes after
   its job_spawned (bracket_ok). *)
Theorem c09_concurrent_valid_and_job_bracket : forall (K : consts) (s : st) (calls : list aspec) (s' : st) (acts' : list astate),
  valid (log s) -> bracket_ok (log s) ->
  sys_steps K (s, map start_of calls) (s', acts') ->
  valid (log s') /\ bracket_ok (log s').
Proof. exact concurrent_bracket. Qed.
Print Assumptions c09_concurrent_valid_and_job_bracket.

(* the executable scheduler the correspondence drives (quantum = pending append + the reads that follow it) *)
Theorem c09_run_sched_bracket : forall (K : consts) (s : st) (calls : list aspec) (schedule : list N),
  valid (log s) -> bracket_ok (log s) ->
  valid (log (fst (run_sched K s (map start_of calls) schedule)))
  /\ bracket_ok (log (fst (run_sched K s (map start_of calls) schedule))).
Proof. exact run_sched_bracket. Qed.
Print Assumptions c09_run_sched_bracket.

(* Every interleaving (calls and message appenders): every job that ends is `completed` (status 0; the error path is
   unreachable without an I/O fault), and its created list is, in ascending to_seq order, exactly the plan of the
   job_spawned frame of the same job — every plan entry a message (seq, id) of the thread, every created entry naming
   a checkpoint frame of the stream with that to_seq and to_message_id (`ended_ok`).  `job_consistent l` says this
   of every job_ended frame of l. *)
Theorem c09_concurrent_jobs_create_announced_plan : forall (K : consts) (s : st) (calls : list aspec) (s' : st) (acts' : list astate),
  valid (log s) -> job_consistent (log s) ->
  sys_steps K (s, map start_of calls) (s', acts') ->
  job_consistent (log s').
Proof. exact concurrent_jobs_create_announced. Qed.
Print Assumptions c09_concurrent_jobs_create_announced_plan.

(* … and every checkpoint frame appended during the race references a readable summary artifact whose coverage is
   the frame's (to_seq, to_message_id) *)
Theorem c09_concurrent_checkpoints_covered : forall (K : consts) (s : st) (calls : list aspec) (s' : st) (acts' : list astate),
  sys_steps K (s, map start_of calls) (s', acts') ->
  exists new, log s' = log s ++ new /\ good_ckpts s' new.
Proof. exact concurrent_ckpts_covered. Qed.
Print Assumptions c09_concurrent_checkpoints_covered.

Example c09_demo_concurrent_jobs :
  (valid (log mm_state) /\ job_consistent (log mm_state))
  /\ job_consistent mm_fixed /\ length (ended_made mm_fixed) = 2%nat.
Proof. exact (conj mm_start_ok mm_fixed_consistent). Qed.

(* the two halves of the model agree: a call whose atomic steps run without interference (`solo_steps`, a special
   interleaving: `c09_solo_is_interleaving`) ends in exactly the state of the sequential function — so the sequential
   theorems above are about the same system as the concurrency theorems *)
Theorem c09_solo_auto_is_auto : forall (K : consts) (c : call) (s : st),
  c_sched c = false -> c_stride c <> 0 -> clamp (k_maxnew_lo K) (k_maxnew_hi K) (c_maxnew c) = c_maxnew c ->
  exists resp, solo_steps K (s, AStart c)
                 (fst (auto K (Some (c_stride c)) (Some (c_maxnew c)) None s), ADone resp).
Proof. exact solo_auto_is_auto. Qed.
Print Assumptions c09_solo_auto_is_auto.

Theorem c09_solo_sched_is_sched : forall (K : consts) (c : call) (s : st),
  c_sched c = true -> c_stride c <> 0 -> clamp (k_maxnew_lo K) (k_maxnew_hi K) (c_maxnew c) = c_maxnew c ->
  exists resp, solo_steps K (s, AStart c)
                 (fst (sched K (Some (c_stride c)) (Some (c_maxnew c)) (Some (c_block c)) (Some (c_exec c)) None s), ADone resp).
Proof. exact solo_sched_is_sched. Qed.
Print Assumptions c09_solo_sched_is_sched.

Theorem c09_solo_is_interleaving : forall (K : consts) (x y : st * astate),
  solo_steps K x y -> sys_steps K (fst x, [snd x]) (fst y, [snd y]).
Proof. exact solo_is_sys. Qed.
Print Assumptions c09_solo_is_interleaving.

(* S20, the scheduler before the fix: it handed its own earlier plan to the job although job_spawned announced the
   plan computed at spawn time.  Witness (finest interleaving, `run_fine`): a schedule call plans cut 2, an auto call
   checkpoints cut 2 meanwhile, the schedule call's spawn_job announces cut 1, the job re-creates cut 2 and never
   creates cut 1.  With the fix the same interleaving creates what was announced. *)
Theorem c09_created_is_spawned_plan_unfixed_refuted :
  spawn_plans mm_unfixed = [(1, [2]); (2, [1])] /\ ended_made mm_unfixed = [(1, 0, [2]); (2, 0, [2])]
  /\ spawn_plans mm_fixed = [(1, [2]); (2, [1])] /\ ended_made mm_fixed = [(1, 0, [2]); (2, 0, [1])].
Proof. exact mm_facts. Qed.
Print Assumptions c09_created_is_spawned_plan_unfixed_refuted.

(* stated as observed (replay-safe, not exclusive): two racing schedule calls with block_on_inflight both spawn a job
   and both checkpoint the same cut point; the later frame is the one cut_points reports *)
Example c09_concurrent_double_spawn_observed :
  valid (log race_state) /\ bracket_ok (log race_state)
  /\ job_ids (log race_end) = [1; 2] /\ ended_ids (log race_end) = [1; 2]
  /\ map ck_to (ckpts (log race_end)) = [2; 2]
  /\ map (fun c => (cp_seq c, cp_done c, cp_ck c)) (cut_points real_consts 2 32 (log race_end)) = [(2, true, Some 10)].
Proof. exact race_facts. Qed.

(* non-vacuity: a reachable thread with two cut points, one checkpointed twice (the later frame wins) *)
Example c09_demo_cut_points :
  map (fun c => (cp_ord c, cp_seq c, cp_mid c, cp_done c, cp_ck c)) (cut_points real_consts 2 32 demo_log)
  = [(4, 5, 6, false, None); (2, 2, 3, true, Some 9)]
  /\ map eid (filter (fun e => match ebody e with BCkpt _ _ 2 _ => true | _ => false end) demo_log) = [8; 9].
Proof. exact demo_cut_points. Qed.

(* ---------- what feeds an auto summary (the text rendering stays abstract) ----------
   `cut_read K snap s p` is the read half of one planned cut of a summarizer job: `snap` is the job's replay snapshot,
   `log s` the stream at that moment (the job's own earlier checkpoints are in it), `p` the planned cut.
   The summary an executed cut writes is exactly that value … *)
Theorem c09_summary_written_is_cut_read : forall (K : consts) (snap : list ev) (stride : N) (s : st) (p : plan) (s2 : st) (c : created),
  run_cut K snap stride s p = Ok (s2, c) ->
  exists v, cut_read K snap s p = Ok v /\ arts s2 = arts s ++ [(cr_art c, v)] /\ art_read s2 (cr_art c) = Some v
            /\ cr_seq c = pl_seq p /\ cr_mid c = pl_mid p.
Proof. exact run_cut_writes_inputs. Qed.
Print Assumptions c09_summary_written_is_cut_read.

(* … for the whole job of a completed compaction_auto_v1 call: with the stream right after job_spawned as the job's
   snapshot, the result lists, in the ascending to_seq order of the plan, one created checkpoint per planned cut whose
   summary is readable at the end and equals `cut_read` of that cut on (snapshot, the stream at that moment — `curs`
   lists those streams; the first is the snapshot itself) (`fed_at`) … *)
Theorem c09_auto_summaries_fed : forall (K : consts) (ostride omax : option N) (odry : option bool) (s s' : st) (r : auto_resp),
  auto K ostride omax odry s = (s', Ok r) -> ar_status r = 2 ->
  exists j curs,
    ar_job r = Some j
    /\ fed_at K (log (append s (BJobSpawned j (ar_planned r) (ar_stride r)))) s' curs (plan_sort (ar_planned r)) (ar_result r)
    /\ length curs = length (plan_sort (ar_planned r))
    /\ match curs with [] => True | cur :: _ => cur = log (append s (BJobSpawned j (ar_planned r) (ar_stride r))) end.
Proof. exact auto_summaries_fed. Qed.
Print Assumptions c09_auto_summaries_fed.

Example c09_demo_auto_completed :
  exists r, auto real_consts (Some 2) (Some 2) None demo7 = (demo7_after, Ok r) /\ ar_status r = 2
            /\ map cr_seq (ar_result r) = [5; 7].
Proof. exact demo7_auto_completed. Qed.

(* … the base is the latest checkpoint frame strictly below the cut — largest to_seq < cut, then latest in the stream
   (`latest_below`) — of the current stream when the bounded sidecar scan answers and finds one, of the job's snapshot
   otherwise (`base_spec`); base_to_seq is that frame's to_seq (0 without a base) … *)
Theorem c09_summary_base_is_latest_below_cut : forall (K : consts) (cur snap : list ev) (t : N),
  Forall (fun c => ck_to c <> 0) (ckpts snap) ->
  base_spec K cur snap t (fst (select_base K cur snap t))
  /\ snd (select_base K cur snap t) = match fst (select_base K cur snap t) with Some b => ck_to b | None => 0 end.
Proof. exact select_base_spec. Qed.
Print Assumptions c09_summary_base_is_latest_below_cut.

(* … and the summary is fed by: that base's artifact (its text is carried forward exactly when it is readable and not the
   legacy placeholder; note 1 = legacy placeholder, 2 = unreadable => bootstrap), and the messages of the snapshot with
   base_to_seq < seq <= cut (all messages up to the cut when bootstrapping); its coverage is the cut *)
Theorem c09_summary_feeds : forall (K : consts) (snap : list ev) (s : st) (p : plan) (v : summ),
  msorted snap -> Forall (fun c => ck_to c <> 0) (ckpts snap) ->
  cut_read K snap s p = Ok v ->
  base_spec K (log s) snap (pl_seq p) (base_ck K snap s p)
  /\ su_base v = option_map ck_art (base_ck K snap s p)
  /\ (su_base_used v = true <-> exists a w, su_base v = Some a /\ art_read s a = Some w /\ su_kind w <> 1)
  /\ su_note v = match su_base v with
                 | None => 0
                 | Some a => match art_read s a with Some w => if su_kind w =? 1 then 1 else 0 | None => 2 end
                 end
  /\ su_slice v = map snd (filter (fun m => ((if su_base_used v then match base_ck K snap s p with Some c => ck_to c | None => 0 end else 0) <? mseq m)
                                            && (mseq m <=? pl_seq p)) (msg_full snap))
  /\ su_to_seq v = pl_seq p /\ su_to_mid v = Some (pl_mid p).
Proof. exact summary_feeds. Qed.
Print Assumptions c09_summary_feeds.

(* The inputs are a function of the history up to the cut: of the messages up to the cut and the checkpoint frames of
   earlier cuts (`relevant`) in the two streams the job reads, of whether the bounded sidecar scan answers, and of the
   readable summaries — two runs that agree on these build the same summary value (and the same error otherwise). *)
Theorem c09_summary_inputs_function_of_history_upto_cut :
  forall (K : consts) (snap snap' : list ev) (s s' : st) (p : plan) (x : N * N),
  msorted snap -> msorted snap' ->
  Forall (fun c => ck_to c <> 0) (ckpts snap) -> Forall (fun c => ck_to c <> 0) (ckpts snap') ->
  In (pl_seq p, pl_mid p, x) (msg_full snap) ->
  relevant (pl_seq p) snap = relevant (pl_seq p) snap' ->
  relevant (pl_seq p) (log s) = relevant (pl_seq p) (log s') ->
  (nlen (ckpts (log s)) <=? k_ck_window K) = (nlen (ckpts (log s')) <=? k_ck_window K) ->
  (forall a, art_read s a = art_read s' a) ->
  cut_read K snap s p = cut_read K snap' s' p.
Proof. exact summary_inputs_local. Qed.
Print Assumptions c09_summary_inputs_function_of_history_upto_cut.

(* In particular nothing beyond the cut feeds it: later messages, checkpoint frames of this or later cuts and every
   other frame (`beyond`), appended to the snapshot and to the stream, leave the summary value unchanged. *)
Theorem c09_summary_ignores_frames_beyond_cut :
  forall (K : consts) (snap : list ev) (s : st) (p : plan) (x : N * N) (later later' : list ev) (arts' : list (N * summ)),
  msorted snap -> msorted (snap ++ later) ->
  Forall (fun c => ck_to c <> 0) (ckpts snap) ->
  In (pl_seq p, pl_mid p, x) (msg_full snap) -> pl_seq p <> 0 ->
  Forall (beyond (pl_seq p)) later -> Forall (beyond (pl_seq p)) later' ->
  (nlen (ckpts (log s)) <=? k_ck_window K) = (nlen (ckpts (log s ++ later')) <=? k_ck_window K) ->
  (forall a, art_read s a = art_read {| log := log s ++ later'; arts := arts' |} a) ->
  cut_read K (snap ++ later) {| log := log s ++ later'; arts := arts' |} p = cut_read K snap s p.
Proof. exact summary_ignores_frames_beyond_cut. Qed.
Print Assumptions c09_summary_ignores_frames_beyond_cut.

(* the hypotheses of the four theorems above hold in every state the modelled operations reach from a fresh thread
   (snapshot = the stream itself): message seqs are sorted and no checkpoint frame has to_seq 0 *)
Theorem c09_summary_hypotheses_hold_when_reachable : forall (K : consts) (ops : list op),
  msorted (log (fst (run_ops K st0 ops [])))
  /\ Forall (fun c => ck_to c <> 0) (ckpts (log (fst (run_ops K st0 ops [])))).
Proof. exact reachable_summary_hyps. Qed.
Print Assumptions c09_summary_hypotheses_hold_when_reachable.

(* … and in every state any interleaving of concurrent schedule / auto calls and message appenders reaches from there *)
Theorem c09_summary_hypotheses_hold_in_every_interleaving :
  forall (K : consts) (ops : list op) (calls : list aspec) (s' : st) (acts' : list astate),
  sys_steps K (fst (run_ops K st0 ops []), map start_of calls) (s', acts') ->
  msorted (log s') /\ Forall (fun c => ck_to c <> 0) (ckpts (log s')).
Proof. exact concurrent_summary_hyps. Qed.
Print Assumptions c09_summary_hypotheses_hold_in_every_interleaving.

(* Concurrent calls: in every interleaving, from any state, every checkpoint frame appended during the race references a
   readable summary that is `cut_read K snap cur p` for the frame's own cut p, the snapshot of the job that wrote it and
   a moment `cur` of the race (`read_at`: snap a prefix of cur's stream, that a prefix of the final stream) … *)
Theorem c09_concurrent_summaries_are_cut_reads :
  forall (K : consts) (s : st) (calls : list aspec) (s' : st) (acts' : list astate),
  sys_steps K (s, map start_of calls) (s', acts') ->
  exists new, log s' = log s ++ new /\ fed_ckpts K s' new.
Proof. exact concurrent_summaries_fed. Qed.
Print Assumptions c09_concurrent_summaries_are_cut_reads.

(* … and started from any state the modelled operations reach on a fresh thread, (snap, cur) meet the hypotheses of
   c09_summary_feeds: base, note, message slice and coverage of every summary written during the race are what that
   theorem says of (snap, cur) *)
Theorem c09_concurrent_summary_feeds :
  forall (K : consts) (ops : list op) (calls : list aspec) (s' : st) (acts' : list astate),
  sys_steps K (fst (run_ops K st0 ops []), map start_of calls) (s', acts') ->
  exists new, log s' = log (fst (run_ops K st0 ops [])) ++ new
    /\ forall e r a ts tm, In e new -> ebody e = BCkpt r a ts (Some tm) ->
       exists snap cur p v,
         art_read s' a = Some v /\ cut_read K snap cur p = Ok v /\ pl_seq p = ts /\ pl_mid p = tm
         /\ is_prefix snap (log cur) /\ is_prefix (log cur) (log s')
         /\ msorted snap /\ Forall (fun c => ck_to c <> 0) (ckpts snap).
Proof. exact concurrent_summary_feeds. Qed.
Print Assumptions c09_concurrent_summary_feeds.

Example c09_demo_concurrent_summaries :
  sys_steps real_consts (fst (run_ops real_consts st0 [OMsg 0 1; OMsg 1 2] []), map start_of [SCall race_call; SCall race_call])
            (run_sched real_consts race_state [AStart race_call; AStart race_call] [0; 1; 0; 1; 0; 0; 0; 0; 1; 1; 1; 1])
  /\ map ck_to (ckpts (log race_end)) = [2; 2].
Proof. exact race_is_interleaving. Qed.

(* observed, not a violation (c09_summary_base_is_latest_below_cut, else-branch of base_spec): beyond the scan window
   (3 checkpoint frames, window 2 here; 10 000 in the code) the later cuts of one job take their base from the job's
   snapshot: the summary of cut 6 (to_seq 9) is built on the summary of cut 2 out of messages 3..6 instead of on the
   job's own summary of cut 4 out of messages 5, 6 — either way it covers the thread up to its cut exactly once *)
Example c09_beyond_window_later_cuts_use_snapshot_base_observed :
  skipn 3 (summ_view (fst (auto small_window (Some 2) (Some 2) None (fst (run_ops small_window st0 quirk_ops [])))))
  = [(4, 7, Some 3, true, [(0, 3); (1, 4)]); (5, 9, Some 3, true, [(0, 3); (1, 4); (0, 5); (1, 6)])]
  /\ skipn 3 (summ_view (fst (auto real_consts (Some 2) (Some 2) None (fst (run_ops real_consts st0 quirk_ops [])))))
     = [(4, 7, Some 3, true, [(0, 3); (1, 4)]); (5, 9, Some 4, true, [(0, 5); (1, 6)])].
Proof. exact beyond_window_observed. Qed.

(* What the summary records of its delta and the correspondence reads back from the artifact: `- delta_actors:` is the
   head (6 entries) of the per-actor message counts of the slice sorted most-frequent-first, ties by actor — every entry
   (a, c) says that exactly c > 0 messages of the slice were written by a; `## Recent Delta Highlights` is the slice's
   suffix of 12 messages (the whole slice when shorter).  Together with the count they pin the slice down. *)
Theorem c09_summary_records_delta : forall (sl : list (N * N)),
  (exists rest, Permutation (delta_actors sl ++ rest) (histo sl)
     /\ StronglySorted hist_le (delta_actors sl ++ rest)
     /\ (length (delta_actors sl) <= k_actors_shown)%nat
     /\ (rest <> [] -> length (delta_actors sl) = k_actors_shown)
     /\ forall a c, In (a, c) (delta_actors sl) -> c = count_actor a sl /\ 0 < c)
  /\ (NoDup (map fst (histo sl)) /\ forall a, hget a (histo sl) = count_actor a sl)
  /\ (exists pre, sl = pre ++ delta_highlights sl
        /\ nlen (delta_highlights sl) <= k_highlights /\ (pre <> [] -> nlen (delta_highlights sl) = k_highlights)).
Proof.
  exact (fun sl => conj (delta_actors_spec sl)
                    (conj (conj (proj1 (histo_spec sl)) (proj2 (proj2 (histo_spec sl)))) (delta_highlights_spec sl))).
Qed.
Print Assumptions c09_summary_records_delta.

(* non-vacuity: 7 messages, stride 2, max_new 2: the summary of the 4th message is built from scratch out of messages
   1..4, the summary of the 6th on top of it out of messages 5 and 6; a later message, a later checkpoint frame for the
   same cut and another frame appended to snapshot and stream leave the first summary's inputs unchanged *)
Example c09_demo_summary_inputs :
  (msorted (log demo7) /\ Forall (fun c => ck_to c <> 0) (ckpts (log demo7))
   /\ In (pl_seq demo7_cut4, pl_mid demo7_cut4, (1, 4)) (msg_full (log demo7)))
  /\ map (fun kv => (fst kv, su_to_seq (snd kv), su_base (snd kv), su_base_used (snd kv), su_slice (snd kv))) (arts demo7_after)
     = [(1, 5, None, false, [(0, 1); (1, 2); (0, 3); (1, 4)]); (2, 7, Some 1, true, [(0, 5); (1, 6)])]
  /\ (Forall (beyond (pl_seq demo7_cut4)) demo7_later /\ msorted (log demo7 ++ demo7_later))
  /\ cut_read real_consts (log demo7 ++ demo7_later) {| log := log demo7 ++ demo7_later; arts := arts demo7 |} demo7_cut4
     = cut_read real_consts (log demo7) demo7 demo7_cut4.
Proof. exact demo7_summary_inputs. Qed.

(* ---------- the cached route (C04's model, Model/Cache.v) returns the planner's cut points ----------
   C04 (builder cache3) proves `c04_cut_points_eq_truth_partial`: under valid_log / FullFaithful / CompFaithful /
   OrdFaithful the cached route `Cache.cut_points_ord` (message count and ordinal look-ups through the ordinal index,
   checkpoint look-up through the `.comp` sidecar, every fallback) equals C04's truth answer.  The two models were
   written independently; `abs_log` maps a C09 history to a C04 log (same seqs; message / checkpoint(to_seq) / other;
   every line length 1).  C04's truth answer on `abs_log l` IS the C09 planner's answer on `l` (`to_c04` renames the
   fields; C04 names the latest checkpoint by its frame seq, C09 by its id — both of the frame `cut_lookup`) … *)
Theorem c09_c04_truth_answers_agree : forall (K : consts) (l : list ev) (stride lim : N),
  k_limit_lo K = 1 -> k_limit_hi K = 32 -> Cache.valid_log (abs_log l) = true ->
  Cache.cut_points_truth (abs_log l) stride lim = (nlen (msgs l), map (to_c04 K l) (cut_points K stride lim l)).
Proof. exact cut_points_truth_bridge. Qed.
Print Assumptions c09_c04_truth_answers_agree.

(* … hence, under C04's hypotheses, so is the answer of the cached route … *)
Theorem c09_fast_path_is_planner_partial :
  forall (K : consts) (l : list ev) (stride lim me mb : N) (comp full : Cache.sfile) (ord : Cache.ofile) (known : N -> bool),
  k_limit_lo K = 1 -> k_limit_hi K = 32 ->
  Cache.valid_log (abs_log l) = true ->
  CacheProofs.FullFaithful (abs_log l) full -> CacheProofs.CompFaithful (abs_log l) comp full ->
  CacheProofs.OrdFaithful (abs_log l) ord ->
  Cache.cut_points_ord me mb comp full (abs_log l) ord known stride lim
  = (nlen (msgs l), map (to_c04 K l) (cut_points K stride lim l)).
Proof. exact fast_path_is_planner. Qed.
Print Assumptions c09_fast_path_is_planner_partial.

(* … c09_cut_points_exact as a corollary on the cached route: message_count is the number of messages and the cut
   points are exactly the k*stride-th messages, latest first … *)
Theorem c09_cut_points_exact_on_fast_path_partial :
  forall (K : consts) (l : list ev) (stride lim me mb : N) (comp full : Cache.sfile) (ord : Cache.ofile) (known : N -> bool),
  k_limit_lo K = 1 -> k_limit_hi K = 32 -> stride <> 0 ->
  Cache.valid_log (abs_log l) = true ->
  CacheProofs.FullFaithful (abs_log l) full -> CacheProofs.CompFaithful (abs_log l) comp full ->
  CacheProofs.OrdFaithful (abs_log l) ord ->
  fst (Cache.cut_points_ord me mb comp full (abs_log l) ord known stride lim) = nlen (msgs l)
  /\ map (fun c => (Cache.cp_ordinal c, Some (Cache.cp_to_seq c)))
         (snd (Cache.cut_points_ord me mb comp full (abs_log l) ord known stride lim))
     = map (fun k => (k * stride, option_map fst (nth_error (msgs l) (N.to_nat (k * stride - 1)))))
           (ks (limit_of K lim) (nlen (msgs l) / stride)).
Proof. exact fast_path_exact. Qed.
Print Assumptions c09_cut_points_exact_on_fast_path_partial.

(* … and c09_checkpointed_iff / c09_checkpointed_latest_wins on the cached route: already_checkpointed exactly when a
   checkpoint frame for that seq exists; the checkpoint named is the latest such frame *)
Theorem c09_checkpointed_on_fast_path_partial :
  forall (K : consts) (l : list ev) (stride lim me mb : N) (comp full : Cache.sfile) (ord : Cache.ofile) (known : N -> bool)
         (c' : Cache.cutpoint),
  k_limit_lo K = 1 -> k_limit_hi K = 32 ->
  Cache.valid_log (abs_log l) = true ->
  CacheProofs.FullFaithful (abs_log l) full -> CacheProofs.CompFaithful (abs_log l) comp full ->
  CacheProofs.OrdFaithful (abs_log l) ord ->
  In c' (snd (Cache.cut_points_ord me mb comp full (abs_log l) ord known stride lim)) ->
  (Cache.cp_already c' = true <-> exists e r a m, In e l /\ ebody e = BCkpt r a (Cache.cp_to_seq c') m)
  /\ (forall q, Cache.cp_latest c' = Some q <->
        exists b, latest_for (ckpts l) (Cache.cp_to_seq c') b /\ ck_seq b = q /\ cut_lookup K l (Cache.cp_to_seq c') = Some b).
Proof. exact fast_path_checkpointed_iff. Qed.
Print Assumptions c09_checkpointed_on_fast_path_partial.

(* The full statement (no hypothesis on the caches) is false: C04's K1 / K2 / K3 witnesses (c04_K2_changes_cut_points,
   c04_K3_changes_cut_points; open findings S3 / S4 / S4b / S4c / S4d) are cache states under which the cached route
   differs from the planner's answer.  `_partial` = exactly C04's hypotheses. *)
Definition c09_fast_path_is_planner_full : Prop :=
  forall (K : consts) (l : list ev) (stride lim me mb : N) (comp full : Cache.sfile) (ord : Cache.ofile) (known : N -> bool),
  k_limit_lo K = 1 -> k_limit_hi K = 32 -> Cache.valid_log (abs_log l) = true ->
  Cache.cut_points_ord me mb comp full (abs_log l) ord known stride lim
  = (nlen (msgs l), map (to_c04 K l) (cut_points K stride lim l)).

(* non-vacuity: the demo thread (5 messages, cut 2 checkpointed twice: the later frame, seq 8, is named), with every
   cache lost and with the projections in place *)
Example c09_demo_fast_path :
  Cache.valid_log demo_abs = true
  /\ (CacheProofs.FullFaithful demo_abs None /\ CacheProofs.CompFaithful demo_abs None None /\ CacheProofs.OrdFaithful demo_abs Cache.OAbsent)
  /\ (CacheProofs.FullFaithful demo_abs (Some (Cache.project_full demo_abs))
      /\ CacheProofs.CompFaithful demo_abs (Some (Cache.comp_projection demo_abs)) (Some (Cache.project_full demo_abs)))
  /\ Cache.cut_points_truth demo_abs 2 32
     = (5, [ {| Cache.cp_ordinal := 4; Cache.cp_to_seq := 5; Cache.cp_already := false; Cache.cp_latest := None |};
             {| Cache.cp_ordinal := 2; Cache.cp_to_seq := 2; Cache.cp_already := true; Cache.cp_latest := Some 8 |} ]).
Proof. exact demo_bridge. Qed.
