(* C14 — rewind restores exactly the checkpointed files from any later state.
   Statements only; proofs are in Proofs/CheckpointProofs.v.  Every theorem is closed by `exact`.
   The workspace is a Base/Fs.v file system whose top directory is the workspace root; `create` and
   `rewind` are the model of Workspace::create_checkpoint / rewind_to_checkpoint as repaired (abf09af);
   `tgt_of rel` is the OS-level target <root>/<rel>, `key rel` its component list;
   `sane_b f` (decidable; evaluated on every observed workspace by the correspondence) says every
   file of f is reachable through directories — true of every real tree. *)
From RipV Require Import Base.Prelude Base.Fs Model.Paths Model.Checkpoint Proofs.PathsProofs Proofs.CheckpointProofs
  Proofs.AutoCoverProofs Proofs.CheckpointMultiProofs Proofs.AutoPatchProofs Gen.AutoCover
  Model.ToolDispatch Proofs.ToolDispatchProofs Gen.ToolNames Model.StampReuse Proofs.StampReuseProofs.
From RipV Require Model.Patch.
Require Import Coq.Strings.String.

(* For every workspace f, every list of requested path strings, EVERY later workspace f2 (whatever
   happened in between) : if rewind succeeds then every covered path that was a file is readable with
   exactly the bytes it had when the checkpoint was taken, every covered path that did not exist holds
   no file, and no uncovered file changed. *)
Theorem c14_rewind_exact : forall (f : fs) (root : str) (raws : list str) (ck : list entry) (f2 f3 : fs),
  create f root raws = Ok ck -> sane_b f2 = true -> rewind f2 ck = (f3, None) ->
  (forall rel saved, In (rel, saved) ck ->
     match saved with
     | Some b => os_read f (tgt_of rel) = Ok b /\ os_read f3 (tgt_of rel) = Ok b
     | None => os_exists f (tgt_of rel) = false /\ file_at f3 (key rel) = None
     end)
  /\ (forall q, (forall rel saved, In (rel, saved) ck -> key rel <> q) -> file_at f3 q = file_at f2 q).
Proof. exact rewind_exact_b. Qed.
Print Assumptions c14_rewind_exact.

(* every requested path is covered, under a recorded name that is relative, free of `..`, and lands
   below the root (C13) *)
Theorem c14_create_covers_requested : forall (f : fs) (root : str) (raws : list str) (ck : list entry),
  create f root raws = Ok ck ->
  forall raw, In raw raws -> exists rel saved, to_relative root raw = Ok rel /\ In (rel, saved) ck.
Proof. exact create_covers. Qed.
Print Assumptions c14_create_covers_requested.

(* the auto-checkpoint taken before `write` (resp. `apply_patch`, per header path) is not refused for a
   request the tool accepts, and covers exactly the file the tool addresses: the recorded name has the
   real segments of the tool's target below the root *)
Theorem c14_auto_covers_write : forall (root raw p : str) (cwd : list str),
  is_absolute root = true -> resolve_tool root raw = Ok p ->
  exists rel, auto_write_paths raw = Ok raw /\ to_relative root raw = Ok rel
    /\ real_segs rel = real_segs raw /\ kresolve cwd p = kresolve cwd root ++ real_segs rel.
Proof. exact auto_write_covers. Qed.
Print Assumptions c14_auto_covers_write.

Theorem c14_auto_covers_patch_header : forall (root raw p : str) (cwd : list str),
  is_absolute root = true -> patch_target root raw = Ok p ->
  exists t rel, parse_rel_path raw = Ok t /\ to_relative root t = Ok rel
    /\ real_segs rel = real_segs t /\ kresolve cwd p = kresolve cwd root ++ real_segs rel.
Proof. exact auto_patch_covers. Qed.
Print Assumptions c14_auto_covers_patch_header.

(* two recorded names for the same file carry the same recorded state (aliases such as d/x and d/./x) *)
Theorem c14_checkpoint_consistent : forall (f : fs) (root : str) (raws : list str) (ck : list entry),
  create f root raws = Ok ck -> consistent ck.
Proof. exact create_consistent. Qed.
Print Assumptions c14_checkpoint_consistent.

(* a rewind that fails — at ANY step, for whatever reason the model's file system can fail: a covered
   path or one of its ancestors replaced by a directory / a file, a name too long — leaves every file
   of the workspace, covered or not, with the bytes (or the absence) it had before the rewind
   (directories created on the way are not removed) *)
Theorem c14_rewind_failure_restores : forall (f : fs) (root : str) (raws : list str) (ck : list entry) (f2 f3 : fs) (e : N),
  create f root raws = Ok ck -> sane_b f = true -> sane_b f2 = true -> rewind f2 ck = (f3, Some e) ->
  forall q, file_at f3 q = file_at f2 q.
Proof. exact rewind_failure_restores_b. Qed.
Print Assumptions c14_rewind_failure_restores.

(* a rewind that cannot even snapshot the current state (a covered path is now a directory) changes nothing *)
Theorem c14_rewind_snapshot_error_changes_nothing : forall (f : fs) (ck : list entry) (e : N),
  map_res (save_one f) (map fst ck) = Err e -> rewind f ck = (f, Some e).
Proof. exact rewind_snapshot_error. Qed.
Print Assumptions c14_rewind_snapshot_error_changes_nothing.

(* the behaviour before the repair (S10, second half): existence was probed in the process working
   directory; a file of the root that the cwd does not have was recorded as absent and rewind deleted it *)
Theorem c14_probe_unfixed_refuted :
  exists root raw rel (f fcwd : fs) b f3,
    to_relative_unfixed root raw = Ok rel /\ save_one_unfixed fcwd raw rel = Ok (rel, None)
    /\ file_at f (key rel) = Some b /\ rewind f [(rel, None)] = (f3, None) /\ file_at f3 (key rel) = None.
Proof. exact probe_unfixed_refuted. Qed.
Print Assumptions c14_probe_unfixed_refuted.

(* ---------- "an automatic checkpoint ... covers every file that tool can change, so an edit can always be undone" ----------
   `tree_b f` / `nonul_b f` (decidable; evaluated on observed workspaces): every entry of the listing is reachable
   through directories and no name holds a NUL byte - true of every real tree. *)

(* ANY edit that changes only covered files (it may also create directories) can be undone: from the edited
   workspace f' the rewind SUCCEEDS and every file, covered or not, has again the bytes / the absence it had when
   the checkpoint was taken.  (What the tool has to guarantee is exactly the three hypotheses about f'.) *)
Theorem c14_covered_edit_undone : forall (f : fs) (root : str) (raws : list str) (ck : list entry) (f' : fs),
  create f root raws = Ok ck -> tree_b f = true -> nonul_b f = true -> sane_b f' = true ->
  (forall r, lookup f r = Some Dir -> lookup f' r = Some Dir) ->
  (forall rel saved, In (rel, saved) ck -> lookup f' (key rel) <> Some Dir) ->
  (forall q, (forall rel saved, In (rel, saved) ck -> key rel <> q) -> file_at f' q = file_at f q) ->
  exists f2, rewind f' ck = (f2, None) /\ forall q, file_at f2 q = file_at f q.
Proof. exact covered_edit_undone_b. Qed.
Print Assumptions c14_covered_edit_undone.

(* The write tool (run_write: resolve_path, the `file_name` refusal, create_dir_all of the parent, then append /
   temporary file + remove + rename / plain write, with every error branch) changes no file but the one its
   argument names, creates directories only, and never turns the named path into a directory - for every
   workspace, argument string, mode, content, and whether the call succeeds or fails.  In atomic mode (0) the
   name of the temporary file, `with_extension(ext)` as std computes it, must not be taken. *)
Theorem c14_write_changes_only_its_target : forall (f : fs) (raw ext : str) (mode : N) (data : bytes) (f' : fs) (er : option N),
  write_tool expected_tool_steps f raw ext mode data = (f', er) -> sane_b f = true ->
  (mode = 0 -> lookup f (t_path (tmp_tgt raw ext)) = None) ->
  (forall p b, lookup f' p = Some (File b) -> dirs_ok f' [] p = None)      (* every file of f' is reachable *)
  /\ (forall r, lookup f r = Some Dir -> lookup f' r = Some Dir)
  /\ (lookup f' (t_path (mk_tgt [] raw)) = Some Dir -> lookup f (t_path (mk_tgt [] raw)) = Some Dir)
  /\ (forall q, q <> t_path (mk_tgt [] raw) -> file_at f' q = file_at f q).
Proof. exact write_tool_effect_b. Qed.
Print Assumptions c14_write_changes_only_its_target.

(* The two together, for EVERY extraction that passes cover_wf: the step lists of the tool's resolver and of the
   checkpoint's files_for_invocation, the way the temporary name is made and the file-system program of run_write
   (all read from /repo on every run, tools/gen/autocover.py).  Whatever `write` is asked, when it returns, either
   ToolRunner took an automatic checkpoint before the call - then rewinding to it succeeds and EVERY file of the
   workspace (named by the call or not) is as it was before the call - or no checkpoint could be taken (argument
   refused / names a directory) and then the call has not changed any file. *)
Theorem c14_auto_write_undone : forall (found : bool) (ts as_ : list N) (tk : N) (prog : list (N * N)),
  cover_wf found ts as_ tk prog = true ->
  forall (f : fs) (root raw ext : str) (mode : N) (data : bytes) (f' : fs) (er : option N),
  is_absolute root = true -> tree_b f = true -> nonul_b f = true ->
  (mode = 0 -> forall x, arg_interp ts raw = Ok x -> lookup f (t_path (tmp_tgt x ext)) = None) ->
  write_tool ts f raw ext mode data = (f', er) ->
  match auto_checkpoint as_ f root raw with
  | Some ck => exists f2, rewind f' ck = (f2, None) /\ forall q, file_at f2 q = file_at f q
  | None => forall q, file_at f' q = file_at f q
  end.
Proof. exact auto_write_undone_b. Qed.
Print Assumptions c14_auto_write_undone.

(* this run's /repo passes (generated obligation Gen/AutoCover.v gen_cover_ok) *)
Theorem c14_repo_auto_cover_wf :
  cover_wf gen_cover_found gen_tool_steps gen_auto_steps gen_tmp_kind gen_write_prog = true.
Proof. exact gen_cover_ok. Qed.
Print Assumptions c14_repo_auto_cover_wf.

(* apply_patch is not modelled beyond its paths; what ties it to c14_covered_edit_undone is read from /repo on every
   run: the auto checkpoint gets Patch::affected_paths, which pushes the path of every AddFile / DeleteFile / UpdateFile
   and the destination of every move, PatchOp has no other variant, and every file-system call of
   Workspace::apply_patch and of its undo is on a path derived from safe_join of one of these (plus the undo-by-effect
   oracle on the real tool) *)
Theorem c14_repo_patch_wf : patch_wf gen_patch_variants_ok gen_patch_cover gen_patch_progs = true.
Proof. exact gen_patch_ok. Qed.
Print Assumptions c14_repo_patch_wf.

(* apply_patch on the model of C12 (Model/Patch.v: parser, hunks, exec / run with the undo list, rollback - tied to
   the real Workspace::apply_patch by C12's correspondence).  For EVERY workspace and every operation list whose paths
   passed the parser's guards (relative, no `..`): if no affected path lies strictly below another affected path (one
   that is not a directory of the workspace), the checkpoint of Patch::affected_paths - what files_for_invocation hands
   to the store - undoes a successful apply completely: the rewind succeeds and every file of the workspace is as
   before the call.  (A failed apply changes no file: C12's c12_atomic.) *)
Theorem c14_auto_patch_undone_partial : forall (f : fs) (root : str) (ops : list Patch.op) (g : fs) (c : list (list N)) (ck : list entry),
  is_absolute root = true -> tree_b f = true -> nonul_b f = true ->
  (forall p, In p (Patch.affected_paths ops) -> is_absolute p = false /\ has_parent p = false) ->
  (forall p q, In p (Patch.affected_paths ops) -> In q (Patch.affected_paths ops) ->
     (exists s, comps q = comps p ++ s /\ comps p <> [] /\ s <> []) -> lookup f (comps p) = Some Dir) ->
  create f root (Patch.affected_paths ops) = Ok ck ->
  Patch.apply_ops true [] f ops = Patch.Applied g c ->
  exists f2, rewind g ck = (f2, None) /\ forall q, file_at f2 q = file_at f q.
Proof. exact auto_patch_undone_b. Qed.
Print Assumptions c14_auto_patch_undone_partial.

(* the same for a patch TEXT: every path the parser accepts is relative and free of `..` (parse_rel_path), so the
   hypothesis about the paths is discharged: whatever text apply_patch accepts and applies *)
Theorem c14_auto_patch_text_undone_partial : forall (f : fs) (root : str) (text : list N) (g : fs) (c : list (list N)) (ck : list entry),
  is_absolute root = true -> tree_b f = true -> nonul_b f = true ->
  forall ops, Patch.parse_patch text = Some ops ->
  (forall p q, In p (Patch.affected_paths ops) -> In q (Patch.affected_paths ops) ->
     (exists s, comps q = comps p ++ s /\ comps p <> [] /\ s <> []) -> lookup f (comps p) = Some Dir) ->
  create f root (Patch.affected_paths ops) = Ok ck ->
  Patch.apply_patch true [] f text = Patch.Applied g c ->
  exists f2, rewind g ck = (f2, None) /\ forall q, file_at f2 q = file_at f q.
Proof. exact auto_patch_text_undone. Qed.
Print Assumptions c14_auto_patch_text_undone_partial.

(* the other half of the dichotomy: when the checkpoint of the affected paths CANNOT be taken (for a parsed patch
   that is only possible because an affected path is a directory), the patch does not apply - and a patch that does
   not apply changes no file (C12's atomicity).  `Patch.wf_fsb` = C12's decidable tree well-formedness. *)
Theorem c14_auto_patch_no_checkpoint_no_change : forall (f : fs) (root : str) (text : list N) (ops : list Patch.op) (e : N),
  is_absolute root = true -> Patch.wf_fsb f = true -> Patch.parse_patch text = Some ops ->
  create f root (Patch.affected_paths ops) = Err e ->
  exists g e', Patch.apply_patch true [] f text = Patch.Failed g e' /\ forall q, file_at g q = file_at f q.
Proof. exact auto_patch_text_no_checkpoint. Qed.
Print Assumptions c14_auto_patch_no_checkpoint_no_change.

(* the full statement (no hypothesis on nesting) is FALSE of the model and of the code - OPEN finding S10j *)
Definition c14_auto_patch_undone_full : Prop :=
  forall (f : fs) (root : str) (ops : list Patch.op) (g : fs) (c : list (list N)) (ck : list entry),
  is_absolute root = true -> tree_b f = true -> nonul_b f = true ->
  (forall p, In p (Patch.affected_paths ops) -> is_absolute p = false /\ has_parent p = false) ->
  create f root (Patch.affected_paths ops) = Ok ck ->
  Patch.apply_ops true [] f ops = Patch.Applied g c ->
  exists f2, rewind g ck = (f2, None) /\ forall q, file_at f2 q = file_at f q.

(* `*** Delete File: a.txt` + `*** Add File: a.txt/x.txt`: the patch applies, a.txt is a directory afterwards, and the
   rewind to the checkpoint of its affected paths fails (EISDIR while it snapshots a.txt) - the edit cannot be undone.
   Replayed on the real ToolRunner + hook: corpus/C14/s10j_patch_dir_at_covered_file.json, KNOWN_FINDINGS S10j (open). *)
Theorem c14_auto_patch_dir_refuted :
  exists f root text g c ck e,
    tree_b f = true /\ nonul_b f = true
    /\ Patch.apply_patch true [] f text = Patch.Applied g c
    /\ (exists ops, Patch.parse_patch text = Some ops /\ create f root (Patch.affected_paths ops) = Ok ck)
    /\ rewind g ck = (g, Some e) /\ g <> f.
Proof. exact auto_patch_dir_refuted. Qed.
Print Assumptions c14_auto_patch_dir_refuted.

(* the hypotheses of c14_auto_patch_undone_partial are satisfiable: add under new directories + delete *)
Example c14_ex_auto_patch_undone :
  tree_b k_ws = true /\ nonul_b k_ws = true
  /\ exists ck g c f2, create k_ws j_root (Patch.affected_paths k_ops) = Ok ck
       /\ Patch.apply_ops true [] k_ws k_ops = Patch.Applied g c
       /\ file_at g [k_b] = None /\ rewind g ck = (f2, None) /\ file_at f2 [k_b] = Some (bs "bee"%string).
Proof. exact ex_auto_patch_undone. Qed.

(* a tool-side resolver that trims its argument while the checkpoint side takes it literally (seeded change C14-4):
   `write "notes.txt "` checkpoints the absent "notes.txt ", edits notes.txt, and the rewind succeeds without
   undoing the edit *)
Theorem c14_auto_cover_trim_refuted :
  exists ts f root raw ext mode data ck f' f2 q,
    ts <> expected_tool_steps
    /\ tree_b f = true /\ nonul_b f = true
    /\ auto_checkpoint expected_auto_steps f root raw = Some ck
    /\ write_tool ts f raw ext mode data = (f', None)
    /\ rewind f' ck = (f2, None) /\ file_at f2 q <> file_at f q.
Proof. exact auto_cover_trim_refuted. Qed.
Print Assumptions c14_auto_cover_trim_refuted.

(* a fixed temporary name (`with_extension("tmp")`, seeded change C14-6): the hypothesis "the name is not taken"
   cannot be assumed; with a sibling report.tmp the write of report.txt destroys it and the rewind cannot bring it back *)
Theorem c14_fixed_tmp_refuted :
  exists f root raw data ck f' f2 q,
    tree_b f = true /\ nonul_b f = true
    /\ auto_checkpoint expected_auto_steps f root raw = Some ck
    /\ write_tool expected_tool_steps f raw x_tmp_ext 0 data = (f', None)
    /\ rewind f' ck = (f2, None) /\ file_at f2 q <> file_at f q.
Proof. exact fixed_tmp_refuted. Qed.
Print Assumptions c14_fixed_tmp_refuted.

(* the hypotheses of c14_auto_write_undone are satisfiable: the same call with the uuid-suffixed name *)
Example c14_ex_auto_write_undone :
  tree_b x_ws6 = true /\ nonul_b x_ws6 = true
  /\ lookup x_ws6 (t_path (tmp_tgt x_report corr_ext)) = None
  /\ auto_checkpoint expected_auto_steps x_ws6 x_root x_report = Some x_ck6
  /\ exists f', write_tool expected_tool_steps x_ws6 x_report corr_ext 0 x_data = (f', None)
                /\ file_at f' [x_report] = Some x_data /\ rewind f' x_ck6 = (x_ws6, None).
Proof. exact ex_auto_write_undone. Qed.

(* ---------- "before EVERY file-editing tool runs": the NAME of the invocation ----------
   ToolRunner::run decides the automatic checkpoint from the invocation's name (files_for_invocation: a match on name
   literals, every other name: no checkpoint) and finds the handler through ToolRegistry::get, which resolves aliases
   (register_alias) - two tables.  `registry` (Model/ToolDispatch.v) holds both as data: registered name -> handler
   kind (0 reads only, 2 spawns a process, 11 the write tool, 12 apply_patch), alias -> target, name literal -> arm kind;
   `handler_of` = ToolRegistry::get (a registered name, else ONE level of alias), `arm_of` = the arm the name reaches,
   `run_tool` = emit_checkpoint_events by name, then the handler (arguments of another tool's shape: `invalid args`).
   `dispatch_wf` is decidable; this run's /repo passes it (tools/gen/toolnames.py reads register_builtin_tools, every
   handler's module, ToolRegistry::get and the arms of files_for_invocation). *)

(* under a well-formed registry every name - registered or alias - that reaches an editing handler reaches the
   checkpoint arm of that very handler *)
Theorem c14_editing_name_has_arm : forall (dfound : bool) (r : registry) (name : str) (k : N),
  dispatch_wf dfound r = true -> handler_of r name = Some k ->
  known_kind k = true /\ (edits k = true -> arm_of r name = Some k).
Proof. exact editing_name_has_arm_d. Qed.
Print Assumptions c14_editing_name_has_arm.

(* EVERY invocation that edits - whatever name it came under, whatever argument (any write request in any mode, any
   patch text) - is preceded by an automatic checkpoint, and rewinding to that checkpoint succeeds and gives back
   EVERY file of the workspace: for every well-formed pair of tables and every extraction passing cover_wf.
   `arg_ok`: the temporary name of an atomic write is not taken (Uuid::new_v4); no affected path of a patch lies
   strictly below another one that is not a directory (without it: open finding S10j, c14_auto_patch_dir_refuted).
   The shell is excluded (what a command does is not a function of the tool's arguments). *)
Theorem c14_every_name_checkpointed :
  forall (dfound : bool) (r : registry) (found : bool) (ts as_ : list N) (tk : N) (prog : list (N * N)),
  dispatch_wf dfound r = true -> cover_wf found ts as_ tk prog = true ->
  forall (f : fs) (root name : str) (a : targ) (ck : option (list entry)) (f' : fs),
  is_absolute root = true -> tree_b f = true -> nonul_b f = true -> Patch.wf_fsb f = true ->
  arg_ok ts f a -> handler_of r name <> Some K_PROCESS ->
  run_tool r ts as_ f root name a = (ck, f') ->
  forall q, file_at f' q <> file_at f q ->
  exists c f2, ck = Some c /\ rewind f' c = (f2, None) /\ forall q', file_at f2 q' = file_at f q'.
Proof. exact every_name_checkpointed_d. Qed.
Print Assumptions c14_every_name_checkpointed.

(* this run's /repo: the generated tables pass (Gen/ToolNames.v gen_registry_ok) *)
Theorem c14_repo_registry_wf : dispatch_wf gen_dispatch_found gen_registry = true.
Proof. exact gen_registry_ok. Qed.
Print Assumptions c14_repo_registry_wf.

(* aliases that reach the editing handlers while the match stays on the literal name (seeded change C14-9:
   write_file -> write, patch -> apply_patch): the tables are not well formed, and `write_file a.txt` edits a.txt
   with no checkpoint taken - nothing to rewind to *)
Theorem c14_alias_unchecked_refuted :
  exists name a,
    handler_of aliased_registry name = Some K_WRITE /\ arm_of aliased_registry name = None
    /\ tree_b d_ws = true /\ nonul_b d_ws = true /\ Patch.wf_fsb d_ws = true
    /\ run_tool aliased_registry expected_tool_steps expected_auto_steps d_ws d_root name a = (None, d_after)
    /\ file_at d_after [d_a] <> file_at d_ws [d_a].
Proof. exact alias_unchecked_refuted. Qed.
Print Assumptions c14_alias_unchecked_refuted.

(* the hypotheses are satisfiable, and the two repairs (the arms list the aliases / the match is on the resolved
   name) are well formed: the same call under the registered name and under the alias is checkpointed and undone *)
Example c14_ex_named_write_undone :
  run_tool small_registry expected_tool_steps expected_auto_steps d_ws d_root n_write (AWrite d_a corr_ext 0 d_data) = (Some d_ck, d_after)
  /\ run_tool aliased_arms_registry expected_tool_steps expected_auto_steps d_ws d_root n_write_file (AWrite d_a corr_ext 0 d_data) = (Some d_ck, d_after)
  /\ run_tool aliased_resolved_registry expected_tool_steps expected_auto_steps d_ws d_root n_write_file (AWrite d_a corr_ext 0 d_data) = (Some d_ck, d_after)
  /\ rewind d_after d_ck = (d_ws, None)
  /\ arg_ok expected_tool_steps d_ws (AWrite d_a corr_ext 0 d_data)
  /\ handler_of small_registry n_write <> Some K_PROCESS.
Proof. exact ex_named_write_undone. Qed.
Example c14_ex_registries_wf :
  registry_wf small_registry = true /\ registry_wf aliased_registry = false
  /\ registry_wf aliased_arms_registry = true /\ registry_wf aliased_resolved_registry = true.
Proof. exact ex_registries_wf. Qed.

(* ---------- "all orders of multiple checkpoints and rewinds" ----------
   A session is any list of: take a checkpoint of some paths (HCreate; a refused request leaves none), rewind to
   the i-th checkpoint taken so far (HRewind; it may succeed or fail), anything else that happens to the
   workspace (HEdit g: it becomes g, any g in which every file is reachable).  run_hist returns the final workspace
   and, per checkpoint taken, its entries and the workspace it was taken from.  After ANY session, a rewind to ANY
   checkpoint taken so far either succeeds - every file that checkpoint covers has exactly the bytes (or the
   absence) it had in the workspace the checkpoint was taken from, and no uncovered file changes - or fails and
   leaves every file as it was. *)
Theorem c14_multi : forall (root : str) (f0 : fs) (h : list hop) (f : fs) (cks : list (list entry * fs)),
  sane_b f0 = true -> hist_sane h = true -> run_hist root f0 [] h = (f, cks) ->
  forall (i : nat) (ck : list entry) (fi f3 : fs) (r : option N),
  nth_error cks i = Some (ck, fi) -> rewind f ck = (f3, r) ->
  match r with
  | None =>
    (forall rel saved, In (rel, saved) ck ->
       match saved with
       | Some b => os_read fi (tgt_of rel) = Ok b /\ os_read f3 (tgt_of rel) = Ok b
       | None => os_exists fi (tgt_of rel) = false /\ file_at f3 (key rel) = None
       end)
    /\ (forall q, (forall rel saved, In (rel, saved) ck -> key rel <> q) -> file_at f3 q = file_at f q)
  | Some _ => forall q, file_at f3 q = file_at f q
  end.
Proof. exact multi. Qed.
Print Assumptions c14_multi.

(* a session with two checkpoints, edits in between, rewinds to the second, the first, the second again; then a
   rewind to the first: b.txt, absent when the first checkpoint was taken, is absent again *)
Example c14_ex_multi :
  sane_b m_f0 = true /\ hist_sane m_hist = true
  /\ exists f cks ck0 ck1, run_hist w_root m_f0 [] m_hist = (f, cks)
       /\ nth_error cks 0 = Some (ck0, m_f0) /\ nth_error cks 1 = Some (ck1, m_f1)
       /\ file_at f [m_a] = Some (bs "a0"%string) /\ file_at f [m_b] = Some (bs "b1"%string)
       /\ exists f3, rewind f ck0 = (f3, None) /\ file_at f3 [m_b] = None.
Proof. exact ex_multi. Qed.

(* ---------- a create that trusts file metadata (seeded change C14-8) ----------
   `create_reuse mt prev` = create_checkpoint that does not read a file whose stamp (length, modification time `mt`)
   equals the one the previous checkpoint of the session recorded, and reuses that checkpoint's stored bytes.  With
   nothing recorded it is `create` ... *)
Theorem c14_create_reuse_first : forall (mt : str -> N) (f : fs) (root : str) (raws : list str),
  create_reuse mt [] f root raws = create f root raws.
Proof. exact create_reuse_first. Qed.
Print Assumptions c14_create_reuse_first.

(* ... but "same length and same modification time" is not "same bytes": on a clock that does not advance (or after
   a tool put the old time back) the second checkpoint of config.toml, taken after `retries = 3` became `retries = 5`,
   records the first checkpoint's bytes, and the rewind to it succeeds with bytes the file did not have then.  /repo's
   create reads every file (T1 gen_store_ok); the harness runs a third of its histories on a frozen clock. *)
Theorem c14_stamp_reuse_refuted :
  exists mt f1 f2 f3 root raws ck1 ck2 f4 b,
    create_reuse mt [] f1 root raws = Ok ck1
    /\ create_reuse mt (recorded mt ck1) f2 root raws = Ok ck2
    /\ create f2 root raws <> Ok ck2
    /\ sane_b f3 = true /\ rewind f3 ck2 = (f4, None)
    /\ os_read f2 (tgt_of t_a) = Ok b /\ os_read f4 (tgt_of t_a) <> Ok b.
Proof. exact stamp_reuse_refuted. Qed.
Print Assumptions c14_stamp_reuse_refuted.

(* ---------- the store side ----------
   The store lies inside the workspace, so a stored copy can be changed or removed between create and rewind
   (`store` = the copies that differ now from what create wrote; `stored st rel b` = what rewind reads for a file
   recorded with bytes b).  rewind_st true = rewind as repaired (138f7db): the copy it reads is compared with the
   recorded sha256 (idealised as collision free).  A rewind that SUCCEEDS has the conclusion of c14_rewind_exact,
   whatever happened to the store ... *)
Theorem c14_rewind_store_verified : forall (f : fs) (root : str) (raws : list str) (ck : list entry) (st : store) (f2 f3 : fs),
  create f root raws = Ok ck -> sane_b f2 = true -> rewind_st true st f2 ck = (f3, None) ->
  (forall rel saved, In (rel, saved) ck ->
     match saved with
     | Some b => os_read f (tgt_of rel) = Ok b /\ os_read f3 (tgt_of rel) = Ok b
     | None => os_exists f (tgt_of rel) = false /\ file_at f3 (key rel) = None
     end)
  /\ (forall q, (forall rel saved, In (rel, saved) ck -> key rel <> q) -> file_at f3 q = file_at f2 q).
Proof. exact rewind_st_verified_exact. Qed.
Print Assumptions c14_rewind_store_verified.

(* ... and a rewind that FAILS - at any step, also because a stored copy is gone or does not match its recorded
   hash (with or without the comparison) - leaves every file of the workspace as it was *)
Theorem c14_rewind_store_failure_restores : forall (v : bool) (st : store) (f : fs) (root : str) (raws : list str) (ck : list entry) (f2 f3 : fs) (e : N),
  create f root raws = Ok ck -> sane_b f = true -> sane_b f2 = true -> rewind_st v st f2 ck = (f3, Some e) ->
  forall q, file_at f3 q = file_at f2 q.
Proof. exact rewind_st_failure_restores_b. Qed.
Print Assumptions c14_rewind_store_failure_restores.

(* with an intact store rewind_st is the rewind of the theorems above *)
Theorem c14_rewind_store_intact : forall (v : bool) (st : store) (f : fs) (ck : list entry),
  (forall rel b, In (rel, Some b) ck -> stored st rel b = Some b) -> rewind_st v st f ck = rewind f ck.
Proof. exact rewind_st_intact. Qed.
Print Assumptions c14_rewind_store_intact.

(* before the repair the recorded hash was never looked at: a stored copy overwritten through the write tool was
   restored as if it were the checkpointed content and the rewind reported success (genuine defect S10i, replayed
   on the real tool; corpus/C14/s10i_tampered_store_copy.json) *)
Theorem c14_rewind_store_unverified_refuted :
  exists f root raws ck st f2 f3 rel b b',
    create f root raws = Ok ck /\ sane_b f2 = true /\ rewind_st false st f2 ck = (f3, None)
    /\ In (rel, Some b) ck /\ os_read f3 (tgt_of rel) = Ok b' /\ b' <> b.
Proof. exact rewind_store_unverified_refuted. Qed.
Print Assumptions c14_rewind_store_unverified_refuted.

(* this run's /repo compares the hash between reading the stored copy and touching the target (Gen/AutoCover.v) *)
Theorem c14_repo_store_wf : store_wf gen_restore_order = true.
Proof. exact gen_store_ok. Qed.
Print Assumptions c14_repo_store_wf.

(* a tampered store on which the repaired rewind fails and changes nothing while the unrepaired one restores the forged bytes *)
Example c14_ex_tampered_store :
  create m_f0 w_root [m_a] = Ok s_ck /\ sane_b s_later = true
  /\ rewind_st false s_store s_later s_ck = (s_forged, None)
  /\ os_read s_forged (tgt_of m_a) = Ok (bs "forged"%string)
  /\ exists e, rewind_st true s_store s_later s_ck = (s_later, Some e).
Proof. exact unverified_restores_forged. Qed.

(* the hypotheses are satisfiable: a create / edit / rewind round trip *)
Example c14_ex_round_trip :
  create w_ws w_root [w_abs_in; w_dot_b] = Ok w_ck
  /\ sane_b w_later = true /\ rewind w_later w_ck = (w_ws, None).
Proof. exact ex_round_trip. Qed.

(* ... and a failing rewind: b.txt (absent at create time) is now a directory; a.txt was already
   restored when the failure hit and is put back *)
Example c14_ex_failing_rewind :
  sane_b w_later_dir = true /\ exists e, rewind w_later_dir w_ck = (w_later_dir, Some e).
Proof. exact ex_failing_rewind. Qed.
