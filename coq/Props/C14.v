(* C14 — rewind restores exactly the checkpointed files from any later state.
   Statements only; proofs are in Proofs/CheckpointProofs.v.  Every theorem is closed by `exact`.
   The workspace is a Base/Fs.v file system whose top directory is the workspace root; `create` and
   `rewind` are the model of Workspace::create_checkpoint / rewind_to_checkpoint as repaired (abf09af);
   `tgt_of rel` is the OS-level target <root>/<rel>, `key rel` its component list;
   `sane_b f` (decidable; evaluated on every observed workspace by the correspondence) says every
   file of f is reachable through directories — true of every real tree. *)
From RipV Require Import Base.Prelude Base.Fs Model.Paths Model.Checkpoint Proofs.PathsProofs Proofs.CheckpointProofs.

(* For every workspace f, every list of requested path strings, EVERY later workspace f2 (whatever
   happened in between) : if rewind succeeds then every covered path that was a file is readable with
   exactly the bytes it had when the checkpoint was taken, every covered path that did not exist holds
   no file, and no uncovered file changed. *)
Theorem c14_rewind_exact : forall (f : fs) (root : str) (raws : list str) (ck : list entry) (f2 f3 : fs),
  create f root raws = Ok ck -> sane_b f2 = true -> rewind f2 ck = (f3, None) ->
  (forall rel saved, In (rel, saved) ck ->
     match saved with
     | Some b => os_read f (tgt_of rel) = Ok b /\ os_read f3 (tgt_of rel) = Ok b
     | None => os_exists f (tgt_of rel) = false /\ file_at f3 (key rel) = None
     end)
  /\ (forall q, (forall rel saved, In (rel, saved) ck -> key rel <> q) -> file_at f3 q = file_at f2 q).
Proof. exact rewind_exact_b. Qed.
Print Assumptions c14_rewind_exact.

(* every requested path is covered, under a recorded name that is relative, free of `..`, and lands
   below the root (C13) *)
Theorem c14_create_covers_requested : forall (f : fs) (root : str) (raws : list str) (ck : list entry),
  create f root raws = Ok ck ->
  forall raw, In raw raws -> exists rel saved, to_relative root raw = Ok rel /\ In (rel, saved) ck.
Proof. exact create_covers. Qed.
Print Assumptions c14_create_covers_requested.

(* the auto-checkpoint taken before `write` (resp. `apply_patch`, per header path) is not refused for a
   request the tool accepts, and covers exactly the file the tool addresses: the recorded name has the
   real segments of the tool's target below the root *)
Theorem c14_auto_covers_write : forall (root raw p : str) (cwd : list str),
  is_absolute root = true -> resolve_tool root raw = Ok p ->
  exists rel, auto_write_paths raw = Ok raw /\ to_relative root raw = Ok rel
    /\ real_segs rel = real_segs raw /\ kresolve cwd p = kresolve cwd root ++ real_segs rel.
Proof. exact auto_write_covers. Qed.
Print Assumptions c14_auto_covers_write.

Theorem c14_auto_covers_patch_header : forall (root raw p : str) (cwd : list str),
  is_absolute root = true -> patch_target root raw = Ok p ->
  exists t rel, parse_rel_path raw = Ok t /\ to_relative root t = Ok rel
    /\ real_segs rel = real_segs t /\ kresolve cwd p = kresolve cwd root ++ real_segs rel.
Proof. exact auto_patch_covers. Qed.
Print Assumptions c14_auto_covers_patch_header.

(* two recorded names for the same file carry the same recorded state (aliases such as d/x and d/./x) *)
Theorem c14_checkpoint_consistent : forall (f : fs) (root : str) (raws : list str) (ck : list entry),
  create f root raws = Ok ck -> consistent ck.
Proof. exact create_consistent. Qed.
Print Assumptions c14_checkpoint_consistent.

(* a rewind that fails — at ANY step, for whatever reason the model's file system can fail: a covered
   path or one of its ancestors replaced by a directory / a file, a name too long — leaves every file
   of the workspace, covered or not, with the bytes (or the absence) it had before the rewind
   (directories created on the way are not removed) *)
Theorem c14_rewind_failure_restores : forall (f : fs) (root : str) (raws : list str) (ck : list entry) (f2 f3 : fs) (e : N),
  create f root raws = Ok ck -> sane_b f = true -> sane_b f2 = true -> rewind f2 ck = (f3, Some e) ->
  forall q, file_at f3 q = file_at f2 q.
Proof. exact rewind_failure_restores_b. Qed.
Print Assumptions c14_rewind_failure_restores.

(* a rewind that cannot even snapshot the current state (a covered path is now a directory) changes nothing *)
Theorem c14_rewind_snapshot_error_changes_nothing : forall (f : fs) (ck : list entry) (e : N),
  map_res (save_one f) (map fst ck) = Err e -> rewind f ck = (f, Some e).
Proof. exact rewind_snapshot_error. Qed.
Print Assumptions c14_rewind_snapshot_error_changes_nothing.

(* the behaviour before the repair (S10, second half): existence was probed in the process working
   directory; a file of the root that the cwd does not have was recorded as absent and rewind deleted it *)
Theorem c14_probe_unfixed_refuted :
  exists root raw rel (f fcwd : fs) b f3,
    to_relative_unfixed root raw = Ok rel /\ save_one_unfixed fcwd raw rel = Ok (rel, None)
    /\ file_at f (key rel) = Some b /\ rewind f [(rel, None)] = (f3, None) /\ file_at f3 (key rel) = None.
Proof. exact probe_unfixed_refuted. Qed.
Print Assumptions c14_probe_unfixed_refuted.

(* the hypotheses are satisfiable: a create / edit / rewind round trip *)
Example c14_ex_round_trip :
  create w_ws w_root [w_abs_in; w_dot_b] = Ok w_ck
  /\ sane_b w_later = true /\ rewind w_later w_ck = (w_ws, None).
Proof. exact ex_round_trip. Qed.

(* ... and a failing rewind: b.txt (absent at create time) is now a directory; a.txt was already
   restored when the failure hit and is put back *)
Example c14_ex_failing_rewind :
  sane_b w_later_dir = true /\ exists e, rewind w_later_dir w_ck = (w_later_dir, Some e).
Proof. exact ex_failing_rewind. Qed.
