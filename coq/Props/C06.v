(* C06 — A stream subscriber sees every frame exactly once, in order.
   Statements only; proofs are in Proofs/SubscribeProofs.v; the model is Model/Subscribe.v.
   Vocabulary (Model/Subscribe.v):
     cfg            = (producer order, handler order, live filter, channel capacity)
     final c n m s  = state after schedule s (ANY list over {producer AP, subscriber AS i, AO = a frame of ANOTHER
                      stream published on the same channel}) on a stream of n
                      frames with m potential subscribers; a subscriber's first two steps are its attach
                      operations, so every attach moment relative to every publish/record step is a schedule
     ExactlyOnce    = delivered seqs are exactly 0..k-1 (once each, ascending), k covers every frame
                      published so far, k = n once the producer has finished
     NoLag          = no receiver overflowed its bounded channel in this run (explicit hypothesis)
     mfinal c span work m s = the same with SEVERAL producers on the one stream (producer j emits work[j] frames, each emit
                      = take the next seq number; record; publish), span = what the emitter's seq mutex covers
   gen_kinds (Gen/StreamOrder.v) is REGENERATED from /repo on every run: the orders of send/push/append in
   the three producers, of subscribe/snapshot + the filter expression in the three handlers, the channel
   capacities and the extent of the seq-mutex guard in TaskEmitter::emit (k_span). *)
From RipV Require Import Base.Prelude Model.Subscribe Proofs.SubscribeProofs Proofs.SubscribeRebuildProofs Gen.StreamOrder.
Local Open Scope nat_scope.

(* record-then-publish x subscribe-then-snapshot x `seq > last`: every n, every schedule, every number
   of subscribers, every attached subscriber, at every moment (stream ended or not) *)
Theorem c06_exactly_once : forall (c : cfg),
  c_p c = RecThenPub -> c_s c = SubThenSnap -> c_f c = FilterGtLast -> c_cap c = None ->
  forall (n m : nat) (sched : list actor) (i : nat) (x : sub),
  nth_error (g_subs (final c n m sched)) i = Some x -> attached x = true ->
  ExactlyOnce c n (final c n m sched) x.
Proof. exact exactly_once_thm. Qed.
Print Assumptions c06_exactly_once.

(* the same with the bounded broadcast channel of the code, NoLag explicit *)
Theorem c06_exactly_once_nolag : forall (c : cfg) (cap : nat),
  c_p c = RecThenPub -> c_s c = SubThenSnap -> c_f c = FilterGtLast -> c_cap c = Some cap ->
  forall (n m : nat) (sched : list actor) (i : nat) (x : sub),
  NoLag (final c n m sched) ->
  nth_error (g_subs (final c n m sched)) i = Some x -> attached x = true ->
  ExactlyOnce c n (final c n m sched) x.
Proof. exact exactly_once_nolag_thm. Qed.
Print Assumptions c06_exactly_once_nolag.

(* if the stream's frames plus the frames other streams put on the same channel during the run (the
   continuity channel is shared by all threads; 0 for session and task channels) fit the capacity,
   nothing lags — whatever the orders, the schedule, the subscribers *)
Theorem c06_lag_bound : forall (c : cfg) (cap n m : nat) (sched : list actor),
  c_cap c = Some cap -> n + count_other sched <= cap -> NoLag (final c n m sched).
Proof. exact lag_bound_thm. Qed.
Print Assumptions c06_lag_bound.

(* what has been written to the SSE body so far is, at every moment, a gap-free duplicate-free prefix *)
Theorem c06_body_is_prefix : forall (c : cfg),
  c_p c = RecThenPub -> c_s c = SubThenSnap -> c_f c = FilterGtLast -> c_cap c = None ->
  forall (n m : nat) (sched : list actor) (i : nat) (x : sub),
  nth_error (g_subs (final c n m sched)) i = Some x -> exists k, s_out x = seq 0 k /\ k <= n.
Proof. exact body_is_prefix_thm. Qed.
Print Assumptions c06_body_is_prefix.

(* today's source: the three stream kinds as extracted (session, task, thread), each with its own
   EVENT_CHANNEL_CAPACITY; gen_stream_order_ok is the generated obligation wf_kinds gen_kinds = true *)
Theorem c06_exactly_once_code : forall (k : kind_orders), In k gen_kinds ->
  forall (n m : nat) (sched : list actor) (i : nat) (x : sub),
  NoLag (final (kind_code_cfg k) n m sched) ->
  nth_error (g_subs (final (kind_code_cfg k) n m sched)) i = Some x -> attached x = true ->
  ExactlyOnce (kind_code_cfg k) n (final (kind_code_cfg k) n m sched) x.
Proof. exact (exactly_once_kinds gen_kinds gen_stream_order_ok). Qed.
Print Assumptions c06_exactly_once_code.

Theorem c06_exactly_once_code_short_stream : forall (k : kind_orders), In k gen_kinds ->
  forall (n m : nat) (sched : list actor) (i : nat) (x : sub), n + count_other sched <= kind_cap k ->
  nth_error (g_subs (final (kind_code_cfg k) n m sched)) i = Some x -> attached x = true ->
  ExactlyOnce (kind_code_cfg k) n (final (kind_code_cfg k) n m sched) x.
Proof. exact (short_stream_kinds gen_kinds gen_stream_order_ok). Qed.
Print Assumptions c06_exactly_once_code_short_stream.

Theorem c06_code_kinds_are_session_task_thread : map k_name gen_kinds = [0%N; 1%N; 2%N].
Proof. exact (wf_kinds_names gen_kinds gen_stream_order_ok). Qed.
Print Assumptions c06_code_kinds_are_session_task_thread.

(* several concurrent producers on ONE stream (a pipes task: stdout pump, stderr pump and the main task emit through
   clones of one TaskEmitter).  mfinal c span work m sched = the multi-producer system (producer j emits work[j] frames;
   each emit = Choose the next seq number; Rec; Pub; ANY schedule over {MP j, MS i, MO}); span = what the emitter's seq
   mutex covers.  With the mutex spanning the whole emit (SpanEmit) every subscriber is a subscriber of a ONE-producer
   stream of the same total length (mview = that view), hence exactly-once: *)
Theorem c06_multi_producer_exactly_once : forall (c : cfg),
  c_p c = RecThenPub -> c_s c = SubThenSnap -> c_f c = FilterGtLast -> c_cap c = None ->
  forall (work : list nat) (m : nat) (msched : list mactor) (i : nat) (x : sub),
  nth_error (m_subs (mfinal c SpanEmit work m msched)) i = Some x -> attached x = true ->
  ExactlyOnce c (fold_right Nat.add 0 work) (mview (mfinal c SpanEmit work m msched)) x.
Proof. exact multi_producer_exactly_once. Qed.
Print Assumptions c06_multi_producer_exactly_once.

(* ... stated for the span the extractor reads from TaskEmitter::emit today (k_span of the generated kinds) *)
Theorem c06_multi_producer_exactly_once_code : forall (k : kind_orders), In k gen_kinds ->
  forall (work : list nat) (m : nat) (msched : list mactor) (i : nat) (x : sub),
  nth_error (m_subs (mfinal (kind_cfg k None) (k_span k) work m msched)) i = Some x -> attached x = true ->
  ExactlyOnce (kind_cfg k None) (fold_right Nat.add 0 work) (mview (mfinal (kind_cfg k None) (k_span k) work m msched)) x.
Proof. exact (multi_producer_kinds gen_kinds gen_stream_order_ok). Qed.
Print Assumptions c06_multi_producer_exactly_once_code.

(* with the seq mutex narrowed to the counter (SpanCounter) two producers reorder the history and a late subscriber
   loses the overtaken frame: A takes 0, B takes 1, B records + publishes 1, the subscriber attaches (last = 1),
   A records + publishes 0 which `seq > last` drops.  History [1; 0], body [1], everybody finished. *)
Theorem c06_narrowed_seq_lock_refuted :
  m_hist (mfinal okc SpanCounter [1; 1] 1 narrowed_sched) = [1; 0]
  /\ map attached (m_subs (mfinal okc SpanCounter [1; 1] 1 narrowed_sched)) = [true]
  /\ map (delivered okc) (m_subs (mfinal okc SpanCounter [1; 1] 1 narrowed_sched)) = [[1]]
  /\ actives (m_prods (mfinal okc SpanCounter [1; 1] 1 narrowed_sched)) = []
  /\ work_left (m_prods (mfinal okc SpanCounter [1; 1] 1 narrowed_sched)) = 0.
Proof. exact span_counter_refuted. Qed.
Print Assumptions c06_narrowed_seq_lock_refuted.

Example c06_same_schedule_with_whole_emit_lock :
  map (delivered okc) (m_subs (mfinal okc SpanEmit [1; 1] 1 (narrowed_sched ++ [MP 1; MP 1; MP 1; MS 0]))) = [[0; 1]]
  /\ m_hist (mfinal okc SpanEmit [1; 1] 1 (narrowed_sched ++ [MP 1; MP 1; MP 1; MS 0])) = [0; 1].
Proof. exact span_emit_same_schedule. Qed.
Print Assumptions c06_same_schedule_with_whole_emit_lock.

(* S8 — publish-then-record (emit_event and TaskEmitter::emit before the repair) loses a frame:
   send(0) < subscribe < snapshot < push(0) *)
Theorem c06_pub_then_rec_refuted : exists n sched, Loses unfixed_cfg n sched.
Proof. exact pub_then_rec_refuted. Qed.
Print Assumptions c06_pub_then_rec_refuted.

(* ... and not only in a corner: in a stream of ANY length n, ANY frame k is lost by the schedule that attaches
   inside the window of frame k (s8_sched_for n k = 2k producer steps; Pub k; subscribe; snapshot; the rest) *)
Theorem c06_pub_then_rec_loses_any_frame : forall n k, k < n ->
  g_prog (final unfixed_cfg n 1 (s8_sched_for n k)) = [] /\
  map attached (g_subs (final unfixed_cfg n 1 (s8_sched_for n k))) = [true] /\
  map (delivered unfixed_cfg) (g_subs (final unfixed_cfg n 1 (s8_sched_for n k))) = [seq 0 k ++ seq (S k) (n - S k)].
Proof. exact pub_then_rec_loses_any_frame. Qed.
Print Assumptions c06_pub_then_rec_loses_any_frame.

(* each remaining hypothesis is necessary as well *)
Theorem c06_snap_then_sub_refuted : exists n sched, Loses (mk RecThenPub SnapThenSub FilterGtLast None) n sched.
Proof. exact snap_then_sub_refuted. Qed.
Print Assumptions c06_snap_then_sub_refuted.

Theorem c06_wrong_filter_refuted : forall f, f <> FilterGtLast ->
  exists n sched, Loses (mk RecThenPub SubThenSnap f None) n sched.
Proof. exact wrong_filter_refuted. Qed.
Print Assumptions c06_wrong_filter_refuted.

Theorem c06_lag_refuted : exists n sched, Loses (mk RecThenPub SubThenSnap FilterGtLast (Some 1)) n sched.
Proof. exact lag_refuted. Qed.
Print Assumptions c06_lag_refuted.

(* ---------- the recorded history over time (attach AFTER the stream ended included) ----------
   efinal c n m ops sched: the stream model plus the statements `ops` of the producer's code that touch the history
   buffer apart from the emitter's push (BRead | BTake | BRestore | BClear | BTruncate k); the schedule (any list over
   {EA a = a step of the stream model, EB = the next buffer statement runs}) decides when they run - at the end of the
   run, where run_session / finalize_snapshot write the snapshot file, or anywhere else.
   HistMonotone = the recorded history is prefix-ordered over time.  gen_buffer_ops (Gen/StreamOrder.v) = every such
   statement of crates/ripd/src read from today's source; gen_buffer_ops_ok = the generated obligation "they only read". *)
Theorem c06_history_monotone : forall (ops : list bufop), buffer_ops_ok ops = true ->
  forall (c : cfg) (n m : nat) (sched : list eactor), HistMonotone c n m ops sched.
Proof. exact history_monotone. Qed.
Print Assumptions c06_history_monotone.

Theorem c06_history_monotone_code : forall (c : cfg) (n m : nat) (sched : list eactor),
  HistMonotone c n m gen_buffer_ops sched.
Proof. exact (history_monotone gen_buffer_ops gen_buffer_ops_ok). Qed.
Print Assumptions c06_history_monotone_code.

(* exactly-once with the invariant it rests on as an explicit hypothesis: WHATEVER the buffer statements are, a run whose
   history stays prefix-ordered delivers 0..k-1 to every attached subscriber, at every moment (after the end included) *)
Theorem c06_exactly_once_monotone_history : forall (c : cfg),
  c_p c = RecThenPub -> c_s c = SubThenSnap -> c_f c = FilterGtLast -> c_cap c = None ->
  forall (ops : list bufop) (n m : nat) (sched : list eactor) (i : nat) (x : sub),
  HistMonotone c n m ops sched ->
  nth_error (g_subs (e_st (efinal c n m ops sched))) i = Some x -> attached x = true ->
  ExactlyOnce c n (e_st (efinal c n m ops sched)) x.
Proof. exact end_of_run_exactly_once. Qed.
Print Assumptions c06_exactly_once_monotone_history.

(* ... discharged for today's source: the three extracted kinds with the extracted buffer statements *)
Theorem c06_exactly_once_end_of_run_code : forall (k : kind_orders), In k gen_kinds ->
  forall (n m : nat) (sched : list eactor) (i : nat) (x : sub),
  nth_error (g_subs (e_st (efinal (kind_cfg k None) n m gen_buffer_ops sched))) i = Some x -> attached x = true ->
  ExactlyOnce (kind_cfg k None) n (e_st (efinal (kind_cfg k None) n m gen_buffer_ops sched)) x.
Proof. exact (end_of_run_kinds gen_kinds gen_stream_order_ok gen_buffer_ops gen_buffer_ops_ok). Qed.
Print Assumptions c06_exactly_once_end_of_run_code.

(* take-and-restore around the snapshot write (`let frames = mem::take(&mut *buf.lock().await); write; *buf.lock().await
   = frames`): 3 frames recorded and published, the buffer moved out, a subscriber attaches in the window (empty history,
   nothing live any more), the buffer put back: the history is [0;1;2] again and the subscriber has received NOTHING *)
Theorem c06_take_and_restore_refuted :
  ~ HistMonotone okc 3 1 take_restore_ops take_restore_sched
  /\ g_prog (e_st (efinal okc 3 1 take_restore_ops take_restore_sched)) = []
  /\ g_hist (e_st (efinal okc 3 1 take_restore_ops take_restore_sched)) = [0; 1; 2]
  /\ map attached (g_subs (e_st (efinal okc 3 1 take_restore_ops take_restore_sched))) = [true]
  /\ map (delivered okc) (g_subs (e_st (efinal okc 3 1 take_restore_ops take_restore_sched))) = [[]].
Proof. exact take_restore_refuted. Qed.
Print Assumptions c06_take_and_restore_refuted.

Example c06_same_schedule_reading_under_the_lock :
  buffer_ops_ok [BRead] = true
  /\ map (delivered okc) (g_subs (e_st (efinal okc 3 1 [BRead] take_restore_sched))) = [[0; 1; 2]].
Proof. exact read_only_same_schedule. Qed.
Print Assumptions c06_same_schedule_reading_under_the_lock.

(* ---------- the thread kind's history source ----------
   thread_history r side log = ContinuityStore::replay_events: the sidecar `side` when try_replay accepts it (non-empty,
   seqs checked with r), else the truth log.  gen_replay_check = (first expected seq, comparison) read from try_replay.
   Whatever the sidecar holds, a thread subscriber's history is the log or the gap-free run 0..k-1 the sidecar holds: *)
Theorem c06_thread_history_from_zero :
  forall (side : option (list nat)) (log : list nat),
  thread_history gen_replay_check side log = log
  \/ exists k, thread_history gen_replay_check side log = seq 0 k /\ side = Some (seq 0 k).
Proof. exact (thread_history_from_zero gen_replay_check gen_replay_check_ok). Qed.
Print Assumptions c06_thread_history_from_zero.

(* the cache lost (deleted) when the thread had j frames, the thread has n frames now (appended to or not since): the
   subscriber's history is the whole log *)
Theorem c06_thread_history_after_cache_loss : forall n j, j <= n ->
  thread_history gen_replay_check (sidecar_after_loss n j) (seq 0 n) = seq 0 n.
Proof. exact (thread_history_after_loss gen_replay_check gen_replay_check_ok). Qed.
Print Assumptions c06_thread_history_after_cache_loss.

(* `seq < expected` (increasing instead of successor) hands out the truncated / holed sidecar *)
Theorem c06_weak_replay_check_refuted :
  thread_history weak_replay (sidecar_after_loss 10 7) (seq 0 10) = [7; 8; 9]
  /\ thread_history weak_replay (Some [0; 1; 3; 4]) (seq 0 5) = [0; 1; 3; 4]
  /\ thread_history code_replay (sidecar_after_loss 10 7) (seq 0 10) = seq 0 10
  /\ thread_history code_replay (Some [0; 1; 3; 4]) (seq 0 5) = seq 0 5.
Proof. exact weak_replay_refuted. Qed.
Print Assumptions c06_weak_replay_check_refuted.

(* ---------- L1 repaired: the handlers re-read the history when their receiver lagged ----------
   rfinal pol cap n m sched: the stream model with the orders of the code (record-then-publish, subscribe-then-snapshot),
   a channel of ANY capacity cap (an overflowing receiver loses its oldest pending frame and is told Lagged at its next
   recv) and the policy pol of the handler's live half: LagSkip = carry on with what the channel still holds (the
   handlers before the repair), LagRefill = server.rs live_frames: re-read the history, carry on after the last seq
   delivered.  With LagRefill exactly-once needs NO NoLag hypothesis: every capacity, every length, every schedule. *)
Theorem c06_exactly_once_with_refill : forall (cap n m : nat) (sched : list actor) (i : nat) (x : rsub),
  nth_error (r_subs (rfinal LagRefill cap n m sched)) i = Some x -> rattached x = true ->
  exists k, rdelivered LagRefill (rfinal LagRefill cap n m sched) x = seq 0 k
            /\ rpublished n (rfinal LagRefill cap n m sched) <= k /\ k <= n
            /\ (r_prog (rfinal LagRefill cap n m sched) = [] -> k = n).
Proof. exact exactly_once_with_refill. Qed.
Print Assumptions c06_exactly_once_with_refill.

(* ... for the policies read from today's three handlers (gen_lag_policy; obligation: all LagRefill) *)
Theorem c06_exactly_once_with_refill_code : forall (pol : lagpolicy), In pol gen_lag_policy ->
  forall (cap n m : nat) (sched : list actor) (i : nat) (x : rsub),
  nth_error (r_subs (rfinal pol cap n m sched)) i = Some x -> rattached x = true ->
  exists k, rdelivered pol (rfinal pol cap n m sched) x = seq 0 k
            /\ rpublished n (rfinal pol cap n m sched) <= k /\ k <= n
            /\ (r_prog (rfinal pol cap n m sched) = [] -> k = n).
Proof. exact (exactly_once_with_refill_policies gen_lag_policy gen_lag_policy_ok). Qed.
Print Assumptions c06_exactly_once_with_refill_code.

Theorem c06_code_handlers_all_refill : length gen_lag_policy = 3.
Proof. exact gen_lag_policy_all. Qed.
Print Assumptions c06_code_handlers_all_refill.

(* L1 as it was: capacity 1, the subscriber attaches, two frames are produced before it reads: LagSkip delivers [1],
   LagRefill [0; 1] *)
Theorem c06_lag_skip_refuted :
  r_prog (rfinal LagSkip 1 2 1 lag_sched) = []
  /\ map rattached (r_subs (rfinal LagSkip 1 2 1 lag_sched)) = [true]
  /\ map (rdelivered LagSkip (rfinal LagSkip 1 2 1 lag_sched)) (r_subs (rfinal LagSkip 1 2 1 lag_sched)) = [[1]]
  /\ map (rdelivered LagRefill (rfinal LagRefill 1 2 1 lag_sched)) (r_subs (rfinal LagRefill 1 2 1 lag_sched)) = [[0; 1]].
Proof. exact lag_skip_refuted. Qed.
Print Assumptions c06_lag_skip_refuted.

(* ---------- the WINDOW of the recovery: between the history re-read and the handler's next recv ----------
   wfinal pol cap n m sched: as rfinal, but a lagged drain STOPS after the history re-read (server.rs live_frames: `refill()`
   has answered, point sse.live.refilled) with its receiver untouched, and the subscriber's next step resumes it - so the
   schedule may put any number of producer steps (record, publish, frames of other streams) INSIDE the window.  LagRefill
   resumes with the receiver that was subscribed before the attach snapshot (a frame published in the window is in it, or
   pushed it over its capacity again, and then the history is re-read again); LagRefillResubscribe replaces it by a new
   receiver at the channel's tail first.  wdelivered = what the client has once it has read everything pending.
   Exactly-once for LagRefill: every capacity, length, schedule, subscriber. *)
Theorem c06_exactly_once_with_refill_window : forall (cap n m : nat) (sched : list actor) (i : nat) (x : wsub),
  nth_error (w_subs (wfinal LagRefill cap n m sched)) i = Some x -> wattached x = true ->
  exists k, wdelivered LagRefill (wfinal LagRefill cap n m sched) x = seq 0 k
            /\ wpublished n (wfinal LagRefill cap n m sched) <= k /\ k <= n
            /\ (w_prog (wfinal LagRefill cap n m sched) = [] -> k = n).
Proof. exact exactly_once_with_refill_window. Qed.
Print Assumptions c06_exactly_once_with_refill_window.

(* ... for the policies read from today's three handlers (the extractor reads the WHOLE Lagged arm: the history is queued and
   nothing else happens; a `receiver = receiver.resubscribe()` after it reads as LagRefillResubscribe, anything else fails) *)
Theorem c06_exactly_once_with_refill_window_code : forall (pol : lagpolicy), In pol gen_lag_policy ->
  forall (cap n m : nat) (sched : list actor) (i : nat) (x : wsub),
  nth_error (w_subs (wfinal pol cap n m sched)) i = Some x -> wattached x = true ->
  exists k, wdelivered pol (wfinal pol cap n m sched) x = seq 0 k
            /\ wpublished n (wfinal pol cap n m sched) <= k /\ k <= n
            /\ (w_prog (wfinal pol cap n m sched) = [] -> k = n).
Proof. exact (exactly_once_with_refill_window_policies gen_lag_policy gen_lag_policy_ok). Qed.
Print Assumptions c06_exactly_once_with_refill_window_code.

(* history first, (re)subscribe second - the join rule backwards: capacity 1, the subscriber attaches, frames 0 and 1 are
   produced (it lags), it reads (the history [0;1] is re-read), frame 2 is recorded and published in the window, it resumes
   with a NEW receiver, frame 3 is produced, everything is read: [0;1;3].  Frame 2 is in neither the re-read history nor the
   new receiver and the running last_seq hides it from every later re-read.  Same schedule: LagRefill [0;1;2;3]. *)
Theorem c06_resubscribe_after_refill_refuted :
  w_prog (wfinal LagRefillResubscribe 1 4 1 resub_sched) = []
  /\ map wattached (w_subs (wfinal LagRefillResubscribe 1 4 1 resub_sched)) = [true]
  /\ map (wdelivered LagRefillResubscribe (wfinal LagRefillResubscribe 1 4 1 resub_sched)) (w_subs (wfinal LagRefillResubscribe 1 4 1 resub_sched)) = [[0; 1; 3]]
  /\ map (wdelivered LagRefill (wfinal LagRefill 1 4 1 resub_sched)) (w_subs (wfinal LagRefill 1 4 1 resub_sched)) = [[0; 1; 2; 3]]
  /\ map (wdelivered LagSkip (wfinal LagSkip 1 4 1 resub_sched)) (w_subs (wfinal LagSkip 1 4 1 resub_sched)) = [[1; 2; 3]].
Proof. exact resubscribe_refuted. Qed.
Print Assumptions c06_resubscribe_after_refill_refuted.

Example c06_resubscribe_with_room_in_the_channel :
  w_prog (wfinal LagRefillResubscribe 4 8 1 resub_sched4) = []
  /\ map (wdelivered LagRefillResubscribe (wfinal LagRefillResubscribe 4 8 1 resub_sched4)) (w_subs (wfinal LagRefillResubscribe 4 8 1 resub_sched4)) = [[0; 1; 2; 3; 4; 5; 7]]
  /\ map (wdelivered LagRefill (wfinal LagRefill 4 8 1 resub_sched4)) (w_subs (wfinal LagRefill 4 8 1 resub_sched4)) = [[0; 1; 2; 3; 4; 5; 6; 7]].
Proof. exact resubscribe_refuted_cap4. Qed.
Print Assumptions c06_resubscribe_with_room_in_the_channel.

Example c06_refill_demo :
  r_prog (rfinal LagRefill 2 6 3 refill_demo_sched) = []
  /\ map rs_pend (r_subs (rfinal LagRefill 2 6 3 refill_demo_sched)) = [true; true; false]
  /\ map rattached (r_subs (rfinal LagRefill 2 6 3 refill_demo_sched)) = [true; true; true]
  /\ map (rdelivered LagRefill (rfinal LagRefill 2 6 3 refill_demo_sched)) (r_subs (rfinal LagRefill 2 6 3 refill_demo_sched))
     = [[0; 1; 2; 3; 4; 5]; [0; 1; 2; 3; 4; 5]; [0; 1; 2; 3; 4; 5]]
  /\ map (rdelivered LagSkip (rfinal LagSkip 2 6 3 refill_demo_sched)) (r_subs (rfinal LagSkip 2 6 3 refill_demo_sched))
     = [[0; 1; 2; 3; 4; 5]; [0; 4; 5]; [0; 1; 2; 4; 5]].
Proof. exact refill_demo. Qed.
Print Assumptions c06_refill_demo.

(* non-vacuity: three subscribers attaching at different moments of a 3-frame stream *)
Example c06_demo :
  g_prog (final okc 3 3 demo_sched) = []
  /\ map (delivered okc) (g_subs (final okc 3 3 demo_sched)) = [[0; 1; 2]; [0; 1; 2]; [0; 1; 2]]
  /\ map attached (g_subs (final okc 3 3 demo_sched)) = [true; true; true].
Proof. exact demo_run. Qed.
Print Assumptions c06_demo.

Example c06_demo_mid_run :
  g_prog (final okc 3 3 (firstn 7 demo_sched)) <> []
  /\ map attached (g_subs (final okc 3 3 (firstn 7 demo_sched))) = [true; true; false]
  /\ map (delivered okc) (g_subs (final okc 3 3 (firstn 7 demo_sched))) = [[0; 1]; [0; 1]; []].
Proof. exact demo_mid_run. Qed.
Print Assumptions c06_demo_mid_run.

Example c06_demo_shared_channel :
  NoLag (final (code_cfg (Some 7)) 3 3 demo_shared_sched)
  /\ g_prog (final (code_cfg (Some 7)) 3 3 demo_shared_sched) = []
  /\ map (delivered (code_cfg (Some 7))) (g_subs (final (code_cfg (Some 7)) 3 3 demo_shared_sched)) = [[0; 1; 2]; [0; 1; 2]; [0; 1; 2]]
  /\ count_other demo_shared_sched = 4.
Proof. exact demo_shared. Qed.
Print Assumptions c06_demo_shared_channel.

Example c06_demo_nolag :
  NoLag (final (code_cfg (Some 3)) 3 3 demo_sched)
  /\ map attached (g_subs (final (code_cfg (Some 3)) 3 3 demo_sched)) = [true; true; true].
Proof. exact demo_nolag. Qed.
Print Assumptions c06_demo_nolag.

(* ---------- the thread kind's history while the sidecar is being REBUILT (finding S3-live, repaired in /repo) ----------
   tfinal d n m sched = the thread store: one writer appending frames 0..n-1 (each append: seq mutex; log; sidecar line;
   broadcast + release), m readers (subscribe; try_replay; when refused: log read + sidecar rebuild; then live), ANY
   schedule over {TW writer step, TR i reader step, TRefuse i = reader i's next unlocked try_replay is refused although the
   sidecar is healthy (its read fell inside the append of the last line), TDrop = the cache file is lost}.
   d = the discipline of the rebuild: rd_locked (log read + rebuild under the writers' mutex, sidecar tried again under it),
   rd_atomic (temporary file renamed over the sidecar).  TExactlyOnce: what an attached reader has is 0..q-1, q covers every
   frame broadcast so far, q = n once the writer has finished. *)
Theorem c06_exactly_once_during_rebuild : forall (d : rdisc), rdisc_ok d = true ->
  forall (n m : nat) (sched : list tactor) (i : nat) (x : tsub),
  nth_error (t_subs (tfinal d n m sched)) i = Some x -> tattached x = true ->
  TExactlyOnce n (tfinal d n m sched) x.
Proof. exact rebuild_exactly_once. Qed.
Print Assumptions c06_exactly_once_during_rebuild.

(* today's source: the discipline read from ContinuityStore::replay_events / replay_events_locked and
   ContinuityStreamCache::rebuild_best_effort (obligation gen_rebuild_disc_ok) *)
Theorem c06_exactly_once_during_rebuild_code :
  forall (n m : nat) (sched : list tactor) (i : nat) (x : tsub),
  nth_error (t_subs (tfinal gen_rebuild_disc n m sched)) i = Some x -> tattached x = true ->
  TExactlyOnce n (tfinal gen_rebuild_disc n m sched) x.
Proof. exact (rebuild_exactly_once_checked gen_ok_replay_check gen_rebuild_disc gen_rebuild_disc_ok). Qed.
Print Assumptions c06_exactly_once_during_rebuild_code.

(* the code before the repair (rewrite in place, no lock shared with the writers): the witness replayed on the real code
   (corpus/C06/rebuild_lost_append.json): the rebuild's older replay overwrites an append; reader 1 has [0;1;3] of 0..3 *)
Theorem c06_rebuild_in_place_unlocked_refuted : TLoses in_place_unlocked 4 2 lost_append_sched.
Proof. exact lost_append_loses. Qed.
Print Assumptions c06_rebuild_in_place_unlocked_refuted.

(* neither half of the repair is enough alone: EVERY other discipline loses a frame under some schedule
   (rename without the lock: the older replay replaces a sidecar that already holds the next frame; lock without the rename:
   a reader - readers take no lock - is served the well-formed prefix the rewrite has reached, corpus/C06/rebuild_prefix_visible.json) *)
Theorem c06_rebuild_other_disciplines_refuted : forall (d : rdisc), rdisc_ok d = false ->
  exists (n m : nat) (sched : list tactor), TLoses d n m sched.
Proof. exact rebuild_other_disciplines_refuted. Qed.
Print Assumptions c06_rebuild_other_disciplines_refuted.

Example c06_lost_append_witness :
  t_wk (tfinal in_place_unlocked 4 2 lost_append_sched) = 4 /\ t_log (tfinal in_place_unlocked 4 2 lost_append_sched) = [0; 1; 2; 3]
  /\ t_side (tfinal in_place_unlocked 4 2 lost_append_sched) = [0; 1; 3]
  /\ map tattached (t_subs (tfinal in_place_unlocked 4 2 lost_append_sched)) = [true; true]
  /\ map tdelivered (t_subs (tfinal in_place_unlocked 4 2 lost_append_sched)) = [[0; 1; 2; 3]; [0; 1; 3]].
Proof. exact lost_append_witness. Qed.
Print Assumptions c06_lost_append_witness.

(* non-vacuity: the same schedule under the repaired discipline, and a rebuild that really runs under the mutex *)
Example c06_same_schedule_repaired :
  t_wk (tfinal okd 4 2 lost_append_sched) = 4 /\ t_side (tfinal okd 4 2 lost_append_sched) = [0; 1; 2; 3]
  /\ map tdelivered (t_subs (tfinal okd 4 2 lost_append_sched)) = [[0; 1; 2; 3]; [0; 1; 2; 3]].
Proof. exact lost_append_repaired. Qed.
Print Assumptions c06_same_schedule_repaired.

Example c06_rebuild_under_the_mutex :
  t_wk (tfinal okd 3 2 rebuild_under_lock_sched) = 3 /\ t_side (tfinal okd 3 2 rebuild_under_lock_sched) = [0; 1; 2] /\
  map tattached (t_subs (tfinal okd 3 2 rebuild_under_lock_sched)) = [true; true] /\
  map tdelivered (t_subs (tfinal okd 3 2 rebuild_under_lock_sched)) = [[0; 1; 2]; [0; 1; 2]].
Proof. exact rebuild_under_lock_example. Qed.
Print Assumptions c06_rebuild_under_the_mutex.
