(* C07 — Run lifecycle frames are complete, unique and causally ordered.
   Statements only; proofs are in Proofs/RunLifecycleProofs.v, the model in Model/RunLifecycle.v.

   `act_events aok a` = everything one activity writes to events.jsonl, in program order, for ANY input
   kind (prompt / tool envelope / checkpoint envelope), ANY compile outcome, ANY list of provider answers
   (each: invalid request, send error, HTTP error, empty body, first-chunk error, error after any number of
   decoded events, or a complete stream with any events / response id / function calls), ANY tool outcomes
   (unknown tool, timeout, any stdout/stderr counts and exit code, auto checkpoint created/failed, barred
   by tool_choice, needs the workspace lock or not), with or without a provider configuration, stateless
   or not; `aok` says which continuity appends succeed.  The log `l` of a store is ANY interleaving of the
   activities' event lists (`Interleave`: each activity's own order is kept, nothing else is assumed about
   the schedule).  `WfActs` = session / message / job ids are fresh (pairwise distinct). *)
From RipV Require Import Base.Prelude Model.RunLifecycle Gen.RunLifecycleGen Proofs.RunLifecycleProofs.

(* A session stream starts with its start frame at seq 0, ends with exactly one end frame, has no other
   start/end frame in between, and its seqs are 0,1,2,… — for every started run (linked or not), under
   every schedule, whatever the provider or the tools do, whichever continuity appends fail. *)
Theorem c07_session_shape : forall (aok : ck -> bool) (acts : list act) (l : list ev) (a : act) (sid : N),
  WfActs acts -> Interleave (map (act_events aok) acts) l ->
  In a acts -> In sid (act_sids a) -> act_started aok a = true ->
  SessionShape (sess_stream sid l).
Proof. exact session_shape. Qed.
Print Assumptions c07_session_shape.

(* Per run the thread records: run_spawned; [selection_decided; compiled]?; side_effects*; cursor_updated?;
   run_ended — and in the log projected on the run, run_ended is the frame right after the run's own
   terminal session frame (so nothing of the run follows it) and carries that frame's reason.
   AppendOk (every continuity append succeeds) is a hypothesis: see c07_end_dropped_when_append_fails_refuted. *)
Theorem c07_thread_order : forall (aok : ck -> bool) (acts : list act) (l : list ev) (g : cfg) (mid sid : N) (inp : input),
  WfActs acts -> Interleave (map (act_events aok) acts) l -> In (APost g mid sid inp) acts ->
  (forall k, aok k = true) ->
  exists pre q r,
    filter (of_run sid) l
    = EC (CRunSpawned sid mid) :: ES sid 0 SStarted :: pre ++ [ES sid q (SEnded r); EC (CRunEnded sid mid r)]
    /\ mid_kinds (map snd (sess_stream sid pre)) = true
    /\ ThreadShape sid mid (conts (filter (of_run sid) l)) r.
Proof. exact thread_order. Qed.
Print Assumptions c07_thread_order.

(* … and WITHOUT AppendOk (run_session drops the result of every thread append: `let _ = continuities.append_…`): failing
   appends delete exactly the thread frames whose append failed - nothing else of the run changes (same session frames, same
   seqs, same reasons) … *)
Theorem c07_failing_appends_only_delete : forall (g : cfg) (sid : N) (link : option N) (aok : ck -> bool) (inp : input),
  run_session g sid link aok inp = filter (keeps aok) (run_session g sid link all_ok inp).
Proof. exact run_session_keeps. Qed.
Print Assumptions c07_failing_appends_only_delete.

(* … so under ARBITRARY failing appends (only the message and its run_spawned reached the thread), under every schedule,
   the run's projection of the log is a full AppendOk-shaped sequence - ThreadShape, run_ended right after the terminal
   session frame and carrying its reason - from which exactly the frames whose append failed are missing: the frames that are
   there keep their causal order.  (What the harness's oracle checks on fault-injected runs: thread_regex_faulted.) *)
Theorem c07_thread_order_failing_appends : forall (aok : ck -> bool) (acts : list act) (l : list ev) (g : cfg) (mid sid : N) (inp : input),
  WfActs acts -> Interleave (map (act_events aok) acts) l -> In (APost g mid sid inp) acts ->
  aok (CMessage mid) = true -> aok (CRunSpawned sid mid) = true ->
  exists pre q r,
    filter (of_run sid) l
    = filter (keeps aok)
        (EC (CRunSpawned sid mid) :: ES sid 0 SStarted :: pre ++ [ES sid q (SEnded r); EC (CRunEnded sid mid r)])
    /\ mid_kinds (map snd (sess_stream sid pre)) = true
    /\ ThreadShape sid mid
         (conts (EC (CRunSpawned sid mid) :: ES sid 0 SStarted :: pre ++ [ES sid q (SEnded r); EC (CRunEnded sid mid r)])) r.
Proof. exact thread_order_faulted. Qed.
Print Assumptions c07_thread_order_failing_appends.

(* each message that reached the thread has exactly one run_spawned frame *)
Theorem c07_one_spawn_per_message : forall (aok : ck -> bool) (acts : list act) (l : list ev) (g : cfg) (mid sid : N) (inp : input),
  WfActs acts -> Interleave (map (act_events aok) acts) l -> In (APost g mid sid inp) acts ->
  aok (CMessage mid) = true -> aok (CRunSpawned sid mid) = true ->
  count_ck (is_spawn_of mid) l = 1%nat.
Proof. exact one_spawn_per_message. Qed.
Print Assumptions c07_one_spawn_per_message.

(* "each message posted produces exactly one run_spawned frame" when the CLIENT HANGS UP: hyper/axum drop the handler future
   of a connection that went away while it is suspended.  thread_post_message has one suspension point (the lock of the
   router's session map); `post_message_hung po … dropped` = the handler with that point placed as `po` says, dropped there
   or not.  With the point BEFORE the message append (server.rs today; re-read by the extractor on every run: gen_post_order,
   obligations gen_post_ok / gen_post_safe) a message that reached the thread has its run_spawned frame, dropped or not … *)
Theorem c07_hung_up_post_message_has_run : forall (po : post_order) (g : cfg) (aok : ck -> bool) (mid sid : N) (inp : input) (dropped : bool),
  post_order_safe po = true -> aok (CRunSpawned sid mid) = true ->
  count_ck (is_spawn_of mid) (post_message_hung po g aok mid sid inp dropped)
  = count_ck (is_message_of mid) (post_message_hung po g aok mid sid inp dropped).
Proof. exact post_hung_message_has_run. Qed.
Print Assumptions c07_hung_up_post_message_has_run.

(* … indeed a dropped request is no activity at all and an undropped one is post_message, so every theorem above covers
   stores whose clients hang up (as built: at the order read from the source) … *)
Theorem c07_hung_up_post_as_built : forall (g : cfg) (aok : ck -> bool) (mid sid : N) (inp : input) (dropped : bool),
  post_message_hung gen_post_order g aok mid sid inp dropped = if dropped then [] else post_message g aok mid sid inp.
Proof. exact (fun g aok mid sid inp dropped => post_hung_safe gen_post_order g aok mid sid inp dropped gen_post_safe). Qed.
Print Assumptions c07_hung_up_post_as_built.

(* … REFUTED for the order before the fix (append message; lock; append run_spawned; spawn): the request dropped at the
   lock leaves a message on the thread that never gets a run.  Replayed on the real code: corpus/C07/post_client_hangs_up.json *)
Theorem c07_hung_up_post_unfixed_refuted :
  exists g aok mid sid inp,
    count_ck (is_message_of mid) (post_message_hung PoAppendFirst g aok mid sid inp true) = 1%nat
    /\ count_ck (is_spawn_of mid) (post_message_hung PoAppendFirst g aok mid sid inp true) = 0%nat.
Proof. exact (ex_intro _ g_stub_cfg (ex_intro _ all_ok (ex_intro _ 7 (ex_intro _ 1 (ex_intro _ (IPrompt true []) post_hung_unfixed_orphan))))). Qed.
Print Assumptions c07_hung_up_post_unfixed_refuted.

(* every spawned run has exactly one run_ended frame — under AppendOk for that frame *)
Theorem c07_one_end_per_spawn : forall (aok : ck -> bool) (acts : list act) (l : list ev) (g : cfg) (mid sid : N) (inp : input),
  WfActs acts -> Interleave (map (act_events aok) acts) l -> In (APost g mid sid inp) acts ->
  aok (CMessage mid) = true -> aok (CRunSpawned sid mid) = true ->
  (forall r, aok (CRunEnded sid mid r) = true) ->
  count_ck (is_end_of sid) l = 1%nat.
Proof. exact one_end_per_spawn. Qed.
Print Assumptions c07_one_end_per_spawn.

(* … and never more than one, whatever fails *)
Theorem c07_end_at_most_once : forall (aok : ck -> bool) (acts : list act) (l : list ev) (g : cfg) (mid sid : N) (inp : input),
  WfActs acts -> Interleave (map (act_events aok) acts) l -> In (APost g mid sid inp) acts ->
  aok (CMessage mid) = true -> aok (CRunSpawned sid mid) = true ->
  (count_ck (is_end_of sid) l <= 1)%nat.
Proof. exact end_at_most_once. Qed.
Print Assumptions c07_end_at_most_once.

(* a background job is ended at most once (any job outcome, any failing appends, any schedule) *)
Theorem c07_job_ended_at_most_once : forall (aok : ck -> bool) (acts : list act) (l : list ev) (j : N),
  WfActs acts -> Interleave (map (act_events aok) acts) l ->
  (count_ck (is_job_end_of j) l <= 1)%nat.
Proof. exact job_ended_at_most_once. Qed.
Print Assumptions c07_job_ended_at_most_once.

(* the projection used above really is "the run's own frames": the log filtered on a run's id equals the
   run's own event list, under every schedule *)
Theorem c07_run_projection : forall (aok : ck -> bool) (acts : list act) (l : list ev) (a : act) (sid : N),
  WfActs acts -> Interleave (map (act_events aok) acts) l -> In a acts -> In sid (act_sids a) ->
  filter (of_run sid) l = filter (of_run sid) (act_events aok a).
Proof. exact run_projection. Qed.
Print Assumptions c07_run_projection.

(* "for all provider behaviours": a provider is an unbounded sequence of answers; the run never looks
   beyond answer number MAX_TOOL_CALLS (every continued round spends tool-call budget), so quantifying
   over finite lists of answers loses nothing *)
Theorem c07_provider_prefix_suffices : forall (g : cfg) (sid : N) (link : option N) (aok : ck -> bool) (cok : bool) (reqs extra : list req_out),
  (N.to_nat MAX_TOOL_CALLS < length reqs)%nat ->
  run_session g sid link aok (IPrompt cok (reqs ++ extra)) = run_session g sid link aok (IPrompt cok reqs).
Proof. exact run_session_prefix. Qed.
Print Assumptions c07_provider_prefix_suffices.

(* … and WHY it never looks further: the tool budget.  `run_session_a ac` is run_session with the placement of
   `tool_call_count += 1` as a parameter (at ACCT it is run_session, c07_accounting_as_modelled; the extractor re-reads the
   placement from run_openresponses_agent_loop on every run: gen_acct, obligations gen_budget_ok / gen_acct_all).
   When every drained call is paid for - refused by tool_choice or not - a run makes at most MAX_TOOL_CALLS provider
   requests, for EVERY list of provider answers however long (a provider that answers for ever included): the run ends. *)
Theorem c07_requests_bounded : forall (ac : acct) (g : cfg) (sid : N) (link : option N) (aok : ck -> bool) (inp : input),
  acct_all ac = true ->
  (nreq (run_session_a ac g sid link aok inp) <= N.to_nat MAX_TOOL_CALLS)%nat.
Proof. exact requests_bounded. Qed.
Print Assumptions c07_requests_bounded.

Theorem c07_requests_bounded_as_built : forall (g : cfg) (sid : N) (link : option N) (aok : ck -> bool) (inp : input),
  (nreq (run_session_a gen_acct g sid link aok inp) <= N.to_nat MAX_TOOL_CALLS)%nat.
Proof. exact (fun g sid link aok inp => requests_bounded gen_acct g sid link aok inp gen_acct_all). Qed.
Print Assumptions c07_requests_bounded_as_built.

Theorem c07_accounting_as_modelled : forall (g : cfg) (sid : N) (link : option N) (aok : ck -> bool) (inp : input),
  run_session_a ACCT g sid link aok inp = run_session g sid link aok inp.
Proof. exact run_session_a_every. Qed.
Print Assumptions c07_accounting_as_modelled.

(* c07_provider_prefix_suffices restated for the accounting read from the source *)
Theorem c07_provider_prefix_suffices_as_built : forall (g : cfg) (sid : N) (link : option N) (aok : ck -> bool) (cok : bool) (reqs extra : list req_out),
  (N.to_nat MAX_TOOL_CALLS < length reqs)%nat ->
  run_session_a gen_acct g sid link aok (IPrompt cok (reqs ++ extra)) = run_session_a gen_acct g sid link aok (IPrompt cok reqs).
Proof. exact (fun g sid link aok cok reqs extra => run_session_a_prefix gen_acct g sid link aok cok reqs extra gen_acct_all). Qed.
Print Assumptions c07_provider_prefix_suffices_as_built.

(* REFUTED when a call refused by tool_choice is free (`tool_call_count += 1` only in the dispatching branches): against
   the stubborn provider - every answer is one call of a refused function - the run asks again after EVERY answer.  For every
   n there is a script of n such answers after which the run is still open: it has made request n+1 (fuel-indexed form
   of "the run never ends against a provider that never stops") … *)
Theorem c07_requests_unbounded_when_refused_calls_are_free_refuted : forall n : nat,
  exists reqs, length reqs = n /\ forallb is_refused_answer reqs = true
    /\ nreq (run_session_a AcctDispatchedOnly g_stateless_prov 1 (Some 2) all_ok (IPrompt true reqs)) = S n.
Proof. exact requests_unbounded_dispatched_only. Qed.
Print Assumptions c07_requests_unbounded_when_refused_calls_are_free_refuted.

(* … so no finite prefix of the provider's answers determines the run: one more answer always changes it *)
Theorem c07_provider_prefix_fails_when_refused_calls_are_free_refuted : forall n : nat,
  run_session_a AcctDispatchedOnly g_stateless_prov 1 (Some 2) all_ok (IPrompt true (repeat refused_answer n ++ [refused_answer]))
  <> run_session_a AcctDispatchedOnly g_stateless_prov 1 (Some 2) all_ok (IPrompt true (repeat refused_answer n)).
Proof. exact prefix_fails_dispatched_only. Qed.
Print Assumptions c07_provider_prefix_fails_when_refused_calls_are_free_refuted.

(* AppendOk cannot be dropped: `let _ = continuities.append_run_ended(..)` (session.rs:308-317) — when that
   append fails the run stays spawned-but-never-ended on the thread and nobody is told *)
Theorem c07_end_dropped_when_append_fails_refuted :
  exists aok acts l g mid sid inp,
    WfActs acts /\ Interleave (map (act_events aok) acts) l /\ In (APost g mid sid inp) acts
    /\ count_ck (is_spawn_of mid) l = 1%nat /\ count_ck (is_end_of sid) l = 0%nat.
Proof. exact end_dropped_refuted. Qed.
Print Assumptions c07_end_dropped_when_append_fails_refuted.

(* RUN_ENDED IS UNCONDITIONAL ON SIDE WRITES.  Besides the log, the end of a run makes best-effort writes that can fail -
   the snapshot (write_snapshot), the thread's sidecar / index caches, artifacts, checkpoints: disk full, a read-only data
   directory, a tool that put something else where the target should be.  `act_events_x gate swf aok a` = the activity with
   the exit GATE (the side writes whose failure the code lets suppress append_run_ended) and the failure pattern
   `swf : session id -> side_write -> bool` (which side write fails in which run - a damaged directory fails every later run
   too) as parameters.  With nothing in the gate, for EVERY failure pattern, every set of activities and every schedule:
   every run announced on the thread has exactly one run_ended … *)
Theorem c07_lifecycle_complete_under_failing_side_writes :
  forall (gate : list side_write) (swf : N -> side_write -> bool) (aok : ck -> bool) (acts : list act) (l : list ev) (g : cfg) (mid sid : N) (inp : input),
  gate_unconditional gate = true ->
  WfActs acts -> Interleave (map (act_events_x gate swf aok) acts) l -> In (APost g mid sid inp) acts ->
  aok (CMessage mid) = true -> aok (CRunSpawned sid mid) = true ->
  (forall r, aok (CRunEnded sid mid r) = true) ->
  count_ck (is_end_of sid) l = 1%nat.
Proof. exact one_end_per_spawn_x. Qed.
Print Assumptions c07_lifecycle_complete_under_failing_side_writes.

(* … right after the run's own terminal session frame and carrying its reason (c07_thread_order for every failure pattern) … *)
Theorem c07_thread_order_under_failing_side_writes :
  forall (gate : list side_write) (swf : N -> side_write -> bool) (aok : ck -> bool) (acts : list act) (l : list ev) (g : cfg) (mid sid : N) (inp : input),
  gate_unconditional gate = true ->
  WfActs acts -> Interleave (map (act_events_x gate swf aok) acts) l -> In (APost g mid sid inp) acts ->
  (forall k, aok k = true) ->
  exists pre q r,
    filter (of_run sid) l
    = EC (CRunSpawned sid mid) :: ES sid 0 SStarted :: pre ++ [ES sid q (SEnded r); EC (CRunEnded sid mid r)]
    /\ mid_kinds (map snd (sess_stream sid pre)) = true
    /\ ThreadShape sid mid (conts (filter (of_run sid) l)) r.
Proof. exact thread_order_x. Qed.
Print Assumptions c07_thread_order_under_failing_side_writes.

(* … as built: at the gate the extractor reads from run_session on every run (the blocks around the append_run_ended call, the
   use of write_snapshot's result; obligations gen_exit_gate_ok / gen_exit_gate_unconditional), an activity under ANY failure
   pattern is an activity every theorem above speaks about: the same run on the input the failing side writes leave it
   (`act_under`: a context bundle that cannot be written = compile failure, an auto checkpoint that cannot be written =
   checkpoint_failed; a failing snapshot / thread-cache write changes nothing) *)
Theorem c07_side_writes_as_built : forall (swf : N -> side_write -> bool) (aok : ck -> bool) (a : act),
  act_events_x gen_exit_gate swf aok a = act_events aok (act_under swf a).
Proof. exact (fun swf aok a => act_events_x_ungated gen_exit_gate swf aok a gen_exit_gate_unconditional). Qed.
Print Assumptions c07_side_writes_as_built.

(* "unconditional" cannot be weakened: EVERY non-empty gate is closed by one failing side write of it, and a run whose
   gate is closed writes its terminal session frame (the session stream keeps its shape) and no run_ended, ever -
   for every configuration, input, provider and tool behaviour *)
Theorem c07_gated_run_is_never_ended :
  forall (gate : list side_write), gate_unconditional gate = false ->
  exists w, In w gate /\
    forall (g : cfg) (sid mid : N) (aok : ck -> bool) (inp : input),
      count_ck (is_end_of sid) (run_session_x gate (side_write_eqb w) g sid (Some mid) aok inp) = 0%nat
      /\ SessionShape (sess_stream sid (run_session_x gate (side_write_eqb w) g sid (Some mid) aok inp)).
Proof. exact gated_run_never_ended. Qed.
Print Assumptions c07_gated_run_is_never_ended.

(* … store-wide: with a non-empty gate ONE side write that fails in every run (a damaged directory, a full disk) leaves EVERY
   run announced on any thread of the store open - every set of activities, every schedule: each message still gets its
   run_spawned, no run ever gets its run_ended (the store then behaves exactly as if every run_ended append failed) *)
Theorem c07_one_failing_side_write_leaves_every_run_open :
  forall (gate : list side_write), gate_unconditional gate = false ->
  exists w, In w gate /\
    forall (aok : ck -> bool) (acts : list act) (l : list ev) (g : cfg) (mid sid : N) (inp : input),
      WfActs acts -> Interleave (map (act_events_x gate (fun _ => side_write_eqb w) aok) acts) l ->
      In (APost g mid sid inp) acts -> aok (CMessage mid) = true -> aok (CRunSpawned sid mid) = true ->
      count_ck (is_spawn_of mid) l = 1%nat /\ count_ck (is_end_of sid) l = 0%nat.
Proof. exact gated_store_never_ends. Qed.
Print Assumptions c07_one_failing_side_write_leaves_every_run_open.

(* REFUTED for a gate that holds the snapshot (`if let (Some(link), Ok(_)) = (continuity_run, snapshot)`): a run whose own
   tool replaces <data>/snapshots by a regular file, then a plain prompt on the same thread - write_snapshot fails in both
   runs; both are announced, both end their session, NEITHER gets its run_ended (under AppendOk).  Replayed on the real
   code: corpus/C07/seeded_c07_9_tool_replaces_snapshot_dir.json (the oracle demands one run_ended for both) *)
Theorem c07_run_ended_gated_by_snapshot_refuted :
  exists swf acts l g1 mid1 sid1 inp1 g2 mid2 sid2 inp2,
    WfActs acts /\ Interleave (map (act_events_x [SwSnapshot] swf all_ok) acts) l
    /\ In (APost g1 mid1 sid1 inp1) acts /\ In (APost g2 mid2 sid2 inp2) acts /\ sid1 <> sid2
    /\ count_ck (is_spawn_of mid1) l = 1%nat /\ count_ck (is_end_of sid1) l = 0%nat
    /\ count_ck (is_spawn_of mid2) l = 1%nat /\ count_ck (is_end_of sid2) l = 0%nat.
Proof. exact end_lost_when_snapshot_gates_refuted. Qed.
Print Assumptions c07_run_ended_gated_by_snapshot_refuted.

(* S6: freshness of the session id cannot be dropped either — two run_session tasks on ONE session id
   (what POST /sessions/{id}/input twice did before the repair) write two start frames at seq 0 *)
Theorem c07_double_input_unfixed_refuted :
  exists g sid inp1 inp2 l,
    Interleave [run_session g sid None all_ok inp1; run_session g sid None all_ok inp2] l
    /\ ~ SessionShape (sess_stream sid l).
Proof. exact double_input_refuted. Qed.
Print Assumptions c07_double_input_unfixed_refuted.

(* S6 under CONCURRENT inputs.  Any number of callers hold one SessionHandle and call spawn_session with their
   inputs `inps`; `sched` = the order in which they take their steps (any list of caller numbers; at least one
   caller takes a step).  `run_guard gk n sched` plays the started-guard of kind `gk`; the session's log is any
   interleaving of the run_session tasks of the ACCEPTED inputs.  When the guard is one atomic read-modify-write
   the session stream has the shape of exactly one run — whatever the number of callers and the schedule. *)
Theorem c07_double_input : forall (gk : guard_kind) (g : cfg) (sid : N) (inps : list input) (a : nat) (sched : list nat) (l : list ev),
  guard_atomic gk = true -> (a < length inps)%nat ->
  Interleave (map (run_session g sid None all_ok)
                  (accepted_inputs (snd (run_guard gk (length inps) (a :: sched))) inps)) l ->
  SessionShape (sess_stream sid l).
Proof. exact double_input_guarded. Qed.
Print Assumptions c07_double_input.

(* … instantiated at the guard kind the extractor reads from runner.rs on every run (obligation gen_guard_atomic) *)
Theorem c07_double_input_as_built : forall (g : cfg) (sid : N) (inps : list input) (a : nat) (sched : list nat) (l : list ev),
  (a < length inps)%nat ->
  Interleave (map (run_session g sid None all_ok)
                  (accepted_inputs (snd (run_guard gen_guard (length inps) (a :: sched))) inps)) l ->
  SessionShape (sess_stream sid l).
Proof. exact (fun g sid inps a sched l => double_input_guarded gen_guard g sid inps a sched l gen_guard_atomic). Qed.
Print Assumptions c07_double_input_as_built.

(* exactly one of the concurrent inputs is accepted (the count, not only the shape) *)
Theorem c07_one_input_accepted : forall (gk : guard_kind) (n a : nat) (sched : list nat),
  guard_atomic gk = true -> (a < n)%nat ->
  nacc (snd (run_guard gk n (a :: sched))) = 1%nat.
Proof. exact guard_one_accepted. Qed.
Print Assumptions c07_one_input_accepted.

(* a check-then-set guard (`load` … spawn … `store(true)`) is NOT enough: two callers, schedule
   load, load, spawn+store, spawn+store — both inputs are accepted, two runs write one session stream *)
Theorem c07_double_input_check_then_set_refuted :
  exists g sid (inps : list input) sched l,
    Forall (fun a => (a < length inps)%nat) sched /\ sched <> []
    /\ Interleave (map (run_session g sid None all_ok)
                       (accepted_inputs (snd (run_guard GCheckThenSet (length inps) sched)) inps)) l
    /\ ~ SessionShape (sess_stream sid l).
Proof. exact double_input_check_then_set_refuted. Qed.
Print Assumptions c07_double_input_check_then_set_refuted.

(* the schedule the harness forces through the hook point session.spawn.guarded (every caller up to the point,
   then all released): one accepted input for an atomic guard and any number n >= 1 of callers *)
Theorem c07_stepped_race_accepts_one : forall n : N, 0 < n -> race_accepted GAtomicRmw n = 1.
Proof. exact race_accepted_atomic. Qed.
Print Assumptions c07_stepped_race_accepts_one.

(* the cut of a text is a total function that yields a prefix made of whole characters' bytes *)
Theorem c07_cut_is_prefix : forall (n : N) (l : list N), exists rest, l = cut_floor n l ++ rest.
Proof. exact cut_floor_prefix. Qed.
Print Assumptions c07_cut_is_prefix.

(* … and for every text (any code points, any repetition) and every n the cut is a well-formed UTF-8 text of at
   most n bytes: the offset is never inside a character.  (`&body[..n]`, a byte slice, is partial: it panics there,
   and a panicking run task never reaches the single exit — no end frame, no snapshot, no run_ended.) *)
Theorem c07_cut_whole_characters : forall (text : list (N * N)) (n : N),
  WfU8 (cut_floor n (seg_bytes text)) /\ nlen (cut_floor n (seg_bytes text)) <= n.
Proof. exact cut_of_text_wf. Qed.
Print Assumptions c07_cut_whole_characters.

(* non-vacuity: four activities (a provider run with a tool round, a tool-envelope run that times out, an
   unlinked run whose provider stream breaks, a job), really interleaved; the hypotheses hold and the run's
   thread frames are the full sequence *)
Example c07_hypotheses_satisfiable :
  WfActs demo_acts /\ Interleave (map (act_events all_ok) demo_acts) demo_log.
Proof. exact (conj demo_wf demo_interleave). Qed.

Example c07_demo_nontrivial :
  conts (filter (of_run 100) demo_log)
  = [CRunSpawned 100 200; CSelection 100 200; CCompiled 100; CSideEffects 100; CCursor 100; CRunEnded 100 200 0]
  /\ map snd (sess_stream 101 demo_log) = [SStarted; SToolStarted; SToolFailed; SOutput; SEnded 0]
  /\ map snd (sess_stream 102 demo_log)
     = [SStarted; SReqStarted; SHeaders; SFirstByte; SProvider; SOutput; SProvider; SEnded 1]
  /\ demo_log <> concat (map (act_events all_ok) demo_acts)
  /\ count_ck (is_job_end_of 300) demo_log = 1%nat.
Proof. exact demo_facts. Qed.

(* the stubborn provider (64 identical answers, each one refused call) against the code's accounting: the run makes 32
   requests and ends max_tool_calls_exceeded, run_ended last *)
Example c07_stubborn_provider_as_built :
  nreq stubborn_run = 32%nat
  /\ last stubborn_run (EC (CMessage 0)) = EC (CRunEnded 1 2 R_MAX_TOOL_CALLS)
  /\ forallb is_refused_answer (repeat refused_answer 64) = true.
Proof. exact stubborn_run_ends. Qed.

(* failing appends: a full run (selection, compiled, side effects, cursor, run_ended) whose compiled / cursor / run_ended
   appends fail leaves selection_decided and the side effects, in that order *)
Example c07_failing_appends_demo :
  conts (run_session g_prov 100 (Some 200) aok_demo
           (IPrompt true [ROk [false] true [{| c_allowed := true; c_lock := true; c_tool := {| t_auto := 1; t_res := TDone 0 0 |} |}]; ROk [true] true []]))
  = [CSelection 100 200; CSideEffects 100].
Proof. exact faulted_demo. Qed.

(* the store of the refutation under the gate the code has: the tool run (snapshot directory replaced by a file) and the
   next prompt run are both closed, each right after its own frames *)
Example c07_failing_snapshot_demo :
  Interleave (map (act_events_x EXIT_GATE swf_snapshot_dir_damaged all_ok) gated_acts) ungated_log
  /\ conts ungated_log = [CMessage 7; CRunSpawned 1 7; CSideEffects 1; CRunEnded 1 7 R_COMPLETED; CMessage 8; CRunSpawned 2 8; CRunEnded 2 8 R_COMPLETED].
Proof. exact ungated_facts. Qed.

(* failing side writes BEFORE the exit: with the artifact and checkpoint directories damaged a linked provider run ends
   context_compile_failed and a `write` envelope logs checkpoint_failed before the tool - both are closed, with those reasons *)
Example c07_failing_workspace_writes_demo :
  map snd (sess_stream 1 ws_damaged_log) = [SStarted; SEnded R_COMPILE_FAILED]
  /\ map snd (sess_stream 2 ws_damaged_log) = [SStarted; SCkFailed; SToolStarted; SToolStdout; SToolEnded; SOutput; SEnded R_COMPLETED]
  /\ conts ws_damaged_log = [CMessage 7; CRunSpawned 1 7; CRunEnded 1 7 R_COMPILE_FAILED; CMessage 8; CRunSpawned 2 8; CSideEffects 2; CRunEnded 2 8 R_COMPLETED].
Proof. exact ws_damaged_facts. Qed.
