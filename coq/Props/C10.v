(* C10 - Branch and handoff record correct lineage and never touch the parent.
   Statements only; proofs are in Proofs/LineageProofs.v.  Every theorem is closed by `exact`.
   Model: Model/Lineage.v (resolve_cut = the cut arithmetic of ContinuityStore::branch/handoff,
   branch_view / handoff_gen = the operations on the truth log, sequentially; `view` = what
   replay_events(parent) returned; handoff_gen chk bf: chk = a caller-given summary_artifact_id is
   tested for existence, bf = the bundle is written before the child is created; (false,false) = the
   code as found (handoff_unfixed), (true,true) = the repaired code (handoff_view)). *)
From RipV Require Import Base.Prelude Base.Fs Model.Frames Model.Log Proofs.LogProofs Model.Lineage Proofs.LineageProofs
  Model.ArtGuard Proofs.ArtGuardProofs Gen.HandoffGuard.

(* ---- no frame is added to the source thread - or to any stream other than the fresh child's -
   by a successful OR failing branch / handoff, for every log, view, selector, summary class *)
Theorem c10_parent_untouched : forall (view : list frame) (l : log) (arts : astore) (parent : N)
    (sel : selector) (fr : fresh) (t : N),
  t <> f_child fr ->
  cstream t (fst (branch_view view l parent sel fr)) = cstream t l
  /\ forall chk bf md art bok,
     cstream t (fst (fst (handoff_gen chk bf view l arts parent sel md art bok fr))) = cstream t l.
Proof. exact parent_untouched. Qed.
Print Assumptions c10_parent_untouched.

Theorem c10_other_streams_untouched_branch : forall view l parent sel fr k s,
  (k, s) <> (KContinuity, f_child fr) ->
  stream k s (fst (branch_view view l parent sel fr)) = stream k s l.
Proof. exact branch_other_streams_untouched. Qed.
Print Assumptions c10_other_streams_untouched_branch.

Theorem c10_other_streams_untouched_handoff : forall chk bf view l arts parent sel md art bok fr k s,
  (k, s) <> (KContinuity, f_child fr) ->
  stream k s (fst (fst (handoff_gen chk bf view l arts parent sel md art bok fr))) = stream k s l.
Proof. exact handoff_other_streams_untouched. Qed.
Print Assumptions c10_other_streams_untouched_handoff.

Theorem c10_log_prefix : forall view l arts parent sel fr,
  (exists ext, fst (branch_view view l parent sel fr) = l ++ ext)
  /\ forall chk bf md art bok, exists ext, fst (fst (handoff_gen chk bf view l arts parent sel md art bok fr)) = l ++ ext.
Proof. exact log_prefix. Qed.
Print Assumptions c10_log_prefix.

(* ---- the new thread begins [creation; lineage] with seqs 0,1; the response equals the record *)
Theorem c10_child_prefix_branch : forall view l parent sel fr l' c cut om,
  cstream (f_child fr) l = [] ->
  branch_view view l parent sel fr = (l', Ok (c, cut, om)) ->
  c = f_child fr /\ resolve_cut sel view = Ok (cut, om)
  /\ cstream c l' = [created_frame c (f_e0 fr); branched_frame c (f_e1 fr) parent cut om].
Proof. exact branch_child_prefix. Qed.
Print Assumptions c10_child_prefix_branch.

Theorem c10_child_prefix_handoff : forall chk bf view l arts parent sel md art bok fr l' arts' c cut om,
  cstream (f_child fr) l = [] ->
  handoff_gen chk bf view l arts parent sel md art bok fr = (l', arts', Ok (c, cut, om)) ->
  c = f_child fr /\ resolve_cut sel view = Ok (cut, om)
  /\ exists a, cstream c l' = [created_frame c (f_e0 fr); handoff_frame c (f_e1 fr) parent cut om (Some a) md]
     /\ ((art = Some a /\ arts' = arts /\ (chk = true -> art_has a arts' = true))
         \/ (art = None /\ md = true /\ bok = true /\ a = f_art fr
             /\ arts' = (a, [parent; cut; opt om]) :: arts)).
Proof. exact handoff_child_prefix. Qed.
Print Assumptions c10_child_prefix_handoff.

Theorem c10_valid_preserved_branch : forall view l parent sel fr,
  Valid l -> cstream (f_child fr) l = [] -> Valid (fst (branch_view view l parent sel fr)).
Proof. exact branch_valid_preserved. Qed.
Print Assumptions c10_valid_preserved_branch.

Theorem c10_valid_preserved_handoff : forall chk bf view l arts parent sel md art bok fr,
  Valid l -> cstream (f_child fr) l = [] ->
  Valid (fst (fst (handoff_gen chk bf view l arts parent sel md art bok fr))).
Proof. exact handoff_valid_preserved. Qed.
Print Assumptions c10_valid_preserved_handoff.

(* ---- the recorded cut lies within the source thread as it was ---- *)
Theorem c10_cut_in_range : forall sel fs cut om,
  SeqsBelowHead fs -> resolve_cut sel fs = Ok (cut, om) -> cut <= head_seq fs.
Proof. exact cut_in_range. Qed.
Print Assumptions c10_cut_in_range.

(* the hypothesis holds for every stream of a valid log *)
Theorem c10_valid_stream_below_head : forall l k s, Valid l -> SeqsBelowHead (stream k s l).
Proof. exact valid_stream_below_head. Qed.
Print Assumptions c10_valid_stream_below_head.

Theorem c10_cut_is_a_frame_seq : forall sel fs cut om,
  (forall n, sel <> SelSeq n) -> resolve_cut sel fs = Ok (cut, om) -> exists f, In f fs /\ seq f = cut.
Proof. exact cut_is_a_frame_seq. Qed.
Print Assumptions c10_cut_is_a_frame_seq.

(* ---- none / from_seq: the recorded message is the last message at or before the cut ---- *)
Theorem c10_cut_names_last_message : forall sel fs cut om,
  (forall m, sel <> SelMsg m) -> SeqsBelowHead fs ->
  resolve_cut sel fs = Ok (cut, om) -> LastMsgAtOrBefore cut fs om.
Proof. exact cut_names_last_message. Qed.
Print Assumptions c10_cut_names_last_message.

Theorem c10_last_message_is_max : forall cut fs m,
  Consecutive fs -> LastMsgAtOrBefore cut fs (Some m) ->
  exists f, In f fs /\ is_msg f = true /\ fid f = m /\ seq f <= cut
    /\ forall g, In g fs -> is_msg g = true -> seq g <= cut -> seq g <= seq f.
Proof. exact last_message_is_max. Qed.
Print Assumptions c10_last_message_is_max.

(* ---- from_message_id: the requested message and the end of the run that answered it ---- *)
(* for EVERY stream: the largest seq among the last message frame with that id and the run frames
   naming it that stand after it *)
Theorem c10_from_message_cut : forall m fs cut om,
  resolve_cut (SelMsg m) fs = Ok (cut, om) ->
  om = Some m /\ exists pre f post,
    fs = pre ++ f :: post /\ is_msg f = true /\ fid f = m
    /\ (forall g, In g post -> is_msg_id m g = false)
    /\ cut = maxl (seq f) (map seq (filter (is_run_of m) post)).
Proof. exact from_message_cut. Qed.
Print Assumptions c10_from_message_cut.

(* for streams numbered 0,1,2,.. (every stream of a valid log): the largest seq among the message and
   ALL run_spawned / run_ended frames naming it *)
Theorem c10_from_message_cut_all_related : forall m fs cut om,
  Consecutive fs -> resolve_cut (SelMsg m) fs = Ok (cut, om) ->
  exists f, In f fs /\ is_msg f = true /\ fid f = m
    /\ cut = maxl (seq f) (map seq (filter (is_run_of m) fs)).
Proof. exact from_message_cut_all_related. Qed.
Print Assumptions c10_from_message_cut_all_related.

(* without that hypothesis the statement above is false of the code (a run frame that stands before
   its message with a larger seq is forgotten): only histories ripd cannot write *)
Theorem c10_from_message_ignores_earlier_runs_unsorted_refuted :
  exists fs m cut om f, resolve_cut (SelMsg m) fs = Ok (cut, om) /\ In f fs /\ is_msg f = true /\ fid f = m
    /\ cut <> maxl (seq f) (map seq (filter (is_run_of m) fs)).
Proof. exact from_message_ignores_earlier_runs_unsorted. Qed.
Print Assumptions c10_from_message_ignores_earlier_runs_unsorted_refuted.

(* ---- selector errors ---- *)
Theorem c10_selector_errors : forall (fs : list frame),
  (forall m n, resolve_cut (SelBoth m n) fs = Err EBoth)
  /\ (forall sel, resolve_cut sel [] = Err (match sel with SelBoth _ _ => EBoth | _ => ENoParent end))
  /\ (forall n, fs <> [] -> head_seq fs < n -> resolve_cut (SelSeq n) fs = Err EOutOfRange)
  /\ (forall m, fs <> [] -> (forall f, In f fs -> is_msg f = true -> fid f <> m) ->
        resolve_cut (SelMsg m) fs = Err ENotFound).
Proof. exact selector_errors. Qed.
Print Assumptions c10_selector_errors.

Theorem c10_selector_ok_iff : forall sel fs,
  (exists r, resolve_cut sel fs = Ok r) <->
  fs <> [] /\ match sel with
              | SelNone => True
              | SelSeq n => n <= head_seq fs
              | SelMsg m => exists f, In f fs /\ is_msg f = true /\ fid f = m
              | SelBoth _ _ => False
              end.
Proof. exact resolve_ok_iff. Qed.
Print Assumptions c10_selector_ok_iff.

(* a failing call writes nothing ... *)
Theorem c10_branch_error_writes_nothing : forall view l parent sel fr l' e,
  branch_view view l parent sel fr = (l', Err e) -> l' = l /\ resolve_cut sel view = Err e.
Proof. exact branch_err_unchanged. Qed.
Print Assumptions c10_branch_error_writes_nothing.

(* the repaired handoff as well, whatever fails (selector, summary, unknown artifact, artifact store) *)
Theorem c10_handoff_error_writes_nothing : forall chk view l arts parent sel md art bok fr l' arts' e,
  handoff_gen chk true view l arts parent sel md art bok fr = (l', arts', Err e) -> l' = l /\ arts' = arts.
Proof. exact handoff_fixed_err_unchanged. Qed.
Print Assumptions c10_handoff_error_writes_nothing.

(* all variants: the only failing call that can write is the as-found one whose bundle write fails after the
   child was created (the child then has a creation frame and no lineage record) *)
Theorem c10_handoff_error_writes_nothing_unless_bundle_fails_late :
  forall chk bf view l arts parent sel md art bok fr l' arts' e,
  handoff_gen chk bf view l arts parent sel md art bok fr = (l', arts', Err e) ->
  arts' = arts /\ (e <> EBundle \/ bf = true -> l' = l)
  /\ (e = EBundle -> md = true /\ art = None /\ bok = false
                     /\ l' = if bf then l else l ++ [created_frame (f_child fr) (f_e0 fr)]).
Proof. exact handoff_err_unchanged. Qed.
Print Assumptions c10_handoff_error_writes_nothing_unless_bundle_fails_late.

Theorem c10_handoff_orphan_child_unfixed_refuted :
  exists l arts parent sel md art bok fr l' arts' e,
    handoff_op_unfixed l arts parent sel md art bok fr = (l', arts', Err e) /\ l' <> l
    /\ cstream (f_child fr) l = [] /\ cstream (f_child fr) l' = [created_frame (f_child fr) (f_e0 fr)].
Proof. exact handoff_orphan_child_unfixed_refuted. Qed.
Print Assumptions c10_handoff_orphan_child_unfixed_refuted.

(* ---- a handoff always carries a resolvable summary ---- *)
Theorem c10_handoff_without_summary_rejected : forall chk bf view l arts parent sel bok fr,
  handoff_gen chk bf view l arts parent sel false None bok fr = (l, arts, Err ENoSummary).
Proof. exact handoff_no_summary. Qed.
Print Assumptions c10_handoff_without_summary_rejected.

(* repaired code: the recorded summary_artifact_id is in the artifact store when the lineage frame is written,
   for every accepted summary class; when ripd wrote it, it names the recorded cut *)
Theorem c10_handoff_has_summary : forall bf view l arts parent sel md art bok fr l' arts' c cut om,
  handoff_gen true bf view l arts parent sel md art bok fr = (l', arts', Ok (c, cut, om)) ->
  exists a, l' = l ++ [created_frame c (f_e0 fr); handoff_frame c (f_e1 fr) parent cut om (Some a) md]
    /\ art_has a arts' = true /\ (art = None -> md = true /\ art_get a arts' = Some [parent; cut; opt om]).
Proof. exact handoff_summary_resolvable. Qed.
Print Assumptions c10_handoff_has_summary.

Theorem c10_handoff_bundle_matches : forall chk bf view l arts parent sel bok fr l' arts' c cut om,
  handoff_gen chk bf view l arts parent sel true None bok fr = (l', arts', Ok (c, cut, om)) ->
  art_get (f_art fr) arts' = Some [parent; cut; opt om]
  /\ l' = l ++ [created_frame c (f_e0 fr); handoff_frame c (f_e1 fr) parent cut om (Some (f_art fr)) true].
Proof. exact handoff_bundle_matches. Qed.
Print Assumptions c10_handoff_bundle_matches.

(* the code as found recorded a caller-given artifact id without looking it up *)
Theorem c10_handoff_unchecked_artifact_unfixed_refuted :
  exists l arts parent sel a fr l' arts' r,
    handoff_op_unfixed l arts parent sel false (Some a) true fr = (l', arts', Ok r)
    /\ art_has a arts' = false
    /\ exists c e cut om, In (handoff_frame c e parent cut om (Some a) false) l'.
Proof. exact handoff_unchecked_artifact_refuted. Qed.
Print Assumptions c10_handoff_unchecked_artifact_unfixed_refuted.

(* ---- a CALLER-SUPPLIED summary_artifact_id, every shape of id x every state of the artifact store ----
   Model/ArtGuard.v: the guard artifact_exists as a predicate over a file-system model (a path is a regular file / a
   directory / absent); `resolve f base id` = stat(<blobs>.join(id)): PathBuf::join + the kernel's path walk (empty
   and "." segments, "..", a segment after a regular file, a missing name, NAME_MAX, PATH_MAX, NUL);
   guard_sound g = g is `is_file` with or without the non-empty test.  For EVERY id (empty, ".", "..", path-like,
   absolute, a directory name, a blob name, with NUL, of any length) and EVERY file system: *)
Theorem c10_artifact_guard_resolves : forall g f base id,
  guard_sound g = true -> guard_eval g f base id = true ->
  exists p c, resolve f base id = WAt p (File c) /\ lookup f p = Some (File c) /\ read_back f base id = Some c
              /\ is_dir_at f base id = false.
Proof. exact guard_sound_resolves. Qed.
Print Assumptions c10_artifact_guard_resolves.

Theorem c10_artifact_guard_rejects_directories_and_absent : forall g f base id,
  (guard_sound g = true -> is_dir_at f base id = true -> guard_eval g f base id = false)
  /\ (exists_at f base id = false -> guard_eval g f base id = false).
Proof. exact (fun g f base id => conj (guard_sound_rejects_dir g f base id) (guard_rejects_absent g f base id)). Qed.
Print Assumptions c10_artifact_guard_rejects_directories_and_absent.

(* the non-empty test of the guard as built is implied by is_file ("" joins to "<blobs>/", and a walk whose last
   segment is empty never stands at a regular file): the two sound shapes are ONE predicate *)
Theorem c10_artifact_guard_nonempty_test_redundant : forall f base id,
  guard_eval GNonEmptyIsFile f base id = guard_eval GIsFile f base id.
Proof. exact nonempty_test_redundant. Qed.
Print Assumptions c10_artifact_guard_nonempty_test_redundant.

(* the handoff over the file system (handoff_fs g = Lineage's repaired handoff whose artifact store holds the
   caller's id exactly when guard g lets it pass): an accepted handoff appends [created; lineage], the lineage frame
   records the caller's id, and the id names a regular file of the file system whose bytes read back *)
Theorem c10_handoff_caller_artifact_resolves : forall g f base view l parent sel md a id fr l' arts' c cut om,
  guard_sound g = true ->
  handoff_fs g f base view l parent sel md a id fr = (l', arts', Ok (c, cut, om)) ->
  l' = l ++ [created_frame c (f_e0 fr); handoff_frame c (f_e1 fr) parent cut om (Some a) md]
  /\ exists p content, resolve f base id = WAt p (File content) /\ lookup f p = Some (File content)
                       /\ read_back f base id = Some content.
Proof. exact handoff_fs_summary_resolves. Qed.
Print Assumptions c10_handoff_caller_artifact_resolves.

(* ... at the guard read from the source on this run (T1: tools/gen/handoff_guard.py -> Gen/HandoffGuard.v) *)
Theorem c10_handoff_caller_artifact_resolves_as_built : forall f base view l parent sel md a id fr l' arts' c cut om,
  handoff_fs gen_art_guard f base view l parent sel md a id fr = (l', arts', Ok (c, cut, om)) ->
  l' = l ++ [created_frame c (f_e0 fr); handoff_frame c (f_e1 fr) parent cut om (Some a) md]
  /\ exists p content, resolve f base id = WAt p (File content) /\ lookup f p = Some (File content)
                       /\ read_back f base id = Some content.
Proof. exact (fun f base view l parent sel md a id fr l' arts' c cut om => handoff_fs_summary_resolves gen_art_guard f base view l parent sel md a id fr l' arts' c cut om eq_refl). Qed.
Print Assumptions c10_handoff_caller_artifact_resolves_as_built.

(* a refused id leaves no child thread, no frame, nothing stored - whatever the guard *)
Theorem c10_handoff_refused_artifact_writes_nothing : forall g f base view l parent sel md a id fr,
  guard_eval g f base id = false ->
  handoff_fs g f base view l parent sel md a id fr = (l, [], Err ENoArtifact).
Proof. exact handoff_fs_refused. Qed.
Print Assumptions c10_handoff_refused_artifact_writes_nothing.

(* `exists()` in place of `is_file()` (seeded change C10-10): an id that resolves to a DIRECTORY - "" joins to the
   blobs directory itself - is accepted, the lineage frame records it, nothing can be read back *)
Theorem c10_handoff_exists_guard_refuted :
  exists g f base view l parent sel a id fr l' arts' r,
    handoff_fs g f base view l parent sel false a id fr = (l', arts', Ok r)
    /\ read_back f base id = None
    /\ exists c e cut om, In (handoff_frame c e parent cut om (Some a) false) l'.
Proof. exact handoff_exists_guard_refuted. Qed.
Print Assumptions c10_handoff_exists_guard_refuted.

(* the guard AS FOUND (`!id.is_empty() && is_file`) did not confine the id to the blobs directory: "../x" passed when
   <artifacts>/x is a regular file (finding S30; replayed on the real store; repaired in /repo) *)
Theorem c10_artifact_guard_confined_to_store_refuted :
  exists f base id p c,
    guard_eval GNonEmptyIsFile f base id = true /\ resolve f base id = WAt p (File c) /\ under_base base p = false.
Proof. exact as_built_guard_escapes_store. Qed.
Print Assumptions c10_artifact_guard_confined_to_store_refuted.

(* ... while an id that is ONE plain name (not empty, no separator, not "." / ".." - every id rip draws itself) resolves
   to the entry of that name IN the blobs directory: under the guard `plain id && is_file` (the repair proposed for
   S30) an accepted id is a blob of the store, for every id and file system *)
Theorem c10_plain_artifact_id_confined_to_store : forall f base id,
  guard_plain f base id = true ->
  exists q c, resolve f base [46] = WAt q Dir /\ resolve f base id = WAt (q ++ [id]) (File c)
              /\ read_back f base id = Some c.
Proof. exact guard_plain_confined. Qed.
Print Assumptions c10_plain_artifact_id_confined_to_store.

(* since the repair of S30 (artifact_exists: the id is one normal path component && is_file): the handoff over the
   file system, at the guard read from the source on this run, records only ids that are the entry of that name in
   the blobs directory - an accepted handoff's summary is a blob OF THE STORE whose bytes read back *)
Theorem c10_handoff_caller_artifact_in_store : forall g f base view l parent sel md a id fr l' arts' c cut om,
  guard_confines g = true ->
  handoff_fs g f base view l parent sel md a id fr = (l', arts', Ok (c, cut, om)) ->
  l' = l ++ [created_frame c (f_e0 fr); handoff_frame c (f_e1 fr) parent cut om (Some a) md]
  /\ exists q content, resolve f base [46] = WAt q Dir /\ resolve f base id = WAt (q ++ [id]) (File content)
                        /\ read_back f base id = Some content.
Proof. exact handoff_fs_summary_in_store. Qed.
Print Assumptions c10_handoff_caller_artifact_in_store.

Theorem c10_handoff_caller_artifact_in_store_as_built : forall f base view l parent sel md a id fr l' arts' c cut om,
  handoff_fs gen_art_guard f base view l parent sel md a id fr = (l', arts', Ok (c, cut, om)) ->
  l' = l ++ [created_frame c (f_e0 fr); handoff_frame c (f_e1 fr) parent cut om (Some a) md]
  /\ exists q content, resolve f base [46] = WAt q Dir /\ resolve f base id = WAt (q ++ [id]) (File content)
                        /\ read_back f base id = Some content.
Proof. exact (fun f base view l parent sel md a id fr l' arts' c cut om => handoff_fs_summary_in_store gen_art_guard f base view l parent sel md a id fr l' arts' c cut om eq_refl). Qed.
Print Assumptions c10_handoff_caller_artifact_in_store_as_built.

Example c10_demo_repaired_guard :
  guard_eval GPlainIsFile w_fs w_base [107] = true
  /\ guard_eval GPlainIsFile w_fs w_base [46; 47; 107] = false
  /\ guard_eval GPlainIsFile w_fs w_base [47; 98; 47; 107] = false
  /\ guard_eval GPlainIsFile w_fs w_base [46; 46; 47; 120] = false
  /\ guard_eval GPlainIsFile w_fs w_base [] = false /\ guard_eval GPlainIsFile w_fs w_base [46] = false
  /\ guard_eval GPlainIsFile w_fs w_base [46; 46] = false /\ guard_eval GPlainIsFile w_fs w_base [115] = false
  /\ guard_eval GPlainIsFile w_fs w_base [107; 47] = false
  /\ w_handoff GPlainIsFile [46; 46; 47; 120] = (demo_log, [], Err ENoArtifact).
Proof. exact repaired_guard_examples. Qed.

Example c10_demo_plain_guard :
  guard_plain w_fs w_base [46; 46; 47; 120] = false /\ guard_plain w_fs w_base [107] = true
  /\ guard_plain w_fs w_base [] = false /\ guard_plain w_fs w_base [46] = false /\ guard_plain w_fs w_base [115] = false.
Proof. exact guard_plain_examples. Qed.

Example c10_demo_artifact_guard :
  guard_sound GNonEmptyIsFile = true
  /\ w_handoff GNonEmptyIsFile [107]
     = (demo_log ++ [created_frame 1 20; handoff_frame 1 21 0 6 (Some 15) (Some 40) false], [(40, [])], Ok (1, 6, Some 15))
  /\ w_handoff GNonEmptyIsFile [] = (demo_log, [], Err ENoArtifact).
Proof. exact art_hypotheses_satisfiable. Qed.

(* ---- non-vacuity ---- *)
(* the HTTP layer (server.rs): the response is 201 exactly for the calls the store serves; every rejected call
   answers 400 (both selectors, from_seq out of range, no summary), 404 (no such thread / message / artifact)
   or 500 (the bundle could not be written) - and, by c10_branch_error_writes_nothing /
   c10_handoff_error_writes_nothing, has written nothing *)
Theorem c10_http_created_iff_served : forall r : result resp,
  http_status r = 201 <-> exists x, r = Ok x.
Proof. exact http_status_created_iff. Qed.
Print Assumptions c10_http_created_iff_served.

Theorem c10_http_status_classes : forall r : result resp,
  http_status r = 201 \/ http_status r = 400 \/ http_status r = 404 \/ http_status r = 500.
Proof. exact http_status_classes. Qed.
Print Assumptions c10_http_status_classes.

Example c10_demo_hypotheses :
  Valid demo_log /\ Consecutive demo_parent /\ cstream (f_child demo_fresh) demo_log = []
  /\ cstream 0 demo_log = demo_parent.
Proof. exact demo_hypotheses. Qed.

Example c10_demo_cuts :
  resolve_cut SelNone demo_parent = Ok (6, Some 15)
  /\ resolve_cut (SelSeq 4) demo_parent = Ok (4, Some 13)
  /\ resolve_cut (SelSeq 0) demo_parent = Ok (0, None)
  /\ resolve_cut (SelSeq 7) demo_parent = Err EOutOfRange
  /\ resolve_cut (SelMsg 11) demo_parent = Ok (4, Some 11)
  /\ resolve_cut (SelMsg 13) demo_parent = Ok (3, Some 13)
  /\ resolve_cut (SelMsg 12) demo_parent = Err ENotFound
  /\ resolve_cut (SelMsg 77) demo_parent = Err ENotFound
  /\ resolve_cut (SelBoth 11 1) demo_parent = Err EBoth.
Proof. exact demo_cuts. Qed.

Example c10_demo_branch :
  demo_branch_result
  = (demo_log ++ [created_frame 1 20; branched_frame 1 21 0 4 (Some 11)], Ok (1, 4, Some 11)).
Proof. exact demo_branch. Qed.

Example c10_demo_handoff :
  demo_handoff_md
  = (demo_log ++ [created_frame 1 20; handoff_frame 1 21 0 6 (Some 15) (Some 30) true],
     [(30, [0; 6; 16])], Ok (1, 6, Some 15)).
Proof. exact demo_handoff. Qed.

Example c10_demo_repaired :
  dangling_fixed = (demo_log, [], Err ENoArtifact) /\ orphan_fixed = (demo_log, [], Err EBundle).
Proof. exact fixed_eq. Qed.
