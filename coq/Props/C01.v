(* C01 - per-stream total order: every stream (continuity, session, task) carries seq 0,1,2,.. with no
   gap, no duplicate, in file order, under ANY schedule of ANY number of concurrent writers, and
   across an authority restart at any point.  Statements only; proofs are in
   Proofs/ContOrderProofs.v (invariant Model/ContInv.v over the transition system Model/ContStore.v). *)
From RipV Require Import Base.Prelude Model.Frames Model.Log Model.ContStore Model.ContInv Model.SessGuard
  Model.SeqCount Gen.AppendOps Proofs.LogProofs Proofs.ContStoreProofs Proofs.ContOrderProofs Proofs.SessGuardProofs
  Proofs.SeqCountProofs Model.WireRun Gen.RequestHead Proofs.RunSitesProofs Proofs.SeqHeadProofs
  Model.C02Decide Model.SeqCreate Proofs.C02DecideProofs Proofs.SeqCreateProofs.

(* "0,1,2,.. no gap, no duplicate, in file order for every stream" and "a full validated replay
   succeeds" are the same statement: rip-log's validator decides Valid *)
Theorem c01_validator_decides_order : forall l : log, validate l = true <-> Valid l.
Proof. exact validate_spec. Qed.
Print Assumptions c01_validator_decides_order.

(* one micro-step of any actor preserves the invariant *)
Theorem c01_step_inv : forall (st : state) (a : N), Inv st -> Inv (step st a).
Proof. exact step_inv. Qed.
Print Assumptions c01_step_inv.

(* THE theorem: any number of actors running any well-formed programs (any mix of the locked append
   functions on shared and distinct threads, create / branch / handoff, posts to whatever thread is
   listed at that moment, replays, runs emitting on their own session streams, pumps sharing task
   counters), any schedule of any length, any store satisfying the store invariant *)
Theorem c01_valid_all_schedules :
  forall (ps : list (list mstep * N)) (sched : list N) (st : state),
  SInv st -> progs_wf ps -> sess_fresh st ps -> sess_distinct ps ->
  Valid (s_log (run sched (spawn ps st))).
Proof. exact valid_all_schedules. Qed.
Print Assumptions c01_valid_all_schedules.

Theorem c01_validated_replay_succeeds :
  forall (ps : list (list mstep * N)) (sched : list N) (st : state),
  SInv st -> progs_wf ps -> sess_fresh st ps -> sess_distinct ps ->
  validate (s_log (run sched (spawn ps st))) = true.
Proof. exact validate_all_schedules. Qed.
Print Assumptions c01_validated_replay_succeeds.

(* histories of any length: once all actors are outside their calls the store invariant holds
   again, so further sets of actors may be spawned, again and again; it holds of the empty store *)
Theorem c01_store_invariant_after_quiescence :
  forall (ps : list (list mstep * N)) (sched : list N) (st : state),
  SInv st -> progs_wf ps -> sess_fresh st ps -> sess_distinct ps ->
  AllIdle (run sched (spawn ps st)) -> SInv (run sched (spawn ps st)).
Proof. exact sinv_after_quiescence. Qed.
Print Assumptions c01_store_invariant_after_quiescence.

Theorem c01_empty_store : SInv empty_state.
Proof. exact empty_sinv. Qed.
Print Assumptions c01_empty_store.

(* histories that cross a restart: the authority dies at ANY point of ANY schedule (actors killed
   wherever they are - between the log append and the sidecar append, inside branch, ...), the
   sidecars are in whatever condition; whatever runs after the restart keeps every stream in order *)
Theorem c01_restart :
  forall (ps : list (list mstep * N)) (sched : list N) (ps' : list (list mstep * N)) (sched' : list N) (st : state),
  SInv st -> progs_wf ps -> sess_fresh st ps -> sess_distinct ps ->
  let crashed := run sched (spawn ps st) in
  progs_wf ps' -> sess_fresh (restart crashed) ps' -> sess_distinct ps' ->
  Valid (s_log (run sched' (spawn ps' (restart crashed)))).
Proof. exact valid_after_restart. Qed.
Print Assumptions c01_restart.

(* ... and for ANY store whose log validates and whose unused ids are unused, with ANY sidecar
   content (absent, torn, well-formed stale prefix, unrelated): no `Coherent` hypothesis is needed
   since the S3 repair (/repo 0b0d2b0) *)
Theorem c01_restart_any_sidecars :
  forall (ps : list (list mstep * N)) (sched : list N) (st : state),
  Restartable st -> progs_wf ps -> sess_fresh (restart st) ps -> sess_distinct ps ->
  Valid (s_log (run sched (spawn ps (restart st)))).
Proof. exact valid_restart_any_store. Qed.
Print Assumptions c01_restart_any_sidecars.

(* the call skeletons the implementation runs are well-formed programs *)
Theorem c01_call_skeletons_wf :
  (forall c t ar, is_cont t = true -> wf_prog (MTarget c :: locked_append t ar) = true)
  /\ (forall ar, wf_prog (create_prog ar) = true)
  /\ (forall t a1 a2, is_cont t = true -> wf_prog (lineage_prog t a1 a2) = true)
  /\ (forall ts, forallb is_sess ts = true -> wf_prog (session_prog ts) = true)
  /\ (forall t, is_task t = true -> wf_prog (task_emit t) = true)
  /\ (forall a b, wf_prog a = true -> wf_prog b = true -> wf_prog (a ++ b) = true).
Proof.
  exact (conj wf_locked_call (conj wf_create (conj wf_lineage (conj wf_session (conj wf_task_emit wf_prog_app))))).
Qed.
Print Assumptions c01_call_skeletons_wf.

(* the actors of every correspondence case satisfy the theorem's hypothesis *)
Theorem c01_case_actors_wf : forall (l : log) (acts : list (list cop)),
  forallb (forallb cop_ok) acts = true -> progs_wf (actors_of l acts).
Proof. exact actors_of_wf. Qed.
Print Assumptions c01_case_actors_wf.

(* ... and so do the actors of every mixed case (whole runs - unlinked, or linked to a thread and closing
   with append_run_ended - next to store writers): well-formed programs on pairwise distinct session streams *)
Theorem c01_mix_case_actors_ok : forall (l : log) (acts : list (list mop)),
  forallb (forallb (mop_ok cop_ok)) acts = true ->
  progs_wf (mix_actors l acts) /\ sess_distinct (mix_actors l acts).
Proof. exact mix_actors_ok. Qed.
Print Assumptions c01_mix_case_actors_ok.

(* the task counter: any number of concurrent emitters of any tasks - the stdout pump, the stderr
   pump and the control paths of one task share its counter - under any schedule; the span of the
   guard in TaskEmitter::emit (lock .. choose .. publish .. log append .. unlock) is re-extracted from
   the source on every run (Gen/AppendOps.v, gen_task_emit) *)
Theorem c01_task_counter : forall (es : list (etype * N)) (sched : list N) (st : state),
  SInv st -> Forall (fun e => is_task (fst e) = true) es ->
  Valid (s_log (run sched (spawn (task_actors es) st))).
Proof. exact task_counter_valid. Qed.
Print Assumptions c01_task_counter.

(* ... and a guard that ends before the log append does not suffice: two emitters of one task, the
   log reads seq 1 before seq 0 *)
Theorem c01_task_counter_narrow_span_refuted :
  validate (s_log (run w_task_narrow_sched (spawn w_task_narrow_actors empty_state))) = false
  /\ map seq (s_log (run w_task_narrow_sched (spawn w_task_narrow_actors empty_state))) = [1; 0].
Proof. exact w_task_narrow_invalid. Qed.
Print Assumptions c01_task_counter_narrow_span_refuted.

(* ---- the three ways the code violated the property (each replayed on the real code, see notes) ---- *)
(* S5 (repaired in /repo 3ef7dd4): branch / handoff as they were - child frames 0 and 1 written
   outside the seq mutex while the child is already listable - against one post to the newest
   listed thread: the child stream reads 0,1,1 *)
Theorem c01_child_race_unfixed_refuted :
  validate (s_log (run w_s5_sched (spawn w_s5_actors w_st0))) = false
  /\ map seq (cstream 3 (s_log (run w_s5_sched (spawn w_s5_actors w_st0)))) = [0; 1; 1].
Proof. exact (conj w_s5_unfixed_invalid w_s5_seqs). Qed.
Print Assumptions c01_child_race_unfixed_refuted.

(* S3 (repaired in /repo 0b0d2b0): load_next_seq_for as it was - numbering from the sidecar tail -
   on a well-formed stale prefix after a restart re-issues a seq; the repaired loader does not *)
Theorem c01_restart_stale_prefix_unfixed_refuted :
  validate (s_log (run_gen load_next_unfixed (repeat 0 8) (spawn w_s3_actors w_s3_st0))) = false
  /\ validate (s_log (run (repeat 0 8) (spawn w_s3_actors w_s3_st0))) = true.
Proof. exact (conj w_s3_unfixed_invalid (proj1 w_s3_fixed_valid)). Qed.
Print Assumptions c01_restart_stale_prefix_unfixed_refuted.

(* S6: the single-writer hypothesis on session streams is necessary: two runs emitting on one
   session id both number from 0 *)
Theorem c01_two_runs_one_session_refuted :
  progs_wf w_s6_actors /\ sess_fresh empty_state w_s6_actors
  /\ validate (s_log (run [0; 1] (spawn w_s6_actors empty_state))) = false.
Proof. exact (conj (proj1 w_s6_hyps) (conj (proj2 w_s6_hyps) w_s6_invalid)). Qed.
Print Assumptions c01_two_runs_one_session_refuted.

(* ---- the single writer of a session stream: concurrent inputs to ONE session ----
   A session stream is numbered by a run-local counter, so its order rests on one run per session id; that
   is what the started-guard of SessionEngine::spawn_session provides.  Any number n of clients post input
   to session `sid` at the same instant, their guard steps interleaved by any schedule `gsched`; every
   accepted input spawns a run (`session_prog ts` on `sid`, numbering from 0); next to them any other
   well-formed actors; any schedule of everything on any store meeting the store invariant: every stream
   stays 0,1,2,.. - for every guard that is ONE atomic read-modify-write ... *)
Theorem c01_session_single_writer :
  forall (gk : sguard) (n : nat) (gsched : list nat) (sid : N) (ts : list etype)
         (others : list (list mstep * N)) (sched : list N) (st : state),
  sg_atomic gk = true ->
  SInv st -> forallb is_sess ts = true -> progs_wf others ->
  sess_fresh st ((session_prog ts, sid) :: others) -> sess_distinct ((session_prog ts, sid) :: others) ->
  Valid (s_log (run sched (spawn (session_actors gk n gsched sid ts ++ others) st))).
Proof. exact session_single_writer. Qed.
Print Assumptions c01_session_single_writer.

(* ... in particular for the guard read from crates/ripd/src/runner.rs on this run (Gen/AppendOps.v:
   gen_sess_guard, obligation gen_sess_guard_atomic) *)
Theorem c01_session_single_writer_as_built :
  forall (n : nat) (gsched : list nat) (sid : N) (ts : list etype)
         (others : list (list mstep * N)) (sched : list N) (st : state),
  SInv st -> forallb is_sess ts = true -> progs_wf others ->
  sess_fresh st ((session_prog ts, sid) :: others) -> sess_distinct ((session_prog ts, sid) :: others) ->
  validate (s_log (run sched (spawn (session_actors gen_sess_guard n gsched sid ts ++ others) st))) = true.
Proof.
  exact (fun n gsched sid ts others sched st =>
           session_single_writer_validates gen_sess_guard n gsched sid ts others sched st gen_sess_guard_atomic).
Qed.
Print Assumptions c01_session_single_writer_as_built.

(* ... and for ANY number of sessions at once, each with any number of clients posting input at the same
   instant (their guard flags are independent; `qs` lists session id, frames of a run, clients, guard
   schedule): if one run per session would be fine - fresh, pairwise distinct session streams - then whatever
   the guards accept keeps every stream in order, next to any other well-formed actors, under any schedule *)
Theorem c01_sessions_single_writer :
  forall (gk : sguard) (qs : list sess_req) (others : list (list mstep * N)) (sched : list N) (st : state),
  sg_atomic gk = true ->
  SInv st -> Forall (fun q => forallb is_sess (sq_ts q) = true) qs -> progs_wf others ->
  sess_fresh st (one_run_each qs ++ others) -> sess_distinct (one_run_each qs ++ others) ->
  Valid (s_log (run sched (spawn (sessions_actors gk qs ++ others) st))).
Proof. exact sessions_single_writer. Qed.
Print Assumptions c01_sessions_single_writer.

Example c01_sessions_hypotheses_satisfiable :
  SInv empty_state /\ Forall (fun q => forallb is_sess (sq_ts q) = true) w_qs
  /\ progs_wf [(create_prog [], 0)]
  /\ sess_fresh empty_state (one_run_each w_qs ++ [(create_prog [], 0)])
  /\ sess_distinct (one_run_each w_qs ++ [(create_prog [], 0)]).
Proof. exact w_qs_hyps. Qed.

(* at most one of the concurrent inputs is accepted, exactly one as soon as one caller takes a step *)
Theorem c01_session_one_run :
  forall (gk : sguard) (n : nat) (gsched : list nat), sg_atomic gk = true ->
  (accepted_n (snd (grun gk n gsched)) <= 1)%nat
  /\ (forall a, (a < n)%nat -> In a gsched -> accepted_n (snd (grun gk n gsched)) = 1%nat).
Proof.
  exact (fun gk n gsched H => conj (atomic_at_most_one gk n gsched H)
                                   (fun a Ha Hin => atomic_exactly_one gk n gsched a H Ha Hin)).
Qed.
Print Assumptions c01_session_one_run.

(* REFUTED for check-then-set (`started.load()` .. spawn .. `started.store(true)`): two clients, schedule
   load / load / spawn+store / spawn+store: both inputs are accepted, the two runs both number from 0, the
   session stream reads 0,0,1,1,2,2 and the validator rejects the log - although every other hypothesis of
   c01_session_single_writer holds; with the atomic guard the same schedule accepts one and validates *)
Theorem c01_session_single_writer_check_then_set_refuted :
  sg_atomic SgCheckThenSet = false
  /\ (SInv empty_state /\ forallb is_sess w_cts_run = true
      /\ sess_fresh empty_state [(session_prog w_cts_run, 7)] /\ sess_distinct [(session_prog w_cts_run, 7)])
  /\ accepted_n (snd (grun SgCheckThenSet 2 w_cts_gsched)) = 2%nat
  /\ validate w_cts_log = false
  /\ map seq w_cts_log = [0; 0; 1; 1; 2; 2]
  /\ accepted_n (snd (grun SgAtomicRmw 2 w_cts_gsched)) = 1%nat.
Proof.
  exact (conj eq_refl (conj w_cts_hyps (conj w_cts_accepts_two (conj w_cts_invalid (conj w_cts_seqs (proj1 w_cts_atomic_valid)))))).
Qed.
Print Assumptions c01_session_single_writer_check_then_set_refuted.

(* ---- the run-local counter of a session stream ----
   A run emits its frames at a sequence of sites; a site writes a frame carrying the counter and adds k to
   it.  Every site adds exactly one => the run's stream is 0,1,2,.. *)
Theorem c01_run_counter :
  forall (sid : N) (sites : list (etype * N)),
  forallb is_sess (map fst sites) = true -> Forall (fun s => snd s = 1) sites ->
  Valid (run_frames sid 0 sites).
Proof. exact run_counter_valid. Qed.
Print Assumptions c01_run_counter.

(* ... as built: the static emit sites of session.rs (provider pipe, request frames, refused tool calls),
   rip-tools' ToolRunner::emit and the provider frame mapper are re-extracted on every run
   (Gen/AppendOps.v gen_emit_sites = (line, increments that follow), obligation gen_emit_sites_ok: every
   site increments exactly once); a run all of whose emissions happen at those sites numbers 0,1,2,.. *)
Theorem c01_run_counter_as_built :
  forall (sid : N) (run : list (etype * N)),
  forallb is_sess (map fst run) = true ->
  Forall (fun s => In (snd s) (map snd gen_emit_sites)) run ->
  Valid (run_frames sid 0 run).
Proof. exact (fun sid run => run_counter_valid_static gen_emit_sites sid run gen_emit_sites_ok). Qed.
Print Assumptions c01_run_counter_as_built.

(* REFUTED for a site that forgets its increment (the shape of seeded change C01-3: the provider_event frame
   of a request failing local validation): the run's closing frame repeats the seq *)
Theorem c01_run_counter_missing_increment_refuted :
  validate (run_frames 7 0 w_noinc_run) = false /\ map seq (run_frames 7 0 w_noinc_run) = [0; 1; 1].
Proof. exact w_noinc_invalid. Qed.
Print Assumptions c01_run_counter_missing_increment_refuted.

(* ---- the provider pipe borrows the run-local counter (session.rs OpenResponsesSsePipe; Model/SeqCount.v) ----
   The pipe numbers the frames of every decoder push from its mapper, emits them and adds `frame_count` to the
   session's counter; the stream ends at the terminal marker.  For EVERY offset, EVERY list of pushes (every
   way a provider's event sequence is cut into decoder pushes: events after the marker in the same push or in
   later ones, no marker, several markers, empty pushes) and EVERY ending (finish() over what the decoder
   still holds / a transport error): the frames carry off, off+1, .. and the counter the pipe hands back is
   off + the number of frames it emitted *)
Theorem c01_pipe_counter : forall (off : N) (pushes : list (list pev)) (e : pend),
  map snd (fst (run_pipe CutParsed off pushes e)) = nseq off (length (fst (run_pipe CutParsed off pushes e)))
  /\ snd (run_pipe CutParsed off pushes e) = off + nlen (fst (run_pipe CutParsed off pushes e)).
Proof. exact pipe_counter_is_frames. Qed.
Print Assumptions c01_pipe_counter.

(* ... hence a run made of single emit sites and any number of pipes writes 0,1,2,.. on its stream *)
Theorem c01_run_with_pipes : forall (sid : N) (segs : list seg),
  forallb seg_ok segs = true -> Valid (run_segs CutParsed sid 0 segs).
Proof. exact run_with_pipes_valid. Qed.
Print Assumptions c01_run_with_pipes.

(* ... as built: whether the list that is counted is the list that is emitted is re-read from session.rs on
   every run (Gen/AppendOps.v gen_pipe_cut, obligation gen_pipe_cut_ok) *)
Theorem c01_run_with_pipes_as_built : forall (sid : N) (segs : list seg),
  forallb seg_ok segs = true -> validate (run_segs gen_pipe_cut sid 0 segs) = true.
Proof. exact (run_with_pipes_as_built gen_ok_pipe_cut gen_pipe_cut gen_pipe_cut_ok). Qed.
Print Assumptions c01_run_with_pipes_as_built.

(* REFUTED when the mapped frames are cut after `frame_count` was taken (the shape of seeded change C01-8):
   a text delta, the marker and two late events in ONE push - three frames are emitted, the counter moves by
   six, the closing frame skips three numbers and the validator rejects the log; the pipe as built on the
   same input writes 0..8 *)
Theorem c01_pipe_cut_after_count_refuted :
  forallb seg_ok w_late_run = true
  /\ validate (run_segs CutFramesAfterCount 7 0 w_late_run) = false
  /\ map seq (run_segs CutFramesAfterCount 7 0 w_late_run) = [0; 1; 2; 3; 4; 5; 6; 7; 11]
  /\ snd (run_pipe CutFramesAfterCount 5 [w_late_push] (EndFinish [])) = 11
  /\ nlen (fst (run_pipe CutFramesAfterCount 5 [w_late_push] (EndFinish []))) = 3
  /\ map seq (run_segs CutParsed 7 0 w_late_run) = [0; 1; 2; 3; 4; 5; 6; 7; 8].
Proof.
  exact (conj w_late_hyps (conj (proj1 w_late_invalid) (conj (proj1 (proj2 w_late_invalid))
        (conj (proj1 (proj2 (proj2 w_late_invalid))) (conj (proj2 (proj2 (proj2 w_late_invalid))) (proj2 w_late_as_built)))))).
Qed.
Print Assumptions c01_pipe_cut_after_count_refuted.

(* ---- a log append that fails (disk full, file-size limit, I/O error) while the authority keeps running ----
   `event_log.append(&event)?` returns, the guard is dropped.  A writer cut at its k-th log append is still a
   well-formed program - for the 11 locked appends (cut = lock, choose, unlock), thread creation, branch and
   handoff (cut at the lineage frame = a plain creation) ... *)
Theorem c01_failed_append_skeletons_wf :
  (forall c t ar k, is_cont t = true -> wf_prog (MTarget c :: fail_at k (locked_append t ar)) = true)
  /\ (forall ar k, wf_prog (fail_at k (create_prog ar)) = true)
  /\ (forall t a1 a2 k, is_cont t = true -> wf_prog (fail_at k (lineage_prog t a1 a2)) = true)
  /\ (forall t ar, fail_at 0 (locked_append t ar) = failed_append)
  /\ (forall t a1 a2, fail_at 1 (lineage_prog t a1 a2) = create_prog a1).
Proof.
  exact (conj wf_fail_at_locked (conj wf_fail_at_create (conj wf_fail_at_lineage (conj fail_at_locked fail_at_lineage_1)))).
Qed.
Print Assumptions c01_failed_append_skeletons_wf.

(* ... so c01_valid_all_schedules / c01_restart cover histories with failed appends at any writer, any number
   of them, interleaved with anything; and once every actor is outside its calls the cached counter of every
   thread is the number of frames the thread has in the log (next_seq = last_seq + 1): nothing a failed call
   did is left behind *)
Theorem c01_failed_append_leaves_counter :
  forall (ps : list (list mstep * N)) (sched : list N) (st : state),
  SInv st -> progs_wf ps -> sess_fresh st ps -> sess_distinct ps ->
  AllIdle (run sched (spawn ps st)) ->
  forall c n, s_next (run sched (spawn ps st)) c = Some n ->
              n = next_of KContinuity c (s_log (run sched (spawn ps st))).
Proof. exact failed_appends_leave_counter. Qed.
Print Assumptions c01_failed_append_leaves_counter.

(* the calls of every append-failure correspondence case are such programs *)
Theorem c01_fail_case_calls_wf : forall (l : log) (o : fcall),
  fcall_ok o = true -> wf_prog (prog_of_fcall l o) = true.
Proof. exact fcall_wf. Qed.
Print Assumptions c01_fail_case_calls_wf.

(* non-vacuity: create a thread, a message, run_ended REFUSED, the retry, a message: right after the refused
   call the counter is 2 and the log has two frames; at the end the thread reads 0,1,2,3 *)
Example c01_failed_append_example :
  (SInv empty_state /\ progs_wf w_fail_actors /\ sess_fresh empty_state w_fail_actors /\ sess_distinct w_fail_actors)
  /\ s_next (run (repeat 0 20) (spawn w_fail_actors empty_state)) 0 = Some 2
  /\ map seq (s_log (run (repeat 0 20) (spawn w_fail_actors empty_state))) = [0; 1]
  /\ map seq (cstream 0 (s_log (run (repeat 0 36) (spawn w_fail_actors empty_state)))) = [0; 1; 2; 3]
  /\ validate (s_log (run (repeat 0 36) (spawn w_fail_actors empty_state))) = true.
Proof. exact (conj w_fail_hyps w_fail_result). Qed.

(* REFUTED for a writer that reserves its seq - the counter is advanced when the seq is chosen, before the
   frame is in the log (the shape of seeded change C01-7): the refused call is not a well-formed program,
   leaves the counter at 3 over two frames, and the same history reads 0,1,3,4 *)
Theorem c01_reserved_seq_refuted :
  wf_prog (MTarget 0 :: reserved_failed_append) = false
  /\ s_next (run (repeat 0 21) (spawn w_reserve_actors empty_state)) 0 = Some 3
  /\ map seq (s_log (run (repeat 0 21) (spawn w_reserve_actors empty_state))) = [0; 1]
  /\ map seq (cstream 0 (s_log (run (repeat 0 37) (spawn w_reserve_actors empty_state)))) = [0; 1; 3; 4]
  /\ validate (s_log (run (repeat 0 37) (spawn w_reserve_actors empty_state))) = false.
Proof. exact w_reserve_invalid. Qed.
Print Assumptions c01_reserved_seq_refuted.

(* ---- the session / task emitters under a refused log write (open finding W3-order, the C01 face of C03's W3) ----
   emit_event / TaskEmitter::emit number, record and publish a frame and only then write it to the log, dropping
   the result.  While every log write succeeds the stream is 0,1,2,.. ... *)
Theorem c01_session_emit_writes_ok : forall (sid : N) (ts : list etype),
  forallb is_sess ts = true -> Valid (emit_unchecked sid 0 (map (fun t => (t, true)) ts)).
Proof. exact emit_unchecked_valid. Qed.
Print Assumptions c01_session_emit_writes_ok.

(* ... REFUTED as soon as one write in the middle of a run is refused and the run goes on: the log reads 0,2
   (replayed on the real engine: harness group session_refused_write, KNOWN_FINDINGS W3-order) *)
Theorem c01_session_emit_refused_write_refuted :
  validate (emit_unchecked 7 0 w_refused_run) = false /\ map seq (emit_unchecked 7 0 w_refused_run) = [0; 2].
Proof. exact w_refused_invalid. Qed.
Print Assumptions c01_session_emit_refused_write_refuted.

(* non-vacuity: four clients on one session next to a thread creation, another run and a task pump meet
   the hypotheses, and one schedule of theirs writes 7 frames on 4 streams *)
Example c01_session_hypotheses_satisfiable :
  SInv empty_state /\ forallb is_sess w_cts_run = true /\ progs_wf w_sg_others
  /\ sess_fresh empty_state ((session_prog w_cts_run, 7) :: w_sg_others)
  /\ sess_distinct ((session_prog w_cts_run, 7) :: w_sg_others).
Proof. exact w_sg_hyps. Qed.

(* ---- the head of a provider request: the capture frame behind RIP_OPENRESPONSES_DUMP_REQUEST is one more single emit site
   (Model/WireRun.v: the statements of stream_openresponses_request that touch the run's counter, re-read on every run) ---- *)
Theorem c01_current_request_head : gen_ok_request_head && wf_head gen_request_head = true.
Proof. exact gen_request_head_ok. Qed.
Print Assumptions c01_current_request_head.

(* every program that is a concatenation of "build from the counter, emit, bump" sites numbers its frames c, c+1, .. and hands
   the counter back at c + number of frames, from every counter value *)
Theorem c01_run_of_sites_counter : forall (c : N) (p : list rstmt),
  wf_run p = true ->
  r_out (rrun c p) = WireRun.number c (sites_of p)
  /\ nums_from c (r_out (rrun c p)) = true
  /\ r_cnt (rrun c p) = c + N.of_nat (length (r_out (rrun c p))).
Proof. exact run_numbered. Qed.
Print Assumptions c01_run_of_sites_counter.

(* a head that meets the obligation, switch on or off, IS a list of single emit sites of Model/SeqCount.v: a run made of any
   sites and pipes in front of it, the head, any sites and pipes after it writes 0,1,2,.. *)
Theorem c01_run_with_request_heads : forall (sid : N) (pre post : list seg) (h : head) (capture : bool),
  forallb seg_ok pre = true -> forallb seg_ok post = true -> wf_head h = true ->
  Valid (run_segs CutParsed sid 0 (pre ++ map SSite (head_kinds capture h) ++ post))
  /\ (forall ck c, head_frames sid c capture h = run_segs ck sid c (map SSite (head_kinds capture h)))
  /\ (forall c, r_cnt (rrun c (head_prog capture h)) = c + nlen (head_frames sid c capture h)).
Proof. exact run_with_request_heads. Qed.
Print Assumptions c01_run_with_request_heads.

(* REFUTED when the capture frame is built first and emitted after request_started (the seeded change C01-11): with the switch
   on the stream reads 0,1,1,3 and the validator rejects it; with the switch off nothing changes *)
Theorem c01_capture_frame_emitted_late_refuted :
  wf_head head_capture_emitted_late = false
  /\ map seq (run_head_log 7 true head_capture_emitted_late) = [0; 1; 1; 3]
  /\ map ety (run_head_log 7 true head_capture_emitted_late) = [ESessionStarted; EOpenResponsesRequestStarted; EOpenResponsesRequest; ESessionEnded]
  /\ validate (run_head_log 7 true head_capture_emitted_late) = false
  /\ validate (run_head_log 7 false head_capture_emitted_late) = true
  /\ map seq (run_head_log 7 true head_code) = [0; 1; 2; 3]
  /\ validate (run_head_log 7 true head_code) = true.
Proof. exact head_capture_late_refuted. Qed.
Print Assumptions c01_capture_frame_emitted_late_refuted.

(* .. and when request_started is built before the capture frame and emitted after it (the seeded change C03-10) *)
Theorem c01_request_started_built_early_refuted :
  wf_head head_started_built_early = false
  /\ map seq (run_head_log 7 true head_started_built_early) = [0; 1; 1; 3]
  /\ map ety (run_head_log 7 true head_started_built_early) = [ESessionStarted; EOpenResponsesRequest; EOpenResponsesRequestStarted; ESessionEnded]
  /\ validate (run_head_log 7 true head_started_built_early) = false
  /\ validate (run_head_log 7 false head_started_built_early) = true.
Proof. exact head_started_early_refuted. Qed.
Print Assumptions c01_request_started_built_early_refuted.

Example c01_request_head_example :
  wf_head head_code = true /\ head_kinds true head_code = [EOpenResponsesRequest; EOpenResponsesRequestStarted]
  /\ head_kinds false head_code = [EOpenResponsesRequestStarted]
  /\ forallb seg_ok [SSite ESessionStarted] = true.
Proof. exact request_head_example. Qed.

(* ---- a creating call whose STORE side write fails (Model/SeqCreate.v): create_continuity_locked appends the new thread's
   seq-0 frame to the log and THEN saves continuities/index.json; a failed save answers Err with the frame in the log ---- *)

(* whatever the log: a second frame carrying a number its stream has already written makes the log invalid *)
Theorem c01_second_frame_with_a_written_number_is_never_valid : forall (l : log) (f f' : frame),
  fkind f' = fkind f -> sid f' = sid f -> seq f' = seq f -> ~ Valid ((l ++ [f]) ++ [f']).
Proof. exact second_frame_same_number_invalid. Qed.
Print Assumptions c01_second_frame_with_a_written_number_is_never_valid.

(* the retry AS BUILT: for every store whose log is valid and every state d1 a failed index save leaves (one more frame: a
   continuity_created of the store's workspace, seq 0, on a stream without frames) - the log is valid; ensure_default
   (log02c's Model/C02Decide.v `ensure`, the code's decision order: in-memory index, else the log, else create) appends
   NOTHING, in the same process and after a restart with ANY index file and ANY in-memory index, and answers a thread of
   the log *)
Theorem c01_failed_index_save_then_retry_as_built : forall (d d1 : dstate) (f : frame),
  Valid (s_log (d_st d)) -> FailedSaveCreation d d1 f ->
  Valid (s_log (d_st d1))
  /\ s_log (d_st (fst (ensure false d1))) = s_log (d_st d1)
  /\ (forall file mem, s_log (d_st (fst (ensure false (reopen {| d_st := d_st d1; d_ws := d_ws d1; d_file := file; d_mem := mem |} (d_ws d1))))) = s_log (d_st d1))
  /\ (MemSound d1 -> answer_code (d_ws d1) (s_log (d_st (fst (ensure false d1)))) (snd (ensure false d1)) = 1).
Proof. exact failed_save_then_retry_as_built. Qed.
Print Assumptions c01_failed_index_save_then_retry_as_built.

(* the micro-step program of the failed call (lock, new id, log append of the seq-0 frame, sidecar, broadcast, in-memory index
   insert, `save_index(..)?` fails: unlock - the counter is never set), executed on EVERY store that satisfies the store
   invariant: the invariant holds again, so c01_valid_all_schedules / c01_restart apply to whatever runs on that store next *)
Theorem c01_store_invariant_after_failed_index_save : forall (st : state) (ar : list N),
  SInv st -> s_mu st = None -> SInv (exec (create_save_failed ar) st).
Proof. exact sinv_after_create_save_failed. Qed.
Print Assumptions c01_store_invariant_after_failed_index_save.

(* ensure_default with index.json unwritable on EVERY store that knows no thread of its workspace (neither the in-memory index
   nor the log): Err is answered, exactly one frame is logged and the log is valid; the retry as built answers that very
   thread from the in-memory index and appends nothing, a restarted store with ANY index file and in-memory index appends
   nothing either; re-creating the same id makes the log invalid *)
Theorem c01_ensure_default_failed_index_save : forall d : dstate,
  SInv (d_st d) -> s_mu (d_st d) = None ->
  ws_lookup (ix_ws (d_mem d)) (d_ws d) = None -> find_default (d_ws d) (s_log (d_st d)) = None ->
  snd (ensure_sf d) = None
  /\ s_log (d_st (fst (ensure_sf d))) = s_log (d_st d) ++ [created_frame (d_st d) [d_ws d]]
  /\ Valid (s_log (d_st (fst (ensure_sf d))))
  /\ SInv (d_st (fst (ensure_sf d)))
  /\ s_log (d_st (fst (ensure false (fst (ensure_sf d))))) = s_log (d_st (fst (ensure_sf d)))
  /\ snd (ensure false (fst (ensure_sf d))) = Some (s_fresh (d_st d))
  /\ (forall file mem, s_log (d_st (fst (ensure false (reopen {| d_st := d_st (fst (ensure_sf d)); d_ws := d_ws d; d_file := file; d_mem := mem |} (d_ws d))))) = s_log (d_st (fst (ensure_sf d))))
  /\ validate (s_log (retry_same_id (d_st (fst (ensure_sf d))) (s_fresh (d_st d)) (d_ws d))) = false.
Proof. exact ensure_default_failed_index_save. Qed.
Print Assumptions c01_ensure_default_failed_index_save.

(* branch / handoff of ANY thread c whose child's creation cannot save the index, on every store that satisfies the store
   invariant: one frame (the child's seq 0) is logged, the mutex is free again and the store invariant holds - the retry (a new
   child: a new id) and everything else that runs next is covered by the schedule theorems *)
Theorem c01_store_invariant_after_failed_lineage_save : forall (st : state) (c : N) (ar : list N),
  SInv st -> s_mu st = None ->
  SInv (exec ([MTarget c; MRead] ++ create_save_failed ar) st)
  /\ s_log (exec ([MTarget c; MRead] ++ create_save_failed ar) st) = s_log st ++ [created_frame st ar]
  /\ s_mu (exec ([MTarget c; MRead] ++ create_save_failed ar) st) = None.
Proof. exact sinv_after_lineage_save_failed. Qed.
Print Assumptions c01_store_invariant_after_failed_lineage_save.

(* the cut programs are well-formed programs of the store model (the phase automaton admits dropping the guard with the new
   thread's counter never recorded: Model/ContInv.v carries `the cache holds nothing for the child` through the creation):
   c01_valid_all_schedules, c01_restart and c01_store_invariant_after_quiescence quantify over histories with failed index
   saves at any creating call, any number of them, interleaved with anything *)
Theorem c01_failed_index_save_skeletons_wf : forall (ar : list N) (t : etype) (a1 a2 : list N) (c : N),
  wf_prog (fail_save (create_prog ar)) = true
  /\ wf_prog (MTarget c :: MRead :: fail_save (lineage_prog t a1 a2)) = true.
Proof. exact failed_save_skeletons_wf. Qed.
Print Assumptions c01_failed_index_save_skeletons_wf.

(* non-vacuity: three actors on the empty store - a first ensure_default whose index save fails, followed by a post to the newest
   listed thread; a creation followed by a post; a post to the newest listed thread - meet the hypotheses of
   c01_valid_all_schedules, and a schedule in which the second actor tries to lock inside the failed creation writes 4 frames *)
Example c01_failed_index_save_actors :
  (SInv empty_state /\ progs_wf w_sf_actors /\ sess_fresh empty_state w_sf_actors /\ sess_distinct w_sf_actors)
  /\ validate (s_log (run w_sf_sched (spawn w_sf_actors empty_state))) = true
  /\ nlen (s_log (run w_sf_sched (spawn w_sf_actors empty_state))) = 4.
Proof. exact (conj w_sf_hyps w_sf_log). Qed.

(* REFUTED for a retry that creates the SAME id again (the seeded change C01-10): for EVERY such state the log is invalid
   from then on *)
Theorem c01_retry_same_id_after_logged_frame_invalid : forall (d d1 : dstate) (f : frame),
  FailedSaveCreation d d1 f ->
  validate (s_log (retry_same_id (d_st d1) (sid f) (d_ws d))) = false.
Proof. exact failed_save_then_retry_same_id. Qed.
Print Assumptions c01_retry_same_id_after_logged_frame_invalid.

(* .. with a witness produced by the model's own creation (exec of create_continuity cut at the failing save): the first
   ensure_default of a workspace answers Err with one frame logged; the same-id retry writes 0,0; the retry as built
   answers that thread and appends nothing *)
Theorem c01_retry_same_id_after_logged_frame_refuted :
  exists d d1 f,
    Valid (s_log (d_st d)) /\ FailedSaveCreation d d1 f /\ d1 = fst (ensure_sf d) /\ snd (ensure_sf d) = None
    /\ validate (s_log (retry_same_id (d_st d1) (sid f) (d_ws d))) = false
    /\ map seq (cstream (sid f) (s_log (retry_same_id (d_st d1) (sid f) (d_ws d)))) = [0; 0]
    /\ s_log (d_st (fst (ensure false d1))) = s_log (d_st d1) /\ snd (ensure false d1) = Some (sid f)
    /\ validate (s_log (d_st (fst (ensure false d1)))) = true.
Proof. exact retry_same_id_refuted. Qed.
Print Assumptions c01_retry_same_id_after_logged_frame_refuted.

(* non-vacuity: a history with failed saves at ensure_default, at a branch and at the backfill after a restart *)
Example c01_failed_index_save_history :
  validate (s_log (d_st (snd (run_sw dstate0 w_calls)))) = true
  /\ fst (run_sw dstate0 w_calls) = [1; 2; 1; 1; 1; 1; 2; 9; 3; 2; 5; 1; 6; 9; 7; 9; 8; 9; 8; 9; 8; 9; 8; 1; 8; 1; 9; 9; 10; 9].
Proof. exact w_history. Qed.

(* non-vacuity: five concurrent actors on the empty store (create a thread, post to the newest listed
   thread, a run, two pumps of one task) meet every hypothesis, and one of their schedules writes 8
   frames on 3 streams *)
Example c01_hypotheses_satisfiable :
  SInv empty_state /\ progs_wf w_ex_actors /\ sess_fresh empty_state w_ex_actors /\ sess_distinct w_ex_actors.
Proof. exact w_ex_hyps. Qed.
Example c01_example_log :
  canon_log (s_log (run w_ex_sched (spawn w_ex_actors empty_state)))
  = [0; 0; 0;  1; 0; 3;  2; 0; 30;  2; 1; 34;  0; 1; 1;  0; 2; 2;  1; 1; 4;  2; 2; 34].
Proof. exact w_ex_log. Qed.
