(* C16 — the tool loop answers each provider call exactly once, in output order, in the very next request;
   never runs a barred tool; bounded; a schema-invalid request is never sent; stateless inputs extend each other.
   Statements only; proofs are in Proofs/ToolLoopProofs.v.

   `run g valid tool prompt init script` is the whole agent loop (Model/ToolLoop.v) for configuration g
   (history mode, tool_choice value, follow-up message), ANY payload validator `valid`, ANY tool outcomes
   `tool`, ANY initial context and ANY provider script (list of answers; an answer is either a failed stream or
   the JSON events the collector observed — function-call items, argument deltas, done events in any number,
   order and interleaving, with missing / empty / duplicate ids).
   A "function call the provider emits" is a call id completed in one response (iteration i <-> answer i).
   FIXED = /repo after the `fix:` commits for S16 and S19; UNFIXED = before.

   Last section: the same from the BYTES of the answers.  `run_b A ob g valid tool prompt init bodies` feeds the loop
   from C15's model of the provider stream path (Model/Sse.v + Model/SseJson.v: UTF-8 carry-over, SseDecoder push /
   finish, cut after [DONE], EventFrameMapper) extended by the collector feed of OpenResponsesSsePipe
   (Model/ToolLoopSse.v); "a call the provider emitted" is then a call in a provider-event FRAME of the session
   stream (Sse.frames_of = what C15 proves about), independent of the collector. *)
From Coq Require Import Strings.String Strings.Ascii.
From RipV Require Import Base.Prelude Base.Json Model.ToolLoop Proofs.ToolLoopProofs.
From RipV Require Import Base.Utf8 Model.ToolLoopSse Proofs.ToolLoopSseProofs.
From RipV Require Import Model.ToolLoopGate Proofs.ToolLoopGateProofs.
From RipV Require Model.Sse Model.SseJson Proofs.SseProofs.
From Coq Require Import Permutation Sorted.

(* ---- a tool excluded by the configured tool choice is never executed ---- *)
Theorem c16_barred_never_executed :
  forall g valid tool prompt init script it x,
  In it (res_iters (run g valid tool prompt init script)) -> In x (it_done it) -> x_ran x = true ->
  allows (enforce (g_choice g)) (c_name (x_call x)) = true.
Proof. exact barred_never_executed. Qed.
Print Assumptions c16_barred_never_executed.

(* ... and what `allows (enforce v)` means for every tool_choice shape *)
Theorem c16_choice_none : enforce (JStr S_none) = NoTools.
Proof. exact enforce_none. Qed.
Print Assumptions c16_choice_none.

Theorem c16_choice_other_string : forall s, s <> S_none -> enforce (JStr s) = AllFunctions.
Proof. exact enforce_string. Qed.
Print Assumptions c16_choice_other_string.

Theorem c16_choice_function :
  forall obj n, get_str K_type obj = Some S_function ->
  (allows (enforce (JObj obj)) n = true <-> (get_str K_name obj = Some n /\ n <> [])).
Proof. exact allows_function. Qed.
Print Assumptions c16_choice_function.

Theorem c16_choice_allowed_tools :
  forall obj n, get_str K_type obj = Some S_allowed_tools ->
  (allows (enforce (JObj obj)) n = true <->
   (get_str K_mode obj <> Some S_none /\
    exists tools t, obind (jget K_tools obj) as_arr = Some tools /\ In t tools /\ In n (allowed_tool_name t))).
Proof. exact allows_allowed_tools. Qed.
Print Assumptions c16_choice_allowed_tools.

Theorem c16_allowed_tool_entry :
  forall t n, In n (allowed_tool_name t) <->
  exists o, t = JObj o /\ get_str K_type o = Some S_function /\ get_str K_name o = Some n /\ n <> [].
Proof. exact in_allowed_tool_name. Qed.
Print Assumptions c16_allowed_tool_entry.

(* malformed values bar nothing (such a configuration never reaches the provider: c16_invalid_never_sent) *)
Theorem c16_choice_malformed_value :
  forall v, match v with JStr _ | JObj _ => False | _ => True end -> enforce v = AllFunctions.
Proof. exact enforce_other_value. Qed.
Print Assumptions c16_choice_malformed_value.

Theorem c16_choice_other_object :
  forall obj,
  match get_str K_type obj with
  | Some ty => ty <> S_function /\ ty <> S_allowed_tools
  | None => True
  end -> enforce (JObj obj) = AllFunctions.
Proof. exact enforce_object_other. Qed.
Print Assumptions c16_choice_other_object.

(* a call is refused exactly when it is barred *)
Theorem c16_refused_iff_barred :
  forall g valid tool prompt init script it x,
  In it (res_iters (run g valid tool prompt init script)) -> In x (it_done it) ->
  x_ran x = allows (enforce (g_choice g)) (c_name (x_call x)).
Proof. exact refused_iff_barred. Qed.
Print Assumptions c16_refused_iff_barred.

(* ---- executed at most once ----
   iteration i processes an initial segment of the calls drained from answer i, position by position; the
   drained calls are the completed calls of that answer, each once (permutation), in output order (sorted by
   output_index, ties in completion order), and there are no more of them than the answer has done events *)
Theorem c16_at_most_once_exec :
  forall g valid tool prompt init script i it,
  nth_error (res_iters (run g valid tool prompt init script)) i = Some it ->
  map x_call (it_done it) = firstn (length (it_done it)) (it_calls it) /\
  (it_calls it = [] \/
   exists rd, nth_error script i = Some rd /\ r_fail rd = false /\
     it_calls it = drain (collect (g_fixed g) (r_events rd)) /\
     Permutation (it_calls it) (k_done (collect (g_fixed g) (r_events rd))) /\
     StronglySorted oi_le (it_calls it) /\
     (forall k, filter (fun c => c_oi c =? k) (it_calls it)
                = filter (fun c => c_oi c =? k) (k_done (collect (g_fixed g) (r_events rd)))) /\
     (length (it_calls it) <= length (filter is_fc_done (r_events rd)))%nat).
Proof. exact at_most_once. Qed.
Print Assumptions c16_at_most_once_exec.

(* within one response a call id is completed (hence executed and answered) once, whatever the provider repeats *)
Theorem c16_call_ids_distinct :
  forall g valid tool prompt init script it,
  g_fixed g = FIXED ->
  In it (res_iters (run g valid tool prompt init script)) -> NoDup (map c_id (it_calls it)).
Proof. exact call_ids_distinct. Qed.
Print Assumptions c16_call_ids_distinct.

(* S19, before the fix: a repeated done event completed the same call id twice *)
Theorem c16_call_ids_distinct_unfixed_refuted :
  exists evs, ~ NoDup (map c_id (drain (collect UNFIXED evs))).
Proof. exact call_ids_distinct_unfixed_refuted. Qed.
Print Assumptions c16_call_ids_distinct_unfixed_refuted.

(* ---- bounded: at most 32 processed (executed or refused) calls, 33 requests; a run cut off by the bound
   stops exactly at 32 — its last iteration has no next request (its calls stay unanswered) ---- *)
Theorem c16_bound :
  forall g valid tool prompt init script,
  nlen (processed (run g valid tool prompt init script)) <= MAX_TOOL_CALLS /\
  nlen (executed (run g valid tool prompt init script)) <= MAX_TOOL_CALLS /\
  (length (sent (run g valid tool prompt init script)) <= 33)%nat /\
  (res_reason (run g valid tool prompt init script) = MaxToolCalls ->
   nlen (processed (run g valid tool prompt init script)) = MAX_TOOL_CALLS).
Proof. exact bound. Qed.
Print Assumptions c16_bound.

(* ---- a request that fails schema validation is never sent: every sent request passed `valid`; a refused
   payload ends the run at once ---- *)
Theorem c16_invalid_never_sent :
  forall g valid tool prompt init script,
  (forall i q, nth_error (sent (run g valid tool prompt init script)) i = Some q -> valid (N.of_nat i) q = true) /\
  (forall q, res_rejected (run g valid tool prompt init script) = Some q ->
     res_reason (run g valid tool prompt init script) = InvalidRequest /\
     valid (nlen (sent (run g valid tool prompt init script))) q = false).
Proof. exact invalid_never_sent. Qed.
Print Assumptions c16_invalid_never_sent.

(* ... instantiated: when the gate applies (at least) the value constraints the OpenResponses schema puts on input
   items (`items_ok`: call_id 1..64 characters, function name 1..64 characters of [a-zA-Z0-9_-], message role one
   of the four, texts <= 10 MiB characters — numbers, pattern and roles are tied to the schema documents by T1,
   `items_ok` to the schema judge of the harness by T2), then whatever call ids and function names the provider
   sends, every function_call / function_call_output item of every request that leaves the loop is within them *)
Theorem c16_sent_items_within_schema_limits :
  forall g valid tool prompt init script i q,
  nth_error (sent (run g (fun k r => items_ok r && valid k r) tool prompt init script)) i = Some q ->
  (forall id cid n a, In (ICall id cid n a) (items_of q) ->
     CALL_ID_MIN <= nlen cid <= CALL_ID_MAX /\ NAME_MIN <= nlen n <= NAME_MAX /\
     (forall c, In c n -> name_char_ok c = true)) /\
  (forall id cid o, In (IOut id cid o) (items_of q) ->
     CALL_ID_MIN <= nlen cid <= CALL_ID_MAX /\ nlen o <= TEXT_MAX) /\
  (forall r t, In (IMsg r t) (items_of q) -> role_ok r = true /\ nlen t <= TEXT_MAX).
Proof. exact sent_within_schema_limits. Qed.
Print Assumptions c16_sent_items_within_schema_limits.

(* ---- answered exactly once, by call id, in output order, in the very next request, and nowhere else:
   for consecutive iterations it1, it2 every drained call of it1 was processed (same order), and
   - stateful: the input of it2's request is exactly the outputs of these calls (+ the follow-up message),
     chained by previous_response_id;
   - stateless: the function_call_output items of it2's request are those of it1's request followed by exactly
     these outputs; with the fix the whole input is it1's input ++ the calls ++ their outputs ++ follow-up ---- *)
Theorem c16_answered_next_request :
  forall g valid tool prompt init script pre it1 it2 post,
  res_iters (run g valid tool prompt init script) = pre ++ it1 :: it2 :: post ->
  map x_call (it_done it1) = it_calls it1 /\ it_calls it1 <> [] /\
  (g_stateless g = false ->
     q_input (it_req it2) = InItems (outputs_for false (it_done it1) ++ fmsg g) /\
     q_prev (it_req it2) <> None /\ q_kind (it_req it2) = 3) /\
  (g_stateless g = true ->
     q_prev (it_req it2) = None /\ q_kind (it_req it2) = 4 /\
     filter is_out (items_of (it_req it2))
       = filter is_out (items_of (it_req it1)) ++ outputs_for true (it_done it1) /\
     (g_fixed g = true ->
        items_of (it_req it2)
        = items_of (it_req it1) ++ map call_item (it_calls it1) ++ outputs_for true (it_done it1) ++ fmsg g)).
Proof. exact answered_next_request. Qed.
Print Assumptions c16_answered_next_request.

(* ... read off by call id: the call ids answered by the next request are the call ids of the drained calls, in
   that order, each once (they are pairwise distinct); in stateless mode appended to those answered before *)
Theorem c16_answered_once_by_call_id :
  forall g valid tool prompt init script pre it1 it2 post,
  res_iters (run g valid tool prompt init script) = pre ++ it1 :: it2 :: post ->
  (g_stateless g = false -> out_ids (items_of (it_req it2)) = map c_id (it_calls it1)) /\
  (g_stateless g = true ->
     out_ids (items_of (it_req it2)) = out_ids (items_of (it_req it1)) ++ map c_id (it_calls it1)) /\
  (g_fixed g = FIXED -> NoDup (map c_id (it_calls it1))).
Proof. exact answered_by_call_id. Qed.
Print Assumptions c16_answered_once_by_call_id.

(* ... and at least once: a call announced by a well-formed done event (function_call item with a non-empty call id
   and a name; the item id may be missing) in answer i is among the calls iteration i drains, whatever else the
   answer contains, whenever the run goes on to a next request — where, by the theorem above, it is answered *)
Theorem c16_emitted_call_answered :
  forall g valid tool prompt init script pre it1 it2 post rd evs1 ev evs2 cid,
  res_iters (run g valid tool prompt init script) = pre ++ it1 :: it2 :: post ->
  nth_error script (length pre) = Some rd -> r_events rd = evs1 ++ ev :: evs2 -> wf_done ev cid ->
  In cid (map c_id (it_calls it1)).
Proof. exact emitted_call_answered. Qed.
Print Assumptions c16_emitted_call_answered.

(* a run that ends with "completed" left nothing unanswered: its last iteration drained no call, and every
   earlier iteration has a successor (c16_answered_next_request applies to it) *)
Theorem c16_completed_all_answered :
  forall g valid tool prompt init script,
  res_reason (run g valid tool prompt init script) = Completed ->
  exists pre it, res_iters (run g valid tool prompt init script) = pre ++ [it] /\ it_calls it = [] /\ it_done it = [].
Proof. exact completed_all_answered. Qed.
Print Assumptions c16_completed_all_answered.

(* ---- the calls that get NO next request: only the calls of a run's last iteration can stay unanswered
   (c16_answered_next_request covers every other iteration), and only for one of three named reasons:
   - stateful mode and no response id to chain the outputs to: nothing was executed, "provider_error";
   - the 32-call bound (then exactly 32 calls were processed in the run);
   - the payload validator refused the follow-up — and the refused payload was exactly the answer to these calls
     (all of them processed; same shape c16_answered_next_request demands of a next request).
   A next request whose stream fails, or for which nothing is scripted, is still a sent request: it is an
   iteration of its own, so its predecessor's calls were answered. ---- *)
Theorem c16_unanswered_only_when :
  forall g valid tool prompt init script pre it,
  res_iters (run g valid tool prompt init script) = pre ++ [it] -> it_calls it <> [] ->
  (res_reason (run g valid tool prompt init script) = ProviderError /\
   res_rejected (run g valid tool prompt init script) = None /\ g_stateless g = false /\ it_done it = []) \/
  (res_reason (run g valid tool prompt init script) = MaxToolCalls /\
   res_rejected (run g valid tool prompt init script) = None /\
   nlen (processed (run g valid tool prompt init script)) = MAX_TOOL_CALLS) \/
  (res_reason (run g valid tool prompt init script) = InvalidRequest /\
   exists q, res_rejected (run g valid tool prompt init script) = Some q /\
     map x_call (it_done it) = it_calls it /\
     (g_stateless g = false ->
        q_input q = InItems (outputs_for false (it_done it) ++ fmsg g) /\ q_prev q <> None /\ q_kind q = 3) /\
     (g_stateless g = true ->
        q_prev q = None /\ q_kind q = 4 /\
        filter is_out (items_of q) = filter is_out (items_of (it_req it)) ++ outputs_for true (it_done it) /\
        (g_fixed g = true ->
           items_of q = items_of (it_req it) ++ map call_item (it_calls it) ++ outputs_for true (it_done it) ++ fmsg g))).
Proof. exact unanswered_only_when. Qed.
Print Assumptions c16_unanswered_only_when.

(* ---- the same call id across responses.  A call = a call id completed in one response.  Stateful mode: a request
   answers the ids of the response just before it and nothing else (c16_answered_once_by_call_id).  Stateless
   history: request k answers, in order, the ids of ALL earlier responses, response by response, after the outputs
   the initial context already held — so an id that m earlier responses completed is answered exactly m times in
   request k: once per response, never more, never fewer. ---- *)
Theorem c16_answers_accumulate :
  forall g valid tool prompt init script pre it post,
  g_stateless g = true ->
  res_iters (run g valid tool prompt init script) = pre ++ it :: post ->
  out_ids (items_of (it_req it)) = out_ids (init_items init) ++ flat_map (fun i => map c_id (it_calls i)) pre.
Proof. exact answers_accumulate. Qed.
Print Assumptions c16_answers_accumulate.

Theorem c16_answered_once_per_response :
  forall g valid tool prompt init script pre it post cid,
  g_stateless g = true -> g_fixed g = FIXED ->
  res_iters (run g valid tool prompt init script) = pre ++ it :: post ->
  count_occ str_eq_dec (out_ids (items_of (it_req it))) cid
  = (count_occ str_eq_dec (out_ids (init_items init)) cid + length (filter (completes cid) pre))%nat.
Proof. exact answered_once_per_response. Qed.
Print Assumptions c16_answered_once_per_response.

(* the first request answers nothing the initial context did not already hold (both modes) *)
Theorem c16_first_request_answers_nothing :
  forall g valid tool prompt init script it rest,
  res_iters (run g valid tool prompt init script) = it :: rest ->
  out_ids (items_of (it_req it)) = out_ids (init_items init).
Proof. exact first_request_out_ids. Qed.
Print Assumptions c16_first_request_answers_nothing.

(* ---- stateless-history mode: each request's input extends the previous one ---- *)
Theorem c16_stateless_prefix :
  forall g valid tool prompt init script pre it1 it2 post,
  g_stateless g = true -> g_fixed g = FIXED ->
  res_iters (run g valid tool prompt init script) = pre ++ it1 :: it2 :: post ->
  exists ext, items_of (it_req it2) = items_of (it_req it1) ++ ext.
Proof. exact stateless_prefix. Qed.
Print Assumptions c16_stateless_prefix.

(* S16, before the fix: with a follow-up user message request r+2 did not extend request r+1 *)
Theorem c16_stateless_prefix_unfixed_refuted :
  exists g valid tool prompt init script pre it1 it2 post,
    g_stateless g = true /\ g_fixed g = UNFIXED /\
    res_iters (run g valid tool prompt init script) = pre ++ it1 :: it2 :: post /\
    forall ext, items_of (it_req it2) <> items_of (it_req it1) ++ ext.
Proof. exact stateless_prefix_unfixed_refuted. Qed.
Print Assumptions c16_stateless_prefix_unfixed_refuted.

(* ---- the hypotheses are satisfiable: a run with an answered round, one refused and one executed call ---- *)
Example c16_example_run :
  length (res_iters ex_run) = 2%nat /\ res_reason ex_run = Completed /\
  map (fun x => (c_id (x_call x), x_ran x)) (processed ex_run) = [(lit "c2", true); (lit "c1", false)].
Proof. exact ex_run_shape. Qed.

Example c16_example_wf_done : wf_done (w_done 0 "f1" "c1" "write" "{}") (lit "c1").
Proof. exact ex_wf_done. Qed.

Example c16_example_dedupe : length (drain (collect FIXED s19_events)) = 1%nat.
Proof. exact s19_fixed_once. Qed.

(* a run whose follow-up is refused: one iteration, two drained calls left unanswered, the refused payload answers both *)
Example c16_example_refused_followup :
  length (res_iters ex_refused_run) = 1%nat /\ res_reason ex_refused_run = InvalidRequest /\
  map (fun it => map c_id (it_calls it)) (res_iters ex_refused_run) = [[lit "c2"; lit "c1"]] /\
  match res_rejected ex_refused_run with Some q => out_ids (items_of q) = [lit "c2"; lit "c1"] | None => False end.
Proof. exact ex_refused_shape. Qed.

(* the same call id completed by two responses (stateless history): answered once per response *)
Example c16_example_same_id :
  res_reason ex_same_id_run = Completed /\
  map (fun it => out_ids (items_of (it_req it))) (res_iters ex_same_id_run) = [[]; [lit "c1"]; [lit "c1"; lit "c1"]].
Proof. exact ex_same_id_shape. Qed.

(* the provider sends a 70-character call id: the follow-up that would answer it is refused, only the first request is sent *)
Example c16_example_long_call_id :
  nlen (lit ex_long_id) = 70 /\ length (sent ex_long_id_run) = 1%nat /\ res_reason ex_long_id_run = InvalidRequest /\
  match res_rejected ex_long_id_run with Some q => out_ids (items_of q) = [lit ex_long_id] | None => False end.
Proof. exact ex_long_id_shape. Qed.

(* ================= from the body bytes: OpenResponsesSsePipe feeds the collector what it logs as frames ========== *)

(* the collector of a request has observed exactly the payloads of the event frames the pipe emitted for this answer,
   in order — whatever the chunking, incl. the events that only pipe.finish() hands out when the stream ends without
   [DONE] (classify = any classification of payloads, off = any seq offset) *)
Theorem c16_collector_sees_the_frames :
  forall (classify : option str -> str -> Sse.cls) (off : N) (cs : list (list N)),
  seen_of classify OBS_BOTH off cs = frame_data (Sse.frames_of classify Sse.FIXED off cs).
Proof. exact seen_is_frame_data. Qed.
Print Assumptions c16_collector_sees_the_frames.

(* ... i.e. the events of the body by the chunking-free specification of C15: lossy UTF-8 decoding of the whole body,
   the field rules folded over ALL its lines (an unterminated non-empty last line counts: finish()), cut after the
   first [DONE] *)
Theorem c16_collector_sees_the_body_events :
  forall (classify : option str -> str -> Sse.cls) (off : N) (cs : list (list N)),
  seen_of classify OBS_BOTH off cs
  = evs_data (Sse.upto_done (Sse.events_spec classify (lossy_text (concat cs)))).
Proof. exact seen_is_body_events. Qed.
Print Assumptions c16_collector_sees_the_body_events.

(* whichever of the two places feed the collector, the frames are C15's frames *)
Theorem c16_frames_do_not_depend_on_the_collector :
  forall (classify : option str -> str -> Sse.cls) (off : N) (ob : obs_flags) (cs : list (list N)),
  frames_c classify ob off cs = Sse.frames_of classify Sse.FIXED off cs.
Proof. exact frames_c_is_frames_of. Qed.
Print Assumptions c16_frames_do_not_depend_on_the_collector.

(* c16_emitted_call_answered from the BODY: a function call that appears in a provider-event frame of answer i
   (status "event", data = a well-formed output_item.done of a function_call item) is among the calls iteration i
   drains whenever the run goes on to a next request — where it is answered exactly once, by call id, in output
   order (c16_answered_next_request / c16_answered_once_by_call_id apply to run_b as it is a `run`) *)
Theorem c16_emitted_call_answered_from_body :
  forall (A : SseJson.absfns) g valid tool prompt init (bodies : list bround) pre it1 it2 post b
         (off s : N) ev raw d errs rerrs cid,
  res_iters (run_b A OBS_BOTH g valid tool prompt init bodies) = pre ++ it1 :: it2 :: post ->
  nth_error bodies (length pre) = Some b ->
  In (Sse.FProv s 2 ev raw (Some d) errs rerrs) (Sse.frames_of (SseJson.jclassify A) Sse.FIXED off (bb_chunks b)) ->
  wf_done d cid ->
  In cid (map c_id (it_calls it1)).
Proof. exact emitted_call_answered_body. Qed.
Print Assumptions c16_emitted_call_answered_from_body.

(* a run that ends "completed": no frame of its last answer carries a well-formed call (a call in the frames cannot
   be dropped silently) *)
Theorem c16_completed_no_call_in_last_frames :
  forall (A : SseJson.absfns) g valid tool prompt init (bodies : list bround) b (off s : N) ev raw d errs rerrs cid,
  res_reason (run_b A OBS_BOTH g valid tool prompt init bodies) = Completed ->
  nth_error bodies (pred (length (res_iters (run_b A OBS_BOTH g valid tool prompt init bodies)))) = Some b ->
  In (Sse.FProv s 2 ev raw (Some d) errs rerrs) (Sse.frames_of (SseJson.jclassify A) Sse.FIXED off (bb_chunks b)) ->
  wf_done d cid -> False.
Proof. exact completed_no_call_in_last_frames. Qed.
Print Assumptions c16_completed_no_call_in_last_frames.

(* the converse — nothing from nothing.  Every call an iteration drains (hence every call it executes and every call id
   the next request answers: c16_at_most_once_exec, c16_answered_once_by_call_id) carries a call id that a function_call
   item of an output_item.added / output_item.done event of the SAME answer carries (the done item itself or an earlier
   added event of the item) ... *)
Theorem c16_drained_call_was_announced :
  forall g valid tool prompt init script i it c,
  nth_error (res_iters (run g valid tool prompt init script)) i = Some it -> In c (it_calls it) ->
  exists rd ev, nth_error script i = Some rd /\ In ev (r_events rd) /\ carries ev (c_id c).
Proof. exact drained_call_was_announced. Qed.
Print Assumptions c16_drained_call_was_announced.

(* ... and from the body: that event is a provider-event frame of answer i in the session stream *)
Theorem c16_drained_call_in_frames :
  forall (A : SseJson.absfns) g valid tool prompt init (bodies : list bround) i it c (off : N),
  nth_error (res_iters (run_b A OBS_BOTH g valid tool prompt init bodies)) i = Some it -> In c (it_calls it) ->
  exists b s ev raw d errs rerrs,
    nth_error bodies i = Some b /\
    In (Sse.FProv s 2 ev raw (Some d) errs rerrs) (Sse.frames_of (SseJson.jclassify A) Sse.FIXED off (bb_chunks b)) /\
    carries d (c_id c).
Proof. exact drained_call_in_frames. Qed.
Print Assumptions c16_drained_call_in_frames.

(* a pipe whose finish() logs the flushed events without feeding the collector (OBS_PUSH_ONLY) violates both: the
   CRLF body cut between the CR and the LF of its final blank line has the call in frame 1 of answer 0, nothing is
   drained and the run "completes" after one request *)
Theorem c16_finish_not_observed_refuted :
  exists A g valid tool prompt init bodies b fr d cid,
    nth_error bodies 0 = Some b /\
    In fr (frames_c (SseJson.jclassify A) OBS_PUSH_ONLY 0 (bb_chunks b)) /\
    fr = Sse.FProv 1 2 None None (Some d) [] [] /\ wf_done d cid /\
    res_reason (run_b A OBS_PUSH_ONLY g valid tool prompt init bodies) = Completed /\
    length (res_iters (run_b A OBS_PUSH_ONLY g valid tool prompt init bodies)) = 1%nat.
Proof. exact finish_not_observed_refuted. Qed.
Print Assumptions c16_finish_not_observed_refuted.

(* ---- which unterminated tails pipe.finish() dispatches, in general (text = the lossy UTF-8 decoding of the body;
   Sse.events_spec = C15's chunking-free specification, the right-hand side of c16_collector_sees_the_body_events) ---- *)
(* after a complete line, a tail of one or more CRs is the blank line: the event before it IS emitted — the CRLF body
   cut between the CR and the LF of its final blank line (SEED C16-4), also `...\n\r` *)
Theorem c16_cr_tail_is_dispatched :
  forall (classify : option str -> str -> Sse.cls) (t : str) (n : nat),
  Sse.events_spec classify (t ++ Sse.NL :: repeat 13 (S n)) = Sse.events_spec classify (t ++ [Sse.NL; Sse.NL]).
Proof. exact cr_tail_is_blank_line. Qed.
Print Assumptions c16_cr_tail_is_dispatched.

(* after a complete line, any other unterminated tail (a line that is not blank once its trailing CRs are trimmed:
   a data / event / comment line without line end, and — taking t's last line as that data line — the LF body that
   misses its final blank line) dispatches nothing: that call was never emitted, there is nothing to answer *)
Theorem c16_nonblank_tail_is_not_dispatched :
  forall (classify : option str -> str -> Sse.cls) (t l : str),
  SseProofs.no_nl l -> Sse.trim_end_cr l <> [] ->
  Sse.events_spec classify (t ++ Sse.NL :: l) = Sse.events_spec classify (t ++ [Sse.NL]).
Proof. exact nonblank_tail_not_dispatched. Qed.
Print Assumptions c16_nonblank_tail_is_not_dispatched.

(* ---- which tails carry a call (the hypotheses above are satisfiable) ---- *)
(* `...}\r\n\r`, no [DONE]: the last event is handed out by finish(); it is frame 1 and the call is drained *)
Example c16_example_crlf_cut_tail :
  nth_error (Sse.frames_of (SseJson.jclassify A0) Sse.FIXED 0 [body_crlf_cut]) 1 = Some tail_call_frame
  /\ drained_ids OBS_BOTH body_crlf_cut = [lit "call_1"].
Proof. exact ex_crlf_cut. Qed.
Example c16_example_tail_call_wf : wf_done tail_call_data (lit "call_1").
Proof. exact tail_call_wf. Qed.
(* the whole run: executed, answered by request 1 *)
Example c16_example_tail_run :
  res_reason (tail_run OBS_BOTH) = Completed /\
  map (fun it => (q_kind (it_req it), out_ids (items_of (it_req it)), map c_id (it_calls it))) (res_iters (tail_run OBS_BOTH))
  = [(0, [], [lit "call_1"]); (3, [lit "call_1"], [])].
Proof. exact ex_tail_run_answered. Qed.
(* LF line end followed by a lone CR; [DONE] itself in the unterminated tail: dispatched as well *)
Example c16_example_lf_cr_tail : has_call_frame body_lf_cr = true /\ drained_ids OBS_BOTH body_lf_cr = [lit "call_1"].
Proof. exact ex_lf_cr. Qed.
Example c16_example_done_in_tail :
  has_call_frame body_done_in_tail = true /\ drained_ids OBS_BOTH body_done_in_tail = [lit "call_1"].
Proof. exact ex_done_in_tail. Qed.
(* NOT dispatched — no frame, nothing to answer: an LF body missing its final blank line, a last line without any
   line end, a call after [DONE] *)
Example c16_example_lf_noblank_tail : has_call_frame body_lf_noblank = false /\ drained_ids OBS_BOTH body_lf_noblank = [].
Proof. exact ex_lf_noblank. Qed.
Example c16_example_lf_noeol_tail : has_call_frame body_lf_noeol = false /\ drained_ids OBS_BOTH body_lf_noeol = [].
Proof. exact ex_lf_noeol. Qed.
Example c16_example_call_after_done :
  has_call_frame body_call_after_done = false /\ drained_ids OBS_BOTH body_call_after_done = [].
Proof. exact ex_call_after_done. Qed.

(* ================= the send gate one level down: validator messages -> payload.errors() -> gate ================= *)
(* `valid` above is abstract.  In the code it is  validate_create_response_body(&body) -> CreateResponsePayload::new
   (errors = the validator's messages, each through a per-message post-processing `post`; /repo: kept as they are) ->
   `if !req.payload.errors().is_empty() { refuse }`  (Model/ToolLoopGate.v).  jsonschema quotes the offending instance in
   its messages — for an invalid `input` the whole item array, with tool outputs and arguments of any size — so a
   post-processing that looks at the messages (bounding their length, say) sits between the verdict and the gate.
   For every shape of post-processing that T1 accepts (gen_gate_errors_ok: PS_keep = /repo, PS_map = each message
   rewritten by a total function) the gate IS the validator's verdict, with as many errors reported as the validator
   found ... *)
Theorem c16_gate_is_validator_verdict :
  forall s post verrs, shape_never_drops s = true -> shape_admits s post ->
  gate_open post verrs = is_nil verrs /\ length (payload_errors post verrs) = length verrs.
Proof. exact gate_is_verdict. Qed.
Print Assumptions c16_gate_is_validator_verdict.

(* ... so the decision does not depend on the messages (how long they are, what they quote) *)
Theorem c16_gate_ignores_message_lengths :
  forall s post verrs verrs', shape_never_drops s = true -> shape_admits s post ->
  (verrs = [] <-> verrs' = []) -> gate_open post verrs = gate_open post verrs'.
Proof. exact gate_ignores_messages. Qed.
Print Assumptions c16_gate_ignores_message_lengths.

(* c16_invalid_never_sent with the gate spelled out: every request the loop sends had no validator message; a request
   with a message is refused and ends the run *)
Theorem c16_invalid_never_sent_whatever_the_messages :
  forall s post verrs g tool prompt init script,
  shape_never_drops s = true -> shape_admits s post ->
  (forall i q, nth_error (sent (run g (valid_by post verrs) tool prompt init script)) i = Some q ->
     verrs (N.of_nat i) q = []) /\
  (forall q, res_rejected (run g (valid_by post verrs) tool prompt init script) = Some q ->
     res_reason (run g (valid_by post verrs) tool prompt init script) = InvalidRequest /\
     verrs (nlen (sent (run g (valid_by post verrs) tool prompt init script))) q <> []).
Proof. exact invalid_never_sent_by_errors. Qed.
Print Assumptions c16_invalid_never_sent_whatever_the_messages.

(* /repo's post-processing (none) is an admitted shape; so is a clipping that cuts at the last character boundary at
   or below the bound (it never loses a message) *)
Example c16_example_gate_of_repo : shape_admits POST_SHAPE POST_KEEP /\ shape_never_drops POST_SHAPE = true.
Proof. exact post_keep_admitted. Qed.
Theorem c16_clip_at_boundary_never_drops : forall n m, clip_floor n m <> None.
Proof. exact clip_floor_total. Qed.
Print Assumptions c16_clip_at_boundary_never_drops.
Example c16_example_gate_long_and_short :
  gate_open POST_KEEP [MSG_2049; lit "x"; []] = false /\ gate_open (clip_floor 2048) [MSG_2049; lit "x"; []] = false /\
  gate_open POST_KEEP [] = true.
Proof. exact ex_gate_long_and_short. Qed.

(* seeded change C16-8: messages longer than 2048 bytes are cut with `message.get(..2048)?` under filter_map.  `get`
   answers None when byte 2048 is inside a character: the message is dropped, and when it was the only one the gate
   opens.  Witness: a 2049-byte message (one ASCII byte, 1024 two-byte characters) *)
Theorem c16_clip_get_gate_refuted :
  exists verrs, verrs <> [] /\ gate_open (clip_get 2048) verrs = true /\ gate_open (clip_floor 2048) verrs = false.
Proof. exact clip_get_gate_refuted. Qed.
Print Assumptions c16_clip_get_gate_refuted.

(* ... and the loop sends the request the validator has a message for (with the boundary-safe clipping it is refused) *)
Theorem c16_clip_get_sends_invalid_refuted :
  exists q, nth_error (sent (clip_run (clip_get 2048))) 0 = Some q /\ clip_verrs 0 q <> [] /\
            res_rejected (clip_run (clip_get 2048)) = None /\
            sent (clip_run (clip_floor 2048)) = [] /\ res_reason (clip_run (clip_floor 2048)) = InvalidRequest.
Proof. exact clip_get_sends_invalid_refuted. Qed.
Print Assumptions c16_clip_get_sends_invalid_refuted.
