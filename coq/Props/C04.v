(* C04 — Caches are transparent: losing or corrupting them never changes an answer; every read
   terminates however long the thread is.
   Statements only; proofs are in Proofs/TailLoopProofs.v, Proofs/CacheProofs.v, Proofs/CacheGenProofs.v,
   Proofs/CacheCompileProofs.v (the compile input; on top of builder compile's Model/Compile.v + Proofs/CompileProofs.v).
   Every theorem is closed by `exact`.
   Two models meet here: Model/Cache.v (frames with byte lengths; imported last, so `log`, `frame`, `valid_log`, `fseq`
   mean its versions) and Model/Compile.v (the context compiler's frames; written `Compile.log`, `Compile.valid_log`). *)
From RipV Require Import Base.Prelude Model.Compile Proofs.CompileProofs Model.CacheCompile Proofs.CacheCompileProofs
  Gen.CompileConsts Proofs.CacheCompileGenProofs Model.SeekIndex Proofs.SeekIndexProofs.
From RipV Require Import Model.TailLoop Model.Cache Proofs.TailLoopProofs Proofs.CacheProofs
  Gen.TailLoops Proofs.CacheGenProofs.

(* ---------------------------------------------------------------- termination *)
(* The tail-doubling driver leaves within 1 + log2_up(MAX) - log2(tail_bytes) rounds from every state,
   for arbitrary constants, arbitrary scan results (any sidecar content, any length) and arbitrary
   accumulators — provided the cap break is there. *)
Theorem c04_terminates :
  forall (E A : Type) (c : cfg) (scan : N -> N -> sres E) (acc0 : A) (examine : A -> list E -> A) (done : A -> bool),
  l_cap_break c = true ->
  forall st : lstate A, 0 < s_tb st ->
  exists (n : nat) (fin : lstate A),
    (n <= rounds_bound c (s_tb st))%nat /\ iter c scan acc0 examine done n st = Some fin.
Proof. exact (@loop_terminates). Qed.
Print Assumptions c04_terminates.

Theorem c04_run_loop_total :
  forall (E A : Type) (c : cfg) (scan : N -> N -> sres E) (acc0 : A) (examine : A -> list E -> A) (done : A -> bool),
  l_cap_break c = true -> 0 < l_initial c ->
  exists fin, run_loop c scan acc0 examine done = Some fin.
Proof. exact (@run_loop_some). Qed.
Print Assumptions c04_run_loop_total.

(* hypotheses are satisfiable and the bound is tight: the real constants, a scan that never completes *)
Example c04_terminates_example :
  loop_wf s1_cfg_fixed = true /\
  rounds_bound s1_cfg_fixed (l_initial s1_cfg_fixed) = 6%nat /\
  iter s1_cfg_fixed s1_scan None s1_examine s1_done 5 (l_init s1_cfg_fixed None) = None /\
  option_map (@s_tb _) (iter s1_cfg_fixed s1_scan None s1_examine s1_done 6 (l_init s1_cfg_fixed None)) = Some 8388608.
Proof. exact fixed_demo. Qed.

(* S1 (fixed in /repo): without the cap break the driver has a fixpoint — no fuel suffices, from the
   initial state either *)
Theorem c04_status_diverges_refuted :
  exists (c : cfg) (scan : N -> N -> sres N) (st : lstate (option N)),
    l_cap_break c = false /\ 0 < l_initial c /\
    (forall fuel, iter c scan None s1_examine s1_done fuel st = None) /\
    (forall fuel, iter c scan None s1_examine s1_done fuel (l_init c None) = None).
Proof. exact status_diverges_unfixed. Qed.
Print Assumptions c04_status_diverges_refuted.

(* tie T1: the five loops as read from the current source all leave, within 6 rounds *)
Theorem c04_source_loops_terminate :
  forall c, In c gen_loops ->
  forall (E A : Type) (scan : N -> N -> sres E) (acc0 : A) (examine : A -> list E -> A) (done : A -> bool),
  exists fin, run_loop c scan acc0 examine done = Some fin.
Proof. exact gen_loops_terminate. Qed.
Print Assumptions c04_source_loops_terminate.

Theorem c04_source_loops_rounds :
  forall c, In c gen_loops -> (rounds_bound c (l_initial c) <= 6)%nat.
Proof. exact gen_loops_rounds. Qed.
Print Assumptions c04_source_loops_rounds.

(* ---------------------------------------------------------------- transparency *)
(* Full statement (DESIGN §4): for every reachable cache state outside the undetectable classes every
   query's fast path equals its truth path.  Proved below for the queries whose fast path reads the
   full sidecar only (replay, cursor status, rotate target, selection status, schedule-decision /
   job-outcome part of compaction status, branch / handoff cut) with Undetectable = K1; the queries over
   the derived sidecars and indexes have their own theorems further down (latest checkpoint and cut points: classes
   K2, K3; the context compiled for a run: class K2m, c04_compile_transparent_partial); the bounded inflight-job scan,
   hierarchical checkpoints through `.comp.idx` and the seek / message-id indexes are covered by the correspondence and
   the oracle only. *)
Definition c04_transparent_full : Prop :=
  forall (k : consts) (l : log) (s : sfile) (q : query) (a : list N),
    consts_wf k -> valid_log l = true -> FullFaithful l s ->
    q_fast k s l q = Some a -> a = q_truth k l q.

Theorem c04_transparent_partial :
  forall (k : consts) (l : log) (s : sfile) (q : query) (a : list N),
    consts_wf k -> valid_log l = true -> FullFaithful l s -> q <> QInflight ->
    q_fast k s l q = Some a -> a = q_truth k l q.
Proof. exact full_sidecar_transparent. Qed.
Print Assumptions c04_transparent_partial.

(* ... instantiated with the constants and loop shapes of the current source *)
Theorem c04_transparent_source_partial :
  forall (l : log) (s : sfile) (q : query) (a : list N),
    valid_log l = true -> FullFaithful l s -> q <> QInflight ->
    q_fast k_gen s l q = Some a -> a = q_truth k_gen l q.
Proof. exact gen_full_sidecar_transparent. Qed.
Print Assumptions c04_transparent_source_partial.

(* the building blocks, usable by C08/C10: what a bounded backward scan may return, and replay *)
Theorem c04_scan_returns_truth_tail :
  forall (l : log) (s : sfile), valid_log l = true -> FullFaithful l s ->
  forall me mb fs cpl, scan_tail s me mb = STail fs cpl ->
    (exists pre, l = pre ++ fs) /\ (cpl = true -> fs = l).
Proof. exact scan_tail_spec. Qed.
Print Assumptions c04_scan_returns_truth_tail.

Theorem c04_replay_transparent :
  forall (l : log) (s : sfile), valid_log l = true -> FullFaithful l s -> replay_fast s l = l.
Proof. exact replay_faithful. Qed.
Print Assumptions c04_replay_transparent.

(* an intact sidecar is faithful (so the hypotheses hold after every rebuild), and a concrete run *)
Theorem c04_intact_sidecar_faithful : forall l : log, FullFaithful l (Some (project_full l)).
Proof. exact project_full_faithful. Qed.
Print Assumptions c04_intact_sidecar_faithful.

Example c04_transparent_example :
  consts_wf k_small /\ valid_log wlog = true /\ FullFaithful wlog wside
  /\ q_fast k_small wside wlog (QSelection 3) = Some [2; 3; 1]
  /\ q_truth k_small wlog (QSelection 3) = [2; 3; 1].
Proof. exact transparent_example. Qed.

(* ---------------------------------------------------------------- the undetectable class K1 is not vacuous *)
Theorem c04_K1_changes_answer :
  valid_log wlog = true /\ ~ FullFaithful wlog wstale
  /\ q_fast k_small wstale wlog QReplay = Some [3; 0; 1; 2] /\ q_truth k_small wlog QReplay = [4; 0; 1; 2; 3]
  /\ q_fast k_small wstale wlog (QSelection 3) = Some [1; 1] /\ q_truth k_small wlog (QSelection 3) = [2; 3; 1].
Proof. exact K1_changes_answer. Qed.
Print Assumptions c04_K1_changes_answer.

(* ---------------------------------------------------------------- the defects fixed in /repo, on the unfixed skeletons *)
(* S2: accumulator not cleared per scan => duplicates *)
Theorem c04_selection_no_dup_refuted :
  selection_fast (wcfg true false true) 3 wside wlog = Some [3; 3; 3]
  /\ selection_truth 3 wlog = [3; 1].
Proof. exact selection_dup_unfixed. Qed.
Print Assumptions c04_selection_no_dup_refuted.

(* cap break without the truth fallback after a non-exhaustive scan *)
Theorem c04_cursor_no_fallback_refuted :
  option_map enc_cstat (cursor_status_fast (wcfg true true false) 32 (Some (project_full wlog2)) wlog2) = Some [1; 2; 1; 2]
  /\ enc_cstat (cursor_status_truth 32 wlog2) = [1; 2; 2; 1; 2].
Proof. exact cursor_no_fallback_unfixed. Qed.
Print Assumptions c04_cursor_no_fallback_refuted.

(* zero-byte sidecar / sidecar re-created by an append after its loss reported as complete history *)
Theorem c04_empty_sidecar_refuted :
  FullFaithful wlog (Some [])
  /\ selection_fast_with (scan_tail_unfixed (Some [])) (wcfg true true true) 3 (Some []) wlog = Some []
  /\ selection_fast (wcfg true true true) 3 (Some []) wlog = Some [3; 1].
Proof. exact empty_sidecar_unfixed. Qed.
Print Assumptions c04_empty_sidecar_refuted.

Theorem c04_recreated_suffix_refuted :
  FullFaithful wlog (Some [LGood wf2; LGood wf3])
  /\ selection_fast_with (scan_tail_unfixed (Some [LGood wf2; LGood wf3])) (wcfg true true true) 3 (Some [LGood wf2; LGood wf3]) wlog = Some [3]
  /\ selection_fast (wcfg true true true) 3 (Some [LGood wf2; LGood wf3]) wlog = Some [3; 1].
Proof. exact recreated_suffix_unfixed. Qed.
Print Assumptions c04_recreated_suffix_refuted.

(* inflight-job scan without a sidecar *)
Theorem c04_inflight_absent_refuted :
  inflight_fast_unfixed 512 524288 None = None
  /\ inflight_fast 512 524288 None wjob = Some 0
  /\ inflight_truth 512 524288 wjob = Some 0.
Proof. exact inflight_absent_unfixed. Qed.
Print Assumptions c04_inflight_absent_refuted.

(* why the bounded inflight-job scan is excluded above: in the model a faithful sidecar with an
   unparsable line of another length just outside the byte window gives a shorter window than the
   rebuilt sidecar does (not reached on the real code through the public API: notes/cache.md) *)
Theorem c04_inflight_window_model_refuted :
  valid_log wjob3 = true /\ FullFaithful wjob3 wshift
  /\ inflight_fast 512 20 wshift wjob3 = None /\ inflight_truth 512 20 wjob3 = Some 0.
Proof. exact inflight_window_shift. Qed.
Print Assumptions c04_inflight_window_model_refuted.

(* ---------------------------------------------------------------- the message ordinal index (derived cache, class K3) *)
(* appends never repair a misaligned index: it is refused by the count reader for ever *)
Theorem c04_ord_misaligned_stays_rejected :
  forall (recs : list N) (torn : N) (seqs : list N) (mr_last : ores N),
  torn <> 0 -> ord_count (fold_left ord_append seqs (OFile recs torn)) mr_last = OErr.
Proof. exact ord_append_never_repairs. Qed.
Print Assumptions c04_ord_misaligned_stays_rejected.

(* everything the count reader checks: alignment and the LAST record *)
Theorem c04_ord_count_accepts :
  forall (f : ofile) (mr_last : ores N) (n : N),
  ord_count f mr_last = OSome n ->
  exists recs last, f = OFile recs 0 /\ mr_last = OSome last /\ n = nlen recs /\ hd_error (rev recs) = Some last.
Proof. exact ord_count_accepts. Qed.
Print Assumptions c04_ord_count_accepts.

(* on the projection of the truth stream both readers answer from truth *)
Theorem c04_ord_projection_transparent :
  forall (msgs : list N) (last : N),
  hd_error (rev msgs) = Some last ->
  ord_count (OFile msgs 0) (OSome last) = OSome (nlen msgs)
  /\ forall k known, (forall m, In m msgs -> known m = true) -> 0 < k ->
       ord_by_ordinal (OFile msgs 0) known k =
       match nth_error msgs (N.to_nat (k - 1)) with Some m => OSome m | None => ONone end.
Proof. exact ord_projection_transparent. Qed.
Print Assumptions c04_ord_projection_transparent.

(* K3 is not vacuous: a record lost in the middle is accepted (count 2 of 3, ordinal 2 = third message) *)
Theorem c04_K3_changes_answer :
  ord_count (OFile [1; 5] 0) (OSome 5) = OSome 2
  /\ ord_by_ordinal (OFile [1; 5] 0) (fun _ => true) 2 = OSome 5
  /\ nlen [1; 3; 5] = 3 /\ nth_error [1; 3; 5] 1 = Some 3.
Proof. exact K3_changes_answer. Qed.
Print Assumptions c04_K3_changes_answer.

(* ---------------------------------------------------------------- the checkpoint sidecar (derived cache, class K2) *)
(* compaction_status_v1.latest_checkpoint through the `.comp.v1.jsonl` sidecar (as found, or built from the
   full sidecar's line headers), for all scan bounds: outside K1 and K2 it is the truth answer.  K2 is
   spelled out: the sidecar, when present, is the projection of the truth stream; when absent, a full sidecar
   without an unparsable line is the truth stream. *)
Theorem c04_latest_checkpoint_transparent_partial :
  forall (me mb : N) (comp full : sfile) (l : log),
  valid_log l = true -> log_lens_pos l = true -> FullFaithful l full -> CompFaithful l comp full ->
  status_ckpt_fast me mb comp full l = option_map fseq (latest_ckpt_truth U64MAX l).
Proof. exact status_ckpt_transparent. Qed.
Print Assumptions c04_latest_checkpoint_transparent_partial.

Example c04_latest_checkpoint_example :
  CompFaithful wlog3 (Some (comp_projection wlog3)) (Some (project_full wlog3))
  /\ CompFaithful wlog3 None (Some (project_full wlog3))
  /\ status_ckpt_fast 100 1000 (Some (comp_projection wlog3)) (Some (project_full wlog3)) wlog3 = Some 3
  /\ status_ckpt_fast 100 1000 None (Some (project_full wlog3)) wlog3 = Some 3.
Proof. exact status_ckpt_example. Qed.

(* K2 is not vacuous (S4): the sidecar re-created by the append of a later checkpoint with a smaller to_seq *)
Theorem c04_K2_changes_answer :
  valid_log wlog3 = true /\ log_lens_pos wlog3 = true /\ FullFaithful wlog3 (Some (project_full wlog3))
  /\ ~ CompFaithful wlog3 (Some [LGood (wck 4 1)]) (Some (project_full wlog3))
  /\ status_ckpt_fast 100 1000 (Some [LGood (wck 4 1)]) (Some (project_full wlog3)) wlog3 = Some 4
  /\ option_map fseq (latest_ckpt_truth U64MAX wlog3) = Some 3.
Proof. exact K2_changes_answer. Qed.
Print Assumptions c04_K2_changes_answer.

(* the order in which the checkpoint frames are met does not matter (sidecar scans are latest-first, the
   replay is oldest-first) *)
Theorem c04_latest_checkpoint_order_independent :
  forall (mt : N) (fs : list frame) (b : option frame), seq_inj fs ->
  latest_ckpt mt b (rev fs) = latest_ckpt mt b fs.
Proof. exact latest_ckpt_rev. Qed.
Print Assumptions c04_latest_checkpoint_order_independent.

(* ---------------------------------------------------------------- continuities/index.json (only the default-thread recovery is claimed) *)
Theorem c04_default_recovery :
  forall (ws : N) (cs : list created) (children : list N) (id : N),
  recover_default_fixed ws cs children = Some id -> exists c, In c cs /\ cr_id c = id /\ cr_ws c = ws.
Proof. exact default_recovery_existing_fixed. Qed.
Print Assumptions c04_default_recovery.

Theorem c04_default_recovery_creates_only_when_none :
  forall (ws : N) (cs : list created) (children : list N),
  recover_default_fixed ws cs children = None -> forall c, In c cs -> cr_ws c <> ws.
Proof. exact default_recovery_none_fixed. Qed.
Print Assumptions c04_default_recovery_creates_only_when_none.

(* the identity of the default is recovered whenever it is the only thread of the workspace that is not a branch /
   handoff child, however many children there are (S15, fixed in /repo: the scan skips threads whose stream carries a
   continuity_branched / continuity_handoff_created frame).  Still partial with respect to "the default thread": a
   workspace with several ROOT threads keeps the newest-root heuristic (the log does not record which one was default) *)
Theorem c04_default_recovery_identity_partial :
  forall (ws ts id : N) (others : list created) (children : list N),
  ~ In id children ->
  (forall c, In c others -> cr_ws c <> ws \/ In (cr_id c) children) ->
  recover_default_fixed ws ((ts, id, ws) :: others) children = Some id.
Proof. exact default_recovery_root. Qed.
Print Assumptions c04_default_recovery_identity_partial.

(* S15 on the scan before the fix (`recover_default` alone): default thread 1 created at t=100, its branch child 2 at
   t=105, same workspace key: the child was returned; the repaired scan returns thread 1 *)
Theorem c04_default_recovery_identity_refuted :
  recover_default 7 [(100, 1, 7); (105, 2, 7)] = Some 2
  /\ recover_default_fixed 7 [(100, 1, 7); (105, 2, 7)] [2] = Some 1.
Proof. exact default_recovery_child. Qed.
Print Assumptions c04_default_recovery_identity_refuted.

(* ---------------------------------------------------------------- zero-length derived sidecars (S4c, fixed in /repo) *)
(* a zero-length `.comp.v1.jsonl` is read as a lost sidecar (rebuilt from the full sidecar like a missing one); the reader
   before the fix scanned it as a complete empty history: "no checkpoint" on a thread whose latest checkpoint is frame 3.
   With the fix a zero-length file is OUTSIDE K2 (CompFaithful / CompFaithfulC / MrFaithful treat it as absent), so the
   transparency theorems above cover it. *)
Theorem c04_zero_length_checkpoint_sidecar_is_absent :
  forall (me mb : N) (full : sfile) (mt : N),
  latest_ckpt_cache me mb (Some []) full mt = latest_ckpt_cache me mb None full mt.
Proof. exact zero_length_comp_is_absent. Qed.
Print Assumptions c04_zero_length_checkpoint_sidecar_is_absent.

Theorem c04_zero_length_checkpoint_sidecar_refuted :
  latest_ckpt_cache_unfixed 100 1000 (Some []) (Some (project_full wlog3)) U64MAX = CkSome None
  /\ latest_ckpt_cache 100 1000 (Some []) (Some (project_full wlog3)) U64MAX = CkSome (Some (wck 3 2))
  /\ CompFaithful wlog3 (Some []) (Some (project_full wlog3)).
Proof. exact zero_length_comp_unfixed. Qed.
Print Assumptions c04_zero_length_checkpoint_sidecar_refuted.

(* ---------------------------------------------------------------- cut points through the caches *)
(* compaction_cut_points_v1 on a store whose ordinal index is the projection (count and ordinal look-ups
   answered from it: c04_ord_projection_transparent), with the per-cut-point checkpoint look-up through
   the `.comp` sidecar and all its fallbacks: outside K1 and K2 it is the truth answer, for all scan
   bounds, strides and limits. *)
Theorem c04_cut_points_fast_eq_truth_partial :
  forall (me mb : N) (comp full : sfile) (l : log) (stride limit : N),
  valid_log l = true -> log_lens_pos l = true -> FullFaithful l full -> CompFaithful l comp full ->
  cut_points_fast me mb comp full l stride limit = cut_points_truth l stride limit.
Proof. exact cut_points_fast_eq_truth. Qed.
Print Assumptions c04_cut_points_fast_eq_truth_partial.

(* the probe of DESIGN §0 (S4) in the model: only the newest checkpoint left in the sidecar *)
Theorem c04_K2_changes_cut_points :
  snd (cut_points_fast 100 1000 (Some [LGood (wck 4 1)]) (Some (project_full wlog3)) wlog3 1 2)
    = [ {| cp_ordinal := 2; cp_to_seq := 2; cp_already := false; cp_latest := None |};
        {| cp_ordinal := 1; cp_to_seq := 1; cp_already := true; cp_latest := Some 4 |} ]
  /\ snd (cut_points_truth wlog3 1 2)
    = [ {| cp_ordinal := 2; cp_to_seq := 2; cp_already := true; cp_latest := Some 3 |};
        {| cp_ordinal := 1; cp_to_seq := 1; cp_already := true; cp_latest := Some 4 |} ].
Proof. exact K2_changes_cut_points. Qed.
Print Assumptions c04_K2_changes_cut_points.

(* ... and with the ordinal-index route (count, ordinal look-ups, their fallbacks) in the model as well: outside
   K1, K2 and K3 the cut points are the truth answer.  K3 (¬OrdFaithful): the complete records of the index
   are not a prefix of the projection, or an aligned index is not all of it. *)
Theorem c04_cut_points_eq_truth_partial :
  forall (me mb : N) (comp full : sfile) (l : log) (ord : ofile) (known : N -> bool) (stride limit : N),
  valid_log l = true -> log_lens_pos l = true -> FullFaithful l full -> CompFaithful l comp full -> OrdFaithful l ord ->
  cut_points_ord me mb comp full l ord known stride limit = cut_points_truth l stride limit.
Proof. exact cut_points_ord_eq_truth. Qed.
Print Assumptions c04_cut_points_eq_truth_partial.

Theorem c04_K3_changes_cut_points :
  valid_log wlog5 = true /\ ~ OrdFaithful wlog5 (OFile [1; 5] 0)
  /\ fst (cut_points_ord 100 1000 None (Some (project_full wlog5)) wlog5 (OFile [1; 5] 0) (fun _ => true) 1 4) = 2
  /\ map cp_to_seq (snd (cut_points_ord 100 1000 None (Some (project_full wlog5)) wlog5 (OFile [1; 5] 0) (fun _ => true) 1 4)) = [5; 1]
  /\ fst (cut_points_truth wlog5 1 4) = 3
  /\ map cp_to_seq (snd (cut_points_truth wlog5 1 4)) = [5; 3; 1].
Proof. exact K3_changes_cut_points. Qed.
Print Assumptions c04_K3_changes_cut_points.

(* ---------------------------------------------------------------- the context compiled for a run *)
(* load_context_compile_input_recent_messages_v1 over the cache files AS FOUND — the messages+runs sidecar present with any
   content / absent and built from the full sidecar's lines / unreadable, the full sidecar's tail readable or not — with
   every failure leg and fallback of the loader (Model/CacheCompile.v), any schedule of scan budgets `ks`, any sound
   acceptance count `r`, followed by the context compiler (Model/Compile.v): decision and bundle are exactly what the
   full replay of the truth log gives, or both fail.  Hypotheses, spelled out: the thread's seqs increase and frames
   name earlier frames (C01 / fresh ids); outside K2m (MrFaithful: every suffix of the mr sidecar that parses is a suffix
   of the projection of truth, the whole file only the whole projection; absent: a full sidecar that parses is the truth
   stream); outside K1 as far as this reader looks (HeadFaithful: the full sidecar's last line, if it parses, is the
   thread's last frame); and — the part NOT modelled — the seek-window producer over the seek / message-id indexes
   answers, when it answers, with an admissible window (what C08 proves of the healthy one: c08_window_path_agrees).
   The checkpoint source of the compiler is the projection of the stream (the `.comp` look-ups are
   c04_latest_checkpoint_transparent_partial's subject). *)
Definition c04_compile_transparent_full : Prop :=
  forall (r : tail_count) (P : params) (texts : N -> N) (l : Compile.log) (a : N) (ks : list nat)
         (mr full : cfile) (window : option (Compile.log * N)),
  tail_count_sound r = true -> incr l -> wf_refs l = true ->
  MrFaithful l mr full -> HeadFaithful l full ->
  compile_fast r P texts ks mr full window l a = compile P texts l a.

Theorem c04_compile_transparent_partial :
  forall (r : tail_count) (P : params) (texts : N -> N) (l : Compile.log) (a : N) (ks : list nat)
         (mr full : cfile) (window : option (Compile.log * N)),
  tail_count_sound r = true -> incr l -> wf_refs l = true ->
  MrFaithful l mr full -> HeadFaithful l full -> WindowSpec (p_limit P) l a window ->
  compile_fast r P texts ks mr full window l a = compile P texts l a.
Proof. exact compile_input_transparent_stmt. Qed.
Print Assumptions c04_compile_transparent_partial.

(* ... instantiated with the limits, the checkpoint visibility rule and the acceptance count of the CURRENT source
   (Gen/CompileConsts.v, regenerated on every run; obligation gen_tail_count_ok) *)
Theorem c04_compile_transparent_source_partial :
  forall (texts : N -> N) (l : Compile.log) (a : N) (ks : list nat) (mr full : cfile) (window : option (Compile.log * N)),
  incr l -> wf_refs l = true ->
  MrFaithful l mr full -> HeadFaithful l full -> WindowSpec (p_limit p_gen) l a window ->
  compile_fast gen_tail_count p_gen texts ks mr full window l a = compile p_gen texts l a.
Proof. exact gen_compile_input_transparent. Qed.
Print Assumptions c04_compile_transparent_source_partial.

(* with the healthy seek window of C08 in the window's place (builder compile's mr_window over the projection at the thread's
   cut — the producer c08_window_path_agrees is about; its admissibility argument is reused) no hypothesis about the window
   is left: whatever the mr sidecar and the full sidecar's tail hold outside K2m / K1, tail loop -> window -> replay
   give the replay's answer *)
Theorem c04_compile_transparent_healthy_window :
  forall (r : tail_count) (P : params) (texts : N -> N) (l : Compile.log) (a : N) (ks : list nat) (mr full : cfile),
  tail_count_sound r = true -> incr l -> wf_refs l = true ->
  MrFaithful l mr full -> HeadFaithful l full ->
  compile_fast r P texts ks mr full (healthy_window (p_limit P) l a) l a = compile P texts l a.
Proof. exact compile_input_transparent_healthy_window. Qed.
Print Assumptions c04_compile_transparent_healthy_window.

(* with every cache file gone the loader IS the replay (the reference side of the oracle) *)
Theorem c04_compile_without_caches :
  forall (r : tail_count) (P : params) (texts : N -> N) (ks : list nat) (l : Compile.log) (a : N),
  compile_fast r P texts ks None None None l a = compile P texts l a.
Proof. exact no_caches_is_replay. Qed.
Print Assumptions c04_compile_without_caches.

(* the faithful class is wide: what a rebuild writes; any lines at all followed by an unparsable one and then a tail
   of the projection (garbage in the middle, a torn record, a torn LAST record with nothing behind it) *)
Theorem c04_mr_rebuilt_faithful : forall l : Compile.log, MrFileFaithful l (map CGood (filter mr_keep l)).
Proof. exact projection_file_faithful. Qed.
Print Assumptions c04_mr_rebuilt_faithful.

Theorem c04_mr_damaged_faithful :
  forall (l x0 x2 : Compile.log) (front : list cline),
  filter mr_keep l = x0 ++ x2 -> MrFileFaithful l ((front ++ [CBad]) ++ map CGood x2).
Proof. exact damaged_file_faithful. Qed.
Print Assumptions c04_mr_damaged_faithful.

(* hypotheses satisfiable, on a 40-message thread: intact caches (the first scan budget is refused, the second
   accepted), two garbage lines in the middle of the mr sidecar, a torn last line, no mr sidecar *)
Example c04_compile_transparent_example :
  Compile.valid_log cc_log = true /\ wf_refs cc_log = true
  /\ MrFaithful cc_log (Some cc_mr) cc_full /\ MrFaithful cc_log (Some cc_mr_damaged) cc_full
  /\ MrFaithful cc_log (Some cc_mr_torn) cc_full /\ MrFaithful cc_log None cc_full
  /\ HeadFaithful cc_log cc_full /\ (forall a, WindowSpec 16 cc_log a None)
  /\ users (compile_fast CountUpToCut code16 no_texts cc_ks (Some cc_mr_damaged) cc_full None cc_log 25) = map N.of_nat (seq 10 16)
  /\ users (compile code16 no_texts cc_log 25) = map N.of_nat (seq 10 16).
Proof. exact compile_transparent_example. Qed.

(* K2m is not vacuous (S4): the mr sidecar re-created by the append of the 40th message after its loss *)
Theorem c04_K2m_changes_answer :
  ~ MrFaithful cc_log (Some cc_mr_recreated) cc_full
  /\ HeadFaithful cc_log cc_full
  /\ users (compile_fast CountUpToCut code16 no_texts cc_ks (Some cc_mr_recreated) cc_full None cc_log 40) = [40]
  /\ users (compile code16 no_texts cc_log 40) = map N.of_nat (seq 25 16).
Proof. exact K2m_changes_answer. Qed.
Print Assumptions c04_K2m_changes_answer.

(* ... and neither is the soundness of the acceptance count (seeded change C04-6 / C08-2: `<= head_seq` for
   `<= from_seq`): with intact caches the first, too short window is accepted and the compiled context has 5 messages;
   with the caches removed it has the 16 the log determines *)
Theorem c04_compile_count_all_refuted :
  MrFaithful cc_log (Some cc_mr) cc_full /\ HeadFaithful cc_log cc_full
  /\ users (compile_fast CountAll code16 no_texts cc_ks (Some cc_mr) cc_full None cc_log 25) = [21; 22; 23; 24; 25]
  /\ users (compile_fast CountAll code16 no_texts cc_ks None None None cc_log 25) = map N.of_nat (seq 10 16)
  /\ users (compile code16 no_texts cc_log 25) = map N.of_nat (seq 10 16).
Proof. exact compile_count_all_changes_answer. Qed.
Print Assumptions c04_compile_count_all_refuted.

(* ---------------------------------------------------------------- ... and the compiler's checkpoint look-ups through `.comp` / `.comp.idx` *)
(* compile_cached = the loader above + latest_compaction_checkpoint_for_compile_v1 and
   hierarchical_compaction_checkpoints_for_compile_v1 over the checkpoint sidecar and its index AS FOUND (ensure-from-the-
   full-sidecar, the one bounded backward scan that must be complete, the reader's own latest-first fold, load / rebuild /
   reload of the index with its validation, the caches-behind-head guard, `Ok(Some)` else replay): the whole read side of
   a run's context.  Outside K2m, K1-at-the-head and K2 for these two files — CompFaithfulC: a checkpoint sidecar whose
   every line parses is the projection (absent: a full sidecar that parses is the truth stream); IdxFaithful: an index
   that loads (parses, non-empty, seqs non-decreasing) is the projection — decision and bundle are the replay's, for
   every scan bound `me`, level count and both visibility rules. *)
Theorem c04_compiled_context_transparent_partial :
  forall (r : tail_count) (P : params) (texts : N -> N) (l : Compile.log) (a : N) (ks : list nat) (me : nat)
         (mr full comp idx : cfile) (window : option (Compile.log * N)),
  tail_count_sound r = true -> incr l -> wf_refs l = true ->
  MrFaithful l mr full -> HeadFaithful l full -> WindowSpec (p_limit P) l a window ->
  CompFaithfulC l comp full -> IdxFaithful l idx ->
  compile_cached r P texts ks me mr full comp idx window l a = compile P texts l a.
Proof. exact compile_cached_transparent. Qed.
Print Assumptions c04_compiled_context_transparent_partial.

Theorem c04_compiled_context_transparent_source_partial :
  forall (texts : N -> N) (l : Compile.log) (a : N) (ks : list nat) (me : nat)
         (mr full comp idx : cfile) (window : option (Compile.log * N)),
  incr l -> wf_refs l = true ->
  MrFaithful l mr full -> HeadFaithful l full -> WindowSpec (p_limit p_gen) l a window ->
  CompFaithfulC l comp full -> IdxFaithful l idx ->
  compile_cached gen_tail_count p_gen texts ks me mr full comp idx window l a = compile p_gen texts l a.
Proof. exact gen_compile_cached_transparent. Qed.
Print Assumptions c04_compiled_context_transparent_source_partial.

(* the checkpoint reader folds latest-first with its own tie-break (larger to_seq, then larger seq); the replay folds in
   stream order (later frame wins a tie): the same checkpoint on every stream with increasing seqs *)
Theorem c04_checkpoint_reader_fold_agrees :
  forall (fixed : bool) (from : N) (evs : Compile.log), incr evs ->
  fold_left (latest_step_cache fixed from) (rev evs) None = latest_any fixed from evs.
Proof. exact cache_fold_is_latest_any. Qed.
Print Assumptions c04_checkpoint_reader_fold_agrees.

(* hypotheses satisfiable: 8 messages, cumulative checkpoints to messages 4 and 8, one more message; intact caches / a
   checkpoint sidecar with an unparsable line + an index that does not load / neither file *)
Example c04_compiled_context_example :
  Compile.valid_log ck_log = true /\ wf_refs ck_log = true
  /\ MrFaithful ck_log ck_mr ck_full /\ HeadFaithful ck_log ck_full
  /\ CompFaithfulC ck_log (Some ck_comp) ck_full /\ CompFaithfulC ck_log (Some ck_comp_damaged) ck_full /\ CompFaithfulC ck_log None ck_full
  /\ IdxFaithful ck_log (Some ck_comp) /\ IdxFaithful ck_log (Some ck_idx_garbage) /\ IdxFaithful ck_log None
  /\ summaries (compile_cached CountUpToCut code16 no_texts [20%nat] 100%nat ck_mr ck_full (Some ck_comp) (Some ck_comp) None ck_log 11) = [4; 8]
  /\ summaries (compile_cached CountUpToCut code16 no_texts [20%nat] 100%nat ck_mr ck_full (Some ck_comp_damaged) (Some ck_idx_garbage) None ck_log 11) = [4; 8]
  /\ summaries (compile_cached CountUpToCut code16 no_texts [20%nat] 100%nat ck_mr ck_full None None None ck_log 11) = [4; 8]
  /\ summaries (compile code16 no_texts ck_log 11) = [4; 8]
  /\ users (compile code16 no_texts ck_log 11) = [11].
Proof. exact ck_examples. Qed.

(* K2 is not vacuous for the compiled context (S4): the checkpoint sidecar re-created by one append, index built from it:
   one summary ref and four messages too many *)
Theorem c04_K2_changes_compiled_context :
  ~ CompFaithfulC ck_log (Some ck_comp_recreated) ck_full
  /\ summaries (compile_cached CountUpToCut code16 no_texts [20%nat] 100%nat ck_mr ck_full (Some ck_comp_recreated) None None ck_log 11) = [4]
  /\ users (compile_cached CountUpToCut code16 no_texts [20%nat] 100%nat ck_mr ck_full (Some ck_comp_recreated) None None ck_log 11) = [5; 6; 7; 8; 11]
  /\ summaries (compile code16 no_texts ck_log 11) = [4; 8]
  /\ users (compile code16 no_texts ck_log 11) = [11].
Proof. exact K2_changes_compiled_context. Qed.
Print Assumptions c04_K2_changes_compiled_context.

(* ---------------------------------------------------------------- an ordinal index whose count was rejected (C04-F3, fixed in /repo) *)
(* message_count_messages_runs_v1 rejects an index whose last record is not the thread's last message and cut points take
   the count from the replay — but every ordinal was still looked up in that same index first, so an index that had lost a
   record in the middle AND its newest records resolved an ordinal to a later message (found by the thorough tier, seed 2).
   Since the fix the message list of the replay, once in hand, answers the look-ups: for ANY content of the ordinal index
   that fails the count check the cut points are the truth answer (no hypothesis about the index: K3 is left only for an
   index that passes the check). *)
Theorem c04_cut_points_rejected_index_not_consulted :
  forall (me mb : N) (comp full : sfile) (l : log) (ord : ofile) (known : N -> bool) (stride limit : N),
  valid_log l = true -> log_lens_pos l = true -> FullFaithful l full -> CompFaithful l comp full ->
  (forall n, ord_count ord (mr_last_of l) <> OSome n) ->
  cut_points_ord me mb comp full l ord known stride limit = cut_points_truth l stride limit.
Proof. exact cut_points_rejected_index_eq_truth. Qed.
Print Assumptions c04_cut_points_rejected_index_not_consulted.

(* the route before the fix: messages 1,3,5,7, index [1;5]: count rejected, ordinal 2 resolved to message 5 *)
Theorem c04_cut_points_rejected_index_refuted :
  valid_log wlog7 = true
  /\ ord_count (OFile [1; 5] 0) (mr_last_of wlog7) = OErr
  /\ map cp_to_seq (snd (cut_points_ord_unfixed 100 1000 None (Some (project_full wlog7)) wlog7 (OFile [1; 5] 0) (fun _ => true) 2 4)) = [7; 5]
  /\ map cp_to_seq (snd (cut_points_ord 100 1000 None (Some (project_full wlog7)) wlog7 (OFile [1; 5] 0) (fun _ => true) 2 4)) = [7; 3]
  /\ map cp_to_seq (snd (cut_points_truth wlog7 2 4)) = [7; 3].
Proof. exact rejected_index_unfixed. Qed.
Print Assumptions c04_cut_points_rejected_index_refuted.

(* ---------------------------------------------------------------- the seek index and the full-sidecar window read (Model/SeekIndex.v) *)
(* The compile input's producer when the messages+runs sidecar cannot be used: window_recent_messages_v1_from_seq over the
   full sidecar, which looks up "the greatest seek entry with seq <= target" twice (boundary_pos_for_seq_v1, the first frame
   of the window in window_recent_messages_v1_from_cut_v1).  Offsets in lines; the backward header scan taken to its
   fixpoint.  On an intact full sidecar, FOR EVERY STRIDE, limit and cut — whatever the position of the cut and of the
   window's first frame relative to the entries — the window read is the index-free specification: the messages and
   run_ended frames from the limit-th message at or below the cut (or the start of the thread) up to the cut. *)
Theorem c04_seek_window_transparent :
  forall (stride : N) (limit : nat) (l : Compile.log) (from : N),
  Compile.valid_log l = true ->
  seek_window best_offset stride limit l from = window_spec limit l from.
Proof. exact seek_window_correct. Qed.
Print Assumptions c04_seek_window_transparent.

(* what the window read needs of the lookup: it never starts beyond its target (any such lookup gives the same window) *)
Theorem c04_seek_window_any_sound_lookup :
  forall (look : list SeekIndex.entry -> N -> N) (stride : N) (limit : nat) (l : Compile.log) (from : N),
  Compile.valid_log l = true ->
  (forall t, look (seek_index stride l) t <= t) ->
  seek_window look stride limit l from = window_spec limit l from.
Proof. exact seek_window_sound. Qed.
Print Assumptions c04_seek_window_any_sound_lookup.

(* the lookup of the code on the index of an intact sidecar: the entry it returns is in the index, at or below the target,
   points at the frame of its seq, and every entry at or below the target is at or below it (the next entry is beyond the
   target); no entry at or below the target => offset 0 *)
Theorem c04_seek_lookup_greatest_entry_at_or_below :
  forall (stride : N) (l : Compile.log) (t : N),
  Compile.valid_log l = true ->
  match best_entry (seek_index stride l) t None with
  | Some e => In e (seek_index stride l) /\ fst e <= t /\ snd e = fst e
              /\ forall e', In e' (seek_index stride l) -> fst e' <= t -> fst e' <= fst e
  | None => forall e', In e' (seek_index stride l) -> t < fst e'
  end.
Proof. exact seek_lookup_spec. Qed.
Print Assumptions c04_seek_lookup_greatest_entry_at_or_below.

(* every offset class relative to the stride on a concrete thread (stride 4, 11 messages, entries 0 / 4 / 8, limit 2):
   cut = entry - 1, entry, entry + 1, mid-stride, last entry - 1, last entry, last entry + 1, the tail *)
Example c04_seek_window_positions :
  seek_index 4 sw_thread = [(0, 0); (4, 4); (8, 8)]
  /\ map (fun from => seqs (seek_window best_offset 4 2 sw_thread from)) [3; 4; 5; 6; 7; 8; 9; 10]
     = [[2; 3]; [3; 4]; [4; 5]; [5; 6]; [6; 7]; [7; 8]; [8; 9]; [9; 10]]
  /\ map (fun from => seqs (window_spec 2 sw_thread from)) [3; 4; 5; 6; 7; 8; 9; 10]
     = [[2; 3]; [3; 4]; [4; 5]; [5; 6]; [6; 7]; [7; 8]; [8; 9]; [9; 10]].
Proof. exact seek_window_positions. Qed.
Print Assumptions c04_seek_window_positions.

(* the lookup "first entry with seq >= target, else the last" (entries.partition_point(|e| e.seq < target); seed C04-11):
   one entry too far for every target that is not itself an entry and lies below the last one.  The window comes back
   EMPTY for the cuts 3, 6, 7 (the caller takes Ok(Some(window)) and never reaches the replay), short of its older message
   for 4, 5, 8, and right only where the whole window lies beyond the last entry *)
Theorem c04_seek_window_next_entry_refuted :
  Compile.valid_log sw_thread = true
  /\ best_offset (seek_index 4 sw_thread) 6 = 4 /\ best_offset_next (seek_index 4 sw_thread) 6 = 8
  /\ seqs (seek_window best_offset_next 4 2 sw_thread 6) = []
  /\ seqs (window_spec 2 sw_thread 6) = [5; 6]
  /\ map (fun from => seqs (seek_window best_offset_next 4 2 sw_thread from)) [3; 4; 5; 7; 8; 9; 10]
     = [[]; [4]; [4; 5]; []; [8]; [8; 9]; [9; 10]].
Proof. exact seek_window_next_entry_refuted. Qed.
Print Assumptions c04_seek_window_next_entry_refuted.

Theorem c04_seek_window_next_entry_exists_refuted :
  exists (stride : N) (limit : nat) (l : Compile.log) (from : N), Compile.valid_log l = true
    /\ seek_window best_offset_next stride limit l from <> window_spec limit l from.
Proof. exact seek_window_next_entry_exists. Qed.
Print Assumptions c04_seek_window_next_entry_exists_refuted.

(* ---------------------------------------------------------------- the compile input with the full-sidecar window in the window's place *)
(* the index-free window is admissible for the compiler (a suffix of the projection of the thread up to the cut that is all of
   it or holds `limit` messages): the argument of c08_window_path_agrees, for the window the full-sidecar read produces *)
Theorem c04_seek_window_admissible :
  forall (limit : nat) (l : Compile.log) (from : N),
  incr l -> admissible_input mr_keep limit l from (window_spec limit l from).
Proof. exact window_spec_admissible. Qed.
Print Assumptions c04_seek_window_admissible.

(* tail loop -> full-sidecar window over the seek index (the lookup of the code, any stride) -> replay: whatever the mr sidecar
   and the full sidecar's tail hold outside K2m / K1-at-the-head, on a thread whose frames carry seq 0,1,2,.. (the intact full
   sidecar IS that thread: its lines are read by offset), the loader followed by the compiler gives the replay's decision
   and bundle — no hypothesis about the window is left.  (The message-id index that finds the anchor's line is not modelled.) *)
Theorem c04_compile_transparent_seek_window :
  forall (r : tail_count) (P : params) (texts : N -> N) (l : Compile.log) (a : N) (ks : list nat)
         (mr full : cfile) (stride : N),
  tail_count_sound r = true -> Compile.valid_log l = true -> wf_refs l = true ->
  MrFaithful l mr full -> HeadFaithful l full ->
  compile_fast r P texts ks mr full (full_sidecar_window best_offset stride (p_limit P) l a) l a = compile P texts l a.
Proof. exact compile_input_transparent_seek_window. Qed.
Print Assumptions c04_compile_transparent_seek_window.

(* with the off-by-one lookup the loader's window for the anchor at seq 6 is Some (no events): the caller returns it *)
Theorem c04_full_sidecar_window_next_entry_refuted :
  option_map (fun w => seqs (fst w)) (full_sidecar_window best_offset_next 4 2 sw_thread 6) = Some []
  /\ option_map (fun w => seqs (fst w)) (full_sidecar_window best_offset 4 2 sw_thread 6) = Some [5; 6]
  /\ cut_point sw_thread 6 = Some 6.
Proof. exact full_sidecar_window_next_entry_refuted. Qed.
Print Assumptions c04_full_sidecar_window_next_entry_refuted.
