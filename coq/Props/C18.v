(* C18 — A store never has two authorities; a live authority's lock is never taken.
   Statements only; proofs are in Proofs/AuthorityInv.v (invariant) and Proofs/AuthorityProofs.v (witnesses).
   Every theorem is closed by `exact`.

   Vocabulary (Model/Authority.v, Proofs/AuthorityInv.v):
   * run ag s es      — the model after the schedule es (Step i o = one file-system operation of process i with
                        adversarial environment answers o; Crash i); ag = the 1 s invalid-lock timer is long enough.
   * init l m ps      — leftover files l (lock.json) / m (meta.json) and the process list ps;
     init_ok l m ps   — distinct pids; every process is a fresh server loop, a fresh client loop, or a live serving
                        authority whose record is in the lock; a lock / meta pid that is alive belongs to such an
                        authority (i.e. every other leftover is absent, half-written or of a DEAD pid).
   * holders s        — pids of the live processes that own an AuthorityLockGuard.
   * s_took_lock / s_took_meta — ghost flags: some process renamed or removed the lock / meta of ANOTHER LIVE pid.
   * no_overlap ag s es — along the schedule no exclusive create succeeds while ANOTHER live contender is between
                        the check and the rename of a lock cleanup (pc StRename / CoExists / CoMetaExists / CoRename),
                        and no meta.json is published while another live contender is between reading the dead
                        authority's meta and renaming it (pc StMetaRename).  The three known findings S13 / S13b /
                        S13c are exactly the schedules excluded by it (c18_witnesses_are_overlaps). *)
From RipV Require Import Base.Prelude Model.Authority Proofs.AuthorityInv Proofs.AuthorityLive Proofs.AuthorityTake Proofs.AuthorityProofs.
From RipV Require Import Proofs.AuthorityFair Proofs.AuthorityRounds Proofs.AuthorityFresh.
From RipV Require Import Model.AuthorityGrace Proofs.AuthorityGraceProofs Proofs.AuthorityBridge.
From RipV Require Import Model.AuthorityProbe Proofs.AuthorityProbeProofs.

(* ---- exclusive create: no dead leftovers (no files at all), ANY number of contenders, ANY crash-free schedule *)
Theorem c18_mutex_no_leftovers : forall (ps : list proc) (es : list event),
  contenders_ok ps -> crash_free es = true ->
  (length (holders (run true (init LAbsent MAbsent ps) es)) <= 1)%nat
  /\ (forall p, In p (holders (run true (init LAbsent MAbsent ps) es)) ->
                lock_pid (s_lock (run true (init LAbsent MAbsent ps) es)) = Some p).
Proof. exact mutex_no_leftovers. Qed.
Print Assumptions c18_mutex_no_leftovers.

(* crash_free cannot be dropped: three servers, no files; the first acquires and crashes, the other two run into S13 *)
Theorem c18_mutex_no_leftovers_needs_crash_free :
  exists sched : list event,
    holders (run true (init LAbsent MAbsent three_servers) sched) = [2; 3]
    /\ s_took_lock (run true (init LAbsent MAbsent three_servers) sched) = true.
Proof. exact no_leftovers_needs_crash_free. Qed.
Print Assumptions c18_mutex_no_leftovers_needs_crash_free.

(* the same with the files of a live serving authority as the leftover; also: nothing of a live pid is ever taken *)
Theorem c18_mutex_no_dead_leftovers : forall (l : lockf) (m : metaf) (ps : list proc) (es : list event),
  init_ok l m ps ->
  (forall p, lock_pid l = Some p -> pid_alive ps p = true) ->
  (forall p, meta_pid m = Some p -> pid_alive ps p = true) ->
  crash_free es = true ->
  (length (holders (run true (init l m ps) es)) <= 1)%nat
  /\ (forall p, In p (holders (run true (init l m ps) es)) -> lock_pid (s_lock (run true (init l m ps) es)) = Some p)
  /\ s_took_lock (run true (init l m ps) es) = false /\ s_took_meta (run true (init l m ps) es) = false.
Proof. exact mutex_no_dead_leftovers. Qed.
Print Assumptions c18_mutex_no_dead_leftovers.

(* ---- ALL schedules, every leftover state, any number of contenders, crashes anywhere, timer assumption or not:
   mutual exclusion can only be lost by renaming / removing the lock file of another LIVE pid — as long as that has not
   happened there is at most one authority and the lock carries its record *)
Theorem c18_two_authorities_only_by_taking_a_live_lock :
  forall (ag : bool) (l : lockf) (m : metaf) (ps : list proc) (es : list event),
  init_ok l m ps ->
  s_took_lock (run ag (init l m ps) es) = false ->
  (length (holders (run ag (init l m ps) es)) <= 1)%nat
  /\ (forall p, In p (holders (run ag (init l m ps) es)) -> lock_pid (s_lock (run ag (init l m ps) es)) = Some p).
Proof. exact two_authorities_only_by_taking. Qed.
Print Assumptions c18_two_authorities_only_by_taking_a_live_lock.

Example c18_not_taken_example :
  s_took_lock (run true s13c_init serial_sched) = false /\ holders (run true s13c_init serial_sched) = [1]
  /\ s_took_lock (run false empty_init grace_sched) = true.
Proof. exact not_taken_example. Qed.

(* ---- "a live authority's lock is never taken", unconditionally: while the authority b that holds the lock lives (no
   event of process 0: it neither crashes nor shuts down), NO schedule of ANY contenders, crashing wherever they like,
   with any leftover meta.json, timer assumption or not, changes lock.json or meta.json, and nobody else ever holds *)
Theorem c18_live_authority_never_disturbed :
  forall (ag : bool) (b : pid) (m : metaf) (cs : list proc) (es : list event),
  (forall q, In q cs -> contender q) ->
  (forall e, In e es -> ev_idx e <> 0%nat) ->
  s_lock (run ag (init (LRec b) m (serving b :: cs)) es) = LRec b
  /\ s_meta (run ag (init (LRec b) m (serving b :: cs)) es) = m
  /\ holders (run ag (init (LRec b) m (serving b :: cs)) es) = [b]
  /\ s_took_lock (run ag (init (LRec b) m (serving b :: cs)) es) = false
  /\ s_took_meta (run ag (init (LRec b) m (serving b :: cs)) es) = false.
Proof. exact live_authority_never_disturbed. Qed.
Print Assumptions c18_live_authority_never_disturbed.

Example c18_undisturbed_example :
  (forall q, In q [fresh 1 DServer; fresh 2 DClient] -> contender q)
  /\ (forall e, In e bystander_sched -> ev_idx e <> 0%nat).
Proof. exact undisturbed_example. Qed.

(* ---- every leftover state, any number of contenders, crashes anywhere, every schedule whose cleanups do not overlap
   another contender's acquire: at most one holder, and the lock file carries the holder's record *)
Theorem c18_mutex_serial_cleanup : forall (l : lockf) (m : metaf) (ps : list proc) (es : list event),
  init_ok l m ps -> no_overlap true (init l m ps) es = true ->
  (length (holders (run true (init l m ps) es)) <= 1)%nat
  /\ (forall p, In p (holders (run true (init l m ps) es)) -> lock_pid (s_lock (run true (init l m ps) es)) = Some p).
Proof. exact mutex_serial_cleanup. Qed.
Print Assumptions c18_mutex_serial_cleanup.

(* ---- ... and under the same hypothesis recovery renames / removes only files of pids that are dead (partial: the
   missing hypothesis is no_overlap; the full statement is c18_live_files_never_taken_full below, refuted) *)
Theorem c18_live_lock_never_taken_partial : forall (l : lockf) (m : metaf) (ps : list proc) (es : list event),
  init_ok l m ps -> no_overlap true (init l m ps) es = true ->
  s_took_lock (run true (init l m ps) es) = false /\ s_took_meta (run true (init l m ps) es) = false.
Proof. exact live_files_never_taken. Qed.
Print Assumptions c18_live_lock_never_taken_partial.

(* the hypotheses are satisfiable by non-trivial runs *)
Example c18_serial_example :
  init_ok (LRec 900) (MRec 900) two_servers
  /\ no_overlap true s13c_init serial_sched = true
  /\ holders (run true s13c_init serial_sched) = [1]
  /\ s_lock (run true s13c_init serial_sched) = LRec 1 /\ s_meta (run true s13c_init serial_sched) = MRec 1.
Proof. exact serial_example. Qed.
Example c18_interleaved_example :
  no_overlap true s13_init interleaved_sched = true
  /\ (length (holders (run true s13_init interleaved_sched)) <= 1)%nat.
Proof. exact interleaved_example. Qed.
Example c18_bystander_example : init_ok (LRec 800) (MRec 800) with_bystander
  /\ (forall p, lock_pid (LRec 800) = Some p -> pid_alive with_bystander p = true)
  /\ (forall p, meta_pid (MRec 800) = Some p -> pid_alive with_bystander p = true).
Proof. exact bystander_ok. Qed.
Example c18_no_leftovers_example :
  contenders_ok three_contenders /\ crash_free race_sched = true
  /\ holders (run true (init LAbsent MAbsent three_contenders) race_sched) = [1].
Proof. exact no_leftovers_example. Qed.

(* ---- a crashed store becomes usable again (partial: the contender is scheduled alone; the other contenders, any
   number, are idle).  dead_leftover ps l m = every pid in lock.json (record or half-written) and meta.json is dead —
   ALL such leftovers, since fix S23.  Step i 2 = endpoint unreachable, 1 s timer elapsed, deadline not passed *)
Theorem c18_recovers_partial : forall (l : lockf) (m : metaf) (ps : list proc) (i : nat) (me : pid),
  (forall q, In q ps -> contender q) -> nth_error ps i = Some (fresh me DServer) -> dead_leftover ps l m ->
  exists n, (n <= 15)%nat
    /\ holders (run true (init l m ps) (repeat (Step i 2) n)) = [me]
    /\ s_lock (run true (init l m ps) (repeat (Step i 2) n)) = LRec me
    /\ s_meta (run true (init l m ps) (repeat (Step i 2) n)) = MRec me
    /\ s_took_lock (run true (init l m ps) (repeat (Step i 2) n)) = false
    /\ s_took_meta (run true (init l m ps) (repeat (Step i 2) n)) = false.
Proof. exact recovers_solo. Qed.
Print Assumptions c18_recovers_partial.

Example c18_recovers_example :
  (forall q, In q two_servers -> contender q) /\ nth_error two_servers 1 = Some (fresh 2 DServer)
  /\ dead_leftover two_servers (LRec 900) (MRec 901) /\ dead_leftover two_servers (LHalf 900) (MRec 901).
Proof. exact recovers_example. Qed.

(* ---- finding S23 (fixed in /repo): BEFORE the fix (run_unfixed: corrupt cleanup refuses whenever meta.json exists) a
   half-written lock next to any meta.json was never cleaned — corrupt cleanup refused because meta.json exists, stale
   cleanup because the lock has no record.  For ALL contenders, ALL schedules (crashes or not, timer assumption or not)
   nobody ever became the authority again *)
Theorem c18_unfixed_wedged_half_lock_with_meta : forall (ag : bool) (d d' : pid) (ps : list proc) (es : list event),
  (forall q, In q ps -> contender q) ->
  holders (run_unfixed ag (init (LHalf d) (MRec d') ps) es) = []
  /\ s_lock (run_unfixed ag (init (LHalf d) (MRec d') ps) es) = LHalf d
  /\ s_meta (run_unfixed ag (init (LHalf d) (MRec d') ps) es) = MRec d'.
Proof. exact unfixed_wedged_half_lock_with_meta. Qed.
Print Assumptions c18_unfixed_wedged_half_lock_with_meta.

(* ---- finding S24 (fixed in /repo): a meta.json of a dead pid WITHOUT a lock.json used to keep every client loop away from
   its spawn branch forever.  Now the client loop, scheduled alone among any idle processes, is after 3 steps at the
   "lock.json exists?" test of its meta branch (pc LockExistsM) with the lock absent — the point from which the code spawns
   an authority — and nothing was changed on disk *)
Theorem c18_client_reaches_spawn : forall (d' : pid) (ps : list proc) (i : nat) (me : pid),
  nth_error ps i = Some (fresh me DClient) -> pid_alive ps d' = false ->
  nth_error (s_procs (run true (init LAbsent (MRec d') ps) (repeat (Step i 0) 3))) i = Some (cli me (LockExistsM d') 0)
  /\ s_lock (run true (init LAbsent (MRec d') ps) (repeat (Step i 0) 3)) = LAbsent
  /\ s_meta (run true (init LAbsent (MRec d') ps) (repeat (Step i 0) 3)) = MRec d'.
Proof. exact client_reaches_spawn. Qed.
Print Assumptions c18_client_reaches_spawn.

(* ---- the full statements, and that the faithful model REFUTES them (S13) *)
Definition c18_mutex_all_schedules : Prop := mutex_all_schedules_full.
Theorem c18_mutex_all_schedules_false : ~ c18_mutex_all_schedules.
Proof. exact mutex_all_schedules_full_false. Qed.
Print Assumptions c18_mutex_all_schedules_false.

Definition c18_live_files_never_taken_full : Prop := live_files_never_taken_full.
Theorem c18_live_files_never_taken_full_false : ~ c18_live_files_never_taken_full.
Proof. exact live_files_never_taken_full_false. Qed.
Print Assumptions c18_live_files_never_taken_full_false.

(* S13 — a stale lock of a dead pid (s13_init = init (LRec 900) MAbsent [fresh 1 DServer; fresh 2 DServer]), two
   server loops, both pass the re-read before either renames *)
Theorem c18_mutex_all_schedules_refuted :
  exists sched : list event,
    holders (run true s13_init sched) = [1; 2] /\ s_took_lock (run true s13_init sched) = true.
Proof. exact mutex_all_schedules_refuted. Qed.
Print Assumptions c18_mutex_all_schedules_refuted.

(* S13b — half-written lock of a dead creator (s13b_init = init (LHalf 900) MAbsent [two servers]) *)
Theorem c18_corrupt_cleanup_race_refuted :
  exists sched : list event,
    holders (run true s13b_init sched) = [1; 2] /\ s_took_lock (run true s13b_init sched) = true.
Proof. exact corrupt_cleanup_race_refuted. Qed.
Print Assumptions c18_corrupt_cleanup_race_refuted.

(* S13c — s13c_init = init (LRec 900) (MRec 900) [two servers]: the meta.json of the new, live authority is renamed *)
Theorem c18_meta_of_live_authority_taken_refuted :
  exists sched : list event,
    holders (run true s13c_init sched) = [2] /\ s_lock (run true s13c_init sched) = LRec 2
    /\ s_meta (run true s13c_init sched) = MAbsent
    /\ s_took_meta (run true s13c_init sched) = true /\ s_took_lock (run true s13c_init sched) = false.
Proof. exact meta_of_live_authority_taken_refuted. Qed.
Print Assumptions c18_meta_of_live_authority_taken_refuted.

(* the three witnesses are schedules the hypothesis of the positive theorems excludes *)
Theorem c18_witnesses_are_overlaps :
  no_overlap true s13_init s13_sched = false /\ no_overlap true s13b_init s13b_sched = false
  /\ no_overlap true s13c_init s13c_sched = false.
Proof. exact witnesses_overlap. Qed.
Print Assumptions c18_witnesses_are_overlaps.

(* the half-written lock of a live, slow acquirer is protected only by the 1 s timer
   (empty_init = init LAbsent MAbsent [two servers]; run false = timer answers fully adversarial) *)
Theorem c18_corrupt_cleanup_needs_grace :
  exists sched : list event,
    holders (run false empty_init sched) = [1; 2] /\ holders (run true empty_init sched) = [1].
Proof. exact corrupt_cleanup_needs_grace. Qed.
Print Assumptions c18_corrupt_cleanup_needs_grace.

(* ==== recovery with SEVERAL contenders, arbitrary interleaving ======================================================
   servers ps          — ps is a non-empty list of fresh server loops (any number, any pids);
   dead_leftover ps l m — every pid named by the leftover lock.json / meta.json is dead (absent, half-written, record);
   calm es             — the schedule es is crash-free, the endpoint of the dead authority is unreachable (ping bit 0) and
                         no contender's 2 s deadline has passed (bit 2 = 0); the 1 s timer bit is free.
   At EVERY point of EVERY such schedule — races S13 / S13b / S13c included — either an authority has already emerged
   (some prefix of the schedule has a holder), or some contender, given at most 20 uninterrupted steps of its own (timer
   expired), becomes the authority: no reachable state is a wedge.  A fair scheduler that eventually leaves some contender
   alone for 20 steps therefore recovers the store.  (Termination under round fairness: next theorem.) *)
Theorem c18_recovers_from_every_reachable_state :
  forall (l : lockf) (m : metaf) (ps : list proc) (es : list event),
  servers ps -> dead_leftover ps l m -> calm es = true ->
  (exists es1 es2 : list event, es = es1 ++ es2 /\ holders (run true (init l m ps) es1) <> [])
  \/ (exists (i n : nat), (n <= 20)%nat /\ holders (run true (init l m ps) (es ++ repeat (Step i 2) n)) <> []).
Proof. exact recovers_from_every_reachable_state. Qed.
Print Assumptions c18_recovers_from_every_reachable_state.

Example c18_recovers_fair_example :
  servers fair_two /\ dead_leftover fair_two (LRec 900) MAbsent /\ calm mid_race = true
  /\ holders (run true (init (LRec 900) MAbsent fair_two) mid_race) = []
  /\ holders (run true (init (LRec 900) MAbsent fair_two) (mid_race ++ repeat (Step 0%nat 2) 4)) = [1].
Proof. exact fair_example. Qed.

(* ---- FAIR schedules.  A round is a piece of schedule in which EVERY contender takes at least one step (any order, any
   multiplicity; covers n r), all steps calm and with the 1 s timer expired (fair r: ping bit 0, deadline bit 0, timer bit 1);
   rounds_of n rs: rs is a list of such rounds.  Every schedule made of 15 rounds — however the contenders interleave inside
   the rounds, races S13 / S13b / S13c included — contains a point at which an authority holds the store.  (Rank argument:
   the minimum over the contenders of the own steps still needed to reach the next rename / create / write never increases
   and decreases in every round; initially <= 14.) *)
Theorem c18_recovers_under_fair_rounds :
  forall (l : lockf) (m : metaf) (ps : list proc) (rs : list (list event)),
  servers ps -> dead_leftover ps l m -> rounds_of (length ps) rs -> (15 <= length rs)%nat ->
  exists es1 es2 : list event, concat rs = es1 ++ es2 /\ holders (run true (init l m ps) es1) <> [].
Proof. exact recovers_under_fair_rounds. Qed.
Print Assumptions c18_recovers_under_fair_rounds.

Example c18_fair_rounds_example :
  servers fair_two /\ dead_leftover fair_two (LRec 900) (MRec 900)
  /\ rounds_of (length fair_two) (repeat rr_round 15) /\ (15 <= length (repeat rr_round 15))%nat
  /\ holders (run true (init (LRec 900) (MRec 900) fair_two) (concat (repeat rr_round 11))) = []
  /\ holders (run true (init (LRec 900) (MRec 900) fair_two) (concat (repeat rr_round 12))) = [1].
Proof. exact fair_rounds_example. Qed.

(* ---- crashes DURING recovery, arbitrary environment answers: whatever any number of server loops (distinct pids) did on a
   store with an all-dead leftover — any interleaving, any of them crashing anywhere (a contender that crashes between its
   exclusive create and its write leaves a NEW half-written lock of a dead pid), any ping / timer / deadline answers —
   as long as none of them has become the authority: a FRESH server loop (process i, never scheduled in es) that is then left
   alone becomes the authority within 20 steps, unless a LIVE contender is between its create and its write (one own step
   from the guard).  "A store whose previous authority crashed becomes usable again" for every crash point of the recovery. *)
Theorem c18_fresh_start_recovers :
  forall (l : lockf) (m : metaf) (ps : list proc) (es : list event) (i : nat) (me : pid),
  (forall q, In q ps -> q = fresh (p_pid q) DServer) -> NoDup (map p_pid ps) -> dead_leftover ps l m ->
  nth_error ps i = Some (fresh me DServer) -> (forall e, In e es -> ev_idx e <> i) ->
  (exists es1 es2 : list event, es = es1 ++ es2 /\ holders (run true (init l m ps) es1) <> [])
  \/ (exists q : proc, In q (s_procs (run true (init l m ps) es)) /\ p_alive q = true /\ p_pc q = AcqWrite)
  \/ (exists n : nat, (n <= 20)%nat /\ holders (run true (init l m ps) (es ++ repeat (Step i 2) n)) <> []).
Proof. exact fresh_start_recovers. Qed.
Print Assumptions c18_fresh_start_recovers.

Example c18_fresh_start_example :
  NoDup (map p_pid fresh_three) /\ dead_leftover fresh_three LAbsent MAbsent
  /\ (forall e, In e crash_mid -> ev_idx e <> 2%nat)
  /\ s_lock (run true (init LAbsent MAbsent fresh_three) crash_mid) = LHalf 1
  /\ map (fun q => (p_alive q, pc_code (p_pc q))) (s_procs (run true (init LAbsent MAbsent fresh_three) crash_mid))
     = [(false, 2); (true, 0); (true, 1)]
  /\ holders (run true (init LAbsent MAbsent fresh_three) crash_mid) = []
  /\ holders (run true (init LAbsent MAbsent fresh_three) (crash_mid ++ repeat (Step 2%nat 2) 8)) = [3].
Proof. exact fresh_example. Qed.

(* ==== the corrupt-lock grace timer (Model/AuthorityGrace.v) ===========================================================
   Above, "lock json invalid for > 1 s" is an adversarial answer constrained by `assume_grace`.  Here is where the answer
   comes from: the loop variable lock_invalid_since, the clock being an input (pi_now / t_now of every poll).
   * gtable            — which arms of a loop carry `lock_invalid_since = None;`, the grace period and the comparison; READ
                         FROM THE SOURCE on every run (Gen/AuthSteps.v: gen_client_grace / gen_server_grace, obligations
                         gen_client_grace_ok / gen_server_grace_ok = table_wf_client / table_wf_server).
   * client_run g live cstate0 polls — ensure_local_authority_with_paths poll by poll (one pollin = clock, the file at the
                         lock path with its ghost instance, meta.json, ping answer, "lock removed under the read");
     po_act o = ACorrupt c — that poll called try_cleanup_corrupt_lock_file.
   * invalid_window g polls j k — polls j..k ALL saw: no meta.json, a lock.json, unreadable; and the clock moved by more
                         than the grace period between poll j and poll k.
   * stable_polls      — the instance at the lock path does not change between two consecutive polls that both see it
                         invalid (unless the first one cleaned it): a change of hands is OBSERVED.  The schedules excluded
                         here need another contender's corrupt cleanup plus a new exclusive create between two polls: the
                         open finding S13b's family. *)

(* every poll of a client wait at which the corrupt cleanup fires closes a window of CONTINUOUS invalidity longer than the
   grace period — of one and the same lock instance when changes of hands are observed.  Any table with the resets, any
   liveness answers, any poll sequence, any clock. *)
Theorem c18_client_grace_resets :
  forall (g : gtable) (live : pid -> bool) (polls : list pollin),
  table_wf_client g = true ->
  forall (k : nat) (o : pollout) (c : bool),
  nth_error (client_run g live cstate0 polls) k = Some o -> po_act o = ACorrupt c ->
  exists j : nat, invalid_window g polls j k
    /\ (stable_polls g live polls ->
        forall i : nat, (j <= i <= k)%nat -> inst_of (nth i polls pdflt) = inst_of (nth k polls pdflt)).
Proof. exact client_grace_resets. Qed.
Print Assumptions c18_client_grace_resets.

(* "a lock that became readable resets the timer" *)
Theorem c18_client_readable_resets :
  forall (g : gtable) (live : pid -> bool) (st : cstate) (p : pollin),
  g_reset_readable g = true -> poll_seen p = SReadable ->
  cs_since (po_state (client_poll g live st p)) = None.
Proof. exact client_readable_resets. Qed.
Print Assumptions c18_client_readable_resets.

Example c18_client_grace_example :
  map po_act (client_run full_table both_live cstate0 dead_half) = [ANone; ANone; ACorrupt true]
  /\ invalid_window full_table dead_half 0 2 /\ table_wf_client full_table = true
  /\ stable_polls full_table both_live dead_half.
Proof. exact client_grace_example. Qed.

(* the timer itself, for both loops: any observation stream *)
Theorem c18_timer_fires_only_after_grace :
  forall (g : gtable) (obs : list tobs),
  g_reset_cleaned g = true -> obs_ok g obs ->
  forall k : nat, (k < length obs)%nat -> fired (fst (timer_run g None obs)) k = true ->
  exists j : nat, window g obs (fst (timer_run g None obs)) j k
    /\ (stable obs (fst (timer_run g None obs)) ->
        forall i : nat, (j <= i <= k)%nat -> t_inst (nth i obs dflt) = t_inst (nth k obs dflt)).
Proof. exact timer_fires_only_after_grace. Qed.
Print Assumptions c18_timer_fires_only_after_grace.

Theorem c18_server_timer_fires_only_after_grace :
  forall (g : gtable) (obs : list tobs),
  table_wf_server g = true -> (forall o, In o obs -> t_seen o <> SMeta) ->
  forall k : nat, (k < length obs)%nat -> fired (fst (timer_run g None obs)) k = true ->
  exists j : nat, window g obs (fst (timer_run g None obs)) j k
    /\ (stable obs (fst (timer_run g None obs)) ->
        forall i : nat, (j <= i <= k)%nat -> t_inst (nth i obs dflt) = t_inst (nth k obs dflt)).
Proof. exact server_timer_fires_only_after_grace. Qed.
Print Assumptions c18_server_timer_fires_only_after_grace.

(* WITHOUT the reset in the "lock readable" arm (seeded change C18-6) the statement is false: three phases inside one client
   wait — starter 101's unwritten lock; its record readable for 1.5 s; the lock changes hands (observed) and the client
   reads live starter 102's still-empty lock: cleaned at once, no window of invalidity ends at that poll.  Replayed on the
   real client loop on a scripted clock (harness corpus three_phase_two_starters). *)
Theorem c18_client_grace_resets_needs_readable_reset :
  exists o : pollout,
    nth_error (client_run no_readable_reset both_live cstate0 three_phase) 5 = Some o
    /\ po_act o = ACorrupt true
    /\ stable_polls no_readable_reset both_live three_phase
    /\ (forall j : nat, ~ invalid_window no_readable_reset three_phase j 5)
    /\ po_lock o = None
    /\ both_live 102 = true.
Proof. exact client_grace_resets_needs_readable_reset. Qed.
Print Assumptions c18_client_grace_resets_needs_readable_reset.

(* S25 (fixed, /repo 9a9eff8): WITHOUT the reset in the Ok(None) arm — the behaviour of both loops before the fix — the
   statement is false as well: an unwritten lock, the lock gone under the client's read, then a live starter's fresh lock *)
Theorem c18_client_grace_resets_needs_vanished_reset :
  exists o : pollout,
    nth_error (client_run no_vanished_reset both_live cstate0 vanished_witness) 2 = Some o
    /\ po_act o = ACorrupt true
    /\ stable_polls no_vanished_reset both_live vanished_witness
    /\ (forall j : nat, ~ invalid_window no_vanished_reset vanished_witness j 2)
    /\ po_lock o = None.
Proof. exact client_grace_resets_needs_vanished_reset. Qed.
Print Assumptions c18_client_grace_resets_needs_vanished_reset.

Theorem c18_server_timer_needs_absent_reset :
  fst (timer_run server_table_unfixed None server_vanished_obs) = [false; false; true]
  /\ fst (timer_run full_table None server_vanished_obs) = [false; false; false]
  /\ (forall j : nat, ~ window server_table_unfixed server_vanished_obs
                         (fst (timer_run server_table_unfixed None server_vanished_obs)) j 2).
Proof. exact server_timer_needs_absent_reset. Qed.
Print Assumptions c18_server_timer_needs_absent_reset.

(* ---- the two models of the client loop agree.  One iteration of the DClient process of Model/Authority.v (program counters,
   one file-system operation per step, started at the top of its loop, running alone, environment bits: ping answer and
   "timer fired" := what the timer state machine of Model/AuthorityGrace.v says) ends — after at most 12 steps — at the top
   of the loop again (Done if the endpoint answered) with exactly the files client_poll computes.  Hypothesis = the LTS's
   assume_grace: when the timer fires the creator of the lock is dead.  (lockf_of forgets the ghost instance.) *)
Theorem c18_client_models_agree :
  forall (g : gtable) (ps : list proc) (me : pid) (last : N) (st : cstate) (p : pollin),
  pi_vanish p = false ->
  (snd (timer g (cs_since st) (pi_now p) (poll_seen p)) = true ->
     forall f, pi_lock p = Some f -> pid_alive ps (lf_owner f) = false) ->
  exists (n : nat) (last' : N), (n <= 12)%nat /\
    solo n (obits (pi_reach p) (snd (timer g (cs_since st) (pi_now p) (poll_seen p))))
         (mkst (lockf_of (pi_lock p)) (pi_meta p) MAbsent ps) (cli me RdMeta last)
    = (mkst (lockf_of (po_lock (client_poll g (pid_alive ps) st p))) (po_meta (client_poll g (pid_alive ps) st p)) MAbsent ps,
       cli me (match po_act (client_poll g (pid_alive ps) st p) with AOk => Done | _ => RdMeta end) last').
Proof. exact client_models_agree. Qed.
Print Assumptions c18_client_models_agree.

(* ================================================================== FOURTH WAVE (auth18c): the liveness probe and the ping
   are part of the decision "this authority is gone" (Model/AuthorityProbe.v, seeded changes C18-9 / C18-7).
   * ptable            — the classification table of pid_liveness: signal passed to kill, answer for return value 0, the
                         `Some(errno) => ..` arms in source order, the `_` arm; read from the source on every run
                         (Gen/AuthProbe.v: gen_probe_table, obligation gen_probe_ok : probe_wf gen_probe_table = true).
   * kill0 e p         — kill(pid, 0) per kill(2): the process does not exist: ESRCH; it exists and the caller may not signal
                         it: EPERM; else success.
   * probe_wf          — signal 0; only ESRCH is classified Dead; ESRCH is; success and EPERM are Alive.
   * run_p t perm      — the lock protocol of Model/Authority.v with every liveness answer (steps Live / LiveM / CoLive)
                         computed as the caller's probe of the target through table t; perm caller target = the caller may
                         signal the target (ANY relation: processes of any uids). *)

(* only "no such process" is classified Dead *)
Theorem c18_probe_dead_only_esrch : forall (t : ptable), probe_wf t = true ->
  forall o : probe, liveness_of t o = LvDead -> o = PrErr ESRCH.
Proof. exact probe_dead_only_esrch. Qed.
Print Assumptions c18_probe_dead_only_esrch.

(* exists => never Dead, whether or not the caller may signal the process; gone => Dead (recovery), likewise *)
Theorem c18_probe_exists_never_dead : forall (t : ptable), probe_wf t = true ->
  forall permitted : bool, liveness_of t (kill0 true permitted) <> LvDead.
Proof. exact probe_exists_never_dead. Qed.
Print Assumptions c18_probe_exists_never_dead.

Theorem c18_probe_gone_is_dead : forall (t : ptable), probe_wf t = true ->
  forall permitted : bool, liveness_of t (kill0 false permitted) = LvDead.
Proof. exact probe_gone_is_dead. Qed.
Print Assumptions c18_probe_gone_is_dead.

(* the recovery loops enter a cleanup that removes files (stale cleanup: StExists; the client's meta branch: LockExistsM,
   from which the stale cleanup or the spawn follows) only when the probe's outcome was ESRCH *)
Theorem c18_cleanup_only_after_esrch : forall (t : ptable), probe_wf t = true ->
  forall (ag : bool) (ps : list proc) (o : N) (p : pid) (out : probe),
  (server_next ag ps o (RLive p (says_alive t out)) = StExists p -> out = PrErr ESRCH)
  /\ (client_next ag ps o (RLive p (says_alive t out)) = StExists p -> out = PrErr ESRCH)
  /\ (client_next ag ps o (RLiveM p (says_alive t out)) = LockExistsM p -> out = PrErr ESRCH).
Proof. exact cleanup_only_after_esrch. Qed.
Print Assumptions c18_cleanup_only_after_esrch.

(* the protocol with the real probe inside IS the protocol all theorems above are about — for every table meeting the
   obligation and every permission relation between the processes *)
Theorem c18_probed_protocol_is_the_protocol :
  forall (t : ptable) (perm : pid -> pid -> bool) (ag : bool), probe_wf t = true ->
  forall (es : list event) (s : state), run_p t perm ag s es = run ag s es.
Proof. exact run_p_eq. Qed.
Print Assumptions c18_probed_protocol_is_the_protocol.

(* so: a live authority is never disturbed by contenders of ANY uid (whether or not they may signal it) *)
Theorem c18_probed_live_authority_never_disturbed :
  forall (t : ptable) (perm : pid -> pid -> bool), probe_wf t = true ->
  forall (ag : bool) (b : pid) (m : metaf) (cs : list proc) (es : list event),
  (forall q, In q cs -> contender q) ->
  (forall e, In e es -> ev_idx e <> 0%nat) ->
  s_lock (run_p t perm ag (init (LRec b) m (serving b :: cs)) es) = LRec b
  /\ s_meta (run_p t perm ag (init (LRec b) m (serving b :: cs)) es) = m
  /\ holders (run_p t perm ag (init (LRec b) m (serving b :: cs)) es) = [b]
  /\ s_took_lock (run_p t perm ag (init (LRec b) m (serving b :: cs)) es) = false
  /\ s_took_meta (run_p t perm ag (init (LRec b) m (serving b :: cs)) es) = false.
Proof. exact probed_live_authority_never_disturbed. Qed.
Print Assumptions c18_probed_live_authority_never_disturbed.

Theorem c18_probed_two_authorities_only_by_taking_a_live_lock :
  forall (t : ptable) (perm : pid -> pid -> bool), probe_wf t = true ->
  forall (ag : bool) (l : lockf) (m : metaf) (ps : list proc) (es : list event),
  init_ok l m ps ->
  s_took_lock (run_p t perm ag (init l m ps) es) = false ->
  (length (holders (run_p t perm ag (init l m ps) es)) <= 1)%nat
  /\ (forall p, In p (holders (run_p t perm ag (init l m ps) es)) ->
                lock_pid (s_lock (run_p t perm ag (init l m ps) es)) = Some p).
Proof. exact probed_two_authorities_only_by_taking_a_live_lock. Qed.
Print Assumptions c18_probed_two_authorities_only_by_taking_a_live_lock.

(* hypotheses satisfiable: the expected table; authority 800, server loop 101 of another uid (no_perm: nobody may signal
   anybody else), uid_sched = 13 steps of 101 with the endpoint silent *)
Example c18_probe_example :
  probe_wf full_probe_table = true
  /\ (forall q, In q uid_procs -> contender q)
  /\ (forall e, In e uid_sched -> ev_idx e <> 0%nat).
Proof. exact uid_example. Qed.

(* WITHOUT the obligation — EPERM classified Dead (seeded change C18-9; eperm_dead_table) — the statement is false:
   uid_init = init (LRec 800) (MRec 800) [serving 800; fresh 101 DServer]; a contender that may not signal the live
   authority 800 takes lock.json and meta.json and becomes a second authority.  Replayed on the real code by the harness:
   `rip serve` as uid 65534 against a live root-owned authority on a shared store. *)
Theorem c18_probe_eperm_dead_refuted :
  exists (perm : pid -> pid -> bool) (sched : list event),
    holders (run_p eperm_dead_table perm true uid_init sched) = [800; 101]
    /\ s_lock (run_p eperm_dead_table perm true uid_init sched) = LRec 101
    /\ s_took_lock (run_p eperm_dead_table perm true uid_init sched) = true
    /\ s_took_meta (run_p eperm_dead_table perm true uid_init sched) = true.
Proof. exact eperm_dead_takes_live_lock. Qed.
Print Assumptions c18_probe_eperm_dead_refuted.

Theorem c18_probe_eperm_dead_breaks_obligation : probe_wf eperm_dead_table = false.
Proof. exact eperm_dead_table_not_wf. Qed.
Print Assumptions c18_probe_eperm_dead_breaks_obligation.

(* ---- two independent signals.  An authority whose endpoint ANSWERS is not gone, whatever the pid probe says about the pid
   in meta.json (`live` universally quantified: a client in another pid namespace sees the authority's pid as dead): the
   poll returns Ok(endpoint), lock.json and meta.json untouched — every table, every client state *)
Theorem c18_client_answering_authority_untouched :
  forall (g : gtable) (live : pid -> bool) (st : cstate) (p : pollin) (mp : pid),
  pi_meta p = MRec mp -> pi_reach p = true ->
  po_act (client_poll g live st p) = AOk
  /\ po_lock (client_poll g live st p) = pi_lock p
  /\ po_meta (client_poll g live st p) = MRec mp.
Proof. exact client_answering_authority_untouched. Qed.
Print Assumptions c18_client_answering_authority_untouched.

Example c18_answering_example : pi_meta answering_poll = MRec 800 /\ pi_reach answering_poll = true.
Proof. exact answering_example. Qed.

(* with the probe asked first and the ping skipped when it says Dead (seeded change C18-7; client_poll_probe_first) the
   statement is false: authority 800 holds both files and answers, the client cannot see pid 800 (other_namespace) *)
Theorem c18_client_probe_first_refuted :
  po_act (client_poll_probe_first full_table other_namespace cstate0 answering_poll) = AStale 800 true
  /\ po_lock (client_poll_probe_first full_table other_namespace cstate0 answering_poll) = None
  /\ po_meta (client_poll_probe_first full_table other_namespace cstate0 answering_poll) = MAbsent
  /\ po_act (client_poll full_table other_namespace cstate0 answering_poll) = AOk.
Proof. exact client_probe_first_takes_answering_authority. Qed.
Print Assumptions c18_client_probe_first_refuted.
