(* C18 — A store never has two authorities; a live authority's lock is never taken.
   Statements only; proofs are in Proofs/AuthorityProofs.v.  Every theorem is closed by `exact`. *)
From RipV Require Import Base.Prelude Model.Authority Proofs.AuthorityProofs.

(* S13 — the faithful model violates mutual exclusion under SOME schedule: a stale lock of a dead pid
   (s13_init = init (LRec 900) MAbsent [fresh 1 DServer; fresh 2 DServer]), two server loops, both pass the re-read
   before either renames *)
Theorem c18_mutex_all_schedules_refuted :
  exists sched : list event,
    holders (run true s13_init sched) = [1; 2] /\ s_took_lock (run true s13_init sched) = true.
Proof. exact mutex_all_schedules_refuted. Qed.
Print Assumptions c18_mutex_all_schedules_refuted.

(* S13b — half-written lock of a dead creator (s13b_init = init (LHalf 900) MAbsent [two servers]) *)
Theorem c18_corrupt_cleanup_race_refuted :
  exists sched : list event,
    holders (run true s13b_init sched) = [1; 2] /\ s_took_lock (run true s13b_init sched) = true.
Proof. exact corrupt_cleanup_race_refuted. Qed.
Print Assumptions c18_corrupt_cleanup_race_refuted.

(* S13c — s13c_init = init (LRec 900) (MRec 900) [two servers]: the meta.json of the new, live authority is renamed *)
Theorem c18_meta_of_live_authority_taken_refuted :
  exists sched : list event,
    holders (run true s13c_init sched) = [2] /\ s_lock (run true s13c_init sched) = LRec 2
    /\ s_meta (run true s13c_init sched) = MAbsent
    /\ s_took_meta (run true s13c_init sched) = true /\ s_took_lock (run true s13c_init sched) = false.
Proof. exact meta_of_live_authority_taken_refuted. Qed.
Print Assumptions c18_meta_of_live_authority_taken_refuted.

(* the half-written lock of a live, slow acquirer is protected only by the 1 s timer
   (empty_init = init LAbsent MAbsent [two servers]; run false = timer answers fully adversarial) *)
Theorem c18_corrupt_cleanup_needs_grace :
  exists sched : list event,
    holders (run false empty_init sched) = [1; 2] /\ holders (run true empty_init sched) = [1].
Proof. exact corrupt_cleanup_needs_grace. Qed.
Print Assumptions c18_corrupt_cleanup_needs_grace.
