(* C18 — A store never has two authorities; a live authority's lock is never taken.
   Statements only; proofs are in Proofs/AuthorityProofs.v.  Every theorem is closed by `exact`. *)
From RipV Require Import Base.Prelude Model.Authority Proofs.AuthorityProofs.

(* S13 — the faithful model violates mutual exclusion under SOME schedule: a stale lock of a dead pid, two server
   loops, both pass the re-read before either renames *)
Theorem c18_mutex_all_schedules_refuted :
  exists (sched : list event),
    let s := run true (init (LRec 900) MAbsent [fresh 1 DServer; fresh 2 DServer]) sched in
    holders s = [1; 2] /\ s_took_lock s = true.
Proof. exact (ex_intro _ s13_sched s13_two_holders). Qed.
Print Assumptions c18_mutex_all_schedules_refuted.

Theorem c18_corrupt_cleanup_race_refuted :
  exists (sched : list event),
    let s := run true (init (LHalf 900) MAbsent [fresh 1 DServer; fresh 2 DServer]) sched in
    holders s = [1; 2] /\ s_took_lock s = true.
Proof. exact (ex_intro _ s13b_sched s13b_two_holders). Qed.
Print Assumptions c18_corrupt_cleanup_race_refuted.

Theorem c18_meta_of_live_authority_taken_refuted :
  exists (sched : list event),
    let s := run true (init (LRec 900) (MRec 900) [fresh 1 DServer; fresh 2 DServer]) sched in
    holders s = [2] /\ s_lock s = LRec 2 /\ s_meta s = MAbsent /\ s_took_meta s = true /\ s_took_lock s = false.
Proof. exact (ex_intro _ s13c_sched s13c_meta_taken). Qed.
Print Assumptions c18_meta_of_live_authority_taken_refuted.

(* the half-written lock of a live, slow acquirer is protected only by the 1 s timer *)
Theorem c18_corrupt_cleanup_needs_grace :
  exists (sched : list event),
    holders (run false (init LAbsent MAbsent [fresh 1 DServer; fresh 2 DServer]) sched) = [1; 2]
    /\ holders (run true (init LAbsent MAbsent [fresh 1 DServer; fresh 2 DServer]) sched) = [1].
Proof. exact (ex_intro _ grace_sched grace_needed). Qed.
Print Assumptions c18_corrupt_cleanup_needs_grace.
