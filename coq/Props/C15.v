(* C15 — Provider stream decoding is lossless and chunking-invariant.
   Statements only; proofs are in Proofs/SseProofs.v and Proofs/Utf8Proofs.v.
   `classify` (JSON parse + schema validation of one payload) and the seq offset are universally
   quantified; FIXED = the code after the two `fix:` commits for S11 (what /repo contains now),
   UNFIXED = the code before them. *)
From RipV Require Import Base.Prelude Base.Utf8 Base.Json Model.Sse Proofs.Utf8Proofs Proofs.SseProofs.

(* the frames depend on the body only: any two partitions into chunks (every split position, inside
   a multi-byte character, between CR and LF, inside a field name, one byte at a time, empty
   chunks) give the same frames with the same numbers *)
Theorem c15_chunk_invariant :
  forall (classify : option str -> str -> cls) (off : N) (body : list N) (cs1 cs2 : list (list N)),
  concat cs1 = body -> concat cs2 = body ->
  frames_of classify FIXED off cs1 = frames_of classify FIXED off cs2.
Proof. exact chunk_invariant. Qed.
Print Assumptions c15_chunk_invariant.

(* ... because they are the frames of the chunking-free specification: lossy UTF-8 decoding of the
   whole body, the field rules folded over all its lines, cut after the first [DONE] *)
Theorem c15_frames_are_spec :
  forall (classify : option str -> str -> cls) (off : N) (cs : list (list N)),
  frames_of classify FIXED off cs = frames_whole classify off (concat cs).
Proof. exact frames_of_whole. Qed.
Print Assumptions c15_frames_are_spec.

(* exactly one provider-event frame per server-sent event, in order, incl. the terminal marker and
   invalid-JSON payloads (prov_frame carries raw = the payload for those, the parsed data otherwise) *)
Theorem c15_one_frame_per_event :
  forall (classify : option str -> str -> cls) (off : N) (cs : list (list N)),
  map strip_seq (filter is_prov (frames_of classify FIXED off cs))
  = map (prov_frame 0) (upto_done (events_spec classify (lossy_text (concat cs)))).
Proof. exact one_frame_per_event. Qed.
Print Assumptions c15_one_frame_per_event.

(* the payload handed to classify is the '\n'-join of the block's data values, unchanged *)
Theorem c15_payload_is_joined_data :
  forall (classify : option str -> str -> cls) (vals : list str) (ev : option str),
  vals <> [] -> Forall (fun v => trim_start v = v /\ trim_end_cr v = v /\ no_nl v) vals ->
  snd (fold_lines classify (ev, []) (map (fun v => S_DATA ++ 32 :: v) vals ++ [[]]))
  = [parse_event classify ev (join_nl vals)].
Proof. exact event_payload_is_joined_data. Qed.
Print Assumptions c15_payload_is_joined_data.

Theorem c15_text_is_concat_of_deltas :
  forall (classify : option str -> str -> cls) (off : N) (cs : list (list N)),
  output_text (frames_of classify FIXED off cs)
  = concat (map delta_of (upto_done (events_spec classify (lossy_text (concat cs))))).
Proof. exact text_is_concat_of_deltas. Qed.
Print Assumptions c15_text_is_concat_of_deltas.

(* frame numbering continues from the offset without a gap ... *)
Theorem c15_seq_contiguous :
  forall (classify : option str -> str -> cls) (off : N) (cs : list (list N)),
  map fseq (frames_of classify FIXED off cs) = iotaN off (length (frames_of classify FIXED off cs)).
Proof. exact seq_contiguous. Qed.
Print Assumptions c15_seq_contiguous.

(* ... also when the stream breaks with a transport error, and *seq ends right after the last frame *)
Theorem c15_seq_contiguous_transport_error :
  forall (classify : option str -> str -> cls) (off : N) (cs : list (list N)) (h : str),
  let fs := fst (run_pipe classify FIXED off cs (Some h)) in
  map fseq fs = iotaN off (length fs) /\ snd (run_pipe classify FIXED off cs (Some h)) = off + nlen fs.
Proof. exact seq_contiguous_transport_error. Qed.
Print Assumptions c15_seq_contiguous_transport_error.

(* the SseDecoder alone (library level, text chunks) *)
Theorem c15_decoder_chunk_invariant :
  forall (classify : option str -> str -> cls) (cs1 cs2 : list str),
  concat cs1 = concat cs2 -> run_dec classify cs1 = run_dec classify cs2.
Proof. exact run_dec_concat. Qed.
Print Assumptions c15_decoder_chunk_invariant.

(* UTF-8 carry-over law behind the byte level: decoding a ++ b = decoding a, then (carry-over ++ b) *)
Theorem c15_utf8_carry_over :
  forall a b : list N,
  lossyF (a ++ b) = let '(t1, r1) := lossyF a in let '(t2, r2) := lossyF (r1 ++ b) in (t1 ++ t2, r2).
Proof. exact lossyF_app. Qed.
Print Assumptions c15_utf8_carry_over.

(* lossless on valid input: the lossy decoder inverts the UTF-8 encoder on scalar values *)
Theorem c15_utf8_lossless :
  forall s : list N, forallb is_scalar s = true -> lossyF (encode s) = (s, []).
Proof. exact lossy_encode. Qed.
Print Assumptions c15_utf8_lossless.

(* S11, first half: before the repair an invalid sequence at buffer position 0 lost one byte where
   elsewhere it lost error_len bytes, so the number of U+FFFD depended on the chunk boundary *)
Theorem c15_ffd_at_buffer_start_refuted :
  exists cs1 cs2, concat cs1 = concat cs2 /\ frames_of cls0 UNFIXED 0 cs1 <> frames_of cls0 UNFIXED 0 cs2.
Proof. exact ffd_at_buffer_start_refuted. Qed.
Print Assumptions c15_ffd_at_buffer_start_refuted.

(* S11, second half: events after [DONE] were emitted iff they arrived in the same chunk *)
Theorem c15_after_done_refuted :
  exists cs1 cs2, concat cs1 = concat cs2 /\ frames_of cls0 UNFIXED 0 cs1 <> frames_of cls0 UNFIXED 0 cs2.
Proof. exact after_done_refuted. Qed.
Print Assumptions c15_after_done_refuted.

(* non-vacuity: CRLF, comment, event name, multi-line data, a 3-byte character cut by the chunking,
   an invalid byte, [DONE] and trailing events: three frames whichever way the body is split, and
   the cut after [DONE] really removes something *)
Example c15_demo_nontrivial :
  frames_whole demo_cls 5 demo_body = demo_expected
  /\ frames_of demo_cls FIXED 5 (map (fun b => [b]) demo_body) = demo_expected
  /\ frames_of demo_cls FIXED 5 [firstn 32 demo_body; skipn 32 demo_body] = demo_expected
  /\ events_spec demo_cls (lossy_text demo_body) <> upto_done (events_spec demo_cls (lossy_text demo_body)).
Proof. exact demo_nontrivial. Qed.
