(* C15 — Provider stream decoding is lossless and chunking-invariant.
   Statements only; proofs are in Proofs/SseProofs.v, Proofs/SseJsonProofs.v and Proofs/Utf8Proofs.v.
   The chunking theorems hold for EVERY classification `classify` of payloads and every seq offset.  The
   content theorems (c15_payload_unchanged, c15_classified_event, c15_kept_as_text, c15_text_is_concat_of_deltas,
   c15_text_delta_spec, c15_extractor_agrees) are about the executable classification `jclassify A` of
   Model/SseJson.v: serde_json::from_str as JsonParse.parse + `canon` (BTreeMap objects, number spelling), the
   nesting bound, the id normalisation of the compat validation mode, the event-name / type mismatch error and the
   text delta; `A : absfns` holds the validation mode and the parts that stay abstract (text of serde_json's error
   message, re-spelling of non-integer number tokens, the two schema validators) and is universally quantified.  FIXED = the code after the two `fix:` commits for S11 (what
   /repo contains now), UNFIXED = the code before them. *)
From RipV Require Import Base.Prelude Base.Utf8 Base.Json Model.Sse Model.SseJson Model.SseFacts.
From RipV Require Import Proofs.Utf8Proofs Proofs.SseProofs Proofs.SseJsonProofs.
From RipV Require Base.JsonParse.

(* the frames depend on the body only: any two partitions into chunks (every split position, inside
   a multi-byte character, between CR and LF, inside a field name, one byte at a time, empty
   chunks) give the same frames with the same numbers *)
Theorem c15_chunk_invariant :
  forall (classify : option str -> str -> cls) (off : N) (body : list N) (cs1 cs2 : list (list N)),
  concat cs1 = body -> concat cs2 = body ->
  frames_of classify FIXED off cs1 = frames_of classify FIXED off cs2.
Proof. exact chunk_invariant. Qed.
Print Assumptions c15_chunk_invariant.

(* ... because they are the frames of the chunking-free specification: lossy UTF-8 decoding of the
   whole body, the field rules folded over all its lines, cut after the first [DONE] *)
Theorem c15_frames_are_spec :
  forall (classify : option str -> str -> cls) (off : N) (cs : list (list N)),
  frames_of classify FIXED off cs = frames_whole classify off (concat cs).
Proof. exact frames_of_whole. Qed.
Print Assumptions c15_frames_are_spec.

(* exactly one provider-event frame per server-sent event, in order, incl. the terminal marker and
   invalid-JSON payloads (prov_frame carries raw = the payload for those, the parsed data otherwise) *)
Theorem c15_one_frame_per_event :
  forall (classify : option str -> str -> cls) (off : N) (cs : list (list N)),
  map strip_seq (filter is_prov (frames_of classify FIXED off cs))
  = map (prov_frame 0) (upto_done (events_spec classify (lossy_text (concat cs)))).
Proof. exact one_frame_per_event. Qed.
Print Assumptions c15_one_frame_per_event.

(* the payload handed to classify is the '\n'-join of the block's data values, unchanged *)
Theorem c15_payload_is_joined_data :
  forall (classify : option str -> str -> cls) (vals : list str) (ev : option str),
  vals <> [] -> Forall (fun v => trim_start v = v /\ trim_end_cr v = v /\ no_nl v) vals ->
  snd (fold_lines classify (ev, []) (map (fun v => S_DATA ++ 32 :: v) vals ++ [[]]))
  = [parse_event classify ev (join_nl vals)].
Proof. exact event_payload_is_joined_data. Qed.
Print Assumptions c15_payload_is_joined_data.

(* ... and in general: a block of field lines (no blank line inside) followed by the blank line gives exactly one event
   iff it has a data line, with payload = the '\n'-join of ALL its data values in order and the last event name given;
   comments, unknown fields, `event:` lines in between, CR line ends and the blanks after the colon do not matter *)
Theorem c15_block_is_one_event :
  forall (classify : option str -> str -> cls) (block : list str) (ev0 : option str) (acc : list str),
  forallb (fun l => negb (is_blank l)) block = true ->
  fold_lines classify (ev0, acc) (block ++ [[]]) =
  match acc ++ block_data block with
  | [] => ((block_event ev0 block, []), [])
  | d => ((None, []), [parse_event classify (block_event ev0 block) (join_nl d)])
  end.
Proof. exact block_dispatch. Qed.
Print Assumptions c15_block_is_one_event.

(* "each carrying the payload unchanged": the provider frames of ANY chunked run, paired in order with the
   server-sent events of the body.  Terminal marker and payloads that are not JSON (or JSON nested too deep to be
   stored in a frame): raw = the payload = the joined data lines (c15_payload_is_joined_data), code point for code
   point.  JSON: data = canon (parse payload) — the parse of the text as serde_json::Value — and the canonical print
   of data parses back to data.  Hypothesis on the abstract float printer: what it writes is a JSON number. *)
Theorem c15_payload_unchanged :
  forall (A : absfns) (off : N) (cs : list (list N)),
  (forall t t', a_fmt_float A t = Some t' -> num_ok t' = true) ->
  Forall2 (fun (f : frame) (e : pev) =>
     match f with
     | FDelta _ _ => False
     | FProv _ st ev raw data _ _ =>
       st = pe_kind e /\ ev = pe_event e /\
       ((st = 0 /\ raw = Some (pe_raw e) /\ data = None /\ pe_raw e = S_DONE)
        \/ (st = 1 /\ raw = Some (pe_raw e) /\ data = None /\
            (parse_value_of A (pe_raw e) = None
             \/ exists v, parse_value_of A (pe_raw e) = Some v /\ (MAX_PAYLOAD_NESTING < json_depth v)%nat))
        \/ (st = 2 /\ raw = None /\
            exists j v, JsonParse.parse (pe_raw e) = Some j /\ canon A j = Some v /\ data = Some v
                        /\ JsonParse.parse (print v) = Some v))
     end)
    (filter is_prov (frames_of (jclassify A) FIXED off cs))
    (upto_done (events_spec (jclassify A) (lossy_text (concat cs)))).
Proof. exact payload_unchanged. Qed.
Print Assumptions c15_payload_unchanged.

(* one payload classified as an event: value, round trip, nesting bound, delta, errors = validation errors then the
   event-name / type mismatch message *)
Theorem c15_classified_event :
  forall (A : absfns) (ev : option str) (raw : str) (v : json) (errs rerrs : list str) (dl : option str),
  (forall t t', a_fmt_float A t = Some t' -> num_ok t' = true) ->
  jclassify A ev raw = CEvent v errs rerrs dl ->
  (exists j, JsonParse.parse raw = Some j /\ canon A j = Some v)
  /\ JsonParse.parse (print v) = Some v
  /\ (json_depth v <= MAX_PAYLOAD_NESTING)%nat
  /\ dl = text_delta v
  /\ errs = a_vstream A (validation_data A v) ++ name_mismatch ev v
  /\ rerrs = response_errors A v.
Proof. exact jclassify_event. Qed.
Print Assumptions c15_classified_event.

(* one payload kept as text: serde_json refuses it, or it nests deeper than a frame can store *)
Theorem c15_kept_as_text :
  forall (A : absfns) (ev : option str) (raw : str) (errs : list str),
  jclassify A ev raw = CInvalid errs ->
  (parse_value_of A raw = None /\ errs = [a_json_err A raw])
  \/ (exists v, parse_value_of A raw = Some v /\ (MAX_PAYLOAD_NESTING < json_depth v)%nat /\ errs = [nest_msg (json_depth v)]).
Proof. exact jclassify_invalid. Qed.
Print Assumptions c15_kept_as_text.

(* ... and at the level of serde_json::Value: the data of a frame, printed (serde_json::to_string) and read back
   (serde_json::from_str), is the same Value — data is canonical (keys strictly ascending, numbers in the printer's
   spelling).  Second hypothesis on the abstract float printer: its output is a fixpoint of the number normalisation
   ("100.0" is re-spelled "100.0") *)
Theorem c15_value_round_trip :
  forall (A : absfns),
  (forall t t', a_fmt_float A t = Some t' -> num_ok t' = true) ->
  (forall t t', a_fmt_float A t = Some t' -> norm_num A t' = Some t') ->
  forall (ev : option str) (raw : str) (v : json) (errs rerrs : list str) (dl : option str),
  jclassify A ev raw = CEvent v errs rerrs dl -> parse_value_of A (print v) = Some v.
Proof. exact value_round_trip. Qed.
Print Assumptions c15_value_round_trip.

(* strict or compat validation (ValidationOptions): same status, same raw / data, same text delta for every payload —
   the id normalisation only feeds the validators, it never reaches a frame's data *)
Theorem c15_validation_mode_only_errors :
  forall (A B : absfns) (ev : option str) (raw : str),
  (forall r, a_json_err A r = a_json_err B r) /\ (forall t, a_fmt_float A t = a_fmt_float B t) ->
  match jclassify A ev raw, jclassify B ev raw with
  | CInvalid e, CInvalid e' => e = e'
  | CEvent v _ _ d, CEvent v' _ _ d' => v = v' /\ d = d'
  | _, _ => False
  end.
Proof. exact mode_only_errors. Qed.
Print Assumptions c15_validation_mode_only_errors.

(* the parser only builds number tokens it has checked, so every parsed payload prints to JSON *)
Theorem c15_parsed_numbers_ok :
  forall (txt : str) (j : json), JsonParse.parse txt = Some j -> nums_ok j = true.
Proof. exact parse_nums_ok. Qed.
Print Assumptions c15_parsed_numbers_ok.

(* derived output text = concatenation of the provider's text deltas: over the provider frames of any chunked run, in
   order, of the text delta each frame's data holds ... *)
Theorem c15_text_is_concat_of_deltas :
  forall (A : absfns) (off : N) (cs : list (list N)),
  output_text (frames_of (jclassify A) FIXED off cs)
  = concat (map data_delta (filter is_prov (frames_of (jclassify A) FIXED off cs))).
Proof. exact text_is_concat_of_data_deltas. Qed.
Print Assumptions c15_text_is_concat_of_deltas.

(* ... where the text delta of a value is the `delta` string of an object whose `type` is
   "response.output_text.delta" (the SSE event name plays no part) *)
Theorem c15_text_delta_spec :
  forall (v : json) (d : str),
  text_delta v = Some d <->
  exists kvs, v = JObj kvs /\ assoc S_TYPE kvs = Some (JStr S_OTD) /\ assoc S_DELTA kvs = Some (JStr d).
Proof. exact text_delta_spec. Qed.
Print Assumptions c15_text_delta_spec.

(* the same at event level, for every classification *)
Theorem c15_text_is_concat_of_event_deltas :
  forall (classify : option str -> str -> cls) (off : N) (cs : list (list N)),
  output_text (frames_of classify FIXED off cs)
  = concat (map delta_of (upto_done (events_spec classify (lossy_text (concat cs))))).
Proof. exact text_is_concat_of_deltas. Qed.
Print Assumptions c15_text_is_concat_of_event_deltas.

(* the library's own reading of the provider frames (stream_transformers::extract_text_deltas: payload `type`, else
   the frame's event name) gives the same text, provided no payload without a string `type` but with a string `delta`
   arrives under the event name "response.output_text.delta" ... *)
Theorem c15_extractor_agrees :
  forall (A : absfns) (off : N) (cs : list (list N)),
  Forall (fun e => match pe_data e with
                   | Some v => pe_event e = Some S_OTD -> get_str S_TYPE v = None -> get_str S_DELTA v = None
                   | None => True
                   end)
         (upto_done (events_spec (jclassify A) (lossy_text (concat cs)))) ->
  concat (extract_text_deltas (frames_of (jclassify A) FIXED off cs)) = output_text (frames_of (jclassify A) FIXED off cs).
Proof. exact extractor_agrees. Qed.
Print Assumptions c15_extractor_agrees.

(* ... and not otherwise (the helper falls back to the event name, EventFrameMapper does not) *)
Theorem c15_extractor_agrees_unconditional_refuted :
  exists A off cs,
    concat (extract_text_deltas (frames_of (jclassify A) FIXED off cs)) <> output_text (frames_of (jclassify A) FIXED off cs).
Proof. exact extractor_agrees_unconditional_refuted. Qed.
Print Assumptions c15_extractor_agrees_unconditional_refuted.

(* frame numbering continues from the offset without a gap ... *)
Theorem c15_seq_contiguous :
  forall (classify : option str -> str -> cls) (off : N) (cs : list (list N)),
  map fseq (frames_of classify FIXED off cs) = iotaN off (length (frames_of classify FIXED off cs)).
Proof. exact seq_contiguous. Qed.
Print Assumptions c15_seq_contiguous.

(* ... also when the stream breaks with a transport error, and *seq ends right after the last frame *)
Theorem c15_seq_contiguous_transport_error :
  forall (classify : option str -> str -> cls) (off : N) (cs : list (list N)) (h : str),
  let fs := fst (run_pipe classify FIXED off cs (Some h)) in
  map fseq fs = iotaN off (length fs) /\ snd (run_pipe classify FIXED off cs (Some h)) = off + nlen fs.
Proof. exact seq_contiguous_transport_error. Qed.
Print Assumptions c15_seq_contiguous_transport_error.

(* the seq numbers are u64 in the code (mapper-local `seq += 1`, `frame.seq += seq_offset`, `*seq += frame_count`),
   unbounded in the model.  No-overflow hypothesis, explicit: while seq_offset + number of frames < 2^64 no addition
   wraps (release build) or panics (overflow checks), i.e. the unbounded model is exact ... *)
Theorem c15_seq_no_wrap :
  forall (classify : option str -> str -> cls) (off : N) (cs : list (list N)) (terr : option str),
  off + nlen (fst (run_pipe classify FIXED off cs terr)) < TWO64 ->
  wrap_run (run_pipe classify FIXED off cs terr) = run_pipe classify FIXED off cs terr
  /\ run_overflows (run_pipe classify FIXED off cs terr) = false.
Proof. exact seq_no_wrap. Qed.
Print Assumptions c15_seq_no_wrap.

(* ... and `*seq += frame_count` overflows exactly when it does not hold *)
Theorem c15_seq_overflow_iff :
  forall (classify : option str -> str -> cls) (off : N) (cs : list (list N)) (terr : option str),
  run_overflows (run_pipe classify FIXED off cs terr) = true
  <-> TWO64 <= off + nlen (fst (run_pipe classify FIXED off cs terr)).
Proof. exact seq_overflow_iff. Qed.
Print Assumptions c15_seq_overflow_iff.

(* T1: the model's rule for one complete line IS the interpreter of the rule table, and the table, the split / trim
   characters and the other source facts are re-read from the Rust source on every run (Gen/SseGen.v:
   gen_sse_decoder_ok, gen_sse_mapper_ok, gen_sse_pipe_ok) *)
Theorem c15_line_rule_is_table :
  forall (classify : option str -> str -> cls) (s : lstate) (l : str),
  line_step classify s l = line_step_gen classify LINE_RULES CR s l.
Proof. exact line_step_is_rules. Qed.
Print Assumptions c15_line_rule_is_table.

(* the SseDecoder alone (library level, text chunks) *)
Theorem c15_decoder_chunk_invariant :
  forall (classify : option str -> str -> cls) (cs1 cs2 : list str),
  concat cs1 = concat cs2 -> run_dec classify cs1 = run_dec classify cs2.
Proof. exact run_dec_concat. Qed.
Print Assumptions c15_decoder_chunk_invariant.

(* UTF-8 carry-over law behind the byte level: decoding a ++ b = decoding a, then (carry-over ++ b) *)
Theorem c15_utf8_carry_over :
  forall a b : list N,
  lossyF (a ++ b) = let '(t1, r1) := lossyF a in let '(t2, r2) := lossyF (r1 ++ b) in (t1 ++ t2, r2).
Proof. exact lossyF_app. Qed.
Print Assumptions c15_utf8_carry_over.

(* lossless on valid input: the lossy decoder inverts the UTF-8 encoder on scalar values *)
Theorem c15_utf8_lossless :
  forall s : list N, forallb is_scalar s = true -> lossyF (encode s) = (s, []).
Proof. exact lossy_encode. Qed.
Print Assumptions c15_utf8_lossless.

(* ... so for a body that is valid UTF-8 (the encoding of a text of scalar values) the byte layer is the identity: the
   frames of any chunking — also one that cuts inside characters — are those of the text's events *)
Theorem c15_valid_utf8_body :
  forall (classify : option str -> str -> cls) (off : N) (text : list N) (cs : list (list N)),
  forallb is_scalar text = true -> concat cs = encode text ->
  frames_of classify FIXED off cs = frames_from off (upto_done (events_spec classify text)).
Proof. exact valid_utf8_body. Qed.
Print Assumptions c15_valid_utf8_body.

(* S11, first half: before the repair an invalid sequence at buffer position 0 lost one byte where
   elsewhere it lost error_len bytes, so the number of U+FFFD depended on the chunk boundary *)
Theorem c15_ffd_at_buffer_start_refuted :
  exists cs1 cs2, concat cs1 = concat cs2 /\ frames_of cls0 UNFIXED 0 cs1 <> frames_of cls0 UNFIXED 0 cs2.
Proof. exact ffd_at_buffer_start_refuted. Qed.
Print Assumptions c15_ffd_at_buffer_start_refuted.

(* S11, second half: events after [DONE] were emitted iff they arrived in the same chunk *)
Theorem c15_after_done_refuted :
  exists cs1 cs2, concat cs1 = concat cs2 /\ frames_of cls0 UNFIXED 0 cs1 <> frames_of cls0 UNFIXED 0 cs2.
Proof. exact after_done_refuted. Qed.
Print Assumptions c15_after_done_refuted.

(* non-vacuity: CRLF, comment, event name, multi-line data, a 3-byte character cut by the chunking,
   an invalid byte, [DONE] and trailing events: three frames whichever way the body is split, and
   the cut after [DONE] really removes something *)
Example c15_demo_nontrivial :
  frames_whole demo_cls 5 demo_body = demo_expected
  /\ frames_of demo_cls FIXED 5 (map (fun b => [b]) demo_body) = demo_expected
  /\ frames_of demo_cls FIXED 5 [firstn 32 demo_body; skipn 32 demo_body] = demo_expected
  /\ events_spec demo_cls (lossy_text demo_body) <> upto_done (events_spec demo_cls (lossy_text demo_body)).
Proof. exact demo_nontrivial. Qed.

(* non-vacuity of the content theorems: CRLF and LF blocks through the instantiated classification — a text delta with
   an escape, keys out of order, a duplicate key, a value over two data lines; a name / type mismatch; a payload that
   is not JSON; a typeless payload under the delta event name; [DONE]; an event after it *)
Example c15_json_demo :
  frames_of (jclassify demoA) FIXED 5 [demo2_body] = demo2_expected
  /\ frames_of (jclassify demoA) FIXED 5 (map (fun b => [b]) demo2_body) = demo2_expected
  /\ output_text demo2_expected = [104; 233]
  /\ Forall2 (carries demoA) (filter is_prov demo2_expected)
       (upto_done (events_spec (jclassify demoA) (lossy_text demo2_body))).
Proof. exact demo2_nontrivial. Qed.

Example c15_demoA_fmt_ok : forall t t', a_fmt_float demoA t = Some t' -> num_ok t' = true.
Proof. exact demoA_fmt_ok. Qed.
Example c15_demoA_fmt_idem : forall t t', a_fmt_float demoA t = Some t' -> norm_num demoA t' = Some t'.
Proof. exact demoA_fmt_idem. Qed.

(* the no-overflow hypothesis is satisfiable at the very top of the range (6 frames from 2^64 - 7), and one more wraps *)
Example c15_seq_top_of_range :
  nlen (fst (top_run (TWO64 - 1 - 6))) = 6
  /\ wrap_run (top_run (TWO64 - 1 - 6)) = top_run (TWO64 - 1 - 6) /\ run_overflows (top_run (TWO64 - 1 - 6)) = false
  /\ run_overflows (top_run (TWO64 - 6)) = true
  /\ wrap_run (top_run (TWO64 - 6)) <> top_run (TWO64 - 6).
Proof. exact seq_top_of_range. Qed.

(* a block with a comment, an event name with blanks around it, an unknown field, data lines with no / many blanks after the
   colon and CR line ends: one event "x\ny" named "e" *)
Example c15_block_demo :
  forallb (fun l => negb (is_blank l)) demo_block = true
  /\ block_data demo_block = [[120]; [121]] /\ block_event None demo_block = Some [101]
  /\ snd (fold_lines cls0 (None, []) (demo_block ++ [[]])) = [parse_event cls0 (Some [101]) [120; 10; 121]].
Proof. exact demo_block_event. Qed.
