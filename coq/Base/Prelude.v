(* Shared prelude: imports, arithmetic settings and small list lemmas used by every model. *)
From Coq Require Export List Arith NArith ZArith Lia Bool.
From Coq Require Export ZifyBool ZifyNat ZifyN.
Export ListNotations.

Global Arguments N.add : simpl never.
Global Arguments N.sub : simpl never.
Global Arguments N.mul : simpl never.
Global Arguments N.eqb : simpl never.
Global Arguments N.ltb : simpl never.
Global Arguments N.leb : simpl never.
Global Arguments N.div : simpl never.
Global Arguments N.modulo : simpl never.
Global Arguments N.min : simpl never.
Global Arguments N.max : simpl never.

Ltac Zify.zify_post_hook ::= Z.div_mod_to_equations.

Open Scope N_scope.

(* u64 arithmetic as the code uses it *)
Definition U64MAX : N := 18446744073709551615.
Definition sat_add64 (a b : N) : N := N.min (a + b) U64MAX.
Definition sat_sub (a b : N) : N := a - b.   (* N subtraction already saturates at 0 *)

Definition nlen {A} (l : list A) : N := N.of_nat (length l).

Fixpoint sumN (l : list N) : N :=
  match l with [] => 0 | x :: r => x + sumN r end.

Lemma sumN_app a b : sumN (a ++ b) = sumN a + sumN b.
Proof. induction a as [|x a IH]; cbn [sumN app]; lia. Qed.

Fixpoint list_eqb {A} (eqb : A -> A -> bool) (a b : list A) : bool :=
  match a, b with
  | [], [] => true
  | x :: a', y :: b' => eqb x y && list_eqb eqb a' b'
  | _, _ => false
  end.

Lemma list_eqb_spec {A} (eqb : A -> A -> bool) :
  (forall x y, eqb x y = true <-> x = y) ->
  forall a b, list_eqb eqb a b = true <-> a = b.
Proof.
  intros H a; induction a as [|x a IH]; intros [|y b]; cbn [list_eqb]; try (split; congruence).
  rewrite andb_true_iff, H, IH. split; [intros [-> ->]; reflexivity | intros E; inversion E; auto].
Qed.

Definition option_eqb {A} (eqb : A -> A -> bool) (a b : option A) : bool :=
  match a, b with
  | None, None => true
  | Some x, Some y => eqb x y
  | _, _ => false
  end.

Definition lN_eqb := list_eqb N.eqb.

Lemma lN_eqb_spec a b : lN_eqb a b = true <-> a = b.
Proof. apply list_eqb_spec. intros; apply N.eqb_eq. Qed.

(* indices (0-based, as N) of the cases on which a boolean check fails: the
   correspondence driver prints exactly this list *)
Fixpoint bad_from {A} (chk : A -> bool) (i : N) (l : list A) : list N :=
  match l with
  | [] => []
  | x :: r => if chk x then bad_from chk (i + 1) r else i :: bad_from chk (i + 1) r
  end.
Definition bad_cases {A} (chk : A -> bool) (l : list A) : list N := bad_from chk 0 l.

Lemma firstn_length_le {A} n (l : list A) : (length (firstn n l) <= n)%nat.
Proof. rewrite firstn_length. lia. Qed.

Lemma skipn_length_sub {A} n (l : list A) : length (skipn n l) = (length l - n)%nat.
Proof. apply skipn_length. Qed.
