(* UTF-8 validation as Rust's core::str::from_utf8 performs it (library/core/src/str/validations.rs,
   run_utf8_validation), with the Utf8Error classification: valid_up_to and
   error_len ∈ {None (input ends inside a sequence), Some 1, Some 2, Some 3}.
   Bytes are N (every value >= 256 falls in the "width 0 / not a continuation" classes, so the
   functions are total; the theorems hold for every list of N, in particular for real bytes).
   Definitions only; lemmas are in Proofs/Utf8Proofs.v.  Generally useful (C15, C17, C19). *)
From RipV Require Import Base.Prelude.

Definition is_cont (b : N) : bool := (128 <=? b) && (b <=? 191).

(* utf8_char_width for non-ASCII lead bytes (0 = not a lead byte) *)
Definition width (b : N) : N :=
  if (194 <=? b) && (b <=? 223) then 2
  else if (224 <=? b) && (b <=? 239) then 3
  else if (240 <=? b) && (b <=? 244) then 4
  else 0.

(* second-byte ranges of 3- and 4-byte sequences (no overlong forms, no surrogates, <= U+10FFFF) *)
Definition ok3 (b0 b1 : N) : bool :=
  ((b0 =? 224) && (160 <=? b1) && (b1 <=? 191))
  || ((225 <=? b0) && (b0 <=? 236) && is_cont b1)
  || ((b0 =? 237) && (128 <=? b1) && (b1 <=? 159))
  || ((238 <=? b0) && (b0 <=? 239) && is_cont b1).
Definition ok4 (b0 b1 : N) : bool :=
  ((b0 =? 240) && (144 <=? b1) && (b1 <=? 191))
  || ((241 <=? b0) && (b0 <=? 243) && is_cont b1)
  || ((b0 =? 244) && (128 <=? b1) && (b1 <=? 143)).

Inductive ustep :=
| UEof
| UChar (cp : N) (w : nat)      (* a scalar value encoded on w bytes *)
| UInvalid (k : nat)            (* error_len = Some k: the first k bytes can never start a character *)
| UIncomplete.                  (* error_len = None: the input ends inside a so-far-valid sequence *)

(* one iteration of the validation loop at the head of the input *)
Definition step (bs : list N) : ustep :=
  match bs with
  | [] => UEof
  | b0 :: r =>
    if b0 <? 128 then UChar b0 1
    else if width b0 =? 2 then
      match r with
      | [] => UIncomplete
      | b1 :: _ => if is_cont b1 then UChar ((b0 - 192) * 64 + (b1 - 128)) 2 else UInvalid 1
      end
    else if width b0 =? 3 then
      match r with
      | [] => UIncomplete
      | b1 :: r1 =>
        if ok3 b0 b1 then
          match r1 with
          | [] => UIncomplete
          | b2 :: _ => if is_cont b2 then UChar ((b0 - 224) * 4096 + (b1 - 128) * 64 + (b2 - 128)) 3
                       else UInvalid 2
          end
        else UInvalid 1
      end
    else if width b0 =? 4 then
      match r with
      | [] => UIncomplete
      | b1 :: r1 =>
        if ok4 b0 b1 then
          match r1 with
          | [] => UIncomplete
          | b2 :: r2 =>
            if is_cont b2 then
              match r2 with
              | [] => UIncomplete
              | b3 :: _ => if is_cont b3
                           then UChar ((b0 - 240) * 262144 + (b1 - 128) * 4096 + (b2 - 128) * 64 + (b3 - 128)) 4
                           else UInvalid 3
              end
            else UInvalid 2
          end
        else UInvalid 1
      end
    else UInvalid 1
  end.

(* std::str::from_utf8: Ok(text) or Err{valid_up_to, error_len}; `rest` = input[valid_up_to..] *)
Inductive ures :=
| UOk (cps : list N)
| UErr (cps : list N) (valid_up_to : nat) (rest : list N) (error_len : option nat).

Fixpoint scan (fuel : nat) (bs : list N) : ures :=
  match fuel with
  | O => UErr [] 0 bs None                 (* unreachable for fuel > length bs (Utf8Proofs.scan_fuel) *)
  | S f =>
    match step bs with
    | UEof => UOk []
    | UChar cp w =>
      match scan f (skipn w bs) with
      | UOk c => UOk (cp :: c)
      | UErr c v r e => UErr (cp :: c) (w + v) r e
      end
    | UInvalid k => UErr [] 0 bs (Some k)
    | UIncomplete => UErr [] 0 bs None
    end
  end.
Definition from_utf8 (bs : list N) : ures := scan (S (length bs)) bs.

(* reference lossy decoder over `step`: every maximal invalid prefix (error_len bytes) becomes one
   U+FFFD; an incomplete sequence at the end is returned as the carry-over, not decoded *)
Definition FFFD : N := 65533.
Fixpoint lossy (fuel : nat) (bs : list N) : list N * list N :=
  match fuel with
  | O => ([], bs)
  | S f =>
    match step bs with
    | UEof => ([], [])
    | UChar cp w => let '(t, r) := lossy f (skipn w bs) in (cp :: t, r)
    | UInvalid k => let '(t, r) := lossy f (skipn k bs) in (FFFD :: t, r)
    | UIncomplete => ([], bs)
    end
  end.
Definition lossy_text (bs : list N) : list N := fst (lossy (S (length bs)) bs).
Definition lossy_rest (bs : list N) : list N := snd (lossy (S (length bs)) bs).

(* UTF-8 encoder (used by examples and by the round-trip lemma) *)
Definition encode_cp (c : N) : list N :=
  if c <? 128 then [c]
  else if c <? 2048 then [192 + c / 64; 128 + c mod 64]
  else if c <? 65536 then [224 + c / 4096; 128 + (c / 64) mod 64; 128 + c mod 64]
  else [240 + c / 262144; 128 + (c / 4096) mod 64; 128 + (c / 64) mod 64; 128 + c mod 64].
Definition is_scalar (c : N) : bool := (c <? 55296) || ((57344 <=? c) && (c <? 1114112)).

(* flat encoding of a from_utf8 result for the correspondence: [0] | [1; valid_up_to; error_len or 0] *)
Definition enc_ures (r : ures) : list N :=
  match r with
  | UOk c => 0 :: nlen c :: c
  | UErr c v _ e => 1 :: N.of_nat v :: (match e with None => 0 | Some k => N.of_nat k end) :: nlen c :: c
  end.
