(* JSON text parser at code-point level, mirroring serde_json 1.0.149 `from_str` as seen through
   `deserialize_any`, except that object members are kept as an ordered association list WITH duplicates and
   number tokens are kept as text (`JNum tok`).  Definitions only; the print/parse round trips are in
   Proofs/JsonProofs.v.

   * whitespace = 32, 9, 10, 13; skipped before every value, after every value inside containers, around
     ':' and ',' and at the end of the document;
   * a number is the MAXIMAL run of `is_num_char` characters starting at '-' or a digit, accepted iff `num_ok`;
   * strings: raw code points < 32 are errors; escapes are backslash followed by one of
     quote, backslash, slash, b, f, n, r, t, or uXXXX (4 hex digits, either case); a high surrogate escape
     must be followed at once by a low surrogate escape (combined into one astral code point); lone surrogate
     escapes and unknown escapes are errors;
   * recursion limit as serde_json: `d` = remaining depth (128 at the top); entering an array or object computes
     d' = d - 1 and fails if d' = 0;
   * termination by fuel: `parse` supplies `2 * length txt + 1`, which always suffices (every recursive call either
     consumed a character or is the value call at the head of an element loop). *)
From RipV Require Import Base.Prelude Base.Json.

(* ---------- whitespace ---------- *)
Definition is_ws (c : N) : bool := (c =? 32) || (c =? 9) || (c =? 10) || (c =? 13).

Fixpoint skip_ws (l : str) : str :=
  match l with
  | [] => []
  | c :: r => if is_ws c then skip_ws r else l
  end.

(* ---------- literals ---------- *)
Fixpoint strip_prefix (p inp : str) : option str :=
  match p with
  | [] => Some inp
  | a :: p' =>
    match inp with
    | [] => None
    | b :: r => if a =? b then strip_prefix p' r else None
    end
  end.

(* ---------- numbers ---------- *)
Definition num_start (c : N) : bool := (c =? cMINUS) || is_digit c.

(* maximal run of number characters *)
Fixpoint span_num (l : str) : str * str :=
  match l with
  | [] => ([], [])
  | c :: r => if is_num_char c then let '(a, b) := span_num r in (c :: a, b) else ([], l)
  end.

(* ---------- strings ---------- *)
Definition unhex (c : N) : option N :=
  if (48 <=? c) && (c <=? 57) then Some (c - 48)
  else if (97 <=? c) && (c <=? 102) then Some (c - 87)
  else if (65 <=? c) && (c <=? 70) then Some (c - 55)
  else None.

Definition hex4 (a b c d : N) : option N :=
  match unhex a, unhex b, unhex c, unhex d with
  | Some x, Some y, Some z, Some w => Some (((x * 16 + y) * 16 + z) * 16 + w)
  | _, _, _, _ => None
  end.

Definition is_hi_sur (u : N) : bool := (55296 <=? u) && (u <=? 56319).    (* D800..DBFF *)
Definition is_lo_sur (u : N) : bool := (56320 <=? u) && (u <=? 57343).    (* DC00..DFFF *)
Definition sur_combine (hi lo : N) : N := 65536 + (hi - 55296) * 1024 + (lo - 56320).

(* the one-character escapes *)
Definition unesc_simple (e : N) : option N :=
  if e =? 34 then Some 34
  else if e =? 92 then Some 92
  else if e =? 47 then Some 47
  else if e =? 98 then Some 8
  else if e =? 102 then Some 12
  else if e =? 110 then Some 10
  else if e =? 114 then Some 13
  else if e =? 116 then Some 9
  else None.

(* the characters of a string after the opening quote, up to and including the closing quote; `acc` is the
   decoded text so far, reversed *)
Fixpoint parse_str_chars (inp : str) (acc : str) {struct inp} : option (str * str) :=
  match inp with
  | [] => None
  | c :: r =>
    if c =? 34 then Some (rev_append acc [], r)
    else if c =? 92 then
      match r with
      | [] => None
      | e :: r1 =>
        if e =? 117 then
          match r1 with
          | h1 :: h2 :: h3 :: h4 :: r2 =>
            match hex4 h1 h2 h3 h4 with
            | None => None
            | Some u =>
              if is_hi_sur u then
                match r2 with
                | b1 :: b2 :: g1 :: g2 :: g3 :: g4 :: r3 =>
                  if (b1 =? 92) && (b2 =? 117) then
                    match hex4 g1 g2 g3 g4 with
                    | None => None
                    | Some lo =>
                      if is_lo_sur lo then parse_str_chars r3 (sur_combine u lo :: acc) else None
                    end
                  else None
                | _ => None
                end
              else if is_lo_sur u then None
              else parse_str_chars r2 (u :: acc)
            end
          | _ => None
          end
        else
          match unesc_simple e with
          | None => None
          | Some x => parse_str_chars r1 (x :: acc)
          end
      end
    else if c <? 32 then None
    else parse_str_chars r (c :: acc)
  end.

(* ---------- containers ---------- *)
(* `Some r`: the input starts with the closing bracket (the container is empty) and r follows *)
Definition empty_close (close : N) (inp : str) : option str :=
  match inp with
  | [] => None
  | c :: r => if c =? close then Some r else None
  end.

(* after a container item: `Some (true, r)` on ',' (r = what follows, whitespace skipped), `Some (false, r)` on
   the closing bracket *)
Definition sep_or_close (close : N) (inp : str) : option (bool * str) :=
  match skip_ws inp with
  | [] => None
  | c :: r => if c =? cCOMMA then Some (true, skip_ws r) else if c =? close then Some (false, r) else None
  end.

(* an object key with its colon: "key" ws ':' ws *)
Definition parse_key (inp : str) : option (str * str) :=
  match inp with
  | [] => None
  | c :: r =>
    if c =? 34 then
      match parse_str_chars r [] with
      | None => None
      | Some (k, r1) =>
        match skip_ws r1 with
        | [] => None
        | c1 :: r2 => if c1 =? cCOLON then Some (k, skip_ws r2) else None
        end
      end
    else None
  end.

(* `parse_value` expects its input with leading whitespace already skipped (all callers do that) and returns the
   rest of the input right after the value.  `parse_elems` / `parse_members` parse the items of a non-empty
   array / object up to and including the closing bracket; `acc` holds the items so far, reversed. *)
Fixpoint parse_value (fuel : nat) (d : nat) (inp : str) {struct fuel} : option (json * str) :=
  match fuel with
  | O => None
  | S f =>
    match inp with
    | [] => None
    | c :: r =>
      if num_start c then
        let '(tok, r') := span_num inp in
        if num_ok tok then Some (JNum tok, r') else None
      else if c =? 34 then
        match parse_str_chars r [] with
        | None => None
        | Some (s, r') => Some (JStr s, r')
        end
      else if c =? cLBRK then
        let d' := Nat.pred d in
        match d' with
        | O => None
        | S _ =>
          let r1 := skip_ws r in
          match empty_close cRBRK r1 with
          | Some r2 => Some (JArr [], r2)
          | None =>
            match parse_elems f d' r1 [] with
            | None => None
            | Some (l, r2) => Some (JArr l, r2)
            end
          end
        end
      else if c =? cLBRC then
        let d' := Nat.pred d in
        match d' with
        | O => None
        | S _ =>
          let r1 := skip_ws r in
          match empty_close cRBRC r1 with
          | Some r2 => Some (JObj [], r2)
          | None =>
            match parse_members f d' r1 [] with
            | None => None
            | Some (kvs, r2) => Some (JObj kvs, r2)
            end
          end
        end
      else if c =? 110 then
        match strip_prefix s_null inp with Some r' => Some (JNull, r') | None => None end
      else if c =? 116 then
        match strip_prefix s_true inp with Some r' => Some (JBool true, r') | None => None end
      else if c =? 102 then
        match strip_prefix s_false inp with Some r' => Some (JBool false, r') | None => None end
      else None
    end
  end
with parse_elems (fuel : nat) (d : nat) (inp : str) (acc : list json) {struct fuel} : option (list json * str) :=
  match fuel with
  | O => None
  | S f =>
    match parse_value f d inp with
    | None => None
    | Some (v, r) =>
      match sep_or_close cRBRK r with
      | None => None
      | Some (true, r') => parse_elems f d r' (v :: acc)
      | Some (false, r') => Some (rev_append (v :: acc) [], r')
      end
    end
  end
with parse_members (fuel : nat) (d : nat) (inp : str) (acc : list (str * json)) {struct fuel}
  : option (list (str * json) * str) :=
  match fuel with
  | O => None
  | S f =>
    match parse_key inp with
    | None => None
    | Some (k, r) =>
      match parse_value f d r with
      | None => None
      | Some (v, r1) =>
        match sep_or_close cRBRC r1 with
        | None => None
        | Some (true, r') => parse_members f d r' ((k, v) :: acc)
        | Some (false, r') => Some (rev_append ((k, v) :: acc) [], r')
        end
      end
    end
  end.

Definition RECURSION_LIMIT : nat := 128.

(* the whole document: one value, then only whitespace *)
Definition parse (txt : str) : option json :=
  match parse_value (S (2 * length txt)) RECURSION_LIMIT (skip_ws txt) with
  | None => None
  | Some (j, r) => match skip_ws r with [] => Some j | _ :: _ => None end
  end.
