(* Finite-map model of a Unix file system as far as rip-workspace / rip-tools use it (C12, C13, C14).
   Keys are normalised absolute component lists; a raw path string is resolved lexically into
   (components, trailing-marker); every operation checks, as the kernel does, that all intermediate
   components are directories.  Symlinks, permissions and hard links are not modelled.
   Executable definitions only (lemmas: Proofs/FsProofs.v). *)
From RipV Require Import Base.Prelude.

Definition bytes := list N.
Definition name := list N.            (* bytes of one component *)
Definition path := list name.         (* components below the model's top directory *)
Inductive node := File (b : bytes) | Dir.
Definition fs := list (path * node).

Definition path_eqb : path -> path -> bool := list_eqb lN_eqb.

Definition node_eqb (a b : node) : bool :=
  match a, b with
  | File x, File y => lN_eqb x y
  | Dir, Dir => true
  | _, _ => false
  end.

Fixpoint assoc (f : fs) (p : path) : option node :=
  match f with
  | [] => None
  | (q, n) :: r => if path_eqb q p then Some n else assoc r p
  end.

(* the top directory [] always exists *)
Definition lookup (f : fs) (p : path) : option node :=
  match p with [] => Some Dir | _ => assoc f p end.

Fixpoint remove_key (p : path) (f : fs) : fs :=
  match f with
  | [] => []
  | (q, n) :: r => if path_eqb q p then remove_key p r else (q, n) :: remove_key p r
  end.

Definition set (f : fs) (p : path) (n : node) : fs := (p, n) :: remove_key p f.
Definition unset (f : fs) (p : path) : fs := remove_key p f.

Definition file_at (f : fs) (p : path) : option bytes :=
  match lookup f p with Some (File b) => Some b | _ => None end.
Definition is_dir (f : fs) (p : path) : bool :=
  match lookup f p with Some Dir => true | _ => false end.

Fixpoint is_prefix (a p : path) : bool :=
  match a, p with
  | [], _ => true
  | x :: a', y :: p' => lN_eqb x y && is_prefix a' p'
  | _ :: _, [] => false
  end.

(* ---------- errors (io::ErrorKind as seen by the harness) ---------- *)
Definition ENOENT : N := 1.        (* NotFound *)
Definition EEXIST : N := 2.        (* AlreadyExists *)
Definition EINVALDATA : N := 3.    (* InvalidData (constructed by rip) *)
Definition EINVAL : N := 4.        (* InvalidInput *)
Definition EISDIR : N := 5.        (* IsADirectory *)
Definition ENOTDIR : N := 6.       (* NotADirectory *)
Definition ENAMETOOLONG : N := 7.  (* InvalidFilename *)
Definition ENOTEMPTY : N := 9.     (* DirectoryNotEmpty *)

Inductive res (A : Type) := Ok (a : A) | Err (e : N).
Arguments Ok {A} a.
Arguments Err {A} e.

(* ---------- raw path strings ---------- *)
Fixpoint split_aux (c : N) (cur : list N) (s : list N) : list (list N) :=
  match s with
  | [] => [rev cur]
  | x :: r => if x =? c then rev cur :: split_aux c [] r else split_aux c (x :: cur) r
  end.
Definition split_on (c : N) (s : list N) : list (list N) := split_aux c [] s.

Definition seg_dot (s : name) : bool := lN_eqb s [46].
Definition seg_dotdot (s : name) : bool := lN_eqb s [46; 46].
Definition seg_trivial (s : name) : bool := match s with [] => true | _ => seg_dot s end.

Inductive trail := TNone | TSlash | TDot.

(* what follows the last real component: nothing, only slashes, or a "." somewhere *)
Fixpoint trail_after (segs : list name) (seen_real : bool) (t : trail) : trail :=
  match segs with
  | [] => t
  | s :: r =>
    if seg_trivial s
    then trail_after r seen_real
           (if seen_real then (if seg_dot s then TDot else match t with TDot => TDot | _ => TSlash end) else t)
    else trail_after r true TNone
  end.

Definition starts_slash (s : list N) : bool := match s with 47 :: _ => true | _ => false end.

(* std::path::Path::components on Unix, without the RootDir / leading CurDir markers *)
Definition comps (raw : list N) : list name := filter (fun s => negb (seg_trivial s)) (split_on 47 raw).
Definition has_parent_dir (raw : list N) : bool := existsb seg_dotdot (split_on 47 raw).
Definition raw_trail (raw : list N) : trail := trail_after (split_on 47 raw) false TNone.
Definition has_nul (raw : list N) : bool := existsb (N.eqb 0) raw.

(* ---------- kernel-style checks ---------- *)
(* all strict prefixes of cur ++ rest (below cur) are directories; names are at most 255 bytes *)
Fixpoint dirs_ok (f : fs) (cur : path) (rest : list name) : option N :=
  match rest with
  | [] => None
  | [c] => if 255 <? nlen c then Some ENAMETOOLONG else None
  | c :: r =>
    if 255 <? nlen c then Some ENAMETOOLONG else
    match lookup f (cur ++ [c]) with
    | Some Dir => dirs_ok f (cur ++ [c]) r
    | Some (File _) => Some ENOTDIR
    | None => Some ENOENT
    end
  end.

(* a resolved target: base directory (exists), components below it, trailing marker *)
Record tgt := { t_base : path; t_comps : list name; t_trail : trail; t_nul : bool }.
Definition t_path (t : tgt) : path := t_base t ++ t_comps t.

(* root.join(raw) for a raw string without ParentDir segments that is not absolute *)
Definition mk_tgt (base : path) (raw : list N) : tgt :=
  {| t_base := base; t_comps := comps raw; t_trail := raw_trail raw; t_nul := has_nul raw |}.

Definition pre_err (f : fs) (t : tgt) : option N :=
  if t_nul t then Some EINVAL else dirs_ok f (t_base t) (t_comps t).

Definition os_exists (f : fs) (t : tgt) : bool :=
  match pre_err f t with
  | Some _ => false
  | None =>
    match lookup f (t_path t) with
    | Some Dir => true
    | Some (File _) => match t_trail t with TNone => true | _ => false end
    | None => false
    end
  end.

Definition os_is_dir (f : fs) (t : tgt) : bool :=
  match pre_err f t with
  | Some _ => false
  | None => is_dir f (t_path t)
  end.

Definition os_read (f : fs) (t : tgt) : res bytes :=
  match pre_err f t with
  | Some e => Err e
  | None =>
    match lookup f (t_path t) with
    | Some Dir => Err EISDIR
    | Some (File b) => match t_trail t with TNone => Ok b | _ => Err ENOTDIR end
    | None => Err ENOENT
    end
  end.

(* fs::write = open(O_WRONLY|O_CREAT|O_TRUNC) + write_all *)
Definition os_write (f : fs) (t : tgt) (data : bytes) : res fs :=
  match pre_err f t with
  | Some e => Err e
  | None =>
    match lookup f (t_path t) with
    | Some Dir => Err EISDIR
    | Some (File _) =>
      (* O_CREAT with a trailing slash is EISDIR before the last component is looked at; "file/." fails in the walk *)
      match t_trail t with TNone => Ok (set f (t_path t) (File data)) | TSlash => Err EISDIR | TDot => Err ENOTDIR end
    | None =>
      match t_trail t with
      | TNone => Ok (set f (t_path t) (File data))
      | TSlash => Err EISDIR
      | TDot => Err ENOENT
      end
    end
  end.

Definition os_remove_file (f : fs) (t : tgt) : res fs :=
  match pre_err f t with
  | Some e => Err e
  | None =>
    match lookup f (t_path t) with
    | Some Dir => Err EISDIR
    | Some (File _) => match t_trail t with TNone => Ok (unset f (t_path t)) | _ => Err ENOTDIR end
    | None => Err ENOENT
    end
  end.

(* fs::create_dir_all on base/c1/../cn (the argument is always a `Path::parent()`, hence trimmed) *)
Fixpoint mkdir_all (f : fs) (cur : path) (cs : list name) : fs * option N :=
  match cs with
  | [] => (f, None)
  | c :: r =>
    if 255 <? nlen c then (f, Some ENAMETOOLONG) else
    match lookup f (cur ++ [c]) with
    | Some Dir => mkdir_all f (cur ++ [c]) r
    | Some (File _) => (f, Some (match r with [] => EEXIST | _ => ENOTDIR end))
    | None => mkdir_all (set f (cur ++ [c]) Dir) (cur ++ [c]) r
    end
  end.

(* `if let Some(parent) = X.parent() { create_dir_all(parent) }` for X = base.join(raw) *)
(* create_dir_all tries mkdir on the full parent path first: a NUL byte anywhere in the PARENT is InvalidInput
   before anything is created; a NUL in the last component only does not concern the parent *)
Definition comps_nul (cs : list name) : bool := existsb (fun c => existsb (N.eqb 0) c) cs.
Definition mk_parent_dirs (f : fs) (t : tgt) : fs * option N :=
  if comps_nul (removelast (t_comps t)) then (f, Some EINVAL) else mkdir_all f (t_base t) (removelast (t_comps t)).

(* rename of a regular file onto a missing name or an existing file *)
Definition os_rename_file (f : fs) (src dst : tgt) : res fs :=
  match pre_err f src with
  | Some e => Err e
  | None =>
    match lookup f (t_path src), t_trail src with
    | Some (File b), TNone =>
      match pre_err f dst with
      | Some e => Err e
      | None =>
        match lookup f (t_path dst), t_trail dst with
        | Some Dir, _ => Err EISDIR
        | Some (File _), TNone => Ok (set (unset f (t_path src)) (t_path dst) (File b))
        | Some (File _), _ => Err ENOTDIR
        | None, TNone => Ok (set (unset f (t_path src)) (t_path dst) (File b))
        | None, TSlash => Err ENOTDIR
        | None, TDot => Err ENOENT
        end
      end
    | Some (File _), _ => Err ENOTDIR
    | Some Dir, _ => Err EISDIR          (* directory renames are not used by the modelled code *)
    | None, _ => Err ENOENT
    end
  end.

(* remove p and everything below it, provided p is a directory with no file anywhere below *)
Definition under (a : path) (qn : path * node) : bool := is_prefix a (fst qn).
Definition file_under (f : fs) (a : path) : bool :=
  existsb (fun qn => under a qn && match snd qn with File _ => true | Dir => false end) f.
Definition rm_empty_tree (f : fs) (a : path) : fs :=
  match a with
  | [] => f
  | _ => if is_dir f a && negb (file_under f a) then filter (fun qn => negb (under a qn)) f else f
  end.

(* ---------- listing comparison used by the correspondence ---------- *)
Definition entry_ok (f : fs) (qn : path * node) : bool :=
  match lookup f (fst qn) with Some n => node_eqb n (snd qn) | None => false end.
Definition same_listing (f : fs) (obs : fs) : bool :=
  forallb (entry_ok f) obs && forallb (entry_ok obs) f.

(* strict UTF-8 validity (String::from_utf8) *)
Definition cont (b : N) : bool := (128 <=? b) && (b <=? 191).
Fixpoint utf8_ok_fuel (fuel : nat) (s : bytes) : bool :=
  match fuel with
  | O => match s with [] => true | _ => false end
  | S k =>
    match s with
    | [] => true
    | b0 :: r =>
      if b0 <? 128 then utf8_ok_fuel k r
      else if (194 <=? b0) && (b0 <=? 223) then
        match r with b1 :: r1 => cont b1 && utf8_ok_fuel k r1 | _ => false end
      else if b0 =? 224 then
        match r with b1 :: b2 :: r2 => (160 <=? b1) && (b1 <=? 191) && cont b2 && utf8_ok_fuel k r2 | _ => false end
      else if ((225 <=? b0) && (b0 <=? 236)) || (b0 =? 238) || (b0 =? 239) then
        match r with b1 :: b2 :: r2 => cont b1 && cont b2 && utf8_ok_fuel k r2 | _ => false end
      else if b0 =? 237 then
        match r with b1 :: b2 :: r2 => (128 <=? b1) && (b1 <=? 159) && cont b2 && utf8_ok_fuel k r2 | _ => false end
      else if b0 =? 240 then
        match r with b1 :: b2 :: b3 :: r3 => (144 <=? b1) && (b1 <=? 191) && cont b2 && cont b3 && utf8_ok_fuel k r3 | _ => false end
      else if (241 <=? b0) && (b0 <=? 243) then
        match r with b1 :: b2 :: b3 :: r3 => cont b1 && cont b2 && cont b3 && utf8_ok_fuel k r3 | _ => false end
      else if b0 =? 244 then
        match r with b1 :: b2 :: b3 :: r3 => (128 <=? b1) && (b1 <=? 143) && cont b2 && cont b3 && utf8_ok_fuel k r3 | _ => false end
      else false
    end
  end.
Definition utf8_ok (s : bytes) : bool := utf8_ok_fuel (length s) s.

Definition os_rm_empty_tree (f : fs) (t : tgt) : fs :=
  if os_is_dir f t then rm_empty_tree f (t_path t) else f.

(* remove the directories at and below a (a itself a directory) that have no file anywhere below them: a recursive
   bottom-up `remove_dir` that ignores errors (rip-workspace `remove_empty_dirs`, used by the patch revert) *)
Definition is_dirnode (n : node) : bool := match n with Dir => true | File _ => false end.
Definition prune_dirs (f : fs) (a : path) : fs :=
  match a with
  | [] => f
  | _ => if is_dir f a
         then filter (fun qn => negb (under a qn && is_dirnode (snd qn) && negb (file_under f (fst qn)))) f
         else f
  end.
Definition os_prune_dirs (f : fs) (t : tgt) : fs :=
  if os_is_dir f t then prune_dirs f (t_path t) else f.

(* byte strings from Coq string literals (model constants only) *)
Require Import Coq.Strings.String Coq.Strings.Ascii.
Definition bs (s : string) : list N := map N_of_ascii (list_ascii_of_string s).
