(* JSON as rip's frames use it: AST, serde_json's compact printer (CompactFormatter) and pretty printer
   (PrettyFormatter, two-space indent) at code-point level.  Numbers are opaque atoms: the literal token text
   (what itoa / the float printer wrote); nothing here interprets a number.  Text is a list of Unicode code
   points (UTF-8 encoding/decoding of Rust `String`s is below this model).
   The parser lives in Base/JsonParse.v, the round-trip proofs in Proofs/JsonProofs.v. *)
From RipV Require Import Base.Prelude.

Definition str := list N.

Inductive json :=
| JNull
| JBool (b : bool)
| JNum (tok : str)
| JStr (s : str)
| JArr (l : list json)
| JObj (kvs : list (str * json)).

(* ---------- code points used below ---------- *)
Definition cQUOTE : N := 34.   (* double quote *)
Definition cBSL : N := 92.     (* backslash *)
Definition cCOMMA : N := 44.
Definition cCOLON : N := 58.
Definition cLBRK : N := 91.
Definition cRBRK : N := 93.
Definition cLBRC : N := 123.
Definition cRBRC : N := 125.
Definition cSP : N := 32.
Definition cNL : N := 10.
Definition cMINUS : N := 45.
Definition cPLUS : N := 43.
Definition cDOT : N := 46.

Definition s_null : str := [110; 117; 108; 108].
Definition s_true : str := [116; 114; 117; 101].
Definition s_false : str := [102; 97; 108; 115; 101].

Definition str_eqb : str -> str -> bool := lN_eqb.

(* ---------- number tokens: the JSON number grammar (optional minus, integer part without leading zeros,
   optional fraction, optional exponent) ---------- *)
Definition is_digit (c : N) : bool := (48 <=? c) && (c <=? 57).

Fixpoint all_digits (l : str) : bool :=
  match l with [] => true | c :: r => is_digit c && all_digits r end.

Fixpoint span_digits (l : str) : str * str :=
  match l with
  | [] => ([], [])
  | c :: r => if is_digit c then let '(a, b) := span_digits r in (c :: a, b) else ([], l)
  end.

Definition int_part_ok (ip : str) : bool :=
  match ip with
  | [] => false
  | [c] => is_digit c
  | c :: _ => is_digit c && negb (c =? 48)
  end.

Definition exp_ok (t : str) : bool :=
  match t with
  | [] => true
  | c :: r =>
    if (c =? 101) || (c =? 69) then
      let r' := match r with s :: r1 => if (s =? cPLUS) || (s =? cMINUS) then r1 else r | [] => r end in
      match r' with [] => false | _ => all_digits r' end
    else false
  end.

Definition num_ok (tok : str) : bool :=
  let t1 := match tok with c :: r => if c =? cMINUS then r else tok | [] => tok end in
  let '(ip, t2) := span_digits t1 in
  int_part_ok ip &&
  match t2 with
  | c :: r =>
    if c =? cDOT then
      let '(fp, t3) := span_digits r in
      match fp with [] => false | _ => exp_ok t3 end
    else exp_ok t2
  | [] => true
  end.

(* characters a number token can consist of: the lexer takes the maximal run of these *)
Definition is_num_char (c : N) : bool :=
  is_digit c || (c =? cMINUS) || (c =? cPLUS) || (c =? cDOT) || (c =? 101) || (c =? 69).

(* ---------- strings: serde_json's ESCAPE table ---------- *)
Definition hexd (n : N) : N := if n <? 10 then 48 + n else 87 + n.   (* lowercase hex digit *)

Definition esc_char (c : N) : str :=
  if c =? 34 then [92; 34]
  else if c =? 92 then [92; 92]
  else if c =? 8 then [92; 98]
  else if c =? 9 then [92; 116]
  else if c =? 10 then [92; 110]
  else if c =? 12 then [92; 102]
  else if c =? 13 then [92; 114]
  else if c <? 32 then [92; 117; 48; 48; hexd (c / 16); hexd (c mod 16)]
  else [c].

Definition print_str (s : str) : str := cQUOTE :: flat_map esc_char s ++ [cQUOTE].

Fixpoint join (sep : str) (l : list str) : str :=
  match l with
  | [] => []
  | [x] => x
  | x :: r => x ++ sep ++ join sep r
  end.

(* ---------- compact printer: serde_json::to_string ---------- *)
Fixpoint print (j : json) : str :=
  match j with
  | JNull => s_null
  | JBool true => s_true
  | JBool false => s_false
  | JNum t => t
  | JStr s => print_str s
  | JArr l => cLBRK :: join [cCOMMA] (map print l) ++ [cRBRK]
  | JObj kvs =>
    cLBRC :: join [cCOMMA] (map (fun kv => print_str (fst kv) ++ cCOLON :: print (snd kv)) kvs) ++ [cRBRC]
  end.

(* ---------- pretty printer: serde_json::to_string_pretty ---------- *)
Definition nl_ind (d : nat) : str := cNL :: repeat cSP (2 * d).

Fixpoint pp (d : nat) (j : json) : str :=
  match j with
  | JArr [] => [cLBRK; cRBRK]
  | JArr l =>
    cLBRK :: nl_ind (S d) ++ join (cCOMMA :: nl_ind (S d)) (map (pp (S d)) l) ++ nl_ind d ++ [cRBRK]
  | JObj [] => [cLBRC; cRBRC]
  | JObj kvs =>
    cLBRC :: nl_ind (S d)
      ++ join (cCOMMA :: nl_ind (S d))
           (map (fun kv => print_str (fst kv) ++ [cCOLON; cSP] ++ pp (S d) (snd kv)) kvs)
      ++ nl_ind d ++ [cRBRC]
  | _ => print j
  end.

Definition print_pretty (j : json) : str := pp 0 j.

(* ---------- structure ---------- *)
Fixpoint json_depth (j : json) : nat :=
  match j with
  | JArr l => S (fold_right Nat.max 0%nat (map json_depth l))
  | JObj kvs => S (fold_right Nat.max 0%nat (map (fun kv => json_depth (snd kv)) kvs))
  | _ => 0%nat
  end.

(* every number token is a JSON number; strings hold no surrogate code points and nothing above U+10FFFF
   (a Rust `String` cannot hold them) *)
Definition cp_ok (c : N) : bool := (c <? 55296) || ((57343 <? c) && (c <=? 1114111)).
Definition str_ok (s : str) : bool := forallb cp_ok s.

Fixpoint json_ok (j : json) : bool :=
  match j with
  | JNum t => num_ok t
  | JStr s => str_ok s
  | JArr l => forallb json_ok l
  | JObj kvs => forallb (fun kv => str_ok (fst kv) && json_ok (snd kv)) kvs
  | _ => true
  end.

Fixpoint json_eqb (a b : json) : bool :=
  match a, b with
  | JNull, JNull => true
  | JBool x, JBool y => Bool.eqb x y
  | JNum x, JNum y => str_eqb x y
  | JStr x, JStr y => str_eqb x y
  | JArr x, JArr y =>
    (fix go (x y : list json) : bool :=
       match x, y with
       | [], [] => true
       | a :: x', b :: y' => json_eqb a b && go x' y'
       | _, _ => false
       end) x y
  | JObj x, JObj y =>
    (fix go (x y : list (str * json)) : bool :=
       match x, y with
       | [], [] => true
       | (ka, a) :: x', (kb, b) :: y' => str_eqb ka kb && json_eqb a b && go x' y'
       | _, _ => false
       end) x y
  | _, _ => false
  end.

(* first binding of a key (serde's struct visitors see keys in document order) *)
Fixpoint assoc (k : str) (kvs : list (str * json)) : option json :=
  match kvs with
  | [] => None
  | (k', v) :: r => if str_eqb k k' then Some v else assoc k r
  end.
