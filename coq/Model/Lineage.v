(* C10 - executable model of ContinuityStore::branch / ::handoff (crates/ripd/src/continuities.rs,
   `pub fn branch`, `pub fn handoff`, `fn create_continuity`) and of the handoff context bundle
   (handoff_context_bundle.rs: new_source_cut / write_bundle_v1).  No proofs here
   (Proofs/LineageProofs.v).

   Frame view (Frames.frame): fid = ordinal of the event id, sid = ordinal of the thread id, seq,
   ety, args.  The harness interns every string (event ids, thread ids, message ids named by run
   frames, artifact ids, the selector's from_message_id) in ONE table, so "the same string" is "the
   same number"; a message id that names no event gets a number that is the fid of no frame.
     args of ContinuityRunSpawned / ContinuityRunEnded : [message_id]
     args of ContinuityBranched                        : [parent; parent_seq; opt parent_message_id]
     args of ContinuityHandoffCreated                  : [from; from_seq; opt from_message_id;
                                                          opt summary_artifact_id; markdown present]
     every other frame                                  : []
   with `opt None = 0`, `opt (Some x) = 1 + x`. *)
From RipV Require Import Base.Prelude Model.Frames Model.Log.

Inductive selector :=
| SelNone
| SelSeq (n : N)            (* from_seq *)
| SelMsg (id : N)           (* from_message_id *)
| SelBoth (id n : N).       (* both given *)

Inductive cerr :=
| EBoth          (* "requires only one of from_message_id or from_seq" *)
| ENoParent      (* "parent continuity stream does not exist" (replay returned no frame) *)
| EOutOfRange    (* "from_seq out of range" *)
| ENotFound      (* "from_message_id not found" *)
| ENoSummary     (* handoff: "requires summary_markdown and/or summary_artifact_id" *)
| ENoArtifact    (* handoff (after the fix): the given summary_artifact_id names no stored artifact *)
| EBundle.       (* handoff: write_bundle_v1 failed (after create_continuity!) *)

Definition cerr_code (e : cerr) : N :=
  match e with EBoth => 1 | ENoParent => 2 | EOutOfRange => 3 | ENotFound => 4 | ENoSummary => 5
             | EBundle => 6 | ENoArtifact => 7 end.

Inductive result (A : Type) := Ok (a : A) | Err (e : cerr).
Arguments Ok {A} a.
Arguments Err {A} e.

Definition is_msg (f : frame) : bool := is_etype EContinuityMessageAppended f.
Definition is_run (f : frame) : bool :=
  is_etype EContinuityRunSpawned f || is_etype EContinuityRunEnded f.
(* `message_id: mid, ..` of a run frame *)
Definition names_msg (m : N) (f : frame) : bool :=
  match args f with mid :: _ => mid =? m | [] => false end.
Definition is_run_of (m : N) (f : frame) : bool := is_run f && names_msg m f.
Definition is_msg_id (m : N) (f : frame) : bool := is_msg f && (fid f =? m).

(* parent_events.last().map(|e| e.seq).unwrap_or_default() *)
Definition head_seq (fs : list frame) : N :=
  match rev fs with f :: _ => seq f | [] => 0 end.

(* parent_events.iter().rev().find(|e| e.seq <= n && matches!(MessageAppended)).map(|e| e.id) *)
Definition last_msg_upto (n : N) (fs : list frame) : option N :=
  option_map fid (find (fun f => (seq f <=? n) && is_msg f) (rev fs)).
(* parent_events.iter().rev().find(|e| matches!(MessageAppended)).map(|e| e.id) *)
Definition last_msg (fs : list frame) : option N :=
  option_map fid (find is_msg (rev fs)).

(* the `for event in &parent_events { match &event.kind { .. } }` loop; state =
   (message_seq, max_related_seq) *)
Definition unwrap0 (o : option N) : N := match o with Some x => x | None => 0 end.
Definition scan_step (m : N) (st : option N * option N) (f : frame) : option N * option N :=
  if is_msg_id m f then (Some (seq f), Some (seq f))
  else if is_run_of m f then (fst st, Some (N.max (unwrap0 (snd st)) (seq f)))
  else st.
Definition scan (m : N) (fs : list frame) : option N * option N :=
  fold_left (scan_step m) fs (None, None).

(* cut resolution of branch (continuities.rs `pub fn branch`, from the both-given test to the
   end of the big `let (parent_seq, parent_message_id) = ...`); handoff's is textually the same
   after its summary test.  `fs` = what replay_events(parent) returned. *)
Definition resolve_cut (sel : selector) (fs : list frame) : result (N * option N) :=
  match sel with
  | SelBoth _ _ => Err EBoth
  | _ =>
    match fs with
    | [] => Err ENoParent
    | _ =>
      let head := head_seq fs in
      match sel with
      | SelSeq n => if head <? n then Err EOutOfRange else Ok (n, last_msg_upto n fs)
      | SelMsg m =>
        let st := scan m fs in
        match fst st with
        | None => Err ENotFound
        | Some _ => Ok (unwrap0 (snd st), Some m)
        end
      | _ => Ok (head, last_msg fs)
      end
    end
  end.

(* ---------- frames written ---------- *)
Definition opt (o : option N) : N := match o with None => 0 | Some x => 1 + x end.

Definition created_frame (child eid : N) : frame :=
  {| fid := eid; sid := child; seq := 0; ety := EContinuityCreated; args := [] |}.
Definition branched_frame (child eid parent cut : N) (om : option N) : frame :=
  {| fid := eid; sid := child; seq := 1; ety := EContinuityBranched; args := [parent; cut; opt om] |}.
Definition handoff_frame (child eid parent cut : N) (om oart : option N) (md : bool) : frame :=
  {| fid := eid; sid := child; seq := 1; ety := EContinuityHandoffCreated;
     args := [parent; cut; opt om; opt oart; if md then 1 else 0] |}.

(* the ids the call draws (Uuid::new_v4): thread id, the two event ids, the bundle's artifact id *)
Record fresh := { f_child : N; f_e0 : N; f_e1 : N; f_art : N }.

(* response of thread.branch / thread.handoff: (thread_id, seq, message_id) *)
Definition resp := (N * N * option N)%type.

(* branch, sequentially (the races of the two appends with other writers are C01's business).
   `view` = replay_events(parent); every error is detected before create_continuity. *)
Definition branch_view (view : list frame) (l : log) (parent : N) (sel : selector) (fr : fresh)
  : log * result resp :=
  match resolve_cut sel view with
  | Err e => (l, Err e)
  | Ok (cut, om) =>
    (l ++ [created_frame (f_child fr) (f_e0 fr); branched_frame (f_child fr) (f_e1 fr) parent cut om],
     Ok (f_child fr, cut, om))
  end.
Definition branch_op (l : log) (parent : N) (sel : selector) (fr : fresh) : log * result resp :=
  branch_view (cstream parent l) l parent sel fr.

(* workspace artifact store as far as handoff is concerned: artifact id -> content; the content
   of a handoff bundle is its source-cut ref [thread; seq; opt message_id] *)
Definition astore := list (N * list N).
Definition art_get (a : N) (s : astore) : option (list N) :=
  option_map snd (find (fun kv => fst kv =? a) s).
Definition art_has (a : N) (s : astore) : bool :=
  match art_get a s with Some _ => true | None => false end.

(* handoff.  md = summary_markdown given; art = summary_artifact_id given; bundle_ok = whether
   write_bundle_v1 succeeds (environment).  Two repairs are switchable so that the code as found stays
   expressible:
     chk = the existence test of a caller-given artifact id, placed right after the summary test
           (false = as found: the id is recorded verbatim);
     bf  = the bundle is written BEFORE create_continuity (false = as found: after it, so a failing
           artifact write leaves the child's seq-0 frame behind). *)
Definition handoff_gen (chk bf : bool) (view : list frame) (l : log) (arts : astore) (parent : N)
  (sel : selector) (md : bool) (art : option N) (bundle_ok : bool) (fr : fresh)
  : log * astore * result resp :=
  match md, art with
  | false, None => (l, arts, Err ENoSummary)
  | _, _ =>
    if match art with Some a => chk && negb (art_has a arts) | None => false end
    then (l, arts, Err ENoArtifact)
    else
    match resolve_cut sel view with
    | Err e => (l, arts, Err e)
    | Ok (cut, om) =>
      let child := f_child fr in
      match art with
      | Some a =>
        (l ++ [created_frame child (f_e0 fr); handoff_frame child (f_e1 fr) parent cut om (Some a) md],
         arts, Ok (child, cut, om))
      | None =>
        if bundle_ok
        then (l ++ [created_frame child (f_e0 fr);
                    handoff_frame child (f_e1 fr) parent cut om (Some (f_art fr)) md],
              (f_art fr, [parent; cut; opt om]) :: arts, Ok (child, cut, om))
        else ((if bf then l else l ++ [created_frame child (f_e0 fr)]), arts, Err EBundle)
      end
    end
  end.
(* the code as found / as repaired *)
Definition handoff_unfixed := handoff_gen false false.
Definition handoff_view := handoff_gen true true.
Definition handoff_op (l : log) (arts : astore) (parent : N) (sel : selector) (md : bool)
  (art : option N) (bundle_ok : bool) (fr : fresh) : log * astore * result resp :=
  handoff_view (cstream parent l) l arts parent sel md art bundle_ok fr.
Definition handoff_op_unfixed (l : log) (arts : astore) (parent : N) (sel : selector) (md : bool)
  (art : option N) (bundle_ok : bool) (fr : fresh) : log * astore * result resp :=
  handoff_unfixed (cstream parent l) l arts parent sel md art bundle_ok fr.

(* ---------- specification vocabulary used by the theorems ---------- *)
(* om is the id of the positionally last message frame with seq <= cut (None iff there is none) *)
Definition LastMsgAtOrBefore (cut : N) (fs : list frame) (om : option N) : Prop :=
  match om with
  | Some m => exists pre f post, fs = pre ++ f :: post /\ is_msg f = true /\ fid f = m /\ seq f <= cut
                /\ (forall g, In g post -> is_msg g = true -> cut < seq g)
  | None => forall g, In g fs -> is_msg g = true -> cut < seq g
  end.
Definition maxl (x : N) (l : list N) : N := fold_left N.max l x.
(* what a Valid stream gives: seqs are 0,1,2,.. in file order *)
Definition Consecutive (fs : list frame) : Prop := map seq fs = nseq 0 (length fs).
Definition SeqsBelowHead (fs : list frame) : Prop := forall f, In f fs -> seq f <= head_seq fs.

(* ---------- correspondence ---------- *)
Inductive opk := OpBranch | OpHandoff (md : bool) (art : option N) (bundle_ok : bool).

Record case := {
  c_log : log;                 (* events.jsonl before the call *)
  c_view : list frame;         (* what replay_events(parent) returned just before the call *)
  c_view_truth : bool;         (* no stale-prefix fault is pending: view must equal the truth stream *)
  c_arts : astore;             (* caller-visible artifacts that exist (id -> content, content unused) *)
  c_check_art : bool;          (* which handoff the implementation is expected to follow *)
  c_bundle_first : bool;
  c_parent : N;
  c_sel : selector;
  c_op : opk;
  c_fresh : fresh;
  c_expect : list N }.

Definition enc_frame (f : frame) : list N :=
  [sid f; seq f; etype_code (ety f); fid f; nlen (args f)] ++ args f.
Definition enc_res (r : result resp) : list N :=
  match r with
  | Err e => [0; cerr_code e]
  | Ok (c, cut, om) => [1; c; cut; opt om]
  end.
Fixpoint frames_eqb (a b : list frame) : bool :=
  match a, b with
  | [], [] => true
  | x :: a', y :: b' => frame_eqb x y && frames_eqb a' b'
  | _, _ => false
  end.

Definition run_case (c : case) : log * astore * result resp :=
  match c_op c with
  | OpBranch => let '(l, r) := branch_view (c_view c) (c_log c) (c_parent c) (c_sel c) (c_fresh c) in
                (l, c_arts c, r)
  | OpHandoff md art bok =>
    handoff_gen (c_check_art c) (c_bundle_first c) (c_view c) (c_log c) (c_arts c) (c_parent c) (c_sel c) md art bok (c_fresh c)
  end.

(* observation: result; the frames appended to the log; the bundle written (if any); whether the
   view was the truth stream *)
Definition model_obs (c : case) : list N :=
  let '(l, arts, r) := run_case c in
  let added := skipn (length (c_log c)) l in
  let newart := firstn (length arts - length (c_arts c)) arts in
  enc_res r
  ++ nlen added :: concat (map enc_frame added)
  ++ nlen newart :: concat (map (fun kv => fst kv :: nlen (snd kv) :: snd kv) newart)
  ++ [if c_view_truth c then (if frames_eqb (c_view c) (cstream (c_parent c) (c_log c)) then 1 else 0) else 2].

Definition check_case (c : case) : bool := lN_eqb (model_obs c) (c_expect c).

(* ---------- the HTTP layer (server.rs thread_branch / thread_handoff) ----------
   POST /threads/{id}/branch|handoff passes the body fields through to the store call and answers 201 with
   the response tuple, or a status chosen by the text of the error: "out of range" / "requires only one of" /
   "requires summary" -> 400, "does not exist" / "not found" -> 404, anything else -> 500. *)
Definition http_status (r : result resp) : N :=
  match r with
  | Ok _ => 201
  | Err (EBoth | EOutOfRange | ENoSummary) => 400
  | Err (ENoParent | ENotFound | ENoArtifact) => 404
  | Err EBundle => 500
  end.
Definition enc_res_http (r : result resp) : list N :=
  match r with
  | Err _ => [0; http_status r]
  | Ok (c, cut, om) => [1; c; cut; opt om]
  end.
Definition model_obs_http (c : case) : list N :=
  let '(l, arts, r) := run_case c in
  let added := skipn (length (c_log c)) l in
  let newart := firstn (length arts - length (c_arts c)) arts in
  enc_res_http r
  ++ nlen added :: concat (map enc_frame added)
  ++ nlen newart :: concat (map (fun kv => fst kv :: nlen (snd kv) :: snd kv) newart)
  ++ [if c_view_truth c then (if frames_eqb (c_view c) (cstream (c_parent c) (c_log c)) then 1 else 0) else 2].
Definition check_case_http (c : case) : bool := lN_eqb (model_obs_http c) (c_expect c).
