(* C10 - the guard `handoff()` applies to a CALLER-SUPPLIED summary_artifact_id
   (crates/ripd/src/handoff_context_bundle.rs `artifact_exists`), as a predicate over a file-system model
   (Base/Fs.v: a path is a regular file / a directory / absent).

     artifact_exists(ws, id) = !id.is_empty() && ws.join(".rip").join("artifacts").join("blobs").join(id).is_file()

   What is modelled: `PathBuf::join` on Unix (an id that begins with '/' REPLACES the blobs path, otherwise it is
   appended after one separator - so "" joins to "<blobs>/"), and the path walk the kernel does for stat(2): the
   string is cut at '/', empty and "." segments stay where they are, ".." goes to the parent directory (of the
   directory reached, the root is its own parent), a name is looked up in the directory reached; a segment of any
   kind after a regular file fails (ENOTDIR: "blob/", "blob/.", "blob/.."), a missing name fails whatever follows
   (ENOENT: "nosuch/../blob"), a name longer than 255 bytes fails (ENAMETOOLONG), a string of 4096 bytes or more
   fails (PATH_MAX), a NUL byte anywhere fails (std refuses to build the C string).  `is_file` = the walk ends at a
   regular file; `exists` = the walk ends anywhere.  Symlinks and permissions are not modelled.
   No proofs here (Proofs/ArtGuardProofs.v). *)
From RipV Require Import Base.Prelude Base.Fs Model.Frames Model.Log Model.Lineage.

(* where a walk stands: at a node of the file system, or failed *)
Inductive wres := WAt (p : path) (n : node) | WFail.

Definition walk_step (f : fs) (st : wres) (s : name) : wres :=
  match st with
  | WFail => WFail
  | WAt _ (File _) => WFail
  | WAt p Dir =>
    if seg_trivial s then st
    else if seg_dotdot s then
      match lookup f (removelast p) with Some n => WAt (removelast p) n | None => WFail end
    else if 255 <? nlen s then WFail
    else match lookup f (p ++ [s]) with Some n => WAt (p ++ [s]) n | None => WFail end
  end.

Definition ends_slash (s : list N) : bool := match rev s with 47 :: _ => true | _ => false end.

(* PathBuf::join (push): an absolute argument replaces the path; otherwise a separator is added unless the path
   already ends with one, then the argument *)
Definition join_raw (base id : list N) : list N :=
  if starts_slash id then id else base ++ (if ends_slash base then [] else [47]) ++ id.

Definition PATH_MAX : N := 4096.

(* stat(base.join(id)); base is the absolute blobs path as a byte string *)
Definition resolve_raw (f : fs) (raw : list N) : wres :=
  if has_nul raw || (PATH_MAX <=? nlen raw) then WFail
  else fold_left (walk_step f) (split_on 47 raw) (WAt [] Dir).
Definition resolve (f : fs) (base id : list N) : wres :=
  match join_raw base id with
  | [] => WFail
  | _ => resolve_raw f (join_raw base id)
  end.

Definition is_file_at (f : fs) (base id : list N) : bool :=
  match resolve f base id with WAt _ (File _) => true | _ => false end.
Definition is_dir_at (f : fs) (base id : list N) : bool :=
  match resolve f base id with WAt _ Dir => true | _ => false end.
Definition exists_at (f : fs) (base id : list N) : bool :=
  match resolve f base id with WAt _ _ => true | WFail => false end.
(* fs::read(base.join(id)) *)
Definition read_back (f : fs) (base id : list N) : option bytes :=
  match resolve f base id with WAt _ (File c) => Some c | _ => None end.

Definition nonempty (id : list N) : bool := match id with [] => false | _ => true end.

(* an id that is ONE plain name: not empty, no separator, not "." / ".." - the shape of every id rip draws itself
   (64 hex digits) and the repair proposed for finding S30 *)
Definition plain (id : list N) : bool :=
  nonempty id && negb (existsb (N.eqb 47) id) && negb (seg_dot id) && negb (seg_dotdot id).
Definition guard_plain (f : fs) (base id : list N) : bool := plain id && is_file_at f base id.

(* the shapes the guard can take (T1: tools/gen/handoff_guard.py reads which one the source has) *)
Inductive aguard :=
| GPlainIsFile        (* id is ONE normal path component equal to itself && blobs.join(id).is_file()
                         - the code as built since the repair of S30 *)
| GNonEmptyIsFile     (* !id.is_empty() && blobs.join(id).is_file()   - the code as found *)
| GIsFile             (* blobs.join(id).is_file() *)
| GNonEmptyExists     (* !id.is_empty() && blobs.join(id).exists() *)
| GExists.            (* blobs.join(id).exists() *)

Definition guard_eval (g : aguard) (f : fs) (base id : list N) : bool :=
  match g with
  | GPlainIsFile => guard_plain f base id
  | GNonEmptyIsFile => nonempty id && is_file_at f base id
  | GIsFile => is_file_at f base id
  | GNonEmptyExists => nonempty id && exists_at f base id
  | GExists => exists_at f base id
  end.

(* the guards under which an accepted id can be read back (proved: ArtGuardProofs.guard_sound_resolves) *)
Definition guard_sound (g : aguard) : bool :=
  match g with GPlainIsFile | GNonEmptyIsFile | GIsFile => true | _ => false end.
(* the guard under which an accepted id is a blob OF THE STORE (ArtGuardProofs.guard_confines_store) *)
Definition guard_confines (g : aguard) : bool :=
  match g with GPlainIsFile => true | _ => false end.

(* ---- the handoff of Model/Lineage.v over the file system: the caller's id (number a, bytes id) is "in the
   artifact store" exactly when the guard lets it pass; summary class = caller-given artifact id, with or
   without text; the repaired order (guard right after the summary test, before anything is written) *)
Definition arts_of (g : aguard) (f : fs) (base : list N) (a : N) (id : list N) : astore :=
  if guard_eval g f base id then [(a, [])] else [].
Definition handoff_fs (g : aguard) (f : fs) (base : list N) (view : list frame) (l : log) (parent : N)
  (sel : selector) (md : bool) (a : N) (id : list N) (fr : fresh) : log * astore * result resp :=
  handoff_gen true true view l (arts_of g f base a id) parent sel md (Some a) true fr.

(* the resolved node lies under the blobs directory (components of the base path are a prefix) *)
Definition under_base (base : list N) (p : path) : bool := is_prefix (comps base) p.

(* ---------- correspondence ---------- *)
Definition guard_of_code (n : N) : aguard :=
  match n with 0 => GNonEmptyIsFile | 1 => GIsFile | 2 => GNonEmptyExists | 4 => GPlainIsFile | _ => GExists end.

Record acase := {
  a_fs : fs;            (* listing of the real file system: ancestors of the scratch root, everything below it;
                           the content of a file is abstracted to [its length] *)
  a_base : list N;      (* absolute path of <workspace>/.rip/artifacts/blobs *)
  a_id : list N;        (* the caller's summary_artifact_id, bytes *)
  a_guard : N;          (* the guard the check expects the code to apply (guard_of_code) *)
  a_expect : list N }.

Definition b2n (b : bool) : N := if b then 1 else 0.
(* [handoff passed the artifact test; std is_file; std exists; std is_dir; fs::read: 0 = error, 1 + length] *)
Definition model_obs_art (c : acase) : list N :=
  [b2n (guard_eval (guard_of_code (a_guard c)) (a_fs c) (a_base c) (a_id c));
   b2n (is_file_at (a_fs c) (a_base c) (a_id c));
   b2n (exists_at (a_fs c) (a_base c) (a_id c));
   b2n (is_dir_at (a_fs c) (a_base c) (a_id c));
   match read_back (a_fs c) (a_base c) (a_id c) with
   | Some [n] => 1 + n
   | Some _ => 1
   | None => 0
   end;
   match resolve (a_fs c) (a_base c) (a_id c) with
   | WAt p _ => 1 + b2n (under_base (a_base c) p)
   | WFail => 0
   end].
Definition check_case_art (c : acase) : bool := lN_eqb (model_obs_art c) (a_expect c).
