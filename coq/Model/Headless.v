(* C20 — executable model of rip-cli's headless `render_message` for the Output view
   (crates/rip-cli/src/main.rs: fold over frames until the first session_ended). *)
From RipV Require Import Base.Prelude.

Definition str := list N.   (* code points *)

Inductive hk :=
| HDelta (d : str)
| HToolStdout (c : str)
| HToolStderr (c : str)
| HToolFailed (e : str)
| HProvider (invalid : bool) (errors resp_errors : list str) (raw : option str)
| HEnded
| HOther.

Record hst := {
  saw : bool; tnl : bool; tout : str; terr : str;
  failed : list str; perrs : list str; prerrs : list str; pinv : list str }.

Definition h0 : hst :=
  {| saw := false; tnl := false; tout := []; terr := []; failed := []; perrs := []; prerrs := []; pinv := [] |}.

Definition last_opt (s : str) : option N := hd_error (rev s).
Definition ends_nl (s : str) : bool := match last_opt s with Some c => c =? 10 | None => false end.

Fixpoint join (sep : str) (l : list str) : str :=
  match l with
  | [] => []
  | [x] => x
  | x :: r => x ++ sep ++ join sep r
  end.

(* ASCII literals used by the renderer *)
Definition s_stderr : str := [115; 116; 100; 101; 114; 114; 58; 32].                 (* "stderr: " *)
Definition s_tool_failed : str := [116;111;111;108;95;102;97;105;108;101;100;58;32].   (* "tool_failed: " *)
Definition s_perrs : str := [112;114;111;118;105;100;101;114;95;101;114;114;111;114;115;58;32]. (* "provider_errors: " *)
Definition s_prerrs : str :=
  [112;114;111;118;105;100;101;114;95;114;101;115;112;111;110;115;101;95;101;114;114;111;114;115;58;32].
Definition s_pinv : str :=
  [112;114;111;118;105;100;101;114;95;105;110;118;97;108;105;100;95;106;115;111;110;58;32].
Definition s_sep : str := [59; 32].                                                   (* "; " *)

Definition observe_frame (s : hst) (k : hk) : hst * str :=
  match k with
  | HDelta d =>
    ({| saw := true; tnl := match last_opt d with Some c => c =? 10 | None => tnl s end;
        tout := tout s; terr := terr s; failed := failed s; perrs := perrs s; prerrs := prerrs s; pinv := pinv s |}, d)
  | HToolStdout c =>
    (if saw s then s else {| saw := saw s; tnl := tnl s; tout := tout s ++ c; terr := terr s; failed := failed s;
                             perrs := perrs s; prerrs := prerrs s; pinv := pinv s |}, [])
  | HToolStderr c =>
    (if saw s then s else {| saw := saw s; tnl := tnl s; tout := tout s; terr := terr s ++ c; failed := failed s;
                             perrs := perrs s; prerrs := prerrs s; pinv := pinv s |}, [])
  | HToolFailed e =>
    (if saw s then s else {| saw := saw s; tnl := tnl s; tout := tout s; terr := terr s; failed := failed s ++ [e];
                             perrs := perrs s; prerrs := prerrs s; pinv := pinv s |}, [])
  | HProvider inv es rs raw =>
    (if saw s then s else
       {| saw := saw s; tnl := tnl s; tout := tout s; terr := terr s; failed := failed s;
          perrs := perrs s ++ es; prerrs := prerrs s ++ rs;
          pinv := if inv then match raw with Some r => pinv s ++ [r] | None => pinv s end else pinv s |}, [])
  | HEnded | HOther => (s, [])
  end.

Definition final_text (s : hst) : str :=
  if saw s then (if tnl s then [] else [10])
  else
    tout s
    ++ (match terr s with
        | [] => []
        | _ => (if ends_nl (tout s) then [] else [10]) ++ s_stderr ++ terr s
        end)
    ++ concat (map (fun e => s_tool_failed ++ e ++ [10]) (failed s))
    ++ (match perrs s with [] => [] | _ => s_perrs ++ join s_sep (perrs s) ++ [10] end)
    ++ (match prerrs s with [] => [] | _ => s_prerrs ++ join s_sep (prerrs s) ++ [10] end)
    ++ concat (map (fun r => s_pinv ++ r ++ [10]) (pinv s)).

(* render_message for one frame: (state', bytes written, should_stop) *)
Definition step (s : hst) (k : hk) : hst * str * bool :=
  let '(s', w) := observe_frame s k in
  match k with
  | HEnded => (s', w ++ final_text s', true)
  | _ => (s', w, false)
  end.

(* the caller stops at the first frame that returns should_stop *)
Fixpoint run (s : hst) (ks : list hk) : str :=
  match ks with
  | [] => []
  | k :: r => let '(s', w, stop) := step s k in if stop then w else w ++ run s' r
  end.

Definition headless_output (ks : list hk) : str := run h0 ks.

(* ---------- correspondence plumbing ---------- *)
Record case := { c_frames : list hk; c_expect : str }.
Definition check_case (c : case) : bool := lN_eqb (headless_output (c_frames c)) (c_expect c).
Definition model_obs (c : case) : list N := headless_output (c_frames c).
