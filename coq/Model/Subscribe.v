(* C06 — executable model of "history buffer + broadcast channel" streams (session, task, thread):
   the producer publishes each frame to the live channel and records it in the history, in one of the
   two possible orders; a subscriber subscribes to the channel and snapshots the history, in one of the
   two possible orders, then delivers  history ++ filter live.   (server.rs stream handlers,
   session.rs emit_event, tasks/mod.rs TaskEmitter::emit, continuities.rs append paths.)
   A schedule is an arbitrary interleaving list of actor ids.  No proofs here (Proofs/SubscribeProofs.v). *)
From RipV Require Import Base.Prelude.
Local Open Scope nat_scope.

Inductive porder := PubThenRec | RecThenPub.          (* emitter: sender.send vs buffer push / sidecar append *)
Inductive sorder := SubThenSnap | SnapThenSub.        (* handler: subscribe() vs snapshot / replay *)
Inductive lfilter := FilterGtLast | FilterGeLast | FilterNone.   (* live filter: seq > last | seq >= last | none *)

Record cfg := { c_p : porder; c_s : sorder; c_f : lfilter; c_cap : option nat }.
(* c_cap = Some c: the broadcast channel keeps at most c pending frames per receiver; on overflow the
   oldest is dropped and the receiver sees Lagged, which the handlers swallow (`Err(_) => None`). *)

(* AP: the stream's producer; AS i: subscriber i; AO: some OTHER stream's producer publishing one frame on the same
   channel (the continuity channel is shared by all threads: thread_stream_events drops frames whose session_id differs) *)
Inductive actor := AP | AS (i : nat) | AO.

(* frame k carries seq k (C01: seqs of a stream are 0,1,2,… in emission order) *)
Inductive pstep := Pub (k : nat) | Rec (k : nat).
Definition frame_steps (o : porder) (k : nat) : list pstep :=
  match o with PubThenRec => [Pub k; Rec k] | RecThenPub => [Rec k; Pub k] end.
Definition rest (o : porder) (n k : nat) : list pstep := flat_map (frame_steps o) (seq k (n - k)).
Definition producer_prog (o : porder) (n : nat) : list pstep := rest o n 0.

Record sub := {
  s_pc : nat;                       (* 0,1: the two attach operations; >= 2: attached, draining *)
  s_live : option (list (option nat)); (* receiver queue (None: not subscribed yet); an entry None = a frame of another stream *)
  s_hist : option (list nat);       (* history snapshot *)
  s_out : list nat;                 (* seqs written to the SSE body so far *)
  s_lag : bool                      (* the receiver overflowed at least once *)
}.
Definition fresh : sub := {| s_pc := 0; s_live := None; s_hist := None; s_out := []; s_lag := false |}.

Record st := { g_prog : list pstep; g_hist : list nat; g_subs : list sub }.

Definition init (c : cfg) (n m : nat) : st :=
  {| g_prog := producer_prog (c_p c) n; g_hist := []; g_subs := repeat fresh m |}.

Definition push_live (cap : option nat) (k : option nat) (q : list (option nat)) : list (option nat) * bool :=
  match cap with
  | None => (q ++ [k], false)
  | Some c => if Nat.ltb (length q) c then (q ++ [k], false) else (tl q ++ [k], true)
  end.

Definition deliver (cap : option nat) (k : option nat) (s : sub) : sub :=
  match s_live s with
  | None => s
  | Some q => let '(q', lag) := push_live cap k q in
              {| s_pc := s_pc s; s_live := Some q'; s_hist := s_hist s; s_out := s_out s;
                 s_lag := s_lag s || lag |}
  end.

Definition last_seq (h : list nat) : option nat := hd_error (rev h).

Definition keep (f : lfilter) (last : option nat) (k : nat) : bool :=
  match f, last with
  | FilterNone, _ => true
  | _, None => true
  | FilterGtLast, Some l => Nat.ltb l k
  | FilterGeLast, Some l => Nat.leb l k
  end.

Definition do_subscribe (s : sub) : sub :=
  {| s_pc := S (s_pc s); s_live := Some []; s_hist := s_hist s; s_out := s_out s; s_lag := s_lag s |}.
Definition do_snapshot (hist : list nat) (s : sub) : sub :=
  {| s_pc := S (s_pc s); s_live := s_live s; s_hist := Some hist; s_out := hist; s_lag := s_lag s |}.
(* the frames of THIS stream in a receiver queue (`if event.session_id != thread_id { return None; }`) *)
Definition own (q : list (option nat)) : list nat :=
  flat_map (fun o => match o with Some k => [k] | None => [] end) q.
(* past_stream.chain(live_stream): the history goes out first, then the filtered live frames *)
Definition do_drain (f : lfilter) (s : sub) : sub :=
  match s_live s, s_hist s with
  | Some q, Some h =>
    {| s_pc := s_pc s; s_live := Some []; s_hist := s_hist s;
       s_out := s_out s ++ filter (keep f (last_seq h)) (own q); s_lag := s_lag s |}
  | _, _ => s
  end.

Definition sub_step (c : cfg) (hist : list nat) (s : sub) : sub :=
  match s_pc s, c_s c with
  | 0, SubThenSnap => do_subscribe s
  | 1, SubThenSnap => do_snapshot hist s
  | 0, SnapThenSub => do_snapshot hist s
  | 1, SnapThenSub => do_subscribe s
  | _, _ => do_drain (c_f c) s
  end.

Fixpoint upd_nth {A} (i : nat) (f : A -> A) (l : list A) : list A :=
  match l, i with
  | [], _ => []
  | x :: r, 0 => f x :: r
  | x :: r, S j => x :: upd_nth j f r
  end.

Definition step (c : cfg) (s : st) (a : actor) : st :=
  match a with
  | AP => match g_prog s with
          | [] => s
          | Pub k :: r => {| g_prog := r; g_hist := g_hist s; g_subs := map (deliver (c_cap c) (Some k)) (g_subs s) |}
          | Rec k :: r => {| g_prog := r; g_hist := g_hist s ++ [k]; g_subs := g_subs s |}
          end
  | AS i => {| g_prog := g_prog s; g_hist := g_hist s;
               g_subs := upd_nth i (sub_step c (g_hist s)) (g_subs s) |}
  | AO => {| g_prog := g_prog s; g_hist := g_hist s; g_subs := map (deliver (c_cap c) None) (g_subs s) |}
  end.

Definition run (c : cfg) (sched : list actor) (s : st) : st := fold_left (step c) sched s.

Definition attached (s : sub) : bool := Nat.leb 2 (s_pc s).
(* what the client has received once it has read everything that is pending *)
Definition delivered (c : cfg) (s : sub) : list nat := s_out (do_drain (c_f c) s).

Fixpoint count_pub (l : list pstep) : nat :=
  match l with [] => 0 | Pub _ :: r => S (count_pub r) | Rec _ :: r => count_pub r end.
Definition published (n : nat) (s : st) : nat := n - count_pub (g_prog s).

Definition cfg_ok (c : cfg) : bool :=
  match c_p c, c_s c, c_f c with RecThenPub, SubThenSnap, FilterGtLast => true | _, _, _ => false end.
Definition code_cfg (cap : option nat) : cfg :=
  {| c_p := RecThenPub; c_s := SubThenSnap; c_f := FilterGtLast; c_cap := cap |}.

(* ---------- several producers on ONE stream (task: stdout pump, stderr pump, main task share one TaskEmitter) ----------
   A producer's emit = Choose (take the next seq number from the shared counter) ; Rec ; Pub  (the code's order).
   span = what the emitter's seq mutex covers: the whole emit (TaskEmitter::emit today: the guard lives to the end of
   the fn) or the counter only (guard dropped before the history buffer is locked).  Under SpanEmit a producer cannot
   Choose while another one is inside its emit. *)
Inductive span := SpanEmit | SpanCounter.
Inductive mphase := MIdle | MChosen (k : nat) | MRecorded (k : nat).
Definition is_idle (p : mphase) : bool := match p with MIdle => true | _ => false end.
(* per producer: phase, frames it still has to start *)
Record mst := { m_next : nat; m_prods : list (mphase * nat); m_hist : list nat; m_subs : list sub }.
Inductive mactor := MP (j : nat) | MS (i : nat) | MO.

Definition actives (ps : list (mphase * nat)) : list mphase := filter (fun p => negb (is_idle p)) (map fst ps).

Definition prod_step (sp : span) (cap : option nat) (s : mst) (j : nat) : mst :=
  match nth_error (m_prods s) j with
  | Some (MIdle, S l) =>
      match sp, actives (m_prods s) with
      | SpanEmit, _ :: _ => s                      (* blocked on the seq mutex *)
      | _, _ => {| m_next := S (m_next s); m_prods := upd_nth j (fun _ => (MChosen (m_next s), l)) (m_prods s);
                   m_hist := m_hist s; m_subs := m_subs s |}
      end
  | Some (MChosen k, l) =>
      {| m_next := m_next s; m_prods := upd_nth j (fun _ => (MRecorded k, l)) (m_prods s);
         m_hist := m_hist s ++ [k]; m_subs := m_subs s |}
  | Some (MRecorded k, l) =>
      {| m_next := m_next s; m_prods := upd_nth j (fun _ => (MIdle, l)) (m_prods s);
         m_hist := m_hist s; m_subs := map (deliver cap (Some k)) (m_subs s) |}
  | _ => s
  end.

Definition mstep (c : cfg) (sp : span) (s : mst) (a : mactor) : mst :=
  match a with
  | MP j => prod_step sp (c_cap c) s j
  | MS i => {| m_next := m_next s; m_prods := m_prods s; m_hist := m_hist s;
               m_subs := upd_nth i (sub_step c (m_hist s)) (m_subs s) |}
  | MO => {| m_next := m_next s; m_prods := m_prods s; m_hist := m_hist s;
             m_subs := map (deliver (c_cap c) None) (m_subs s) |}
  end.
Definition mrun (c : cfg) (sp : span) (sched : list mactor) (s : mst) : mst := fold_left (mstep c sp) sched s.
(* work = frames each producer emits *)
Definition minit (work : list nat) (m : nat) : mst :=
  {| m_next := 0; m_prods := map (fun w => (MIdle, w)) work; m_hist := []; m_subs := repeat fresh m |}.
Definition mfinal (c : cfg) (sp : span) (work : list nat) (m : nat) (sched : list mactor) : mst :=
  mrun c sp sched (minit work m).
Definition work_left (ps : list (mphase * nat)) : nat := fold_right (fun p a => snd p + a) 0 ps.
(* the single-producer view of a multi-producer state: which frame steps are still to come *)
Definition mview (s : mst) : st :=
  let n := m_next s + work_left (m_prods s) in
  {| g_prog := match actives (m_prods s) with
               | MRecorded k :: _ => Pub k :: rest RecThenPub n (S k)
               | MChosen k :: _ => rest RecThenPub n k
               | _ => rest RecThenPub n (m_next s)
               end;
     g_hist := m_hist s; g_subs := m_subs s |}.

(* ---------- specification vocabulary (used by Props/C06.v) ---------- *)
Definition mk (p : porder) (s : sorder) (f : lfilter) (cap : option nat) : cfg :=
  {| c_p := p; c_s := s; c_f := f; c_cap := cap |}.
Definition with_cap (c : cfg) (cap : option nat) : cfg := mk (c_p c) (c_s c) (c_f c) cap.
(* the state after running schedule `sched` on a stream of n frames with m (potential) subscribers *)
Definition final (c : cfg) (n m : nat) (sched : list actor) : st := run c sched (init c n m).
(* number of foreign frames a schedule puts on the channel *)
Fixpoint count_other (l : list actor) : nat :=
  match l with [] => 0 | AO :: r => S (count_other r) | _ :: r => count_other r end.
(* some receiver overflowed during the run (tokio: RecvError::Lagged, swallowed by the handlers) *)
Definition any_lag (s : st) : bool := existsb s_lag (g_subs s).
Definition NoLag (s : st) : Prop := any_lag s = false.
(* what C06 asks for subscriber x in state fin of a stream of n frames: the client has received (once
   it has read what is pending) exactly the frames 0..k-1, each once, ascending, where k covers at
   least every frame published so far and is n once the producer has finished *)
Definition ExactlyOnce (c : cfg) (n : nat) (fin : st) (x : sub) : Prop :=
  exists k, delivered c x = seq 0 k /\ published n fin <= k /\ k <= n /\ (g_prog fin = [] -> k = n).
(* the negation on a finished stream with one subscriber *)
Definition Loses (c : cfg) (n : nat) (sched : list actor) : Prop :=
  g_prog (final c n 1 sched) = [] /\
  exists x, nth_error (g_subs (final c n 1 sched)) 0 = Some x /\ attached x = true /\ delivered c x <> seq 0 n.
(* the emitters before the repair of S8 (session.rs emit_event, tasks/mod.rs TaskEmitter::emit) *)
Definition unfixed_cfg : cfg := mk PubThenRec SubThenSnap FilterGtLast None.

(* a stream kind as the extractor (tools/gen/stream_order.py) reads it from the source; k_cap is the
   EVENT_CHANNEL_CAPACITY of that kind's broadcast channel *)
Record kind_orders := { k_name : N; k_p : porder; k_s : sorder; k_f : lfilter; k_cap : N; k_span : span }.
Definition kind_cfg (k : kind_orders) (cap : option nat) : cfg :=
  {| c_p := k_p k; c_s := k_s k; c_f := k_f k; c_cap := cap |}.
Definition kind_cap (k : kind_orders) : nat := N.to_nat (k_cap k).
(* the configuration of a kind as the code runs it: bounded channel of EVENT_CHANNEL_CAPACITY frames *)
Definition kind_code_cfg (k : kind_orders) : cfg := kind_cfg k (Some (kind_cap k)).
Definition span_ok (sp : span) : bool := match sp with SpanEmit => true | SpanCounter => false end.
Definition wf_kind (k : kind_orders) : bool := cfg_ok (kind_cfg k None) && N.ltb 0 (k_cap k) && span_ok (k_span k).
Definition wf_kinds (l : list kind_orders) : bool :=
  Nat.eqb (length l) 3 && forallb wf_kind l && lN_eqb (map k_name l) [0%N; 1%N; 2%N].

(* ---------- the history buffer over time ----------
   What a statement of the producer's code may do to the history buffer APART from pushing a frame (Rec).  The emitters
   only push; the end of run_session / finalize_snapshot only READS the buffer (under its lock) to write the snapshot
   file.  BTake / BRestore = `let frames = std::mem::take(&mut *buf.lock().await); … ; *buf.lock().await = frames;`
   (the buffer is EMPTY in between), BClear = clear() / `= Vec::new()` / drain(..), BTruncate k = truncate(k) / split_off(k).
   tools/gen/stream_order.py lists every such statement of session.rs / runner.rs / tasks/mod.rs (gen_buffer_ops). *)
Inductive bufop := BRead | BTake | BRestore | BClear | BTruncate (k : nat).
Definition bufop_reads (o : bufop) : bool := match o with BRead => true | _ => false end.
Definition buffer_ops_ok (ops : list bufop) : bool := forallb bufop_reads ops.
(* (buffer, frames moved out of it) after the statement *)
Definition bufop_apply (o : bufop) (h taken : list nat) : list nat * list nat :=
  match o with
  | BRead => (h, taken)
  | BTake => ([], h)
  | BRestore => (taken, [])
  | BClear => ([], taken)
  | BTruncate k => (firstn k h, taken)
  end.
(* EA a: a step of the stream model; EB: the producer's code executes its next buffer statement.  The schedule decides
   WHEN: at the end of the run (where today's code has them) or anywhere else. *)
Inductive eactor := EA (a : actor) | EB.
Record est := { e_st : st; e_ops : list bufop; e_taken : list nat }.
Definition set_hist (s : st) (h : list nat) : st := {| g_prog := g_prog s; g_hist := h; g_subs := g_subs s |}.
Definition estep (c : cfg) (s : est) (a : eactor) : est :=
  match a with
  | EA a' => {| e_st := step c (e_st s) a'; e_ops := e_ops s; e_taken := e_taken s |}
  | EB => match e_ops s with
          | [] => s
          | o :: r => {| e_st := set_hist (e_st s) (fst (bufop_apply o (g_hist (e_st s)) (e_taken s)));
                         e_ops := r; e_taken := snd (bufop_apply o (g_hist (e_st s)) (e_taken s)) |}
          end
  end.
Definition erun (c : cfg) (sched : list eactor) (s : est) : est := fold_left (estep c) sched s.
Definition einit (c : cfg) (n m : nat) (ops : list bufop) : est := {| e_st := init c n m; e_ops := ops; e_taken := [] |}.
Definition efinal (c : cfg) (n m : nat) (ops : list bufop) (sched : list eactor) : est := erun c sched (einit c n m ops).
(* the recorded history after the schedule *)
Definition ehist (c : cfg) (n m : nat) (ops : list bufop) (sched : list eactor) : list nat := g_hist (e_st (efinal c n m ops sched)).
Definition is_prefix (a b : list nat) : Prop := exists ext, b = a ++ ext.
(* the recorded history is MONOTONE: prefix-ordered over time (what a subscriber snapshots at any moment is a prefix of
   what any later moment holds) *)
Definition HistMonotone (c : cfg) (n m : nat) (ops : list bufop) (sched : list eactor) : Prop :=
  forall s1 s2 s3, sched = s1 ++ s2 ++ s3 -> is_prefix (ehist c n m ops s1) (ehist c n m ops (s1 ++ s2)).
(* the schedule without the buffer statements *)
Definition eproj (sched : list eactor) : list actor := flat_map (fun a => match a with EA a' => [a'] | EB => [] end) sched.

(* ---------- the thread kind's history source ----------
   thread_stream_events snapshots with ContinuityStore::replay_events = the per-thread sidecar when
   ContinuityStreamCache::try_replay accepts it, else the truth log.  try_replay walks the sidecar with a counter:
   `if event.seq != expected_seq { Err }; expected_seq += 1` starting at 0, and rejects an empty file. *)
Inductive seqcheck := SeqExact | SeqIncreasing.   (* `seq != expected` ; expected+1   |   `seq < expected` ; seq+1 *)
Fixpoint sidecar_ok (m : seqcheck) (expected : nat) (l : list nat) : bool :=
  match l with
  | [] => true
  | k :: r => match m with
              | SeqExact => Nat.eqb k expected && sidecar_ok m (S expected) r
              | SeqIncreasing => Nat.leb expected k && sidecar_ok m (S k) r
              end
  end.
Record replay_check := { r_first : nat; r_cmp : seqcheck }.
Definition replay_ok (r : replay_check) : bool :=
  Nat.eqb (r_first r) 0 && match r_cmp r with SeqExact => true | SeqIncreasing => false end.
(* side = None: no sidecar file *)
Definition thread_history (r : replay_check) (side : option (list nat)) (log : list nat) : list nat :=
  match side with
  | Some (k :: l) => if sidecar_ok (r_cmp r) (r_first r) (k :: l) then k :: l else log
  | _ => log
  end.
(* the sidecar of a thread with frames 0..n-1 after the cache was lost when the thread had j frames and the thread was
   appended to afterwards (append_best_effort re-creates the file): the frames j..n-1; nothing if no append followed *)
Definition sidecar_after_loss (n j : nat) : option (list nat) :=
  if Nat.ltb j n then Some (seq j (n - j)) else None.

(* ---------- what a handler does when its receiver LAGGED ----------
   The bounded broadcast channel drops the oldest pending frame of a receiver that is `capacity` behind and tells it
   `RecvError::Lagged` at its next recv.  LagSkip: the handler ignores that (`Err(_) => None`) and carries on with the
   oldest frame the channel still holds.  LagRefill (server.rs live_frames): it re-reads the stream's history and carries
   on after the last seq it has delivered; the filter `seq > last` runs on the seq of the last frame DELIVERED (history
   or live), not only on the last history seq.
   Producer = record-then-publish, handler = subscribe-then-snapshot (the orders of today's code); the schedule is any
   list over {AP, AS i, AO} as before.
   LagRefillResubscribe: as LagRefill, and after the history was re-read the receiver is replaced by a NEW one positioned at
   the channel's tail (`receiver = receiver.resubscribe()`): snapshot first, subscribe second - the join rule backwards.
   It differs from LagRefill only in the model with the window (wfinal, below); in the window-free model rfinal a
   policy other than LagRefill does not refill. *)
Inductive lagpolicy := LagSkip | LagRefill | LagRefillResubscribe.
Definition lag_refills (p : lagpolicy) : bool := match p with LagRefill => true | _ => false end.
Record rsub := {
  rs_pc : nat;                          (* 0: not subscribed, 1: subscribed, >= 2: snapshotted (attached) *)
  rs_live : list (option nat);          (* receiver queue *)
  rs_out : list nat;                    (* seqs written to the body so far *)
  rs_pend : bool                        (* the receiver overflowed since its last recv: its next recv says Lagged *)
}.
Definition rfresh : rsub := {| rs_pc := 0; rs_live := []; rs_out := []; rs_pend := false |}.
Record rst := { r_prog : list pstep; r_hist : list nat; r_subs : list rsub }.
Definition rinit (n m : nat) : rst := {| r_prog := producer_prog RecThenPub n; r_hist := []; r_subs := repeat rfresh m |}.
Definition rdeliver (cap : nat) (k : option nat) (s : rsub) : rsub :=
  match s.(rs_pc) with
  | 0 => s
  | _ => let '(q, lag) := push_live (Some cap) k (rs_live s) in
         {| rs_pc := rs_pc s; rs_live := q; rs_out := rs_out s; rs_pend := rs_pend s || lag |}
  end.
(* frames go out one by one; each is kept iff its seq is above the last seq written so far *)
Fixpoint emit_new (out : list nat) (l : list nat) : list nat :=
  match l with
  | [] => out
  | k :: r => emit_new (if keep FilterGtLast (last_seq out) k then out ++ [k] else out) r
  end.
Definition rdrain (pol : lagpolicy) (hist : list nat) (s : rsub) : rsub :=
  let refilled := if rs_pend s && lag_refills pol then emit_new (rs_out s) hist else rs_out s in
  {| rs_pc := rs_pc s; rs_live := []; rs_out := emit_new refilled (own (rs_live s)); rs_pend := false |}.
Definition rsub_step (pol : lagpolicy) (hist : list nat) (s : rsub) : rsub :=
  match rs_pc s with
  | 0 => {| rs_pc := 1; rs_live := []; rs_out := []; rs_pend := false |}
  | 1 => {| rs_pc := 2; rs_live := rs_live s; rs_out := hist; rs_pend := rs_pend s |}
  | _ => rdrain pol hist s
  end.
Definition rstep (pol : lagpolicy) (cap : nat) (s : rst) (a : actor) : rst :=
  match a with
  | AP => match r_prog s with
          | [] => s
          | Pub k :: r => {| r_prog := r; r_hist := r_hist s; r_subs := map (rdeliver cap (Some k)) (r_subs s) |}
          | Rec k :: r => {| r_prog := r; r_hist := r_hist s ++ [k]; r_subs := r_subs s |}
          end
  | AS i => {| r_prog := r_prog s; r_hist := r_hist s; r_subs := upd_nth i (rsub_step pol (r_hist s)) (r_subs s) |}
  | AO => {| r_prog := r_prog s; r_hist := r_hist s; r_subs := map (rdeliver cap None) (r_subs s) |}
  end.
Definition rfinal (pol : lagpolicy) (cap n m : nat) (sched : list actor) : rst := fold_left (rstep pol cap) sched (rinit n m).
Definition rattached (s : rsub) : bool := Nat.leb 2 (rs_pc s).
(* what the client has once it has read everything that is pending *)
Definition rdelivered (pol : lagpolicy) (fin : rst) (s : rsub) : list nat := rs_out (rdrain pol (r_hist fin) s).
Definition rpublished (n : nat) (s : rst) : nat := n - count_pub (r_prog s).

(* ---------- the same with the WINDOW between the history re-read and the handler's next recv ----------
   rfinal's drain is one atomic step.  In live_frames the recovery is: recv says Lagged; refill() reads the history; the
   frames are queued; the loop goes back to recv.  Between the history read and the next recv the producer may record and
   publish (hook point `sse.live.refilled`), so here a lagged drain STOPS after the history read (w_win := true, the
   receiver untouched: it still holds what the channel retained and keeps receiving) and the subscriber's next step
   resumes: LagRefill carries on with the same receiver (a frame published in the window is in it - or pushed it over
   the capacity again, and then the next recv says Lagged again and the history is re-read again); LagRefillResubscribe
   first replaces the receiver by one at the channel's tail, which holds nothing of the window. *)
Record wsub := { w_s : rsub; w_win : bool }.
Definition wfresh : wsub := {| w_s := rfresh; w_win := false |}.
Record wst := { w_prog : list pstep; w_hist : list nat; w_subs : list wsub }.
Definition winit (n m : nat) : wst := {| w_prog := producer_prog RecThenPub n; w_hist := []; w_subs := repeat wfresh m |}.
(* Lagged: the history goes out (after the last seq written), the receiver keeps what the channel still holds *)
Definition wrefill (hist : list nat) (s : rsub) : rsub :=
  {| rs_pc := rs_pc s; rs_live := rs_live s; rs_out := emit_new (rs_out s) hist; rs_pend := false |}.
(* receiver.resubscribe(): a new receiver at the tail of the channel *)
Definition wresub (s : rsub) : rsub :=
  {| rs_pc := rs_pc s; rs_live := []; rs_out := rs_out s; rs_pend := false |}.
(* no Lagged: what is queued goes out *)
Definition wplain (s : rsub) : rsub :=
  {| rs_pc := rs_pc s; rs_live := []; rs_out := emit_new (rs_out s) (own (rs_live s)); rs_pend := false |}.
(* one scheduled step of an attached subscriber: it runs up to its next stop *)
Definition wdrain (pol : lagpolicy) (hist : list nat) (x : wsub) : wsub :=
  let s := if w_win x then match pol with LagRefillResubscribe => wresub (w_s x) | _ => w_s x end else w_s x in
  if rs_pend s then
    match pol with
    | LagSkip => {| w_s := wplain s; w_win := false |}
    | _ => {| w_s := wrefill hist s; w_win := true |}
    end
  else {| w_s := wplain s; w_win := false |}.
Definition wsub_step (pol : lagpolicy) (hist : list nat) (x : wsub) : wsub :=
  match rs_pc (w_s x) with
  | 0 | 1 => {| w_s := rsub_step LagSkip hist (w_s x); w_win := false |}   (* subscribe; snapshot *)
  | _ => wdrain pol hist x
  end.
Definition wdeliver (cap : nat) (k : option nat) (x : wsub) : wsub := {| w_s := rdeliver cap k (w_s x); w_win := w_win x |}.
Definition wstep (pol : lagpolicy) (cap : nat) (s : wst) (a : actor) : wst :=
  match a with
  | AP => match w_prog s with
          | [] => s
          | Pub k :: r => {| w_prog := r; w_hist := w_hist s; w_subs := map (wdeliver cap (Some k)) (w_subs s) |}
          | Rec k :: r => {| w_prog := r; w_hist := w_hist s ++ [k]; w_subs := w_subs s |}
          end
  | AS i => {| w_prog := w_prog s; w_hist := w_hist s; w_subs := upd_nth i (wsub_step pol (w_hist s)) (w_subs s) |}
  | AO => {| w_prog := w_prog s; w_hist := w_hist s; w_subs := map (wdeliver cap None) (w_subs s) |}
  end.
Definition wfinal (pol : lagpolicy) (cap n m : nat) (sched : list actor) : wst := fold_left (wstep pol cap) sched (winit n m).
Definition wattached (x : wsub) : bool := rattached (w_s x).
(* what the client has once it has read everything that is pending (nothing else moves: two steps reach the fixed point -
   resume / re-read, then the plain drain) *)
Definition wdelivered (pol : lagpolicy) (fin : wst) (x : wsub) : list nat :=
  rs_out (w_s (wdrain pol (w_hist fin) (wdrain pol (w_hist fin) x))).
Definition wpublished (n : nat) (s : wst) : nat := n - count_pub (w_prog s).

(* ---------- the thread store while its sidecar is REBUILT ----------
   ContinuityStore::replay_events serves the sidecar when try_replay accepts it; otherwise it reads the thread from the
   log and rebuilds the sidecar (rebuild_best_effort).  A healthy sidecar is refused, too, when the reader's read of the
   last line falls inside the append of that line (TRefuse: the environment decides that a reader's next unlocked
   try_replay is refused); TDrop = the cache file is lost.  One writer appends frames 0..n-1, each append = take the
   seq mutex; log append; sidecar append (O_APPEND: at the end of whatever the file holds); broadcast + release.
   The discipline of the rebuild is a parameter:
     rd_locked = the reader takes the writers' mutex before it reads the log and keeps it until the rebuild is done
                 (and tries the sidecar once more under it: no append is in flight then);
     rd_atomic = the new sidecar is written to a temporary file and renamed into place (one step) - otherwise the live
                 file is truncated and rewritten line by line at the rebuild's own file offset, in the open.
   /repo before the S3-live repair: neither; since it: both (read from the source: Gen/StreamOrder.v). *)
Record rdisc := { rd_atomic : bool; rd_locked : bool }.
Definition rdisc_ok (d : rdisc) : bool := rd_atomic d && rd_locked d.
Inductive tactor := TW | TR (i : nat) | TRefuse (i : nat) | TDrop.
Inductive holder := HFree | HWriter | HReader (i : nat).
(* t_pc: 0 not subscribed; 1 unlocked try_replay; 2 waiting for the mutex; 3 try_replay under the mutex; 4 log read;
   5 rebuild starts (atomic: the rename); 6 in-place line writes; 8 return; 9 attached *)
Record tsub := { t_pc : nat; t_refuse : bool; t_live : option (list nat); t_snap : list nat; t_wpos : nat; t_hist : list nat }.
Definition tfresh : tsub := {| t_pc := 0; t_refuse := false; t_live := None; t_snap := []; t_wpos := 0; t_hist := [] |}.
(* t_wpc: 0 idle; 1 mutex taken; 2 logged; 3 sidecar line written (next: broadcast + release).  t_wk = frames broadcast *)
Record tst := { t_n : nat; t_wpc : nat; t_wk : nat; t_log : list nat; t_side : list nat; t_lock : holder; t_subs : list tsub }.
Definition tinit (n m : nat) : tst :=
  {| t_n := n; t_wpc := 0; t_wk := 0; t_log := []; t_side := []; t_lock := HFree; t_subs := repeat tfresh m |}.
(* try_replay: a missing / empty file and a file whose seqs are not 0,1,2,.. are refused *)
Definition side_served (side : list nat) : bool := match side with [] => false | _ => sidecar_ok SeqExact 0 side end.
Definition tdeliver (k : nat) (x : tsub) : tsub :=
  match t_live x with
  | None => x
  | Some q => {| t_pc := t_pc x; t_refuse := t_refuse x; t_live := Some (q ++ [k]); t_snap := t_snap x; t_wpos := t_wpos x; t_hist := t_hist x |}
  end.
Definition twriter (s : tst) : tst :=
  match t_wpc s with
  | 0 => if Nat.ltb (t_wk s) (t_n s)
         then match t_lock s with
              | HFree => {| t_n := t_n s; t_wpc := 1; t_wk := t_wk s; t_log := t_log s; t_side := t_side s; t_lock := HWriter; t_subs := t_subs s |}
              | _ => s
              end
         else s
  | 1 => {| t_n := t_n s; t_wpc := 2; t_wk := t_wk s; t_log := t_log s ++ [t_wk s]; t_side := t_side s; t_lock := t_lock s; t_subs := t_subs s |}
  | 2 => {| t_n := t_n s; t_wpc := 3; t_wk := t_wk s; t_log := t_log s; t_side := t_side s ++ [t_wk s]; t_lock := t_lock s; t_subs := t_subs s |}
  | _ => {| t_n := t_n s; t_wpc := 0; t_wk := S (t_wk s); t_log := t_log s; t_side := t_side s; t_lock := HFree;
            t_subs := map (tdeliver (t_wk s)) (t_subs s) |}
  end.
(* a write at line position pos of the rebuild's own file offset: overwrites what is there, extends at the end *)
Fixpoint put_line (pos k : nat) (l : list nat) : list nat :=
  match pos, l with
  | 0, [] => [k]
  | 0, _ :: r => k :: r
  | S p, [] => [k]
  | S p, x :: r => x :: put_line p k r
  end.
Definition tsub_at (x : tsub) (pc : nat) : tsub :=
  {| t_pc := pc; t_refuse := t_refuse x; t_live := t_live x; t_snap := t_snap x; t_wpos := t_wpos x; t_hist := t_hist x |}.
Definition tsub_hist (x : tsub) (h : list nat) : tsub :=
  {| t_pc := 9; t_refuse := t_refuse x; t_live := t_live x; t_snap := t_snap x; t_wpos := t_wpos x; t_hist := h |}.
(* one step of reader i: (the reader, the sidecar, the mutex) afterwards *)
Definition treader (d : rdisc) (i : nat) (log side : list nat) (lock : holder) (x : tsub) : tsub * list nat * holder :=
  match t_pc x with
  | 0 => ({| t_pc := 1; t_refuse := t_refuse x; t_live := Some []; t_snap := t_snap x; t_wpos := t_wpos x; t_hist := t_hist x |}, side, lock)
  | 1 => if negb (t_refuse x) && side_served side then (tsub_hist x side, side, lock)
         else ({| t_pc := if rd_locked d then 2 else 4; t_refuse := false; t_live := t_live x; t_snap := t_snap x; t_wpos := t_wpos x; t_hist := t_hist x |}, side, lock)
  | 2 => match lock with HFree => (tsub_at x 3, side, HReader i) | _ => (x, side, lock) end
  | 3 => if side_served side then (tsub_hist x side, side, HFree) else (tsub_at x 4, side, lock)
  | 4 => ({| t_pc := 5; t_refuse := t_refuse x; t_live := t_live x; t_snap := log; t_wpos := t_wpos x; t_hist := t_hist x |}, side, lock)
  | 5 => if rd_atomic d then (tsub_at x 8, t_snap x, lock)
         else ({| t_pc := 6; t_refuse := t_refuse x; t_live := t_live x; t_snap := t_snap x; t_wpos := 0; t_hist := t_hist x |}, [], lock)
  | 6 | 7 => match nth_error (t_snap x) (t_wpos x) with
             | Some k => ({| t_pc := 6; t_refuse := t_refuse x; t_live := t_live x; t_snap := t_snap x; t_wpos := S (t_wpos x); t_hist := t_hist x |},
                          put_line (t_wpos x) k side, lock)
             | None => (tsub_at x 8, side, lock)
             end
  | 8 => (tsub_hist x (t_snap x), side, if rd_locked d then HFree else lock)
  | _ => (x, side, lock)
  end.
Definition tstep (d : rdisc) (s : tst) (a : tactor) : tst :=
  match a with
  | TW => twriter s
  | TR i => match nth_error (t_subs s) i with
            | None => s
            | Some x => let '(x', side', lock') := treader d i (t_log s) (t_side s) (t_lock s) x in
                        {| t_n := t_n s; t_wpc := t_wpc s; t_wk := t_wk s; t_log := t_log s; t_side := side'; t_lock := lock';
                           t_subs := upd_nth i (fun _ => x') (t_subs s) |}
            end
  | TRefuse i => {| t_n := t_n s; t_wpc := t_wpc s; t_wk := t_wk s; t_log := t_log s; t_side := t_side s; t_lock := t_lock s;
                    t_subs := upd_nth i (fun x => {| t_pc := t_pc x; t_refuse := true; t_live := t_live x; t_snap := t_snap x; t_wpos := t_wpos x; t_hist := t_hist x |}) (t_subs s) |}
  | TDrop => {| t_n := t_n s; t_wpc := t_wpc s; t_wk := t_wk s; t_log := t_log s; t_side := []; t_lock := t_lock s; t_subs := t_subs s |}
  end.
Definition tfinal (d : rdisc) (n m : nat) (sched : list tactor) : tst := fold_left (tstep d) sched (tinit n m).
Definition tattached (x : tsub) : bool := Nat.eqb (t_pc x) 9.
(* the handler: history first, then the live frames above the history's last seq *)
Definition tdelivered (x : tsub) : list nat :=
  t_hist x ++ filter (keep FilterGtLast (last_seq (t_hist x))) (match t_live x with Some q => q | None => [] end).

(* ExactlyOnce for the thread store: what an attached reader has (history, then the live frames above it) is
   0..q-1, q covers every frame broadcast so far, and q = n once the writer has finished *)
Definition TExactlyOnce (n : nat) (fin : tst) (x : tsub) : Prop :=
  exists q, tdelivered x = seq 0 q /\ t_wk fin <= q /\ q <= n /\ (t_wk fin = n -> q = n).
(* a run in which the writer has finished and an attached reader does not have 0..n-1 *)
Definition TLoses (d : rdisc) (n m : nat) (sched : list tactor) : Prop :=
  t_wk (tfinal d n m sched) = n /\
  exists i x, nth_error (t_subs (tfinal d n m sched)) i = Some x /\ tattached x = true /\ tdelivered x <> seq 0 n.

(* ---------- correspondence ---------- *)
Definition enc_list (l : list nat) : list N := nlen l :: map N.of_nat l.
Definition observe (c : cfg) (s : st) : list N :=
  concat (map (fun x => (if attached x then 1%N else 0%N) :: enc_list (if attached x then delivered c x else [])) (g_subs s)).

Record case := {
  c_kind : N; c_porder : porder; c_n : nat; c_subs : nat; c_sched : list actor; c_expect : list N;
  (* 0: the channel of the real size (16 384 frames; the runs are far shorter: the unbounded model is exact, see below);
     cap > 0: the case ran with event channels of cap frames (hook ripd::verif::set_event_channel_capacity), so
     receivers DO lag: compared with the refill model with the window, wfinal LagRefill cap *)
  c_lagcap : nat }.

Definition case_cfg (c : case) : cfg :=
  {| c_p := c_porder c; c_s := SubThenSnap; c_f := FilterGtLast; c_cap := None |}.
Definition robserve (pol : lagpolicy) (s : rst) : list N :=
  concat (map (fun x => (if rattached x then 1%N else 0%N) :: enc_list (if rattached x then rdelivered pol s x else [])) (r_subs s)).
(* capacity: the real channels hold 16 384 frames; a stream of n <= capacity frames can never lag
   (c06_lag_bound), and the correspondence runs have n <= 60, so the unbounded channel is exact here *)
Definition wobserve (pol : lagpolicy) (s : wst) : list N :=
  concat (map (fun x => (if wattached x then 1%N else 0%N) :: enc_list (if wattached x then wdelivered pol s x else [])) (w_subs s)).
(* small channels: the model with the window - the real handler stops at `sse.live.refilled` after every history re-read
   and the scheduler decides who moves next *)
Definition model_obs (c : case) : list N :=
  match c_lagcap c with
  | 0 => let g := case_cfg c in observe g (run g (c_sched c) (init g (c_n c) (c_subs c)))
  | cap => wobserve LagRefill (wfinal LagRefill cap (c_n c) (c_subs c) (c_sched c))
  end.
Definition check_case (c : case) : bool := lN_eqb (model_obs c) (c_expect c).
