(* C02, T1: the table the call-graph extractor (tools/gen/callgraph.py -> Gen/Effects.v) is compared
   with.  `cap_can_append` / `silent` are the model's (Model/ContStore.v); here only the list of all
   capabilities in the extractor's order, a code to compare capability lists, and the thread routes.
   No proofs here (Proofs/CapEffectsProofs.v). *)
From Coq Require String.
From RipV Require Import Base.Prelude Model.Frames Model.Log Model.ContStore.

(* the 7 append_* functions reachable from outside the store (public or through ripd::verif) *)
Definition public_append_types : list etype :=
  [EContinuityMessageAppended; EContinuityRunSpawned; EContinuityContextSelectionDecided;
   EContinuityContextCompiled; EContinuityProviderCursorUpdated; EContinuityRunEnded; EContinuityToolSideEffects].

Definition all_caps : list cap :=
  [CapList; CapGet; CapSubscribe; CapReplay; CapCutPoints; CapCompactionStatus; CapCursorStatus;
   CapSelectionStatus; CapEnsureDefault]
  ++ map CapAppend public_append_types
  ++ [CapPost; CapBranch; CapHandoff; CapCheckpoint; CapCursorRotate; CapAuto; CapAutoSchedule].

Definition cap_code (cp : cap) : N :=
  match cp with
  | CapList => 0 | CapGet => 1 | CapSubscribe => 2 | CapReplay => 3 | CapCutPoints => 4
  | CapCompactionStatus => 5 | CapCursorStatus => 6 | CapSelectionStatus => 7 | CapEnsureDefault => 8
  | CapPost => 9 | CapBranch => 10 | CapHandoff => 11 | CapCheckpoint => 12 | CapCursorRotate => 13
  | CapAuto => 14 | CapAutoSchedule => 15
  | CapAppend t => 100 + etype_code t
  end.

(* the generated table lists exactly `all_caps`, in order, and every row says what the model says *)
Definition effects_agree (tbl : list (cap * bool)) : bool :=
  lN_eqb (map (fun x => cap_code (fst x)) tbl) (map cap_code all_caps)
  && forallb (fun x => Bool.eqb (snd x) (cap_can_append (fst x))) tbl.

(* thread routes of crates/ripd/src/server.rs in the extractor's order: may the handler append?
   0 GET /threads, 1 GET /threads/{id}, 2 cut-points, 3 compaction-status, 4 provider-cursor-status,
   5 context-selection-status, 6 GET /threads/{id}/events  - read-only;
   7 messages, 8 branch, 9 handoff, 10 compaction-checkpoint, 11 provider-cursor-rotate,
   12 compaction-auto, 13 compaction-auto-schedule, 14 /threads/ensure - writers *)
Definition route_cap (i : N) : option cap :=
  match i with
  | 0 => Some CapList | 1 => Some CapGet | 2 => Some CapCutPoints | 3 => Some CapCompactionStatus
  | 4 => Some CapCursorStatus | 5 => Some CapSelectionStatus | 6 => Some CapReplay
  | 7 => Some CapPost | 8 => Some CapBranch | 9 => Some CapHandoff | 10 => Some CapCheckpoint
  | 11 => Some CapCursorRotate | 12 => Some CapAuto | 13 => Some CapAutoSchedule | 14 => Some CapEnsureDefault
  | _ => None
  end.
Definition n_routes : N := 15.

Definition routes_agree (tbl : list (N * bool)) : bool :=
  lN_eqb (map fst tbl) (nseq 0 (N.to_nat n_routes))
  && forallb (fun x => match route_cap (fst x) with
                       | Some cp => Bool.eqb (snd x) (cap_can_append cp)
                       | None => false
                       end) tbl.

(* row lookups by code (used for non-vacuity examples over the generated tables) *)
Definition has_cap_row (tbl : list (cap * bool)) (code : N) (b : bool) : bool :=
  existsb (fun x => (cap_code (fst x) =? code) && Bool.eqb (snd x) b) tbl.
Definition has_route_row (tbl : list (N * bool)) (i : N) (b : bool) : bool :=
  existsb (fun x => (fst x =? i) && Bool.eqb (snd x) b) tbl.

(* helpers (methods of impl ContinuityStore) that a read-only capability shares with a capability that
   may append, as listed by the extractor with their "can reach self.event_log.append" bit: the table
   is not empty and no shared helper can append (builder log02b; seed C02-5 put an append into
   find_inflight_compaction_job_id_best_effort_v1, which compaction_status_v1 shares with the scheduler) *)
Definition shared_helpers_silent (t : list (String.string * bool)) : bool :=
  negb (Nat.eqb (List.length t) 0) && forallb (fun x => negb (snd x)) t.
