(* C02, third round (builder log02c): the decisions the store takes BEFORE it appends, for the two
   invocations whose no-op case is decided by a search - and what that search may look at.

   provider_cursor_rotate_v1 (continuities.rs): the newest continuity_provider_cursor_updated frame of the
   thread that passes the request's optional filters provider / endpoint / model is rotated (one frame
   appended); no such frame => `rotated: false`, nothing appended.  The recorded endpoint / model are
   optional as well (a run configured without a model records none; old logs have no endpoint).

   ensure_default: in-memory index -> else the LOG is scanned for the workspace's thread
   (find_latest_continuity_for_workspace) -> else a thread is created.  continuities/index.json is a
   rebuildable cache: it may be absent, current, behind the log (the process died between the log append
   and save_index; a restored backup), unreadable, or of another version.

   No proofs here (Proofs/C02DecideProofs.v). *)
From RipV Require Import Base.Prelude Model.Frames Model.Log Model.ContStore.

(* `Option` in frame args and in requests: 0 = None, 1 + x = Some x *)
Definition opt_of (x : N) : option N := if x =? 0 then None else Some (x - 1).

(* ---------- provider cursors ---------- *)
(* continuity_provider_cursor_updated: args = [provider; endpoint (Option); model (Option)] *)
Definition cursor_fields (f : frame) : option (N * option N * option N) :=
  if is_etype EContinuityProviderCursorUpdated f
  then match args f with
       | [p; e; m] => Some (p, opt_of e, opt_of m)
       | _ => None
       end
  else None.

Record rot_req := { rq_provider : option N; rq_endpoint : option N; rq_model : option N }.

(* one optional filter against one optional recorded field.  lenient = false is the code
   (`recorded != Some(filter)` rejects: a field that was not recorded satisfies no filter);
   lenient = true is `recorded.is_some_and(|r| r != filter)` (seeded change C02-7) *)
Definition field_ok (lenient : bool) (flt recorded : option N) : bool :=
  match flt with
  | None => true
  | Some x => match recorded with
              | Some y => x =? y
              | None => lenient
              end
  end.

Definition rot_match (lenient : bool) (rq : rot_req) (f : frame) : bool :=
  match cursor_fields f with
  | Some (p, e, m) =>
    match rq_provider rq with Some x => x =? p | None => true end
    && field_ok lenient (rq_endpoint rq) e && field_ok lenient (rq_model rq) m
  | None => false
  end.

(* the newest matching frame of what the store reads *)
Definition rot_target (lenient : bool) (rq : rot_req) (fs : list frame) : option frame :=
  find (rot_match lenient rq) (rev fs).

(* what the search reads: tail scan of the sidecar, then replay_events - the sidecar when it validates,
   else the thread's frames in the truth log; Err (the log does not validate) => the call fails *)
Definition rotate_reads (st : state) (c : N) : list frame :=
  match fst (replay_events st c) with Some fs => fs | None => [] end.

(* `known`: self.get(thread_id) found the id in the in-memory index *)
Definition rotate_prog (lenient : bool) (known : bool) (c : N) (rq : rot_req) (st : state) : list mstep :=
  if known
  then [MTarget c; MRead]
       ++ match rot_target lenient rq (rotate_reads st c) with
          | Some f => locked_append EContinuityProviderCursorUpdated (args f)   (* same key, cursor := null *)
          | None => []
          end
  else [].

(* the judgement of the truth log alone: some cursor frame of the thread passes the filters *)
Definition rotate_has_target (rq : rot_req) (c : N) (l : log) : bool :=
  existsb (rot_match false rq) (cstream c l).

(* every line of every sidecar that parses is a frame of the truth log *)
Definition SideSub (st : state) : Prop :=
  forall c ls f, s_side st c = Some ls -> In (SGood f) ls -> In f (s_log st).

(* ---------- the workspace index (continuities/index.json and its in-memory copy) ---------- *)
Record index := { ix_ws : list (N * N);      (* workspace key -> default thread *)
                  ix_ids : list N }.         (* threads `get` / `list` know *)
Definition index0 : index := {| ix_ws := []; ix_ids := [] |}.

Inductive idx_file := IAbsent | IUnreadable | IWrongVersion | IGood (ix : index).

(* ContinuityStore::new: load_index(..).unwrap_or_default(); another version => the empty index *)
Definition load_index (f : idx_file) : index := match f with IGood ix => ix | _ => index0 end.
Definition file_exists (f : idx_file) : bool := match f with IAbsent => false | _ => true end.

Definition ws_lookup (m : list (N * N)) (ws : N) : option N :=
  option_map snd (find (fun x => fst x =? ws) m).
Definition knows (ix : index) (c : N) : bool := existsb (N.eqb c) (ix_ids ix).

(* the open store: model state, the workspace it was opened for, the index file, the in-memory index *)
Record dstate := { d_st : state; d_ws : N; d_file : idx_file; d_mem : index }.

Definition dstate0 : dstate := {| d_st := empty_state; d_ws := 0; d_file := IAbsent; d_mem := index0 |}.
Definition with_st (d : dstate) (st : state) : dstate :=
  {| d_st := st; d_ws := d_ws d; d_file := d_file d; d_mem := d_mem d |}.
Definition with_index (d : dstate) (st : state) (ix : index) : dstate :=     (* insert + save_index *)
  {| d_st := st; d_ws := d_ws d; d_file := IGood ix; d_mem := ix |}.

(* continuity_created: args = [workspace key] *)
Definition created_in (ws : N) (f : frame) : bool :=
  is_etype EContinuityCreated f && match args f with [w] => w =? ws | _ => false end.
Definition log_has_ws (ws : N) (l : log) : bool := existsb (created_in ws) l.

Definition is_child (l : log) (c : N) : bool :=
  existsb (fun f => (sid f =? c) && (is_etype EContinuityBranched f || is_etype EContinuityHandoffCreated f)) l.

(* find_latest_continuity_for_workspace: the newest thread of the workspace that is not a branch /
   handoff child; only when every thread of the workspace is one, the newest.  (newest = last in file
   order: the model has no clock) *)
Definition find_default (ws : N) (l : log) : option N :=
  let cs := map sid (filter (created_in ws) l) in
  match hd_error (rev (filter (fun c => negb (is_child l c)) cs)) with
  | Some c => Some c
  | None => hd_error (rev cs)
  end.

Definition new_frames (old new : log) : list frame := skipn (length old) new.

(* ensure_default.  skip = false is the code; skip = true scans the log only when index.json is
   missing (seeded change C02-9).  Returns the state and the answer (None = Err). *)
Definition ensure (skip : bool) (d : dstate) : dstate * option N :=
  let ws := d_ws d in
  let st := d_st d in
  match ws_lookup (ix_ws (d_mem d)) ws with
  | Some c => (d, Some c)
  | None =>
    let scanned : option (option N) :=
      if skip && file_exists (d_file d) then Some None
      else if validate (s_log st) then Some (find_default ws (s_log st)) else None in
    match scanned with
    | None => (d, None)                                   (* continuity log scan failed *)
    | Some (Some c) =>                                    (* backfill + save_index (best effort) *)
      (with_index d st {| ix_ws := (ws, c) :: ix_ws (d_mem d); ix_ids := ix_ids (d_mem d) |}, Some c)
    | Some None =>
      let st' := exec (create_prog [ws]) st in
      match new_frames (s_log st) (s_log st') with
      | f :: _ => (with_index d st' {| ix_ws := (ws, sid f) :: ix_ws (d_mem d);
                                       ix_ids := sid f :: ix_ids (d_mem d) |}, Some (sid f))
      | [] => (with_st d st', None)
      end
    end
  end.

(* 1: the answer is a thread of the workspace in the log; 0: it is not; 2: Err *)
Definition answer_code (ws : N) (l : log) (a : option N) : N :=
  match a with
  | Some c => if existsb (fun f => created_in ws f && (sid f =? c)) l then 1 else 0
  | None => 2
  end.

(* branch / handoff: the child carries the workspace key of the STORE that creates it
   (workspace_key(&self.workspace_root)), becomes listable, the index is saved; never the default *)
Definition lineage (d : dstate) (t : etype) (c : N) (ok : bool) : dstate :=
  let st := d_st d in
  let st' := exec ([MTarget c; MRead] ++ (if ok then lineage_prog t [d_ws d] [] else [])) st in
  match new_frames (s_log st) (s_log st') with
  | f :: _ => with_index d st' {| ix_ws := ix_ws (d_mem d); ix_ids := sid f :: ix_ids (d_mem d) |}
  | [] => with_st d st'
  end.

(* what the harness does to index.json between calls; XIRestore: an earlier content of the file (a
   backup; the content before the last save; the same with the workspace table emptied) - threads as
   ordinals in creation order *)
Inductive idx_fault :=
| XIAbsent | XIUnreadable | XIWrongVersion
| XIRestore (ws : list (N * nat)) (ids : list nat).

Definition apply_idx_fault (l : log) (x : idx_fault) : idx_file :=
  match x with
  | XIAbsent => IAbsent
  | XIUnreadable => IUnreadable
  | XIWrongVersion => IWrongVersion
  | XIRestore ws ids => IGood {| ix_ws := map (fun p => (fst p, nth_thread l (snd p))) ws;
                                 ix_ids := map (nth_thread l) ids |}
  end.

(* the store is dropped and opened again for workspace ws: only the files survive *)
Definition reopen (d : dstate) (ws : N) : dstate :=
  {| d_st := restart (d_st d); d_ws := ws; d_file := d_file d; d_mem := load_index (d_file d) |}.

(* a frame another writer left in the log (an older version of the store, a second authority, a process
   that died after the log append): next seq of the thread, no cache is told *)
Definition raw_append (st : state) (c : N) (t : etype) (ar : list N) : state :=
  match last_seq (cstream c (s_log st)) with
  | Some q => set_store st (s_log st ++ [mk_frame st c (q + 1) t ar]) (s_side st) (s_next st)
                        (s_index st) (s_fresh st + 1) (s_mu st)
  | None => st
  end.
