(* C16 — executable model of ripd's OpenResponses tool loop (crates/ripd/src/session.rs):
   ToolCallCollector::observe / drain_function_calls (:513-683), ToolChoiceEnforcement (:1077-1144),
   run_openresponses_agent_loop (:1183-1363) with the request builders of provider_openresponses.rs (:71-122)
   and the validation gate of stream_openresponses_request (:1387-1407).
   Provider events are JSON values (Base/Json.v) exactly as the collector receives them (`ParsedEvent.data`);
   the field look-ups below are the serde_json ones (`get`, `as_str`, `as_u64`, `as_object`, `as_array`).
   The loop is a total function from (config, provider script, tool outcomes, validity of payloads) to
   (iterations = request sent + calls drained + calls processed, the request that was refused, end reason).
   No proofs here (Proofs/ToolLoopProofs.v). *)
From Coq Require Import Strings.String Strings.Ascii.   (* before Prelude: List's names win *)
From RipV Require Export Base.Prelude Base.Json.

Definition lit (x : String.string) : str := map Ascii.N_of_ascii (String.list_ascii_of_string x).
Arguments lit x%string.

(* ---------- serde_json accessors ---------- *)
Fixpoint jget (k : str) (kvs : list (str * json)) : option json :=
  match kvs with
  | [] => None
  | (k', v) :: r => if str_eqb k k' then Some v else jget k r
  end.
Definition as_str (j : json) : option str := match j with JStr s => Some s | _ => None end.
Definition as_obj (j : json) : option (list (str * json)) := match j with JObj o => Some o | _ => None end.
Definition as_arr (j : json) : option (list json) := match j with JArr l => Some l | _ => None end.
Definition obind {A B} (o : option A) (f : A -> option B) : option B :=
  match o with Some x => f x | None => None end.
Definition orelse {A} (a b : option A) : option A := match a with Some _ => a | None => b end.
Definition get_str (k : str) (o : list (str * json)) : option str := obind (jget k o) as_str.
(* `.filter(|v| !v.is_empty())` *)
Definition nonempty (o : option str) : option str := match o with Some (_ :: _) => o | _ => None end.

(* Number::as_u64: only a non-negative integer token that fits 64 bits (anything with a sign, a fraction or an
   exponent is an i64/f64 for serde_json; a digit run above 2^64-1 is parsed as f64) *)
Fixpoint digits_val (acc : N) (l : str) : N :=
  match l with [] => acc | c :: r => digits_val (acc * 10 + (c - 48)) r end.
Definition tok_u64 (t : str) : option N :=
  match t with
  | [] => None
  | _ => if all_digits t then (let v := digits_val 0 t in if v <=? U64MAX then Some v else None) else None
  end.
Definition as_u64 (j : json) : option N := match j with JNum t => tok_u64 t | _ => None end.
Definition get_u64_or0 (k : str) (o : list (str * json)) : N :=
  match obind (jget k o) as_u64 with Some n => n | None => 0 end.

(* ---------- HashMap<String, V> as an association list (never iterated by the code) ---------- *)
Fixpoint aget {V} (k : str) (l : list (str * V)) : option V :=
  match l with
  | [] => None
  | (k', v) :: r => if str_eqb k k' then Some v else aget k r
  end.
Fixpoint aset {V} (k : str) (v : V) (l : list (str * V)) : list (str * V) :=
  match l with
  | [] => [(k, v)]
  | (k', v') :: r => if str_eqb k k' then (k, v) :: r else (k', v') :: aset k v r
  end.
Fixpoint adel {V} (k : str) (l : list (str * V)) : list (str * V) :=
  match l with
  | [] => []
  | (k', v') :: r => if str_eqb k k' then adel k r else (k', v') :: adel k r
  end.

(* ---------- string constants ---------- *)
Definition K_response := Eval vm_compute in lit "response".
Definition K_id := Eval vm_compute in lit "id".
Definition K_type := Eval vm_compute in lit "type".
Definition K_output_index := Eval vm_compute in lit "output_index".
Definition K_item := Eval vm_compute in lit "item".
Definition K_call_id := Eval vm_compute in lit "call_id".
Definition K_name := Eval vm_compute in lit "name".
Definition K_arguments := Eval vm_compute in lit "arguments".
Definition K_item_id := Eval vm_compute in lit "item_id".
Definition K_delta := Eval vm_compute in lit "delta".
Definition K_mode := Eval vm_compute in lit "mode".
Definition K_tools := Eval vm_compute in lit "tools".
Definition S_item_added := Eval vm_compute in lit "response.output_item.added".
Definition S_item_done := Eval vm_compute in lit "response.output_item.done".
Definition S_args_delta := Eval vm_compute in lit "response.function_call_arguments.delta".
Definition S_args_done := Eval vm_compute in lit "response.function_call_arguments.done".
Definition S_function_call := Eval vm_compute in lit "function_call".
Definition S_function := Eval vm_compute in lit "function".
Definition S_allowed_tools := Eval vm_compute in lit "allowed_tools".
Definition S_none := Eval vm_compute in lit "none".
Definition S_user := Eval vm_compute in lit "user".
Definition S_fc_ := Eval vm_compute in lit "fc_".
Definition S_output_ := Eval vm_compute in lit "output_".
Definition S_assistant := Eval vm_compute in lit "assistant".
Definition S_system := Eval vm_compute in lit "system".
Definition S_developer := Eval vm_compute in lit "developer".

(* ---------- ToolCallCollector (session.rs:496-683) ---------- *)
Record call := { c_oi : N; c_id : str; c_item : option str; c_name : str; c_args : str }.
Record fbuf := { b_oi : N; b_call : option str; b_name : option str; b_args : str }.
Definition fbuf0 : fbuf := {| b_oi := 0; b_call := None; b_name := None; b_args := [] |}.
Record coll := {
  k_resp : option str;               (* response_id *)
  k_bufs : list (str * fbuf);        (* function_call_by_item_id *)
  k_ids : list (str * str);          (* item_id_by_call_id *)
  k_done : list call                 (* completed_function_calls, in completion order *)
}.
Definition coll0 : coll := {| k_resp := None; k_bufs := []; k_ids := []; k_done := [] |}.

Definition entry_or_default (k : str) (m : list (str * fbuf)) : fbuf :=
  match aget k m with Some b => b | None => fbuf0 end.

(* the push onto completed_function_calls; fx = with `fix:` S19 (a call id already completed in this response is
   not completed again) *)
Definition has_call_id (ci : str) (l : list call) : bool := existsb (fun x => str_eqb (c_id x) ci) l.
Definition push_done (fx : bool) (done : list call) (x : call) : list call :=
  if fx && has_call_id (c_id x) done then done else done ++ [x].

(* "response.output_item.added" | "response.output_item.done" *)
Definition obs_item (fx : bool) (c : coll) (obj : list (str * json)) (is_done : bool) : coll :=
  let oi := get_u64_or0 K_output_index obj in
  match obind (jget K_item obj) as_obj with
  | None => c
  | Some item =>
    if negb (match get_str K_type item with Some t => str_eqb t S_function_call | None => false end) then c
    else
      let call_id := nonempty (get_str K_call_id item) in
      let item_id :=
        match orelse (nonempty (get_str K_id item))
                     (orelse (obind call_id (fun cid => aget cid (k_ids c))) call_id) with
        | Some s => s
        | None => []
        end in
      match item_id with
      | [] => c
      | _ =>
        let ids := match call_id with
                   | Some cid => match aget cid (k_ids c) with
                                 | Some _ => k_ids c
                                 | None => aset cid item_id (k_ids c)
                                 end
                   | None => k_ids c
                   end in
        let e0 := entry_or_default item_id (k_bufs c) in
        let e1 := {| b_oi := oi;
                     b_call := orelse call_id (b_call e0);
                     b_name := orelse (get_str K_name item) (b_name e0);
                     b_args := match nonempty (get_str K_arguments item) with
                               | Some a => a
                               | None => b_args e0
                               end |} in
        if is_done then
          let cid2 := orelse (get_str K_call_id item) (b_call e1) in
          let name2 := orelse (get_str K_name item) (b_name e1) in
          let args2 := match nonempty (get_str K_arguments item) with Some a => a | None => b_args e1 end in
          let done' := match cid2, name2 with
                       | Some ci, Some nm =>
                         push_done fx (k_done c)
                           {| c_oi := oi; c_id := ci; c_item := Some item_id; c_name := nm; c_args := args2 |}
                       | _, _ => k_done c
                       end in
          {| k_resp := k_resp c; k_bufs := adel item_id (k_bufs c); k_ids := ids; k_done := done' |}
        else
          {| k_resp := k_resp c; k_bufs := aset item_id e1 (k_bufs c); k_ids := ids; k_done := k_done c |}
      end
  end.

(* "response.function_call_arguments.delta" / ".done" *)
Definition obs_args (c : coll) (obj : list (str * json)) (is_done : bool) : coll :=
  match get_str K_item_id obj with
  | None => c
  | Some item_id =>
    let oi := get_u64_or0 K_output_index obj in
    let e0 := entry_or_default item_id (k_bufs c) in
    let e1 :=
      if is_done
      then {| b_oi := oi; b_call := b_call e0; b_name := b_name e0;
              b_args := match get_str K_arguments obj with Some a => a | None => [] end |}
      else {| b_oi := oi; b_call := b_call e0; b_name := b_name e0;
              b_args := b_args e0 ++ match get_str K_delta obj with Some d => d | None => [] end |} in
    {| k_resp := k_resp c; k_bufs := aset item_id e1 (k_bufs c); k_ids := k_ids c; k_done := k_done c |}
  end.

(* observe(parsed) for a parsed event of kind Event with data = `data`; Done / InvalidJson events and
   events without data are ignored by the code before it looks at anything *)
Definition observe (fx : bool) (c : coll) (data : json) : coll :=
  match data with
  | JObj obj =>
    let c1 :=
      match nonempty (obind (obind (jget K_response obj) (fun r => match r with JObj o => jget K_id o | _ => None end)) as_str) with
      | Some id => {| k_resp := Some id; k_bufs := k_bufs c; k_ids := k_ids c; k_done := k_done c |}
      | None => c
      end in
    match get_str K_type obj with
    | None => c1
    | Some ty =>
      if str_eqb ty S_item_added then obs_item fx c1 obj false
      else if str_eqb ty S_item_done then obs_item fx c1 obj true
      else if str_eqb ty S_args_delta then obs_args c1 obj false
      else if str_eqb ty S_args_done then obs_args c1 obj true
      else c1
    end
  | _ => c
  end.

Definition collect (fx : bool) (events : list json) : coll := fold_left (observe fx) events coll0.

(* drain_function_calls: `sort_by_key(output_index)` is a stable sort *)
Fixpoint ins_call (x : call) (l : list call) : list call :=
  match l with
  | [] => [x]
  | y :: r => if c_oi x <=? c_oi y then x :: l else y :: ins_call x r
  end.
Fixpoint sort_calls (l : list call) : list call :=
  match l with [] => [] | x :: r => ins_call x (sort_calls r) end.
Definition drain (c : coll) : list call := sort_calls (k_done c).

(* ---------- ToolChoiceEnforcement (session.rs:1077-1144) ---------- *)
Inductive enf := AllFunctions | NoTools | OnlyFunctions (names : list str).

Definition allowed_tool_name (t : json) : list str :=
  match t with
  | JObj o =>
    if match get_str K_type o with Some ty => str_eqb ty S_function | None => false end
    then match nonempty (get_str K_name o) with Some n => [n] | None => [] end
    else []
  | _ => []
  end.

Definition enforce (v : json) : enf :=
  match v with
  | JStr s => if str_eqb s S_none then NoTools else AllFunctions
  | JObj o =>
    match get_str K_type o with
    | Some ty =>
      if str_eqb ty S_function
      then OnlyFunctions (match nonempty (get_str K_name o) with Some n => [n] | None => [] end)
      else if str_eqb ty S_allowed_tools
      then if match get_str K_mode o with Some m => str_eqb m S_none | None => false end
           then NoTools
           else OnlyFunctions (match obind (jget K_tools o) as_arr with
                               | Some tools => flat_map allowed_tool_name tools
                               | None => []
                               end)
      else AllFunctions
    | None => AllFunctions
    end
  | _ => AllFunctions
  end.

Definition allows (e : enf) (name : str) : bool :=
  match e with
  | AllFunctions => true
  | NoTools => false
  | OnlyFunctions ns => existsb (str_eqb name) ns
  end.

(* ---------- request payloads as far as the loop decides them ---------- *)
Inductive item :=
| IMsg (role text : str)
| ICall (id : option str) (call_id name args : str)
| IOut (id : option str) (call_id out : str).
Inductive rinput := InText (s : str) | InItems (l : list item).
(* q_kind: 0 prompt, 1 initial_items, 2 stateless_history, 3 followup, 4 followup_stateless_history *)
Record request := { q_kind : N; q_prev : option str; q_input : rinput }.

Definition is_out (i : item) : bool := match i with IOut _ _ _ => true | _ => false end.
Definition items_of (r : request) : list item := match q_input r with InItems l => l | InText _ => [] end.

(* function_call_item_from_call(call, include_id = true) *)
Definition call_item (c : call) : item :=
  ICall (Some (match c_item c with Some i => i | None => S_fc_ ++ c_id c end)) (c_id c) (c_name c) (c_args c).
(* function_call_output_item(call_id, output_json, include_id = stateless) *)
Definition out_item (stateless : bool) (cid out : str) : item :=
  IOut (if stateless then Some (S_output_ ++ cid) else None) cid out.

(* the output of a call refused by tool_choice: rejected_tool_invocation_events + tool_events_to_function_call_output
   + serde_json::to_string (object keys sorted: serde_json::Map is a BTreeMap here) *)
Definition reject_error (c : call) : str :=
  lit "tool call rejected by tool_choice (call_id=" ++ c_id c ++ lit ", name=" ++ c_name c ++ lit ")".
Definition reject_output (c : call) : str :=
  print (JObj [ (lit "error", JStr (reject_error c)); (lit "exit_code", JNum (lit "1"));
                (lit "ok", JBool false); (lit "stderr", JStr []); (lit "stdout", JStr []);
                (lit "tool", JStr (c_name c)) ]).

(* ---------- the loop ---------- *)
Record cfg := {
  g_stateless : bool;
  g_choice : json;                 (* config.tool_choice.value() *)
  g_followup : option str;         (* config.followup_user_message *)
  g_fixed : bool                   (* true: with the `fix:` commits for S16 (the follow-up message that was sent is
                                      kept in the stateless history) and S19 (one completion per call id and response) *)
}.
Definition FIXED := true.
Definition UNFIXED := false.

(* one scripted provider answer: r_fail = the stream ends with a provider error (HTTP status, transport error,
   no first byte) — the collector is dropped; otherwise the data of the parsed events the collector observed *)
Record round := { r_fail : bool; r_events : list json }.

Inductive reason := Completed | ProviderError | MaxToolCalls | InvalidRequest.

Record xcall := { x_call : call; x_ran : bool; x_out : str }.   (* a processed call: executed or refused, its output *)
Record iter := { it_req : request; it_calls : list call; it_done : list xcall }.
Record result := { res_iters : list iter; res_rejected : option request; res_reason : reason }.

Definition MAX_TOOL_CALLS : N := 32.

Definition fmsg (g : cfg) : list item :=
  match g_followup g with Some m => [IMsg S_user m] | None => [] end.

(* the `for call in tool_calls` body; `tool n c` = output JSON of the n-th executed call *)
Fixpoint run_calls (e : enf) (tool : N -> call -> str) (count nexec : N) (calls : list call)
  : list xcall * N * N * bool :=
  match calls with
  | [] => ([], count, nexec, false)
  | c :: r =>
    if MAX_TOOL_CALLS <=? count then ([], count, nexec, true)
    else if allows e (c_name c)
    then let '(xs, cnt, ne, hit) := run_calls e tool (count + 1) (nexec + 1) r in
         ({| x_call := c; x_ran := true; x_out := tool nexec c |} :: xs, cnt, ne, hit)
    else let '(xs, cnt, ne, hit) := run_calls e tool (count + 1) nexec r in
         ({| x_call := c; x_ran := false; x_out := reject_output c |} :: xs, cnt, ne, hit)
  end.

Record lst := {
  s_prev : option str;             (* previous_response_id *)
  s_follow : option (list item);   (* followup_tool_outputs *)
  s_count : N;                     (* tool_call_count *)
  s_nexec : N;                     (* number of tool executions so far (index into the outcomes) *)
  s_hist : list item;              (* history_items *)
  s_init : option (list item);     (* initial_request_items *)
  s_idx : N                        (* request_index *)
}.

Definition lst0 (g : cfg) (prompt : str) (init : option (list item)) : lst :=
  {| s_prev := None; s_follow := None; s_count := 0; s_nexec := 0;
     s_hist := if g_stateless g then match init with Some l => l | None => [IMsg S_user prompt] end else [];
     s_init := init; s_idx := 0 |}.

Definition mkreq (k : N) (p : option str) (i : rinput) : request := {| q_kind := k; q_prev := p; q_input := i |}.

(* the payload selection at the top of the loop body; None = "provider_error" (follow-up without a response id) *)
Definition build (g : cfg) (prompt : str) (s : lst) : option (request * lst) :=
  match s_follow s with
  | Some outs =>
    if g_stateless g then
      Some (mkreq 4 None (InItems (s_hist s ++ fmsg g)),
            {| s_prev := s_prev s; s_follow := None; s_count := s_count s; s_nexec := s_nexec s;
               s_hist := if g_fixed g then s_hist s ++ fmsg g else s_hist s;
               s_init := s_init s; s_idx := s_idx s |})
    else match s_prev s with
         | None => None
         | Some p =>
           Some (mkreq 3 (Some p) (InItems (outs ++ fmsg g)),
                 {| s_prev := s_prev s; s_follow := None; s_count := s_count s; s_nexec := s_nexec s;
                    s_hist := s_hist s; s_init := s_init s; s_idx := s_idx s |})
         end
  | None =>
    match s_init s with
    | Some items =>
      Some (mkreq 1 None (InItems items),
            {| s_prev := s_prev s; s_follow := None; s_count := s_count s; s_nexec := s_nexec s;
               s_hist := s_hist s; s_init := None; s_idx := s_idx s |})
    | None =>
      if g_stateless g then Some (mkreq 2 None (InItems (s_hist s)), s)
      else Some (mkreq 0 None (InText prompt), s)
    end
  end.

Definition mkres (l : list iter) (rj : option request) (r : reason) : result :=
  {| res_iters := l; res_rejected := rj; res_reason := r |}.
Definition mkiter (q : request) (cs : list call) (xs : list xcall) : iter :=
  {| it_req := q; it_calls := cs; it_done := xs |}.

(* `valid i q`: the payload of the i-th request passes validate_create_response_body (payload.errors() is empty) *)
Fixpoint loop (g : cfg) (valid : N -> request -> bool) (tool : N -> call -> str) (prompt : str)
              (script : list round) (s : lst) {struct script} : result :=
  if MAX_TOOL_CALLS <=? s_count s then mkres [] None MaxToolCalls else
  match build g prompt s with
  | None => mkres [] None ProviderError
  | Some (req, s1) =>
    if negb (valid (s_idx s) req) then mkres [] (Some req) InvalidRequest else
    match script with
    | [] => mkres [mkiter req [] []] None ProviderError     (* nothing scripted: the request is sent and fails *)
    | rd :: rest =>
      if r_fail rd then mkres [mkiter req [] []] None ProviderError else
      let col := collect (g_fixed g) (r_events rd) in
      let prev := orelse (k_resp col) (s_prev s1) in
      let calls := drain col in
      match calls with
      | [] => mkres [mkiter req [] []] None Completed
      | _ :: _ =>
        if negb (g_stateless g) && match prev with None => true | Some _ => false end
        then mkres [mkiter req calls []] None ProviderError
        else
          let hist1 := if g_stateless g then s_hist s1 ++ map call_item calls else s_hist s1 in
          let '(xs, cnt, ne, hit) := run_calls (enforce (g_choice g)) tool (s_count s1) (s_nexec s1) calls in
          if hit then mkres [mkiter req calls xs] None MaxToolCalls
          else
            let outs := map (fun x => out_item (g_stateless g) (c_id (x_call x)) (x_out x)) xs in
            let s2 := {| s_prev := prev; s_follow := Some outs; s_count := cnt; s_nexec := ne;
                         s_hist := if g_stateless g then hist1 ++ outs else hist1;
                         s_init := s_init s1; s_idx := s_idx s + 1 |} in
            let r := loop g valid tool prompt rest s2 in
            mkres (mkiter req calls xs :: res_iters r) (res_rejected r) (res_reason r)
      end
    end
  end.

Definition run (g : cfg) (valid : N -> request -> bool) (tool : N -> call -> str) (prompt : str)
               (init : option (list item)) (script : list round) : result :=
  loop g valid tool prompt script (lst0 g prompt init).

(* Which of the two places of OpenResponsesSsePipe that turn parsed events into frames (push_sse_str: the events of a
   network chunk; finish: the events the decoder hands out when the stream ends without [DONE]) also feed every one of
   those events to `collector.observe` first.  /repo: both (T1: tools/gen/tool_loop.py reads it off session.rs,
   obligation gen_pipe_feeds_collector_ok).  The composition with C15's decoder model is in Model/ToolLoopSse.v. *)
Record obs_flags := { ob_push : bool; ob_finish : bool }.
Definition OBS_BOTH : obs_flags := {| ob_push := true; ob_finish := true |}.
Definition OBS_PUSH_ONLY : obs_flags := {| ob_push := true; ob_finish := false |}.
Definition obs_flags_eqb (a b : obs_flags) : bool :=
  Bool.eqb (ob_push a) (ob_push b) && Bool.eqb (ob_finish a) (ob_finish b).

(* derived views used by the theorems *)
Definition sent (r : result) : list request := map it_req (res_iters r).
Definition processed (r : result) : list xcall := concat (map it_done (res_iters r)).
Definition executed (r : result) : list xcall := filter x_ran (processed r).
Definition outputs_for (stateless : bool) (xs : list xcall) : list item :=
  map (fun x => out_item stateless (c_id (x_call x)) (x_out x)) xs.

(* the call ids answered by a request input, in order *)
Definition out_ids (l : list item) : list str :=
  flat_map (fun i => match i with IOut _ cid _ => [cid] | _ => [] end) l.

(* ---------- the value constraints the OpenResponses schema puts on the input items the loop builds ----------
   (schemas/openresponses/split_components.json: FunctionCallItemParam, FunctionCallOutputItemParam, the four
   *MessageItemParam with string content; strings are lists of Unicode code points, so nlen = maxLength's count).
   T1: tools/gen/tool_loop.py reads the numbers, the pattern and the roles from the schema documents
   (gen_schema_limits_ok); T2: the harness's schema judge must agree with `items_ok` on every follow-up body
   (sent or refused) — `schema_agrees` below, part of check_case. *)
Definition CALL_ID_MIN : N := 1.
Definition CALL_ID_MAX : N := 64.
Definition NAME_MIN : N := 1.
Definition NAME_MAX : N := 64.
Definition TEXT_MAX : N := 10485760.
(* ^[a-zA-Z0-9_-]+$ *)
Definition name_char_ok (c : N) : bool :=
  ((48 <=? c) && (c <=? 57)) || ((65 <=? c) && (c <=? 90)) || ((97 <=? c) && (c <=? 122)) || (c =? 95) || (c =? 45).
Definition call_id_ok (s : str) : bool := (CALL_ID_MIN <=? nlen s) && (nlen s <=? CALL_ID_MAX).
Definition name_ok (s : str) : bool := (NAME_MIN <=? nlen s) && (nlen s <=? NAME_MAX) && forallb name_char_ok s.
Definition role_ok (r : str) : bool :=
  str_eqb r S_user || str_eqb r S_assistant || str_eqb r S_system || str_eqb r S_developer.
Definition item_ok (i : item) : bool :=
  match i with
  | IMsg r t => role_ok r && (nlen t <=? TEXT_MAX)
  | ICall _ cid n _ => call_id_ok cid && name_ok n
  | IOut _ cid o => call_id_ok cid && (nlen o <=? TEXT_MAX)
  end.
Definition items_ok (q : request) : bool := forallb item_ok (items_of q).

Fixpoint prefix_of {A} (eqb : A -> A -> bool) (a b : list A) : bool :=
  match a, b with
  | [], _ => true
  | x :: a', y :: b' => eqb x y && prefix_of eqb a' b'
  | _ :: _, [] => false
  end.

(* ---------- observation encoding (mirrors harness/src/bin/c16.rs) ---------- *)
Definition enc_str (s : str) : list N := nlen s :: s.
Definition enc_ostr (o : option str) : list N := match o with None => [0] | Some s => 1 :: enc_str s end.
Definition enc_bool (b : bool) : list N := [if b then 1 else 0].
Definition enc_listf {A} (f : A -> list N) (l : list A) : list N := nlen l :: concat (map f l).

Definition enc_call (c : call) : list N :=
  c_oi c :: enc_str (c_id c) ++ enc_ostr (c_item c) ++ enc_str (c_name c) ++ enc_str (c_args c).

Definition enc_item (i : item) : list N :=
  match i with
  | IMsg r t => 0 :: enc_str r ++ enc_str t
  | ICall id c n a => 1 :: enc_ostr id ++ enc_str c ++ enc_str n ++ enc_str a
  | IOut id c o => 2 :: enc_ostr id ++ enc_str c ++ enc_str o
  end.
Definition enc_request (q : request) : list N :=
  q_kind q :: enc_ostr (q_prev q) ++
  match q_input q with InText s => 0 :: enc_str s | InItems l => 1 :: enc_listf enc_item l end.
Definition enc_reason (r : reason) : N :=
  match r with Completed => 0 | ProviderError => 1 | MaxToolCalls => 2 | InvalidRequest => 3 end.
(* a processed call as the session frames show it: refused or run, call id (refused only: it is part of the
   tool id `tool_denied_<call_id>`), name, raw arguments *)
Definition enc_xcall (x : xcall) : list N :=
  enc_bool (x_ran x) ++ (if x_ran x then [] else enc_str (c_id (x_call x))) ++
  enc_str (c_name (x_call x)) ++ enc_str (c_args (x_call x)).
Definition enc_iter (i : iter) : list N := enc_request (it_req i) ++ enc_listf enc_xcall (it_done i).
Definition enc_result (r : result) : list N :=
  enc_reason (res_reason r) :: enc_listf enc_iter (res_iters r) ++
  match res_rejected r with None => [0] | Some q => 1 :: tl (enc_request q) end.   (* the kind of a refused payload is not observable *)

(* sorted, de-duplicated names (the hook returns the HashSet sorted) *)
Fixpoint str_ltb (a b : str) : bool :=
  match a, b with
  | _, [] => false
  | [], _ :: _ => true
  | x :: a', y :: b' => if x <? y then true else if y <? x then false else str_ltb a' b'
  end.
Fixpoint ins_name (x : str) (l : list str) : list str :=
  match l with
  | [] => [x]
  | y :: r => if str_eqb x y then l else if str_ltb x y then x :: l else y :: ins_name x r
  end.
Definition norm_names (l : list str) : list str := fold_right ins_name [] l.

Definition enc_enf (e : enf) : list N :=
  match e with
  | AllFunctions => [0; 0]
  | NoTools => [1; 0]
  | OnlyFunctions ns => 2 :: enc_listf enc_str (norm_names ns)
  end.

(* ---------- correspondence cases ---------- *)
Inductive case :=
| CCollect (events : list json) (obs : list N)
| CEnforce (choice : json) (probes : list str) (obs : list N)
| CLoop (g : cfg) (prompt : str) (init : option (list item)) (script : list round)
        (outs : list str) (valids : list bool) (obs : list N).

Definition tool_of (outs : list str) : N -> call -> str := fun n _ => nth (N.to_nat n) outs [].
Definition valid_of (valids : list bool) : N -> request -> bool := fun i _ => nth (N.to_nat i) valids true.

Definition model_obs (c : case) : list N :=
  match c with
  | CCollect evs _ => let k := collect FIXED evs in enc_listf enc_call (drain k) ++ enc_ostr (k_resp k)
  | CEnforce v probes _ =>
    let e := enforce v in enc_enf e ++ concat (map (fun p => enc_bool (allows e p)) probes)
  | CLoop g prompt init script outs valids _ =>
    enc_result (run g (valid_of valids) (tool_of outs) prompt init script)
  end.
Definition case_obs (c : case) : list N :=
  match c with CCollect _ o => o | CEnforce _ _ o => o | CLoop _ _ _ _ _ _ o => o end.
(* every request the run built after the first one (sent, then the refused one): a follow-up differs from the
   first request (which passed) only in its input items and previous_response_id, so it satisfies the schema
   exactly when its items do; `valids` are the verdicts of the harness's schema judge on the same bodies *)
Definition all_requests (r : result) : list request :=
  sent r ++ match res_rejected r with Some q => [q] | None => [] end.
Fixpoint agree_from (qs : list request) (vs : list bool) : bool :=
  match qs, vs with
  | [], _ => true
  | _ :: _, [] => false
  | q :: qs', v :: vs' => Bool.eqb (items_ok q) v && agree_from qs' vs'
  end.
Definition schema_agrees (r : result) (valids : list bool) : bool :=
  agree_from (skipn 1 (all_requests r)) (skipn 1 valids).

Definition check_case (c : case) : bool :=
  match c with
  | CLoop g prompt init script outs valids obs =>
    let r := run g (valid_of valids) (tool_of outs) prompt init script in
    lN_eqb (enc_result r) obs && schema_agrees r valids
  | _ => lN_eqb (model_obs c) (case_obs c)
  end.
