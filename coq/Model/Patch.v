(* C12 — executable model of rip-workspace's patch format (patch.rs) and Workspace::apply_patch
   (lib.rs) over the file-system model Base/Fs.v.  Everything is byte-level: the patch text is the
   UTF-8 encoding of the &str the code receives (all delimiters the code looks at are ASCII, so the
   byte-level and char-level views coincide; `trim` is modelled on the UTF-8 encodings of the Unicode
   White_Space code points).  No proofs here (Proofs/PatchProofs.v). *)
From RipV Require Export Base.Prelude Base.Fs.
Require Import Coq.Strings.String.
Open Scope N_scope.
Open Scope list_scope.

Definition line := list N.

(* ---------- str::lines ---------- *)
Definition strip_cr (l : line) : line :=
  match rev l with 13 :: r => rev r | _ => l end.

(* split_inclusive('\n'); a piece that ends in \n loses it and then one \r; the last piece (no \n) is kept as is *)
Fixpoint lines_aux (cur : list N) (s : list N) : list line :=
  match s with
  | [] => match cur with [] => [] | _ => [rev cur] end
  | c :: r => if c =? 10 then strip_cr (rev cur) :: lines_aux [] r else lines_aux (c :: cur) r
  end.
Definition str_lines (s : list N) : list line := lines_aux [] s.

Fixpoint strip_prefix (p s : list N) : option (list N) :=
  match p, s with
  | [], _ => Some s
  | x :: p', y :: s' => if x =? y then strip_prefix p' s' else None
  | _ :: _, [] => None
  end.
Definition starts_with (p s : list N) : bool := match strip_prefix p s with Some _ => true | None => false end.

(* ---------- str::trim (Unicode White_Space, on UTF-8 bytes) ---------- *)
Definition ws_prefix (s : list N) : nat :=
  match s with
  | b0 :: r =>
    if ((9 <=? b0) && (b0 <=? 13)) || (b0 =? 32) then 1%nat
    else match r with
      | b1 :: r1 =>
        if (b0 =? 194) && ((b1 =? 133) || (b1 =? 160)) then 2%nat
        else match r1 with
          | b2 :: _ =>
            if (b0 =? 225) && (b1 =? 154) && (b2 =? 128) then 3%nat
            else if (b0 =? 226) && (b1 =? 128) && (((128 <=? b2) && (b2 <=? 138)) || (b2 =? 168) || (b2 =? 169) || (b2 =? 175)) then 3%nat
            else if (b0 =? 226) && (b1 =? 129) && (b2 =? 159) then 3%nat
            else if (b0 =? 227) && (b1 =? 128) && (b2 =? 128) then 3%nat
            else 0%nat
          | [] => 0%nat
          end
      | [] => 0%nat
      end
  | [] => 0%nat
  end.
(* the same test on the reversed string (last byte first) *)
Definition ws_suffix_rev (s : list N) : nat :=
  match s with
  | b0 :: r =>
    if ((9 <=? b0) && (b0 <=? 13)) || (b0 =? 32) then 1%nat
    else match r with
      | b1 :: r1 =>
        if (b1 =? 194) && ((b0 =? 133) || (b0 =? 160)) then 2%nat
        else match r1 with
          | b2 :: _ => match ws_prefix [b2; b1; b0] with 3%nat => 3%nat | _ => 0%nat end   (* a 3-byte blank only *)
          | [] => 0%nat
          end
      | [] => 0%nat
      end
  | [] => 0%nat
  end.
Fixpoint trim_with (w : list N -> nat) (fuel : nat) (s : list N) : list N :=
  match fuel with
  | O => s
  | S k => match w s with O => s | n => trim_with w k (skipn n s) end
  end.
Definition trim (s : list N) : list N :=
  let a := trim_with ws_prefix (List.length s) s in
  rev (trim_with ws_suffix_rev (List.length a) (rev a)).

(* ---------- patch documents ---------- *)
Record hunk := { h_before : list line; h_after : list line }.
Inductive op :=
| Add (p : list N) (content : bytes)
| Del (p : list N)
| Upd (p : list N) (mv : option (list N)) (hs : list hunk).

(* parse_rel_path *)
Definition parse_rel_path (raw : list N) : option (list N) :=
  let t := trim raw in
  match t with
  | [] => None
  | _ => if starts_slash t then None else if has_parent_dir t then None else Some t
  end.

Fixpoint intercalate (sep : list N) (ls : list line) : list N :=
  match ls with
  | [] => []
  | [l] => l
  | l :: r => l ++ sep ++ intercalate sep r
  end.

Definition add_content (ls : list line) : bytes :=
  match intercalate [10] ls with [] => [] | j => j ++ [10] end.

Definition mk_hunk (ls : list (N * line)) : hunk :=
  {| h_before := map snd (filter (fun pl => negb (fst pl =? 43)) ls);     (* ' ' and '-' *)
     h_after := map snd (filter (fun pl => negb (fst pl =? 45)) ls) |}.   (* ' ' and '+' *)

Inductive pstate :=
| PTop (ops : list op)
| PAdd (ops : list op) (p : list N) (content : list line)
| PUpd0 (ops : list op) (p : list N)
| PUpd (ops : list op) (p : list N) (mv : option (list N)) (hs : list hunk) (cur : list (N * line))
| PDone (ops : list op)
| PErr.

Definition H_END := bs "*** End Patch".
Definition H_BEGIN := bs "*** Begin Patch".
Definition H_ADD := bs "*** Add File: ".
Definition H_DEL := bs "*** Delete File: ".
Definition H_UPD := bs "*** Update File: ".
Definition H_MOVE := bs "*** Move to: ".
Definition H_STARS := bs "*** ".

Definition step_top (ops : list op) (l : line) : pstate :=
  if lN_eqb l H_END then PDone ops else
  match strip_prefix H_ADD l with
  | Some r => match parse_rel_path r with Some p => PAdd ops p [] | None => PErr end
  | None =>
  match strip_prefix H_DEL l with
  | Some r => match parse_rel_path r with Some p => PTop (ops ++ [Del p]) | None => PErr end
  | None =>
  match strip_prefix H_UPD l with
  | Some r => match parse_rel_path r with Some p => PUpd0 ops p | None => PErr end
  | None => PErr
  end end end.

Definition flush_cur (hs : list hunk) (cur : list (N * line)) : list hunk :=
  match cur with [] => hs | _ => hs ++ [mk_hunk cur] end.

Definition step_upd (ops : list op) (p : list N) (mv : option (list N)) (hs : list hunk)
           (cur : list (N * line)) (l : line) : pstate :=
  if starts_with H_STARS l then
    match flush_cur hs cur with
    | [] => PErr
    | hs' => step_top (ops ++ [Upd p mv hs']) l
    end
  else if starts_with [64; 64] l then PUpd ops p mv (flush_cur hs cur) []
  else match l with
       | [] => PErr
       | c :: rest => if (c =? 32) || (c =? 43) || (c =? 45) then PUpd ops p mv hs (cur ++ [(c, rest)]) else PErr
       end.

Definition pstep (s : pstate) (l : line) : pstate :=
  match s with
  | PTop ops => step_top ops l
  | PAdd ops p content =>
    if starts_with H_STARS l then step_top (ops ++ [Add p (add_content content)]) l
    else match l with
         | 43 :: rest => PAdd ops p (content ++ [rest])
         | _ => PErr
         end
  | PUpd0 ops p =>
    match strip_prefix H_MOVE l with
    | Some d => match parse_rel_path d with Some q => PUpd ops p (Some q) [] [] | None => PErr end
    | None => step_upd ops p None [] [] l
    end
  | PUpd ops p mv hs cur => step_upd ops p mv hs cur l
  | PDone ops => PDone ops
  | PErr => PErr
  end.

Definition parse_patch (input : list N) : option (list op) :=
  match str_lines input with
  | [] => None
  | l0 :: rest =>
    if lN_eqb l0 H_BEGIN then
      match fold_left pstep rest (PTop []) with
      | PDone ops => Some ops
      | _ => None
      end
    else None
  end.

(* Patch::affected_paths *)
Definition op_paths (o : op) : list (list N) :=
  match o with
  | Add p _ => [p]
  | Del p => [p]
  | Upd p None _ => [p]
  | Upd p (Some q) _ => [p; q]
  end.
Definition affected_paths (ops : list op) : list (list N) := flat_map op_paths ops.

(* ---------- hunks on text ---------- *)
Fixpoint contains_crlf (s : list N) : bool :=
  match s with
  | 13 :: r => match r with 10 :: _ => true | _ => contains_crlf r end
  | _ :: r => contains_crlf r
  | [] => false
  end.
Definition line_ending (s : list N) : list N := if contains_crlf s then [13; 10] else [10].
Definition ends_nl (s : list N) : bool := match rev s with 10 :: _ => true | _ => false end.

(* text.split('\n').map(strip one '\r') ; pop the last piece when the text ends in '\n' *)
Definition split_lines (s : list N) : list line * bool :=
  let pieces := map strip_cr (split_on 10 s) in
  if ends_nl s then (removelast pieces, true) else (pieces, false).

Definition join_lines (ls : list line) (trailing : bool) (le : list N) : list N :=
  match ls with
  | [] => []
  | _ => intercalate le ls ++ (if trailing then le else [])
  end.

Fixpoint prefix_eqb (needle hay : list line) : bool :=
  match needle, hay with
  | [], _ => true
  | x :: n', y :: h' => lN_eqb x y && prefix_eqb n' h'
  | _ :: _, [] => false
  end.
Fixpoint find_sub (hay needle : list line) (idx : nat) : option nat :=
  if prefix_eqb needle hay then Some idx
  else match hay with [] => None | _ :: r => find_sub r needle (S idx) end.
Definition find_from (hay needle : list line) (start : nat) : option nat :=
  if Nat.leb start (List.length hay) then find_sub (skipn start hay) needle start else None.

Fixpoint apply_hunks_lines (ls : list line) (cursor : nat) (hs : list hunk) : option (list line) :=
  match hs with
  | [] => Some ls
  | h :: r =>
    match h_before h with
    | [] => let ls' := ls ++ h_after h in apply_hunks_lines ls' (List.length ls') r
    | _ =>
      match find_from ls (h_before h) cursor with
      | None => None
      | Some pos =>
        apply_hunks_lines (firstn pos ls ++ h_after h ++ skipn (pos + List.length (h_before h)) ls)
                          (pos + List.length (h_after h)) r
      end
    end
  end.

Definition apply_hunks_to_text (text : bytes) (hs : list hunk) : option bytes :=
  let le := line_ending text in
  let '(ls, tr) := split_lines text in
  match apply_hunks_lines ls 0 hs with
  | Some ls' => Some (join_lines ls' tr le)
  | None => None
  end.

(* ---------- Workspace::apply_patch ---------- *)
Definition key := list name.
Record st := { s_fs : fs; s_undo : list (list N * option bytes) }.   (* undo in push order; seen = keys of undo *)

Definition seen (u : list (list N * option bytes)) (k : key) : bool :=
  existsb (fun e => path_eqb (comps (fst e)) k) u.

Definition tg (root : path) (raw : list N) : tgt := mk_tgt root raw.

(* record_undo: first-seen previous content of the path; an io error aborts the whole apply *)
Definition record_undo (root : path) (s : st) (raw : list N) : res st :=
  if seen (s_undo s) (comps raw) then Ok s else
  if os_exists (s_fs s) (tg root raw) then
    match os_read (s_fs s) (tg root raw) with
    | Ok b => Ok {| s_fs := s_fs s; s_undo := s_undo s ++ [(raw, Some b)] |}
    | Err e => Err e
    end
  else Ok {| s_fs := s_fs s; s_undo := s_undo s ++ [(raw, None)] |}.

Definition with_fs (s : st) (f : fs) : st := {| s_fs := f; s_undo := s_undo s |}.

(* one operation; on failure the partially mutated state is returned together with the error kind *)
Definition exec (root : path) (s : st) (o : op) : st * option N :=
  match o with
  | Add p content =>
    let t := tg root p in
    if os_exists (s_fs s) t then (s, Some EEXIST) else
    match record_undo root s p with
    | Err e => (s, Some e)
    | Ok s1 =>
      match mk_parent_dirs (s_fs s1) t with
      | (f2, Some e) => (with_fs s1 f2, Some e)
      | (f2, None) =>
        match os_write f2 t content with
        | Err e => (with_fs s1 f2, Some e)
        | Ok f3 => (with_fs s1 f3, None)
        end
      end
    end
  | Del p =>
    let t := tg root p in
    if negb (os_exists (s_fs s) t) then (s, Some ENOENT) else
    match record_undo root s p with
    | Err e => (s, Some e)
    | Ok s1 =>
      match os_remove_file (s_fs s1) t with
      | Err e => (s1, Some e)
      | Ok f2 => (with_fs s1 f2, None)
      end
    end
  | Upd p mv hs =>
    let t := tg root p in
    if negb (os_exists (s_fs s) t) then (s, Some ENOENT) else
    match record_undo root s p with
    | Err e => (s, Some e)
    | Ok s1 =>
      match os_read (s_fs s1) t with
      | Err e => (s1, Some e)
      | Ok b =>
        if negb (utf8_ok b) then (s1, Some EINVALDATA) else
        match apply_hunks_to_text b hs with
        | None => (s1, Some EINVALDATA)
        | Some b' =>
          match os_write (s_fs s1) t b' with
          | Err e => (s1, Some e)
          | Ok f2 =>
            let s2 := with_fs s1 f2 in
            match mv with
            | None => (s2, None)
            | Some q =>
              let tq := tg root q in
              if os_exists f2 tq then (s2, Some EEXIST) else
              match record_undo root s2 q with
              | Err e => (s2, Some e)
              | Ok s3 =>
                match mk_parent_dirs (s_fs s3) tq with
                | (f4, Some e) => (with_fs s3 f4, Some e)
                | (f4, None) =>
                  match os_rename_file f4 t tq with
                  | Err e => (with_fs s3 f4, Some e)
                  | Ok f5 => (with_fs s3 f5, None)
                  end
                end
              end
            end
          end
        end
      end
    end
  end.

Fixpoint run (root : path) (s : st) (ops : list op) : st * option N :=
  match ops with
  | [] => (s, None)
  | o :: r =>
    match exec root s o with
    | (s1, None) => run root s1 r
    | (s1, Some e) => (s1, Some e)
    end
  end.

(* revert_paths: reverse order, every io error ignored.  `fixed = true` is the code after
   "fix: apply_patch rollback lost a deleted file when a later operation of the same patch had
   created directories at its path" (remove_empty_dirs before the restore). *)
Definition ign (f : fs) (r : res fs) : fs := match r with Ok f' => f' | Err _ => f end.

Definition revert_one (fixed : bool) (root : path) (f : fs) (e : list N * option bytes) : fs :=
  let t := tg root (fst e) in
  match snd e with
  | Some b =>
    let f0 := if fixed then os_prune_dirs f t else f in
    let f1 := fst (mk_parent_dirs f0 t) in
    ign f1 (os_write f1 t b)
  | None => ign f (os_remove_file f t)
  end.

Definition revert (fixed : bool) (root : path) (f : fs) (u : list (list N * option bytes)) : fs :=
  fold_left (revert_one fixed root) (rev u) f.

(* changed_files: normalize_rel, sort, dedup *)
Definition normalize_rel (p : list N) : list N := map (fun c => if c =? 92 then 47 else c) p.

Fixpoint bytes_ltb (a b : list N) : bool :=
  match a, b with
  | [], [] => false
  | [], _ :: _ => true
  | _ :: _, [] => false
  | x :: a', y :: b' => if x <? y then true else if y <? x then false else bytes_ltb a' b'
  end.
Fixpoint insert_sorted (x : list N) (l : list (list N)) : list (list N) :=
  match l with
  | [] => [x]
  | y :: r => if bytes_ltb x y then x :: l else if bytes_ltb y x then y :: insert_sorted x r else l
  end.
Definition sort_dedup (l : list (list N)) : list (list N) := fold_right insert_sorted [] l.

Definition changed_files (ops : list op) : list (list N) := sort_dedup (map normalize_rel (affected_paths ops)).

Inductive outcome := Applied (f : fs) (changed : list (list N)) | Failed (f : fs) (e : N).

Definition apply_ops (fixed : bool) (root : path) (f : fs) (ops : list op) : outcome :=
  match run root {| s_fs := f; s_undo := [] |} ops with
  | (s, None) => Applied (s_fs s) (changed_files ops)
  | (s, Some e) => Failed (revert fixed root (s_fs s) (s_undo s)) e
  end.

Definition apply_patch (fixed : bool) (root : path) (f : fs) (input : list N) : outcome :=
  match parse_patch input with
  | None => Failed f EINVALDATA
  | Some ops => apply_ops fixed root f ops
  end.

(* ---------- specification-level interpreter (no undo bookkeeping) ---------- *)
Definition spec_op (root : path) (f : fs) (o : op) : res fs :=
  match o with
  | Add p content =>
    let t := tg root p in
    if os_exists f t then Err EEXIST else
    match mk_parent_dirs f t with
    | (_, Some e) => Err e
    | (f2, None) => os_write f2 t content
    end
  | Del p =>
    let t := tg root p in
    if negb (os_exists f t) then Err ENOENT else os_remove_file f t
  | Upd p mv hs =>
    let t := tg root p in
    if negb (os_exists f t) then Err ENOENT else
    match os_read f t with
    | Err e => Err e
    | Ok b =>
      if negb (utf8_ok b) then Err EINVALDATA else
      match apply_hunks_to_text b hs with
      | None => Err EINVALDATA
      | Some b' =>
        match os_write f t b' with
        | Err e => Err e
        | Ok f2 =>
          match mv with
          | None => Ok f2
          | Some q =>
            let tq := tg root q in
            if os_exists f2 tq then Err EEXIST else
            match mk_parent_dirs f2 tq with
            | (_, Some e) => Err e
            | (f4, None) => os_rename_file f4 t tq
            end
          end
        end
      end
    end
  end.

Fixpoint spec_ops (root : path) (f : fs) (ops : list op) : res fs :=
  match ops with
  | [] => Ok f
  | o :: r => match spec_op root f o with Ok f1 => spec_ops root f1 r | Err e => Err e end
  end.

(* ---------- correspondence case ---------- *)
(* observation: outcome code (0 = Ok, else 1 + kind), changed files, listing of the workspace *)
Record case := {
  c_fixed : bool;                 (* which revert the implementation under test has (always true after the fix) *)
  c_fs : fs;                      (* initial workspace (relative to the root = []) *)
  c_patch : list N;
  c_ops : option (list op);       (* what Patch::parse returned on the same text *)
  c_code : N;
  c_changed : list (list N);
  c_after : fs }.

Definition out_code (o : outcome) : N := match o with Applied _ _ => 0 | Failed _ e => 1 + e end.
Definition out_fs (o : outcome) : fs := match o with Applied f _ => f | Failed f _ => f end.
Definition out_changed (o : outcome) : list (list N) := match o with Applied _ c => c | Failed _ _ => [] end.

(* the hypothesis of the atomicity theorems, decidable: distinct keys, no entry for the top
   directory, every proper non-empty prefix of every key is a directory *)
Fixpoint nodupb (l : list path) : bool :=
  match l with [] => true | x :: r => negb (existsb (path_eqb x) r) && nodupb r end.
Fixpoint prefixes_aux (cur : path) (rest : list name) : list path :=
  match rest with
  | [] => []
  | c :: r => match r with [] => [] | _ => (cur ++ [c]) :: prefixes_aux (cur ++ [c]) r end
  end.
Definition wf_fsb (f : fs) : bool :=
  nodupb (map fst f) && negb (existsb (path_eqb []) (map fst f))
  && forallb (fun qn => forallb (is_dir f) (prefixes_aux [] (fst qn))) f.

Definition hunk_eqb (a b : hunk) : bool :=
  list_eqb lN_eqb (h_before a) (h_before b) && list_eqb lN_eqb (h_after a) (h_after b).
Definition op_eqb (a b : op) : bool :=
  match a, b with
  | Add p c, Add q d => lN_eqb p q && lN_eqb c d
  | Del p, Del q => lN_eqb p q
  | Upd p m hs, Upd q n gs => lN_eqb p q && option_eqb lN_eqb m n && list_eqb hunk_eqb hs gs
  | _, _ => false
  end.

Definition check_case (c : case) : bool :=
  let o := apply_patch (c_fixed c) [] (c_fs c) (c_patch c) in
  wf_fsb (c_fs c) && wf_fsb (c_after c)
  && option_eqb (list_eqb op_eqb) (parse_patch (c_patch c)) (c_ops c)
  && (out_code o =? c_code c) && list_eqb lN_eqb (out_changed o) (c_changed c)
  && same_listing (out_fs o) (c_after c).

Definition enc_node (qn : path * node) : list N :=
  nlen (fst qn) :: List.concat (map (fun n => nlen n :: n) (fst qn))
  ++ match snd qn with Dir => [0] | File b => 1 :: nlen b :: b end.

Definition model_obs (c : case) : list N :=
  let o := apply_patch (c_fixed c) [] (c_fs c) (c_patch c) in
  out_code o :: nlen (out_changed o) :: List.concat (map (fun p => nlen p :: p) (out_changed o))
  ++ List.concat (map enc_node (out_fs o)).
