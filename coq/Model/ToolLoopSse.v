(* C16 on top of C15 — the tool loop fed from the BYTES of the provider's answers.
   Model/ToolLoop.v starts from the events the ToolCallCollector observed; which events those are is decided by
   OpenResponsesSsePipe (crates/ripd/src/session.rs): push_bytes -> push_sse_str -> SseDecoder::push for every network
   chunk, and pipe.finish() -> SseDecoder::finish when the stream ends without `[DONE]`.  Both places run
       for event in &parsed { collector.observe(event); frames.extend(self.mapper.map(event)); }
   This file extends C15's pipe model (Model/Sse.v: decoder, UTF-8 carry-over, cut after [DONE], finish) by the
   collector feed: a `cpipe` is C15's pipe plus the list of payloads `observe` has been called with (observe ignores
   events that are not of kind Event or carry no data; the collector is created fresh for every request, so the list
   of one answer is what Model.ToolLoop.collect folds over).  `ob : obs_flags` says which of the two places feed the
   collector (/repo: both; T1 obligation gen_pipe_feeds_collector_ok); OBS_PUSH_ONLY is the pipe whose finish() maps
   the flushed events to frames without showing them to the collector (refuted in Proofs/ToolLoopSseProofs.v).
   The reader loop (pb_loop_c / push_bytes_c / run_chunks_c) is C15's with the extra component; that the first
   component IS C15's pipe is proved (Proofs/ToolLoopSseProofs.v: run_chunks_c_sim).  No proofs here. *)
From RipV Require Export Model.ToolLoop.
From RipV Require Import Base.Utf8.
From RipV Require Model.Sse Model.SseJson.

(* what `observe` gets to see of a parsed event: kind Event (2) with data *)
Definition ev_data (e : Sse.pev) : list json :=
  if Sse.pe_kind e =? 2 then match Sse.pe_data e with Some d => [d] | None => [] end else [].
Definition evs_data (evs : list Sse.pev) : list json := flat_map ev_data evs.

(* the same read off a session frame: a provider_event frame with status "event" and data *)
Definition frame_data1 (f : Sse.frame) : list json :=
  match f with
  | Sse.FProv _ st _ _ (Some d) _ _ => if st =? 2 then [d] else []
  | _ => []
  end.
Definition frame_data (fs : list Sse.frame) : list json := flat_map frame_data1 fs.

Definition cpipe := (Sse.pipe * list json)%type.

Section WithClassify.
Variable classify : option str -> str -> Sse.cls.
Variable ob : obs_flags.
Variable off : N.

(* push_sse_str (session.rs): decoder.push, truncate_after_done, then observe + map for every event *)
Definition push_sse_str_c (cp : cpipe) (chunk : str) : cpipe * bool :=
  let '(d, parsed) := Sse.dec_push classify (Sse.p_dec (fst cp)) chunk in
  let evs := Sse.upto_done parsed in
  ((Sse.emit_evs off (Sse.with_dec (fst cp) d) evs, if ob_push ob then snd cp ++ evs_data evs else snd cp),
   existsb Sse.is_done parsed).

(* pipe.finish (session.rs): decoder.finish, truncate_after_done, then observe + map for every event *)
Definition pipe_finish_c (cp : cpipe) : cpipe * bool :=
  let '(d, parsed) := Sse.dec_finish classify (Sse.p_dec (fst cp)) in
  let evs := Sse.upto_done parsed in
  ((Sse.emit_evs off (Sse.with_dec (fst cp) d) evs, if ob_finish ob then snd cp ++ evs_data evs else snd cp),
   existsb Sse.is_done parsed).

(* push_bytes: Sse.pb_loop (flags FIXED = /repo) over a cpipe *)
Fixpoint pb_loop_c (fuel : nat) (buf : list N) (cp : cpipe) : list N * cpipe * bool :=
  match fuel with
  | O => (buf, cp, false)
  | S f =>
    match from_utf8 buf with
    | UOk text => let '(p1, d1) := push_sse_str_c cp text in ([], p1, d1)
    | UErr text valid rest elen =>
      match valid with
      | O =>
        match elen with
        | None => (buf, cp, false)
        | Some k =>
          let buf' := skipn (Nat.min k (length buf)) buf in
          let '(p1, d1) := push_sse_str_c cp [FFFD] in
          if d1 then ([], p1, true) else pb_loop_c f buf' p1
        end
      | S _ =>
        let '(p1, d1) := push_sse_str_c cp text in
        if d1 then ([], p1, true)
        else match elen with
             | None => (rest, p1, false)
             | Some k =>
               let rest' := skipn (Nat.min k (length rest)) rest in
               let '(p2, d2) := push_sse_str_c p1 [FFFD] in
               if d2 then ([], p2, true) else pb_loop_c f rest' p2
             end
      end
    end
  end.
Definition push_bytes_c (buf : list N) (cp : cpipe) (bytes : list N) : list N * cpipe * bool :=
  let b := buf ++ bytes in pb_loop_c (S (length b)) b cp.

(* the reader loop of stream_openresponses_request *)
Fixpoint run_chunks_c (buf : list N) (cp : cpipe) (cs : list (list N)) : list N * cpipe * bool :=
  match cs with
  | [] => (buf, cp, false)
  | c :: r => let '(buf1, p1, d1) := push_bytes_c buf cp c in
              if d1 then (buf1, p1, true) else run_chunks_c buf1 p1 r
  end.

(* a stream that ends cleanly: `if !saw_done { pipe.finish() }` *)
Definition run_pipe_c (cs : list (list N)) : cpipe :=
  let '(_, cp, d) := run_chunks_c [] (Sse.pipe_new, []) cs in
  if d then cp else fst (pipe_finish_c cp).

(* the payloads the collector of this request observed, in order *)
Definition seen_of (cs : list (list N)) : list json := snd (run_pipe_c cs).
(* ... and the frames the same run emitted *)
Definition frames_c (cs : list (list N)) : list Sse.frame := Sse.p_out (fst (run_pipe_c cs)).

(* one scripted answer at byte level: bb_fail = HTTP error status / connection broken before the end of the body
   (stream_openresponses_request returns Err, the collector is dropped); otherwise the network chunks of the body.
   A body without a single byte is "provider stream ended before first byte": a provider error as well. *)
Record bround := { bb_fail : bool; bb_chunks : list (list N) }.
Definition body_empty (cs : list (list N)) : bool := match concat cs with [] => true | _ :: _ => false end.
Definition round_of (b : bround) : round :=
  {| r_fail := bb_fail b || body_empty (bb_chunks b); r_events := seen_of (bb_chunks b) |}.

End WithClassify.

(* the loop on byte-level scripts: request k is answered by the body bodies[k].  `A` holds what C15's classification
   leaves abstract; the validation mode a_compat (= stateless_history in the code) changes the error lists of a parsed
   event only, never its data (SseJson.jclassify: data = canon (parse raw) in both modes), so it is not tied to g here:
   the theorems hold for every A. *)
Definition run_b (A : SseJson.absfns) (ob : obs_flags) (g : cfg) (valid : N -> request -> bool)
                 (tool : N -> call -> str) (prompt : str) (init : option (list item)) (bodies : list bround) : result :=
  run g valid tool prompt init (map (round_of (SseJson.jclassify A) ob 0) bodies).

(* ---------- correspondence cases ---------- *)
Inductive caseb :=
(* the real OpenResponsesSsePipe + ToolCallCollector over a chunked body (hook ripd::verif::run_sse_pipe):
   number of event frames with data, the drained calls, the response id *)
| CPipeC (T : SseJson.tables) (chunks : list (list N)) (obs : list N)
(* a whole run against the scripted provider, the answers given as the bytes that were served *)
| CLoopB (T : SseJson.tables) (g : cfg) (prompt : str) (init : option (list item)) (bodies : list bround)
         (outs : list str) (valids : list bool) (obs : list N).

Definition model_obs_b (c : caseb) : list N :=
  match c with
  | CPipeC T chunks _ =>
    let cp := run_pipe_c (SseJson.jclassify (SseJson.abs_of T)) OBS_BOTH 0 chunks in
    let k := collect FIXED (snd cp) in
    nlen (frame_data (Sse.p_out (fst cp))) :: enc_listf enc_call (drain k) ++ enc_ostr (k_resp k)
  | CLoopB T g prompt init bodies outs valids _ =>
    enc_result (run_b (SseJson.abs_of T) OBS_BOTH g (valid_of valids) (tool_of outs) prompt init bodies)
  end.
Definition case_obs_b (c : caseb) : list N :=
  match c with CPipeC _ _ o => o | CLoopB _ _ _ _ _ _ _ o => o end.
Definition check_case_b (c : caseb) : bool :=
  match c with
  | CLoopB T g prompt init bodies outs valids obs =>
    let r := run_b (SseJson.abs_of T) OBS_BOTH g (valid_of valids) (tool_of outs) prompt init bodies in
    lN_eqb (enc_result r) obs && schema_agrees r valids
  | _ => lN_eqb (model_obs_b c) (case_obs_b c)
  end.
