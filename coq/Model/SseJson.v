(* C15 — the classification of one payload, executable: what SseDecoder::parse_event / ParsedEvent::event /
   output_text_delta (rip-provider-openresponses/src/lib.rs) compute from (event name, joined data lines), on top
   of Base/Json.v + Base/JsonParse.v (serde_json::from_str as text -> AST).  serde_json::Value is NOT the AST:
   an object is a BTreeMap (keys sorted by code point, a later duplicate replaces the earlier one) and a number is
   u64 / i64 / f64.  `canon` maps the AST to the Value, printed back by Json.print (= serde_json::to_string).
   Three things stay abstract, named, in the record `absfns` (universally quantified in the theorems, finite
   tables computed by the harness in the correspondence):
     a_json_err   the text of serde_json's error for a payload that does not parse,
     a_fmt_float  how serde_json re-spells a number token that is not a plain integer in u64 / i64 range
                  (f64 parsing + shortest round-trip printing; None = "number out of range"),
     a_vstream    the stream-event schema validator (rip_openresponses::validate_stream_event): its error strings,
     a_vresp      the response-resource schema validator (validate_response_resource): its error strings.
   The id normalisation applied before validation under ValidationOptions::compat_missing_item_ids
   (normalize_event_for_validation / normalize_response_resource / normalize_output_item) is modelled (`normalize_event`);
   the option itself is the field a_compat.  No proofs here. *)
From RipV Require Import Base.Prelude Base.Utf8 Base.Json Model.Sse.
From RipV Require Base.JsonParse.

Definition S_TYPE : str := [116; 121; 112; 101].   (* 'type' *)
Definition S_DELTA : str := [100; 101; 108; 116; 97].   (* 'delta' *)
Definition S_OTD : str := [114; 101; 115; 112; 111; 110; 115; 101; 46; 111; 117; 116; 112; 117; 116; 95; 116; 101; 120; 116; 46; 100; 101; 108; 116; 97].   (* 'response.output_text.delta' *)
Definition M_NEST1 : str := [112; 97; 121; 108; 111; 97; 100; 32; 110; 101; 115; 116; 115; 32].   (* 'payload nests ' *)
Definition M_NEST2 : str := [32; 108; 101; 118; 101; 108; 115; 32; 100; 101; 101; 112; 32; 40; 97; 116; 32; 109; 111; 115; 116; 32].   (* ' levels deep (at most ' *)
Definition M_NEST3 : str := [32; 99; 97; 110; 32; 98; 101; 32; 115; 116; 111; 114; 101; 100; 32; 105; 110; 32; 97; 32; 102; 114; 97; 109; 101; 41].   (* ' can be stored in a frame)' *)
Definition M_MIS1 : str := [101; 118; 101; 110; 116; 32; 110; 97; 109; 101; 32; 39].   (* "event name '" *)
Definition M_MIS2 : str := [39; 32; 100; 111; 101; 115; 32; 110; 111; 116; 32; 109; 97; 116; 99; 104; 32; 116; 121; 112; 101; 32; 39].   (* "' does not match type '" *)
Definition M_MIS3 : str := [39].   (* "'" *)

Definition S_ID : str := [105; 100].   (* 'id' *)
Definition S_CALL_ID : str := [99; 97; 108; 108; 95; 105; 100].   (* 'call_id' *)
Definition S_FUNCTION_CALL : str := [102; 117; 110; 99; 116; 105; 111; 110; 95; 99; 97; 108; 108].   (* 'function_call' *)
Definition S_FUNCTION_CALL_OUTPUT : str := [102; 117; 110; 99; 116; 105; 111; 110; 95; 99; 97; 108; 108; 95; 111; 117; 116; 112; 117; 116].   (* 'function_call_output' *)
Definition S_ITEM_PFX : str := [105; 116; 101; 109; 95].   (* 'item_' *)
Definition S_OUTPUT_PFX : str := [111; 117; 116; 112; 117; 116; 95].   (* 'output_' *)
Definition S_ITEM : str := [105; 116; 101; 109].   (* 'item' *)
Definition S_RESPONSE : str := [114; 101; 115; 112; 111; 110; 115; 101].   (* 'response' *)
Definition S_OUTPUT : str := [111; 117; 116; 112; 117; 116].   (* 'output' *)
Definition S_OUTPUT_INDEX : str := [111; 117; 116; 112; 117; 116; 95; 105; 110; 100; 101; 120].   (* 'output_index' *)
Definition S_ITEM_ID : str := [105; 116; 101; 109; 95; 105; 100].   (* 'item_id' *)
Definition S_FCA_DELTA : str := [114; 101; 115; 112; 111; 110; 115; 101; 46; 102; 117; 110; 99; 116; 105; 111; 110; 95; 99; 97; 108; 108; 95; 97; 114; 103; 117; 109; 101; 110; 116; 115; 46; 100; 101; 108; 116; 97].   (* 'response.function_call_arguments.delta' *)
Definition S_FCA_DONE : str := [114; 101; 115; 112; 111; 110; 115; 101; 46; 102; 117; 110; 99; 116; 105; 111; 110; 95; 99; 97; 108; 108; 95; 97; 114; 103; 117; 109; 101; 110; 116; 115; 46; 100; 111; 110; 101].   (* 'response.function_call_arguments.done' *)

(* ---------- decimal printing of a number (format!("{n}")) ---------- *)
Fixpoint dec_go (fuel : nat) (n : N) (acc : str) : str :=
  match fuel with
  | O => acc
  | S f => let acc' := (48 + n mod 10) :: acc in if n <? 10 then acc' else dec_go f (n / 10) acc'
  end.
Definition dec (n : N) : str := dec_go (S (N.size_nat n)) n [].

(* ---------- numbers: serde_json's ParserNumber ---------- *)
Fixpoint digits_val (acc : N) (l : str) : N :=
  match l with [] => acc | c :: r => digits_val (acc * 10 + (c - 48)) r end.
Definition I64MIN_ABS : N := 9223372036854775808.
(* a token made of digits only (with an optional minus) is an integer literal; it stays an integer, printed by
   itoa exactly as written, iff it fits u64 (no sign) or lies in [-2^63, -1] (sign; "-0" is the float -0.0) *)
Definition plain_int (tok : str) : bool :=
  match tok with
  | [] => false
  | c :: ds => if c =? cMINUS
               then match ds with [] => false | _ => all_digits ds && (1 <=? digits_val 0 ds) && (digits_val 0 ds <=? I64MIN_ABS) end
               else all_digits tok && (digits_val 0 tok <=? U64MAX)
  end.

Record absfns := { a_compat : bool;                       (* ValidationOptions.normalize_missing_item_ids (not abstract: a setting) *)
                   a_json_err : str -> str;
                   a_fmt_float : str -> option str;
                   a_vstream : json -> list str;
                   a_vresp : json -> list str }.

(* ---------- serde_json::Value from the AST ---------- *)
Fixpoint str_cmp (a b : str) : comparison :=
  match a, b with
  | [], [] => Eq
  | [], _ :: _ => Lt
  | _ :: _, [] => Gt
  | x :: a', y :: b' => match x ?= y with Eq => str_cmp a' b' | c => c end
  end.
(* BTreeMap::insert *)
Fixpoint obj_insert (k : str) (v : json) (kvs : list (str * json)) : list (str * json) :=
  match kvs with
  | [] => [(k, v)]
  | (k', v') :: r => match str_cmp k k' with
                     | Lt => (k, v) :: kvs
                     | Eq => (k, v) :: r
                     | Gt => (k', v') :: obj_insert k v r
                     end
  end.

Section Classify.
Variable A : absfns.

Definition norm_num (tok : str) : option str := if plain_int tok then Some tok else a_fmt_float A tok.

Fixpoint canon (j : json) : option json :=
  match j with
  | JNum t => match norm_num t with Some t' => Some (JNum t') | None => None end
  | JArr l =>
    match (fix go (l : list json) : option (list json) :=
             match l with
             | [] => Some []
             | x :: r => match canon x with
                         | None => None
                         | Some x' => match go r with Some r' => Some (x' :: r') | None => None end
                         end
             end) l with
    | Some l' => Some (JArr l')
    | None => None
    end
  | JObj kvs =>
    match (fix go (kvs : list (str * json)) (acc : list (str * json)) : option (list (str * json)) :=
             match kvs with
             | [] => Some acc
             | (k, v) :: r => match canon v with
                              | None => None
                              | Some v' => go r (obj_insert k v' acc)
                              end
             end) kvs [] with
    | Some m => Some (JObj m)
    | None => None
    end
  | _ => Some j
  end.

(* serde_json::from_str::<Value>(raw) *)
Definition parse_value_of (raw : str) : option json :=
  match JsonParse.parse raw with
  | None => None
  | Some j => canon j
  end.

(* rip_kernel::MAX_PAYLOAD_NESTING; rip_kernel::json_nesting = Json.json_depth *)
Definition MAX_PAYLOAD_NESTING : nat := 125.

Definition get_str (k : str) (v : json) : option str :=      (* value.get(k).and_then(|v| v.as_str()) *)
  match v with
  | JObj kvs => match assoc k kvs with Some (JStr s) => Some s | _ => None end
  | _ => None
  end.

Definition get (k : str) (v : json) : option json :=           (* value.get(k) *)
  match v with JObj kvs => assoc k kvs | _ => None end.
(* Value::as_u64: Some for a non-negative integer that fits u64 (after `canon` those are exactly the plain integer
   tokens without a sign; floats — "1.0", "1e2" — and negative numbers give None) *)
Definition as_u64 (v : json) : option N :=
  match v with
  | JNum t => match t with
              | [] => None
              | c :: _ => if negb (c =? cMINUS) && plain_int t then Some (digits_val 0 t) else None
              end
  | _ => None
  end.
Definition nonempty_str (o : option str) : option str := match o with Some ((_ :: _) as s) => Some s | _ => None end.

(* normalize_output_item: an item without a non-empty string `id` gets one from its call_id, else from its index *)
Definition normalize_output_item (item : json) (output_index : option N) : json :=
  match item with
  | JObj kvs =>
    match nonempty_str (get_str S_ID item) with
    | Some _ => item
    | None =>
      let with_id (pfx_call pfx_idx : str) :=
        match nonempty_str (get_str S_CALL_ID item) with
        | Some c => JObj (obj_insert S_ID (JStr (pfx_call ++ c)) kvs)
        | None => match output_index with
                  | Some n => JObj (obj_insert S_ID (JStr (pfx_idx ++ dec n)) kvs)
                  | None => item
                  end
        end in
      match get_str S_TYPE item with
      | Some t => if str_eqb t S_FUNCTION_CALL then with_id [] S_ITEM_PFX
                  else if str_eqb t S_FUNCTION_CALL_OUTPUT then with_id S_OUTPUT_PFX S_OUTPUT_PFX
                  else item
      | None => item
      end
    end
  | _ => item
  end.
Fixpoint normalize_items (idx : N) (items : list json) : list json :=
  match items with
  | [] => []
  | it :: r => normalize_output_item it (Some idx) :: normalize_items (idx + 1) r
  end.
(* normalize_response_resource: every item of `output` (when an array), with its position *)
Definition normalize_response_resource (response : json) : json :=
  match response with
  | JObj kvs => match assoc S_OUTPUT kvs with
                | Some (JArr items) => JObj (obj_insert S_OUTPUT (JArr (normalize_items 0 items)) kvs)
                | _ => response
                end
  | _ => response
  end.
(* normalize_event_for_validation *)
Definition normalize_event (v : json) : json :=
  match v with
  | JObj kvs =>
    let output_index := match assoc S_OUTPUT_INDEX kvs with Some x => as_u64 x | None => None end in
    let kvs1 := match assoc S_ITEM kvs with
                | Some item => obj_insert S_ITEM (normalize_output_item item output_index) kvs
                | None => kvs
                end in
    let kvs2 := match assoc S_RESPONSE kvs1 with
                | Some r => obj_insert S_RESPONSE (normalize_response_resource r) kvs1
                | None => kvs1
                end in
    let is_fca := match get_str S_TYPE (JObj kvs2) with
                  | Some t => str_eqb t S_FCA_DELTA || str_eqb t S_FCA_DONE
                  | None => false
                  end in
    let no_item_id := match assoc S_ITEM_ID kvs2 with Some (JStr (_ :: _)) => false | _ => true end in
    if is_fca && no_item_id
    then match (match assoc S_OUTPUT_INDEX kvs2 with Some x => as_u64 x | None => None end) with
         | Some n => JObj (obj_insert S_ITEM_ID (JStr (S_ITEM_PFX ++ dec n)) kvs2)
         | None => JObj kvs2
         end
    else JObj kvs2
  | _ => v
  end.

(* output_text_delta (lib.rs): the mapper looks at the payload's `type` only, never at the SSE event name *)
Definition text_delta (v : json) : option str :=
  match get_str S_TYPE v with
  | Some t => if str_eqb t S_OTD then get_str S_DELTA v else None
  | None => None
  end.

(* ParsedEvent::event: "event name '{event_name}' does not match type '{type_name}'", after the validation errors *)
Definition name_mismatch (ev : option str) (v : json) : list str :=
  match ev with
  | None => []
  | Some name => match get_str S_TYPE v with
                 | Some t => if str_eqb name t then [] else [M_MIS1 ++ name ++ M_MIS2 ++ t ++ M_MIS3]
                 | None => []
                 end
  end.

Definition nest_msg (n : nat) : str :=
  M_NEST1 ++ dec (N.of_nat n) ++ M_NEST2 ++ dec (N.of_nat MAX_PAYLOAD_NESTING) ++ M_NEST3.

(* ParsedEvent::event: what is validated, and the errors of the `response` member *)
Definition validation_data (v : json) : json := if a_compat A then normalize_event v else v.
Definition response_errors (v : json) : list str :=
  match get S_RESPONSE (validation_data v) with Some r => a_vresp A r | None => [] end.

(* SseDecoder::parse_event after the "[DONE]" test *)
Definition jclassify (ev : option str) (raw : str) : cls :=
  match parse_value_of raw with
  | None => CInvalid [a_json_err A raw]
  | Some v =>
    if (MAX_PAYLOAD_NESTING <? json_depth v)%nat then CInvalid [nest_msg (json_depth v)]
    else CEvent v (a_vstream A (validation_data v) ++ name_mismatch ev v) (response_errors v) (text_delta v)
  end.

End Classify.

(* ---------- stream_transformers::extract_text_deltas over frames ---------- *)
(* event_type: the payload's `type` when it is a string, else the frame's event name *)
Definition frame_event_type (f : frame) : option str :=
  match f with
  | FProv _ st ev _ data _ _ =>
    if st =? 2 then
      match data with
      | Some (JObj kvs) => match assoc S_TYPE kvs with Some (JStr t) => Some t | _ => ev end
      | _ => ev
      end
    else None
  | FDelta _ _ => None
  end.
Definition frame_text_delta (f : frame) : option str :=
  match frame_event_type f with
  | Some t => if str_eqb t S_OTD
              then match f with
                   | FProv _ _ _ _ (Some (JObj kvs)) _ _ =>
                     match assoc S_DELTA kvs with Some (JStr d) => Some d | _ => None end
                   | _ => None
                   end
              else None
  | None => None
  end.
Definition extract_text_deltas (fs : list frame) : list str :=
  flat_map (fun f => match frame_text_delta f with Some d => [d] | None => [] end) fs.

(* ---------- correspondence ---------- *)
Definition enc_str (s : str) : list N := nlen s :: s.
Definition enc_ostr (o : option str) : list N := match o with None => [0] | Some s => 1 :: enc_str s end.
Definition enc_strs (l : list str) : list N := nlen l :: concat (map enc_str l).
Definition enc_ojson (o : option json) : list N := match o with None => [0] | Some j => 1 :: enc_str (print j) end.
Definition enc_pev (e : pev) : list N :=
  pe_kind e :: enc_ostr (pe_event e) ++ enc_str (pe_raw e) ++ enc_ojson (pe_data e)
  ++ enc_strs (pe_err e) ++ enc_strs (pe_rerr e) ++ enc_ostr (pe_delta e).
Definition enc_frame (f : frame) : list N :=
  match f with
  | FProv s st ev raw data err rerr => 0 :: s :: st :: enc_ostr ev ++ enc_ostr raw ++ enc_ojson data ++ enc_strs err ++ enc_strs rerr
  | FDelta s d => 1 :: s :: enc_str d
  end.

(* the abstract functions as finite tables computed by the harness (with serde_json and direct calls of the two
   validators, independently of the decoder); the validators are keyed by the printed value *)
Record tables := { t_compat : bool;
                   t_err : list (str * str);
                   t_num : list (str * option str);
                   t_vs : list (str * list str);
                   t_vr : list (str * list str) }.
Fixpoint lookup {X} (t : list (str * X)) (k : str) (dflt : X) : X :=
  match t with
  | [] => dflt
  | (k', x) :: r => if lN_eqb k' k then x else lookup r k dflt
  end.
Definition abs_of (T : tables) : absfns :=
  {| a_compat := t_compat T;
     a_json_err := fun raw => lookup (t_err T) raw [];
     a_fmt_float := fun tok => lookup (t_num T) tok None;
     a_vstream := fun v => lookup (t_vs T) (print v) [];
     a_vresp := fun v => lookup (t_vr T) (print v) [] |}.

Inductive case :=
| CUtf8 (bs : list N) (expect : list N)                                   (* std::str::from_utf8 *)
| CDec (T : tables) (chunks : list str) (expect : list N)                 (* SseDecoder + mapper *)
| CPipe (T : tables) (off : N) (chunks : list (list N)) (terr : option str) (expect : list N).
                                                                          (* OpenResponsesSsePipe *)

Definition model_obs (c : case) : list N :=
  match c with
  | CUtf8 bs _ => enc_ures (from_utf8 bs)
  | CDec T chunks _ =>
    let evs := run_dec (jclassify (abs_of T)) chunks in
    nlen evs :: concat (map enc_pev evs) ++ concat (map enc_frame (frames_from 0 evs))
  | CPipe T off chunks terr _ =>
    let r := run_pipe (jclassify (abs_of T)) FIXED off chunks terr in
    if run_overflows r then [99]              (* a build with overflow checks panics *)
    else snd r :: nlen (fst r) :: concat (map enc_frame (fst r)) ++ enc_strs (extract_text_deltas (fst r))
  end.
Definition case_expect (c : case) : list N :=
  match c with CUtf8 _ e => e | CDec _ _ e => e | CPipe _ _ _ _ e => e end.
Definition check_case (c : case) : bool := lN_eqb (model_obs c) (case_expect c).
