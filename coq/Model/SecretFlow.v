(* C19 — data-flow model of secrets in ripd: layered config resolution (config.rs), the resolved
   record, the request builders (provider_openresponses.rs), the request/agent loop with every frame
   it emits (session.rs:1183-1563), the request dump (openresponses_observability.rs), the doctor
   summary (server.rs:1618-1660).  Executable definitions only; proofs are in Proofs/SecretFlowProofs.v.

   Strings are lists of code points.  Nothing is tagged: a secret is whatever sits in an inline
   `api_key`, a header value or a non-public environment variable of the world; noninterference is
   stated over two worlds that agree on everything else (`low_world`). *)
From Coq Require Import Strings.String Strings.Ascii.   (* before Prelude: List's names win *)
From RipV Require Import Base.Prelude.

Definition str := list N.
Definition lit (x : String.string) : str := map Ascii.N_of_ascii (String.list_ascii_of_string x).
Arguments lit x%string.

Definition str_eqb : str -> str -> bool := lN_eqb.

(* ---- the string operations the Rust code uses -------------------------------------------- *)
Definition is_ws (c : N) : bool := (c =? 32) || ((9 <=? c) && (c <=? 13)).
Fixpoint trim_start (s : str) : str :=
  match s with
  | [] => []
  | c :: r => if is_ws c then trim_start r else s
  end.
Definition trim_end (s : str) : str := rev (trim_start (rev s)).
Definition trim (s : str) : str := trim_end (trim_start s).
(* `s.trim().is_empty()` *)
Definition blank (s : str) : bool := forallb is_ws s.
Definition nonblank_opt (o : option str) : option str :=
  match o with Some v => if blank v then None else Some v | None => None end.
(* `.map(trim).filter(!is_empty)` *)
Definition trimmed_nonempty (o : option str) : option str :=
  match o with
  | Some v => match trim v with [] => None | t => Some t end
  | None => None
  end.

Fixpoint prefix_eqb (p s : str) : bool :=
  match p, s with
  | [], _ => true
  | x :: p', y :: s' => (x =? y) && prefix_eqb p' s'
  | _, [] => false
  end.
Fixpoint contains (sub s : str) : bool :=
  prefix_eqb sub s || match s with [] => false | _ :: r => contains sub r end.

Fixpoint split_once (c : N) (s : str) : option (str * str) :=
  match s with
  | [] => None
  | x :: r => if x =? c then Some ([], r)
              else match split_once c r with
                   | Some (a, b) => Some (x :: a, b)
                   | None => None
                   end
  end.

Definition lower (c : N) : N := if (65 <=? c) && (c <=? 90) then c + 32 else c.
(* matches!(value.trim().to_ascii_lowercase(), "1" | "true" | "yes" | "on") *)
Definition truthy (v : str) : bool :=
  let t := map lower (trim v) in
  str_eqb t (lit "1") || str_eqb t (lit "true") || str_eqb t (lit "yes") || str_eqb t (lit "on").

Fixpoint str_ltb (a b : str) : bool :=
  match a, b with
  | [], [] => false
  | [], _ :: _ => true
  | _ :: _, [] => false
  | x :: a', y :: b' => (x <? y) || ((x =? y) && str_ltb a' b')
  end.

(* ---- environment ------------------------------------------------------------------------- *)
Definition env := list (str * str).
Fixpoint getenv (e : env) (k : str) : option str :=
  match e with
  | [] => None
  | (n, v) :: r => if str_eqb n k then Some v else getenv r k
  end.

Definition E_ENDPOINT := lit "RIP_OPENRESPONSES_ENDPOINT".
Definition E_MODEL := lit "RIP_OPENRESPONSES_MODEL".
Definition E_STATELESS := lit "RIP_OPENRESPONSES_STATELESS_HISTORY".
Definition E_PARALLEL := lit "RIP_OPENRESPONSES_PARALLEL_TOOL_CALLS".
Definition E_FOLLOWUP := lit "RIP_OPENRESPONSES_FOLLOWUP_USER_MESSAGE".
Definition E_DUMP := lit "RIP_OPENRESPONSES_DUMP_REQUEST".
Definition E_TOOL_CHOICE := lit "RIP_OPENRESPONSES_TOOL_CHOICE".
Definition E_API_KEY := lit "RIP_OPENRESPONSES_API_KEY".
Definition E_OPENAI := lit "OPENAI_API_KEY".
Definition E_OPENROUTER := lit "OPENROUTER_API_KEY".

(* the variables whose VALUES the code copies into frames / bodies / diagnostics *)
Definition public_env_names : list str :=
  [E_ENDPOINT; E_MODEL; E_STATELESS; E_PARALLEL; E_FOLLOWUP; E_DUMP; E_TOOL_CHOICE].
Definition is_public_env (k : str) : bool := existsb (str_eqb k) public_env_names.

(* parse_env_bool *)
Definition env_bool (e : env) (k : str) : option bool :=
  match getenv e k with
  | Some v => if blank v then None else Some (truthy v)
  | None => None
  end.

(* ---- configuration layers (config.rs:7-129, merge_json_value) ---------------------------- *)
Inductive keysrc := KInline (v : str) | KEnvRef (name : str).
Record patch := mkPatch {
  pa_endpoint : option str;
  pa_key : option keysrc;
  pa_headers : list (str * str) }.
Record layer := mkLayer {
  l_providers : list (str * patch);
  l_model : option str;
  l_primary : option str;
  l_stateless : option bool;
  l_parallel : option bool;
  l_followup : option str }.
Record ovr := mkOvr {
  o_endpoint : option str;
  o_model : option str;
  o_stateless : option bool;
  o_parallel : option bool;
  o_followup : option str }.
(* w_misfit: the merged JSON document is well-formed but does not fit the typed schema (a string where the header map is
   expected, an unquoted numeric token, a provider written without its id level ...).  Some q = it does not fit and q is
   the scalar that serde's type error quotes ([] when the message quotes none); None = it fits.  An abstraction of the JSON
   level: which documents misfit is decided by serde, the harness states it per scenario and the correspondence checks
   the consequence (the typed configuration is the default one) on the real code. *)
Record world := mkWorld { w_layers : list layer; w_env : env; w_ovr : ovr; w_misfit : option str }.

Definition no_ovr : ovr := mkOvr None None None None None.

(* BTreeMap<String, _> as an association list sorted by key; insert-or-update *)
Fixpoint upsert {A} (k : str) (f : option A -> A) (m : list (str * A)) : list (str * A) :=
  match m with
  | [] => [(k, f None)]
  | (k', v) :: r =>
      if str_eqb k k' then (k', f (Some v)) :: r
      else if str_ltb k k' then (k, f None) :: m
      else (k', v) :: upsert k f r
  end.
Fixpoint lookup {A} (k : str) (m : list (str * A)) : option A :=
  match m with
  | [] => None
  | (k', v) :: r => if str_eqb k k' then Some v else lookup k r
  end.

Definition over {A} (new old : option A) : option A := match new with Some _ => new | None => old end.

Definition empty_patch : patch := mkPatch None None [].
(* deep merge of one provider object: scalars overwrite, `headers` merges per name *)
Definition merge_patch (new : patch) (old : option patch) : patch :=
  let o := match old with Some p => p | None => empty_patch end in
  mkPatch (over (pa_endpoint new) (pa_endpoint o))
          (over (pa_key new) (pa_key o))
          (fold_left (fun hs kv => upsert (fst kv) (fun _ => snd kv) hs) (pa_headers new) (pa_headers o)).

Record config := mkConfig {
  c_providers : list (str * patch);
  c_model : option str;
  c_primary : option str;
  c_stateless : option bool;
  c_parallel : option bool;
  c_followup : option str }.
Definition empty_config : config := mkConfig [] None None None None None.

Definition merge_layer (c : config) (l : layer) : config :=
  mkConfig (fold_left (fun ps kp => upsert (fst kp) (merge_patch (snd kp)) ps) (l_providers l) (c_providers c))
           (over (l_model l) (c_model c))
           (over (l_primary l) (c_primary c))
           (over (l_stateless l) (c_stateless c))
           (over (l_parallel l) (c_parallel c))
           (over (l_followup l) (c_followup c)).
(* load_effective_config: layers lowest precedence first *)
Definition merge_layers (ls : list layer) : config := fold_left merge_layer ls empty_config.

(* ---- resolution (config.rs:239-362, 416-478) --------------------------------------------- *)
Record resolved := mkResolved {
  r_provider_id : option str;
  r_route : option str;
  r_endpoint : str;
  r_model : option str;
  r_headers : list (str * str);
  r_key : option str;
  r_key_source : option str;
  r_stateless : bool;
  r_parallel : bool;
  r_followup : option str }.

(* parse_route_string: (provider_id, model_id) *)
Definition parse_route (raw : str) : option (str * str) :=
  match trim raw with
  | [] => None
  | t =>
      let route := match split_once 35 t with Some (r, _) => trim r | None => t end in
      match split_once 47 route with
      | None => None
      | Some (p, m) =>
          match trim p, trim m with
          | [], _ => None
          | _, [] => None
          | p', m' => Some (p', m')
          end
      end
  end.

(* ApiKeySource::resolve / description *)
Definition resolve_key (e : env) (k : keysrc) : option str :=
  match k with
  | KInline v => if blank v then None else Some v
  | KEnvRef n => nonblank_opt (getenv e n)
  end.
Definition describe_key (k : keysrc) : str :=
  match k with
  | KInline _ => lit "inline"
  | KEnvRef n => lit "env:" ++ n
  end.

(* resolve_api_key_from_env *)
Definition key_from_env (e : env) (endpoint : str) : option str * option str :=
  match nonblank_opt (getenv e E_API_KEY) with
  | Some v => (Some v, Some (lit "env:" ++ E_API_KEY))
  | None =>
      if contains (lit "openai.com") endpoint
      then (nonblank_opt (getenv e E_OPENAI), Some (lit "env:" ++ E_OPENAI))
      else if contains (lit "openrouter.ai") endpoint
      then (nonblank_opt (getenv e E_OPENROUTER), Some (lit "env:" ++ E_OPENROUTER))
      else (None, None)
  end.

Fixpoint find_by_endpoint (ps : list (str * patch)) (endpoint : str) : option (str * patch) :=
  match ps with
  | [] => None
  | (id, p) :: r =>
      match pa_endpoint p with
      | Some e => if str_eqb (trim e) (trim endpoint) then Some (id, p) else find_by_endpoint r endpoint
      | None => find_by_endpoint r endpoint
      end
  end.

Definition default_route (c : config) : option str := over (c_primary c) (c_model c).
Definition parsed_route (c : config) : option (str * str) :=
  match default_route c with Some r => parse_route r | None => None end.
Definition resolve_endpoint (c : config) (e : env) (o : ovr) : option str :=
  let env_endpoint := trimmed_nonempty (getenv e E_ENDPOINT) in
  let default_provider := match parsed_route c with Some (pid, _) => lookup pid (c_providers c) | None => None end in
  let default_endpoint :=
    match default_provider with Some p => trimmed_nonempty (pa_endpoint p) | None => None end in
  over (o_endpoint o) (over env_endpoint default_endpoint).
(* the route's provider when a route parses (even if its endpoint differs), else the first provider
   (BTreeMap order) whose trimmed endpoint equals the trimmed endpoint *)
Definition provider_match (c : config) (endpoint : str) : option (str * patch) :=
  match parsed_route c with
  | Some (pid, _) => match lookup pid (c_providers c) with Some p => Some (pid, p) | None => None end
  | None => find_by_endpoint (c_providers c) endpoint
  end.
Definition provider_key (e : env) (pm : option (str * patch)) : option str * option str :=
  match pm with
  | Some (_, p) => match pa_key p with
                   | Some k => (resolve_key e k, Some (describe_key k))
                   | None => (None, None)
                   end
  | None => (None, None)
  end.
(* config.rs:297-310: the env fallback replaces BOTH the key and its source when the provider's own
   key did not resolve *)
Definition resolve_keys (e : env) (pm : option (str * patch)) (endpoint : str) : option str * option str :=
  match fst (provider_key e pm) with
  | Some _ => provider_key e pm
  | None => key_from_env e endpoint
  end.
Definition resolve_model (c : config) (e : env) (o : ovr) : option str :=
  over (o_model o) (over (trimmed_nonempty (getenv e E_MODEL))
                         (match parsed_route c with Some (_, m) => Some m | None => None end)).
Definition opt_or {A} (o : option A) (d : A) : A := match o with Some b => b | None => d end.
Definition resolve_stateless (c : config) (e : env) (o : ovr) : bool :=
  opt_or (o_stateless o) (opt_or (env_bool e E_STATELESS) (opt_or (c_stateless c) false)).
Definition resolve_parallel (c : config) (e : env) (o : ovr) : bool :=
  opt_or (o_parallel o) (opt_or (env_bool e E_PARALLEL) (opt_or (c_parallel c) false)).
Definition resolve_followup (c : config) (e : env) (o : ovr) : option str :=
  over (o_followup o) (over (trimmed_nonempty (getenv e E_FOLLOWUP)) (c_followup c)).

Definition resolve (c : config) (e : env) (o : ovr) : option resolved :=
  match resolve_endpoint c e o with
  | None => None
  | Some endpoint =>
      let pm := provider_match c endpoint in
      let ks := resolve_keys e pm endpoint in
      Some (mkResolved
              (option_map fst pm) (default_route c) endpoint (resolve_model c e o)
              (match pm with Some (_, p) => pa_headers p | None => [] end)
              (fst ks) (snd ks)
              (resolve_stateless c e o) (resolve_parallel c e o) (resolve_followup c e o))
  end.

(* load_effective_config (config.rs:232): `serde_json::from_value::<RipConfig>(merged).unwrap_or_default()` - a merged
   document that does not fit the schema is dropped WHOLE and silently: every layer reverts to the defaults and the
   schema error goes nowhere *)
Definition load_config (w : world) : config :=
  match w_misfit w with Some _ => empty_config | None => merge_layers (w_layers w) end.

Definition resolve_world (w : world) (o : ovr) : option resolved :=
  resolve (load_config w) (w_env w) o.

(* ---- the JSON stage in front of the typed configuration (config.rs load_effective_config) ------------------------------
   The code merges the files as JSON VALUES (merge_json_value: two objects merge key by key, anything else is REPLACED by the
   overlay) and deserialises the merged value into the typed schema at the end.  A `doc` is a configuration file as far as
   the secret-bearing positions go, WITH THEIR SHAPES: every position that the schema types as a map / string may hold
   a scalar of the wrong type (serde's error QUOTES it: `invalid type: string "..", expected a map`, `invalid type: integer
   `..`, expected a string`) or another wrong shape (array, bool, object: the error quotes nothing).  The other fields
   (model, roles.primary, the openresponses flags) are kept well-typed. *)
Inductive hval := HStr (v : str) | HBadScalar (q : str) | HBad.
Inductive hdrs := HMap (m : list (str * hval)) | HScalar (q : str) | HShape.
(* api_key: a string or {"env": NAME} (extra keys are ignored by the untagged enum) | an object without `env` | number, array, bool *)
Inductive kval := KV (k : keysrc) | KBadObj | KBad.
Inductive pval := PObj (e : option str) (k : option kval) (h : option hdrs) | PScalar (q : str) | PBad.
Inductive provs := PMap (m : list (str * pval)) | PsScalar (q : str) | PsBad.
Inductive doc :=
| DObj (ps : option provs) (model primary : option str) (stateless parallel : option bool) (followup : option str)
| DScalar (q : str)
| DBad.

Definition merge_opt {A} (f : A -> A -> A) (old new : option A) : option A :=
  match old, new with
  | Some a, Some b => Some (f a b)
  | _, Some b => Some b
  | a, None => a
  end.
(* merge_json_value at each position: objects merge, everything else is replaced by the overlay *)
Definition merge_hdrs (old new : hdrs) : hdrs :=
  match old, new with
  | HMap a, HMap b => HMap (fold_left (fun hs kv => upsert (fst kv) (fun _ => snd kv) hs) b a)
  | _, _ => new
  end.
Definition merge_kval (old new : kval) : kval :=
  match old, new with
  | KV (KEnvRef n), KBadObj => KV (KEnvRef n)        (* two objects: the overlay adds keys, `env` stays *)
  | _, _ => new
  end.
Definition merge_pval (old new : pval) : pval :=
  match old, new with
  | PObj e k h, PObj e' k' h' => PObj (over e' e) (merge_opt merge_kval k k') (merge_opt merge_hdrs h h')
  | _, _ => new
  end.
Definition merge_provs (old new : provs) : provs :=
  match old, new with
  | PMap a, PMap b =>
      PMap (fold_left (fun m kp => upsert (fst kp) (fun o => match o with Some x => merge_pval x (snd kp) | None => snd kp end) m) b a)
  | _, _ => new
  end.
Definition merge_doc (old new : doc) : doc :=
  match old, new with
  | DObj ps m p s pa f, DObj ps' m' p' s' pa' f' =>
      DObj (merge_opt merge_provs ps ps') (over m' m) (over p' p) (over s' s) (over pa' pa) (over f' f)
  | _, _ => new
  end.
Definition empty_doc : doc := DObj None None None None None None.
Definition merge_docs (ds : list doc) : doc := fold_left merge_doc ds empty_doc.

(* serde_json::from_value::<RipConfig>: None = the merged value fits; Some q = it does not, and q is the scalar the error
   quotes ([] when it quotes none).  Map keys are visited in key order (BTreeMap); inside a provider `api_key` comes
   before `headers`; the FIRST error is the one reported *)
Fixpoint first_some {A} (l : list (option A)) : option A :=
  match l with [] => None | Some a :: _ => Some a | None :: r => first_some r end.
Definition hval_error (v : hval) : option str :=
  match v with HStr _ => None | HBadScalar q => Some q | HBad => Some [] end.
Definition hdrs_error (h : hdrs) : option str :=
  match h with
  | HMap m => first_some (map (fun kv => hval_error (snd kv)) m)
  | HScalar q => Some q
  | HShape => Some []
  end.
Definition pval_error (p : pval) : option str :=
  match p with
  | PScalar q => Some q
  | PBad => Some []
  | PObj _ k h =>
      match k with
      | Some KBadObj | Some KBad => Some []
      | _ => match h with Some hs => hdrs_error hs | None => None end
      end
  end.
Definition provs_error (ps : provs) : option str :=
  match ps with
  | PMap m => first_some (map (fun kp => pval_error (snd kp)) m)
  | PsScalar q => Some q
  | PsBad => Some []
  end.
Definition doc_error (d : doc) : option str :=
  match d with
  | DObj (Some ps) _ _ _ _ _ => provs_error ps
  | DObj None _ _ _ _ _ => None
  | DScalar q => Some q
  | DBad => Some []
  end.

(* the typed view of a document (meaningful when it fits) *)
Definition to_headers (h : option hdrs) : list (str * str) :=
  match h with
  | Some (HMap m) => map (fun kv => (fst kv, match snd kv with HStr v => v | _ => [] end)) m
  | _ => []
  end.
Definition to_patch (p : pval) : patch :=
  match p with
  | PObj e k h => mkPatch e (match k with Some (KV ks) => Some ks | _ => None end) (to_headers h)
  | _ => empty_patch
  end.
Definition to_layer (d : doc) : layer :=
  match d with
  | DObj ps m p s pa f =>
      mkLayer (match ps with Some (PMap l) => map (fun kp => (fst kp, to_patch (snd kp))) l | _ => [] end) m p s pa f
  | _ => mkLayer [] None None None None None
  end.

(* a world given by its configuration FILES: the typed world the rest of the model works with *)
Record jworld := mkJWorld { jw_docs : list doc; jw_env : env; jw_ovr : ovr }.
Definition world_of (j : jworld) : world :=
  let merged := merge_docs (jw_docs j) in
  mkWorld [to_layer merged] (jw_env j) (jw_ovr j) (doc_error merged).

(* ---- the provider configuration a run works with (provider_openresponses.rs:6-66) --------- *)
Record orcfg := mkOr {
  oc_endpoint : str;
  oc_key : option str;
  oc_model : option str;
  oc_headers : list (str * str);
  oc_tool_choice : option str;      (* None = auto; Some raw = RIP_OPENRESPONSES_TOOL_CHOICE *)
  oc_followup : option str;
  oc_stateless : bool;
  oc_parallel : bool }.

(* server.rs:708-717 *)
Definition of_resolved (r : resolved) : orcfg :=
  mkOr (r_endpoint r) (r_key r) (r_model r) (r_headers r) None (r_followup r) (r_stateless r) (r_parallel r).
(* OpenResponsesConfig::from_env (raw values, no trimming, key kept even when blank) *)
Definition from_env (e : env) : option orcfg :=
  match getenv e E_ENDPOINT with
  | None => None
  | Some ep =>
      Some (mkOr ep (getenv e E_API_KEY) (getenv e E_MODEL) [] (getenv e E_TOOL_CHOICE) (getenv e E_FOLLOWUP)
                 (match getenv e E_STATELESS with Some v => truthy v | None => false end)
                 (match getenv e E_PARALLEL with Some v => truthy v | None => false end))
  end.
(* thread_post_message: per-request resolution, falling back to the engine's start-up config *)
Definition thread_cfg (w : world) : option orcfg :=
  match resolve_world w (w_ovr w) with
  | Some r => Some (of_resolved r)
  | None => from_env (w_env w)
  end.
Definition session_cfg (w : world) : option orcfg := from_env (w_env w).

(* ---- rip-cli: `rip run --provider P [--model M] [--stateless-history] [--parallel-tool-calls] [--followup-user-message F]`
   (main.rs Commands::Run + apply_openresponses_env): the CLI writes the provider's endpoint, the flags and the provider's
   key into ITS OWN environment - which the authority it then spawns inherits - and sends the same settings as per-request
   overrides.  The only place where rip-cli touches a secret (T1: UEnvRead x3, UEnvSet). ---------------------------------- *)
Inductive cli_provider := POpenai | POpenrouter.
Record cli_flags := mkFlags {
  f_provider : cli_provider;
  f_model : option str;
  f_stateless : bool;
  f_parallel : bool;
  f_followup : option str }.
Definition provider_endpoint (p : cli_provider) : str :=
  match p with
  | POpenai => lit "https://api.openai.com/v1/responses"
  | POpenrouter => lit "https://openrouter.ai/api/v1/responses"
  end.
Definition provider_key_var (p : cli_provider) : str := match p with POpenai => E_OPENAI | POpenrouter => E_OPENROUTER end.
(* std::env::set_var: the new binding shadows any older one *)
Definition setenv (e : env) (k v : str) : env := (k, v) :: e.
Definition setenv_opt (e : env) (k : str) (v : option str) : env := match v with Some x => setenv e k x | None => e end.
Definition cli_public_env (f : cli_flags) (e : env) : env :=
  let e1 := setenv e E_ENDPOINT (provider_endpoint (f_provider f)) in
  let e2 := setenv_opt e1 E_MODEL (f_model f) in
  let e3 := if f_stateless f then setenv e2 E_STATELESS (lit "1") else e2 in
  let e4 := if f_parallel f then setenv e3 E_PARALLEL (lit "1") else e3 in
  setenv_opt e4 E_FOLLOWUP (f_followup f).
(* None = the CLI bails out ("missing API key: set .. or RIP_OPENRESPONSES_API_KEY") before anything is spawned *)
Definition cli_env (f : cli_flags) (e : env) : option env :=
  match over (getenv e (provider_key_var (f_provider f))) (getenv e E_API_KEY) with
  | Some k => Some (setenv (cli_public_env f e) E_API_KEY k)
  | None => None
  end.
Definition nonblank_trimmed (o : option str) : option str :=
  match o with Some v => if blank v then None else Some v | None => None end.
Definition cli_ovr (f : cli_flags) : ovr :=
  mkOvr (Some (provider_endpoint (f_provider f))) (nonblank_trimmed (f_model f))
        (if f_stateless f then Some true else None) (if f_parallel f then Some true else None)
        (nonblank_trimmed (f_followup f)).
Definition cli_world (f : cli_flags) (w : world) : option world :=
  option_map (fun e' => mkWorld (w_layers w) e' (cli_ovr f) (w_misfit w)) (cli_env f (w_env w)).

(* ---- process output at start-up (provider_openresponses.rs from_env, called once by `serve` / `rip serve`) -------- *)
(* parse_tool_choice_env, the non-JSON forms: the error text of a value that is not auto | none | required | function:<name> *)
Fixpoint drop_prefix (p s : str) : option str :=
  match p, s with
  | [], _ => Some s
  | x :: p', y :: s' => if x =? y then drop_prefix p' s' else None
  | _ :: _, [] => None
  end.
Definition tool_choice_error (raw : str) : option str :=
  match trim raw with
  | [] => None
  | t =>
      if str_eqb t (lit "auto") || str_eqb t (lit "none") || str_eqb t (lit "required") then None
      else match drop_prefix (lit "function:") t with
           | Some rest => if blank rest then Some (lit "function name missing (expected function:<name>)") else None
           | None => Some (lit "unsupported value (expected auto|none|required|function:<name>|json:<tool_choice_json>)")
           end
  end.
(* `{value:?}` of a string without characters that need escaping *)
Definition quote_debug (v : str) : str := 34 :: v ++ [34].
(* what the authority prints on stderr (-> <data>/authority/authority.log when `rip` spawned it) besides its address:
   a function of PUBLIC variables only *)
Definition startup_warnings (e : env) : list str :=
  match getenv e E_ENDPOINT, getenv e E_TOOL_CHOICE with
  | Some _, Some v =>
      match tool_choice_error v with
      | Some m => [lit "invalid RIP_OPENRESPONSES_TOOL_CHOICE=" ++ quote_debug v ++ lit ": " ++ m ++ lit "; defaulting to auto"]
      | None => []
      end
  | _, _ => []
  end.

Definition dump_enabled (e : env) : bool :=
  match getenv e E_DUMP with Some v => truthy v | None => false end.

(* ---- doctor (server.rs:1618-1660) --------------------------------------------------------- *)
Record doctor_summary := mkDoctor {
  d_provider_id : option str;
  d_route : option str;
  d_endpoint : str;
  d_model : option str;
  d_has_key : bool;
  d_key_source : option str;
  d_header_names : list str;
  d_stateless : bool;
  d_parallel : bool;
  d_followup : option str }.
Definition doctor_of (r : resolved) : doctor_summary :=
  mkDoctor (r_provider_id r) (r_route r) (r_endpoint r) (r_model r)
           (match r_key r with Some v => negb (blank v) | None => false end)
           (r_key_source r) (map fst (r_headers r)) (r_stateless r) (r_parallel r) (r_followup r).
Definition doctor (w : world) : option doctor_summary := option_map doctor_of (resolve_world w no_ovr).

(* the per-source report of the doctor (`sources[*].error`, server.rs config_doctor <- config.rs ConfigSourceReport) for files
   that parse as JSON(C): no error text at all - the schema stage reports nothing *)
Definition source_errors (w : world) : list str := [].
Definition doctor_report (w : world) : list str * option doctor_summary := (source_errors w, doctor w).
(* the text serde produces for a mis-typed scalar: it QUOTES the scalar *)
Definition serde_type_error (q : str) : str := lit "invalid type: string """ ++ q ++ lit """, expected a map".
(* NOT what the code does - what it would do if the schema error were surfaced with the `error: Some(err.to_string())` idiom
   of the neighbouring parse-error branch (kept to show why that flow must stay closed: Proofs c19 surfaced lemma) *)
Definition source_errors_surfaced (w : world) : list str :=
  match w_misfit w with Some q => [serde_type_error q] | None => [] end.

(* ---- requests, provider, frames ----------------------------------------------------------- *)
Record tcall := mkCall { tc_id : str; tc_name : str; tc_args : str }.
Inductive item := IUser (s : str) | ICall (c : tcall) | IOut (call_id out : str).
Record body := mkBody {
  b_model : option str;
  b_input : list item;
  b_prev : option str;
  b_parallel : bool;
  b_tool_choice : option str }.
(* what leaves the process: the ONLY place the key and header values go (session.rs:1449-1455) *)
Record sent := mkSent { s_url : str; s_auth : option str; s_headers : list (str * str); s_body : body }.

Inductive sev := SCreated (id : str) | SText (t : str) | SCall (c : tcall) | SOther (raw : str) (errs : list str).
Inductive sse_end := EDone | EEof | EErr (msg : str).
Record rhead := mkHead { h_status : str; h_ok : bool; h_reqid : option str; h_ctype : option str }.
Inductive presp :=
| PSendErr (msg : str)
| PHttpErr (h : rhead) (rbody : str)
| PNoFirstByte (h : rhead)
| PFirstErr (h : rhead) (msg : str)
| PStream (h : rhead) (evs : list sev) (e : sse_end).

(* the scripted environment of a run: the provider answers as a function of the request index,
   the (public) endpoint and the request BODY; tools and request validation are public functions *)
Record script := mkScript {
  e_validate : body -> list str;
  e_prov : N -> str -> body -> presp;
  e_tools : tcall -> list str * str }.

Inductive frame :=
| FStub (prompt : str)
| FInvalidRequest (raw : body) (errs : list str)
| FDump (endpoint : str) (model : option str) (idx kind : N) (blob : body)
| FStarted (endpoint : str) (model : option str) (idx kind : N)
| FHeaders (idx : N) (h : rhead)
| FFirstByte (idx : N)
| FProviderError (msg : str)
| FSse (e : sev)
| FTool (c : tcall) (events : list str)
| FEnded (reason : N)
| FCursor (endpoint : str) (model : option str) (rid : str)
| FRunEnded (reason : N).

Definition R_COMPLETED : N := 0.
Definition R_PROVIDER_ERROR : N := 1.
Definition R_INVALID : N := 2.
Definition R_MAX : N := 3.
Definition R_FUEL : N := 4.

Definition K_PROMPT : N := 0.
Definition K_INITIAL_ITEMS : N := 1.
Definition K_STATELESS : N := 2.
Definition K_FOLLOWUP : N := 3.
Definition K_FOLLOWUP_STATELESS : N := 4.

Definition DEFAULT_OPENROUTER_MODEL := lit "openai/gpt-oss-20b".
Definition is_openrouter (endpoint : str) : bool :=
  let t := trim endpoint in
  str_eqb t (lit "https://openrouter.ai/api/v1/responses") || str_eqb t (lit "https://openrouter.ai/api/v1/responses/").
Definition base_model (c : orcfg) : option str :=
  match oc_model c with
  | Some m => Some m
  | None => if is_openrouter (oc_endpoint c) then Some DEFAULT_OPENROUTER_MODEL else None
  end.
(* build_streaming_request / _items / _followup_request *)
Definition build_items (c : orcfg) (items : list item) : body :=
  mkBody (base_model c) items None (oc_parallel c) (oc_tool_choice c).
Definition build_prompt (c : orcfg) (prompt : str) : body := build_items c [IUser prompt].
Definition build_followup (c : orcfg) (prev : option str) (items : list item) : body :=
  mkBody (base_model c)
         (items ++ match oc_followup c with Some m => [IUser m] | None => [] end)
         prev (oc_parallel c) (oc_tool_choice c).

Inductive sres := SErr (reason : N) | SOk (rid : option str) (calls : list tcall).

Fixpoint last_created (evs : list sev) (acc : option str) : option str :=
  match evs with
  | [] => acc
  | SCreated i :: r => last_created r (Some i)
  | _ :: r => last_created r acc
  end.
Fixpoint calls_of (evs : list sev) : list tcall :=
  match evs with
  | [] => []
  | SCall c :: r => c :: calls_of r
  | _ :: r => calls_of r
  end.

Definition http_error_text (h : rhead) (rbody : str) : str :=
  lit "provider http error: " ++ h_status h ++ lit ": " ++ rbody.

(* session.rs:1457-1562 — everything after `request.send()` *)
Definition resp_frames (idx : N) (r : presp) : list frame :=
  match r with
  | PSendErr msg => [FProviderError msg]
  | PHttpErr h rb => [FHeaders idx h; FProviderError (http_error_text h rb)]
  | PNoFirstByte h => [FHeaders idx h; FProviderError (lit "provider stream ended before first byte")]
  | PFirstErr h msg => [FHeaders idx h; FProviderError msg]
  | PStream h evs e =>
      [FHeaders idx h; FFirstByte idx] ++ map FSse evs ++
      match e with EErr msg => [FProviderError msg] | _ => [] end
  end.
Definition resp_result (r : presp) : sres :=
  match r with
  | PStream _ evs (EErr _) => SErr R_PROVIDER_ERROR
  | PStream _ evs _ => SOk (last_created evs None) (calls_of evs)
  | _ => SErr R_PROVIDER_ERROR
  end.

(* session.rs:1378-1455 *)
Definition sr_pre (dump : bool) (c : orcfg) (idx kind : N) (b : body) : list frame :=
  (if dump then [FDump (oc_endpoint c) (b_model b) idx kind b] else [])
  ++ [FStarted (oc_endpoint c) (b_model b) idx kind].
Definition mk_sent (c : orcfg) (b : body) : sent := mkSent (oc_endpoint c) (oc_key c) (oc_headers c) b.

Definition sr_frames (dump : bool) (sc : script) (c : orcfg) (idx kind : N) (b : body) : list frame :=
  match e_validate sc b with
  | [] => sr_pre dump c idx kind b ++ resp_frames idx (e_prov sc idx (oc_endpoint c) b)
  | errs => [FInvalidRequest b errs]
  end.
Definition sr_sent (sc : script) (c : orcfg) (b : body) : list sent :=
  match e_validate sc b with [] => [mk_sent c b] | _ => [] end.
Definition sr_result (sc : script) (c : orcfg) (idx : N) (b : body) : sres :=
  match e_validate sc b with
  | [] => resp_result (e_prov sc idx (oc_endpoint c) b)
  | _ => SErr R_INVALID
  end.

(* ---- the agent loop (session.rs:1183-1363) ------------------------------------------------- *)
Definition MAX_TOOL_CALLS : N := 32.

Record lstate := mkL {
  ls_prev : option str;
  ls_follow : option (list item);
  ls_count : N;
  ls_idx : N;
  ls_hist : list item;
  ls_init : option (list item) }.

Record tout := mkTO { to_frames : list frame; to_outs : list item; to_count : N; to_exceeded : bool }.
Fixpoint run_calls (sc : script) (count : N) (calls : list tcall) : tout :=
  match calls with
  | [] => mkTO [] [] count false
  | c :: r =>
      if MAX_TOOL_CALLS <=? count then mkTO [] [] count true
      else let t := run_calls sc (count + 1) r in
           mkTO (FTool c (fst (e_tools sc c)) :: to_frames t)
                (IOut (tc_id c) (snd (e_tools sc c)) :: to_outs t) (to_count t) (to_exceeded t)
  end.

(* which payload the next request carries: (body, kind, initial-items consumed) *)
Definition choose_payload (c : orcfg) (prompt : str) (st : lstate) : option (body * N) :=
  match ls_follow st with
  | Some outs =>
      if oc_stateless c then Some (build_followup c None (ls_hist st), K_FOLLOWUP_STATELESS)
      else match ls_prev st with
           | Some p => Some (build_followup c (Some p) outs, K_FOLLOWUP)
           | None => None
           end
  | None =>
      match ls_init st with
      | Some items => Some (build_items c items, K_INITIAL_ITEMS)
      | None => if oc_stateless c then Some (build_items c (ls_hist st), K_STATELESS)
                else Some (build_prompt c prompt, K_PROMPT)
      end
  end.

Record lout := mkLO { lo_frames : list frame; lo_sent : list sent; lo_reason : N; lo_last : option str }.

Fixpoint agent_loop (fuel : nat) (dump : bool) (sc : script) (c : orcfg) (prompt : str) (st : lstate) : lout :=
  match fuel with
  | O => mkLO [] [] R_FUEL (ls_prev st)
  | S f =>
      if MAX_TOOL_CALLS <=? ls_count st then mkLO [] [] R_MAX (ls_prev st)
      else
        match choose_payload c prompt st with
        | None => mkLO [] [] R_PROVIDER_ERROR (ls_prev st)
        | Some (b, kind) =>
            let fs := sr_frames dump sc c (ls_idx st) kind b in
            let snt := sr_sent sc c b in
            match sr_result sc c (ls_idx st) b with
            | SErr reason => mkLO fs snt reason (ls_prev st)
            | SOk rid calls =>
                let prev := over rid (ls_prev st) in
                match calls with
                | [] => mkLO fs snt R_COMPLETED prev
                | _ :: _ =>
                    match prev, oc_stateless c with
                    | None, false => mkLO fs snt R_PROVIDER_ERROR prev
                    | _, _ =>
                        let hist1 := if oc_stateless c then ls_hist st ++ map ICall calls else ls_hist st in
                        let t := run_calls sc (ls_count st) calls in
                        if to_exceeded t then mkLO (fs ++ to_frames t) snt R_MAX prev
                        else
                          let hist2 := if oc_stateless c then hist1 ++ to_outs t else hist1 in
                          let r := agent_loop f dump sc c prompt
                                     (mkL prev (Some (to_outs t)) (to_count t) (ls_idx st + 1) hist2 None) in
                          mkLO (fs ++ to_frames t ++ lo_frames r) (snt ++ lo_sent r) (lo_reason r) (lo_last r)
                    end
                end
            end
        end
  end.

Definition init_state (c : orcfg) (prompt : str) (initial : option (list item)) : lstate :=
  mkL None None 0 0
      (if oc_stateless c then match initial with Some items => items | None => [IUser prompt] end else [])
      initial.

(* ---- a whole run (session.rs:85-318) -------------------------------------------------------- *)
Record outputs := mkOut {
  out_session : list frame;     (* session stream: events.jsonl, snapshot, SSE, request-dump artifacts *)
  out_thread : list frame;      (* continuity stream (provider cursor, run ended) *)
  out_sent : list sent }.       (* outgoing HTTP requests: NOT persisted *)

Definition run_cfg (fuel : nat) (dump : bool) (sc : script) (thread : bool) (oc : option orcfg)
                   (prompt : str) (initial : option (list item)) : outputs :=
  match oc with
  | None => mkOut [FStub prompt] (if thread then [FRunEnded R_COMPLETED] else []) []
  | Some c =>
      let r := agent_loop fuel dump sc c prompt (init_state c prompt initial) in
      mkOut (lo_frames r ++ [FEnded (lo_reason r)])
            (if thread
             then (match lo_last r with
                   | Some rid => if lo_reason r =? R_COMPLETED then [FCursor (oc_endpoint c) (oc_model c) rid] else []
                   | None => []
                   end) ++ [FRunEnded (lo_reason r)]
             else [])
            (lo_sent r)
  end.

(* thread = true: POST /threads/{id}/messages (per-request resolution + overrides, compiled context
   items); thread = false: POST /sessions/{id}/input (start-up config from the environment) *)
Definition run (fuel : nat) (sc : script) (thread : bool) (w : world) (prompt : str) (initial : list item) : outputs :=
  run_cfg fuel (dump_enabled (w_env w)) sc thread
          (if thread then thread_cfg w else session_cfg w) prompt
          (if thread then Some initial else None).

(* The run environment as the property quantifies it ("all inputs"): tools are subprocesses of the authority — the shell
   tools inherit its whole environment (rip-tools builtins/shell.rs run_command, ripd tasks/pipes.rs, pty.rs: no
   env_clear / env_remove) and the file tools can read the configuration files — so a tool's output is a function
   of the call AND of the world.  `script` above is the special case of tools that ignore the world. *)
Record wscript := mkWScript {
  ws_validate : body -> list str;
  ws_prov : N -> str -> body -> presp;
  ws_tools : world -> tcall -> list str * str }.
Definition inst (ws : wscript) (w : world) : script := mkScript (ws_validate ws) (ws_prov ws) (ws_tools ws w).
Definition run_w (fuel : nat) (ws : wscript) (thread : bool) (w : world) (prompt : str) (initial : list item) : outputs :=
  run fuel (inst ws w) thread w prompt initial.

(* everything that is stored or shown: frames of both streams (the request-dump artifact is the
   body inside FDump) and the diagnostic summary *)
Definition persisted (o : outputs) : list frame * list frame := (out_session o, out_thread o).

(* ---- the low view of a world: everything except secret values ------------------------------- *)
(* a secret value is replaced by a token that only keeps whether it is blank *)
Definition mask (v : str) : str := if blank v then [] else [120].
Definition low_keysrc (k : keysrc) : keysrc :=
  match k with KInline v => KInline (mask v) | KEnvRef n => KEnvRef n end.
Definition low_patch (p : patch) : patch :=
  mkPatch (pa_endpoint p) (option_map low_keysrc (pa_key p)) (map (fun kv => (fst kv, @nil N)) (pa_headers p)).
Definition low_layer (l : layer) : layer :=
  mkLayer (map (fun kp => (fst kp, low_patch (snd kp))) (l_providers l))
          (l_model l) (l_primary l) (l_stateless l) (l_parallel l) (l_followup l).
Definition low_env (e : env) : env :=
  map (fun kv => (fst kv, if is_public_env (fst kv) then snd kv else mask (snd kv))) e.
Definition low_world (w : world) : world :=
  mkWorld (map low_layer (w_layers w)) (low_env (w_env w)) (w_ovr w) (option_map mask (w_misfit w)).

(* the low view of configuration files: every scalar at a secret-bearing position is erased, WHATEVER its shape *)
Definition low_hval (v : hval) : hval :=
  match v with HStr _ => HStr [] | HBadScalar q => HBadScalar (mask q) | HBad => HBad end.
Definition low_hdrs (h : hdrs) : hdrs :=
  match h with
  | HMap m => HMap (map (fun kv => (fst kv, low_hval (snd kv))) m)
  | HScalar q => HScalar (mask q)
  | HShape => HShape
  end.
Definition low_kval (k : kval) : kval := match k with KV ks => KV (low_keysrc ks) | o => o end.
Definition low_pval (p : pval) : pval :=
  match p with
  | PObj e k h => PObj e (option_map low_kval k) (option_map low_hdrs h)
  | PScalar q => PScalar (mask q)
  | PBad => PBad
  end.
Definition low_provs (ps : provs) : provs :=
  match ps with
  | PMap m => PMap (map (fun kp => (fst kp, low_pval (snd kp))) m)
  | PsScalar q => PsScalar (mask q)
  | PsBad => PsBad
  end.
Definition low_doc (d : doc) : doc :=
  match d with
  | DObj ps m p s pa f => DObj (option_map low_provs ps) m p s pa f
  | DScalar q => DScalar (mask q)
  | DBad => DBad
  end.
Definition low_jworld (j : jworld) : jworld := mkJWorld (map low_doc (jw_docs j)) (low_env (jw_env j)) (jw_ovr j).

(* tools whose output does not depend on secret values (the hypothesis under which noninterference holds) *)
Definition tools_blind (ws : wscript) : Prop := forall w c, ws_tools ws w c = ws_tools ws (low_world w) c.

(* What rip HANDS to a tool subprocess (rip-tools secret_env.rs, shell.rs run_command, ripd tasks/pipes.rs, pty.rs): the
   authority's environment without the credential variables - the three variables the authority reads keys from and
   every `{ "env": NAME }` key source of the loaded (typed) configuration, registered by load_effective_config. *)
Definition envref_names (ps : list (str * patch)) : list str :=
  flat_map (fun kp => match pa_key (snd kp) with Some (KEnvRef n) => [n] | _ => [] end) ps.
Definition secret_env_names (w : world) : list str :=
  [E_API_KEY; E_OPENAI; E_OPENROUTER] ++ envref_names (c_providers (load_config w)).
Definition is_secret_env (w : world) (k : str) : bool := existsb (str_eqb k) (secret_env_names w).
Definition tool_env (w : world) : env := filter (fun kv => negb (is_secret_env w (fst kv))) (w_env w).
(* the shell tool asked for `printenv RIP_OPENRESPONSES_API_KEY`: what the real bash tool answers now *)
Definition printenv_tool_fixed (e : env) (c : tcall) : list str * str :=
  match getenv e E_API_KEY with
  | Some v => ([v], v)
  | None => ([], [])
  end.

(* ---- the authority over TIME -------------------------------------------------------------------------------------
   The configuration is re-read on every request while the process lives on.  rip-tools secret_env.rs keeps a
   process-wide registry of `{ "env": NAME }` names: load_effective_config (ripd config.rs) adds the names of the
   configuration it has just loaded on EVERY load - engine start (SessionEngine::new), every per-request resolution of
   the thread path, every doctor call - and nothing ever removes a name.  A spawn (bash / shell tool, pipes / pty task)
   calls secret_env_names() AT SPAWN TIME and removes the three fixed variables + the registry as it is then. *)
Definition registry := list str.
Definition reg_load (r : registry) (w : world) : registry := r ++ envref_names (c_providers (load_config w)).
Definition stripped_names (r : registry) : list str := [E_API_KEY; E_OPENAI; E_OPENROUTER] ++ r.
Definition spawn_env (r : registry) (e : env) : env :=
  filter (fun kv => negb (existsb (str_eqb (fst kv)) (stripped_names r))) e.
(* what one authority process does, in order: it loads the configuration (the files as they are at that moment), it
   spawns a subprocess *)
Inductive aevent := ALoad (w : world) | ASpawn.
(* the environments of the subprocesses of a process with environment `e`, in spawn order *)
Fixpoint spawn_envs (r : registry) (e : env) (evs : list aevent) : list env :=
  match evs with
  | [] => []
  | ALoad w :: rest => spawn_envs (reg_load r w) e rest
  | ASpawn :: rest => spawn_env r e :: spawn_envs r e rest
  end.
Definition reg_after (hist : list world) : registry := fold_left reg_load hist [].
(* the environment of a subprocess spawned after the configurations `hist` were loaded (oldest first) *)
Definition tool_env_at (hist : list world) (e : env) : env := spawn_env (reg_after hist) e.

(* ---- the SPAWN PATH: which variables a child inherits, as a function of how it is spawned --------------------------------
   Three spawn sites: rip-tools builtins/shell.rs `run_command` (the `bash` tool and its alias `shell`: tool command
   envelope, provider-requested call), ripd tasks/pipes.rs `run_pipes_task` and tasks/pty.rs `run_pty_task` (POST /tasks,
   `rip tasks spawn`; `execution_mode` absent = pipes).  Each one builds a command that starts from the environment of the
   authority and then, in this order: [`cwd` given: resolve_path - absolute paths and `..` components are refused, nothing
   is spawned - else current_dir(resolved) | `cwd` absent: current_dir(workspace root)]; for every name of
   secret_env_names(): env_remove(name); the call's own `env`: env(k, v) for each pair; spawn (fails when the directory
   does not exist).  std::process::Command and portable_pty::CommandBuilder as far as the environment goes: the child starts
   from the parent's environment, env_remove(k) deletes k, env(k, v) sets k (the last call wins). *)
Inductive exec_mode := XPipes | XPty.
Inductive spawn_via := VTool | VTask (mode : option exec_mode).
Inductive spawn_site := STool | SPipes | SPty.
Definition site_of (v : spawn_via) : spawn_site :=
  match v with
  | VTool => STool
  | VTask None => SPipes                      (* payload.execution_mode.unwrap_or(Pipes) *)
  | VTask (Some XPipes) => SPipes
  | VTask (Some XPty) => SPty
  end.
Record spawn_req := mkSpawn {
  sp_via : spawn_via;
  sp_cwd : option str;          (* the `cwd` argument *)
  sp_dir_exists : bool;         (* a fact of the file system: <workspace root>/<cwd> is a directory *)
  sp_env : option env;          (* the `env` argument of the call *)
  sp_title : option str }.
Definition req_env (q : spawn_req) : env := match sp_env q with Some ov => ov | None => [] end.

Fixpoint split_on (c : N) (s cur : str) : list str :=
  match s with
  | [] => [rev cur]
  | x :: r => if x =? c then rev cur :: split_on c r [] else split_on c r (x :: cur)
  end.
(* resolve_path (rip-tools builtins/mod.rs, ripd tasks/logs.rs): is_absolute, any component == ParentDir *)
Definition cwd_refused (raw : str) : bool :=
  (match raw with x :: _ => x =? 47 | [] => false end) || existsb (str_eqb [46; 46]) (split_on 47 raw []).

Definition env_remove (e : env) (k : str) : env := filter (fun kv => negb (str_eqb (fst kv) k)) e.
Definition env_set (e : env) (kv : str * str) : env := kv :: env_remove e (fst kv).
Record cmd := mkCmd { cm_env : env; cm_dir : option str }.
Definition cmd_new (e : env) : cmd := mkCmd e None.
Definition cmd_env_remove (c : cmd) (k : str) : cmd := mkCmd (env_remove (cm_env c) k) (cm_dir c).
Definition cmd_env_set (c : cmd) (kv : str * str) : cmd := mkCmd (env_set (cm_env c) kv) (cm_dir c).
Definition cmd_dir (c : cmd) (d : str) : cmd := mkCmd (cm_env c) (Some d).

(* the text of one site.  strip_when_cwd: the removal loop also runs on the branch where `cwd` was given - true at all three
   sites (T1: gen_spawn_facts, every site removes unconditionally); the seeded change C19-8 made it false in run_pipes_task.
   missing_dir_fails: std::process::Command::spawn fails with ENOENT when the directory does not exist (tool, pipes task);
   portable_pty::CommandBuilder::as_command silently falls back to the HOME directory (pty task): a child is spawned. *)
Definition site_cmd (strip_when_cwd missing_dir_fails : bool) (r : registry) (e : env) (q : spawn_req) : option cmd :=
  let c0 := cmd_new e in
  match sp_cwd q with
  | Some raw =>
      if cwd_refused raw then None
      else
        let c1 := cmd_dir c0 raw in
        let c2 := if strip_when_cwd then fold_left cmd_env_remove (stripped_names r) c1 else c1 in
        let c3 := fold_left cmd_env_set (req_env q) c2 in
        if sp_dir_exists q || negb missing_dir_fails then Some c3 else None
  | None =>
      let c1 := cmd_dir c0 [] in
      let c2 := fold_left cmd_env_remove (stripped_names r) c1 in
      Some (fold_left cmd_env_set (req_env q) c2)
  end.
Definition tool_cmd := site_cmd true true.      (* rip-tools builtins/shell.rs run_command *)
Definition pipes_cmd := site_cmd true true.     (* ripd tasks/pipes.rs run_pipes_task *)
Definition pty_cmd := site_cmd true false.      (* ripd tasks/pty.rs run_pty_task *)
Definition spawn_cmd (r : registry) (e : env) (q : spawn_req) : option cmd :=
  match site_of (sp_via q) with
  | STool => tool_cmd r e q
  | SPipes => pipes_cmd r e q
  | SPty => pty_cmd r e q
  end.
(* T1: the STEP ORDER of a spawn site as tools/gen/secret_uses.py reads it from the source (Gen/SecretUses.v
   gen_spawn_site_steps), and what a site with such a step list does *)
Inductive sstep :=
| SCwd             (* `if let Some(cwd) = args.cwd { resolve_path ..; current_dir(path) } else { current_dir(root) }` *)
| SStrip           (* the removal loop over secret_env_names() at the top level of the function *)
| SStripIfNoCwd    (* ... inside the else-block of the cwd statement *)
| SStripIfCwd      (* ... inside its then-block *)
| SStripCond       (* ... under some other condition: it may not run *)
| SOwnEnv          (* the call's own `env` *)
| SSpawn.
Definition strip_cmd (r : registry) (c : cmd) : cmd := fold_left cmd_env_remove (stripped_names r) c.
Fixpoint run_steps (p : list sstep) (missing_dir_fails : bool) (r : registry) (q : spawn_req) (c : cmd) : option cmd :=
  match p with
  | [] => None
  | SCwd :: rest =>
      match sp_cwd q with
      | Some raw => if cwd_refused raw then None else run_steps rest missing_dir_fails r q (cmd_dir c raw)
      | None => run_steps rest missing_dir_fails r q (cmd_dir c [])
      end
  | SStrip :: rest => run_steps rest missing_dir_fails r q (strip_cmd r c)
  | SStripIfNoCwd :: rest => run_steps rest missing_dir_fails r q (match sp_cwd q with None => strip_cmd r c | Some _ => c end)
  | SStripIfCwd :: rest => run_steps rest missing_dir_fails r q (match sp_cwd q with None => c | Some _ => strip_cmd r c end)
  | SStripCond :: rest => run_steps rest missing_dir_fails r q c
  | SOwnEnv :: rest => run_steps rest missing_dir_fails r q (fold_left cmd_env_set (req_env q) c)
  | SSpawn :: _ =>
      match sp_cwd q with
      | Some _ => if sp_dir_exists q || negb missing_dir_fails then Some c else None
      | None => Some c
      end
  end.
(* a step order is SAFE when on both branches of the cwd statement a removal loop has run by the time of the spawn (sc: on the
   branch with `cwd`, sn: on the branch without); the call's own env may come before or after *)
Fixpoint steps_safe_from (sc sn : bool) (p : list sstep) : bool :=
  match p with
  | [] => true                                   (* nothing is ever spawned *)
  | SStrip :: rest => steps_safe_from true true rest
  | SStripIfCwd :: rest => steps_safe_from true sn rest
  | SStripIfNoCwd :: rest => steps_safe_from sc true rest
  | SSpawn :: _ => sc && sn
  | _ :: rest => steps_safe_from sc sn rest
  end.
Definition steps_safe (p : list sstep) : bool := steps_safe_from false false p.
Definition sstep_code (s : sstep) : N :=
  match s with SCwd => 0 | SStrip => 1 | SStripIfNoCwd => 2 | SStripIfCwd => 3 | SStripCond => 4 | SOwnEnv => 5 | SSpawn => 6 end.
Definition modelled_steps : list sstep := [SCwd; SStrip; SOwnEnv; SSpawn].
Definition steps_as_modelled (p : list sstep) : bool := lN_eqb (map sstep_code p) (map sstep_code modelled_steps).
(* the three sites the model has: (file, function) *)
Definition modelled_spawn_sites : list (str * str) :=
  [(lit "rip-tools/src/builtins/shell.rs", lit "run_command");
   (lit "ripd/src/tasks/pipes.rs", lit "run_pipes_task");
   (lit "ripd/src/tasks/pty.rs", lit "run_pty_task")].
Definition site_steps_wf (g : list (str * str * list sstep)) : bool :=
  list_eqb (fun a b => str_eqb (fst a) (fst b) && str_eqb (snd a) (snd b)) (map fst g) modelled_spawn_sites
  && forallb (fun s => steps_as_modelled (snd s)) g.

(* the environment of the child; None: nothing is spawned *)
Definition child_env (r : registry) (e : env) (q : spawn_req) : option env := option_map cm_env (spawn_cmd r e q).
(* the same as a function of the STRIPPED environment and of the request alone *)
Definition missing_dir_fails (s : spawn_site) : bool := match s with SPty => false | _ => true end.
Definition child_env_of (base : env) (q : spawn_req) : option env :=
  match sp_cwd q with
  | Some raw =>
      if cwd_refused raw then None
      else if sp_dir_exists q || negb (missing_dir_fails (site_of (sp_via q))) then Some (fold_left env_set (req_env q) base) else None
  | None => Some (fold_left env_set (req_env q) base)
  end.
(* what the code must NOT do (seeded change C19-8): in run_pipes_task the removal loop sits in the `else` branch of the `cwd`
   handling - a pipes task with a `cwd` keeps the whole environment *)
Definition spawn_cmd_cwd_unstripped (r : registry) (e : env) (q : spawn_req) : option cmd :=
  match site_of (sp_via q) with
  | SPipes => site_cmd false true r e q
  | STool => site_cmd true true r e q
  | SPty => site_cmd true false r e q
  end.
(* the property of a spawn path: a credential variable reaches a child only when the call itself supplies it *)
Definition spawn_path_strips (sp : registry -> env -> spawn_req -> option cmd) : Prop :=
  forall r e q c k, sp r e q = Some c -> In k (stripped_names r) -> getenv (cm_env c) k = getenv (rev (req_env q)) k.

(* what the code must NOT do (seeded change C19-4, "spawn-path optimisation"): the merged list is built at the FIRST
   spawn and reused - names registered by later loads are never removed from a subprocess environment *)
Fixpoint spawn_envs_memo (r : registry) (memo : option (list str)) (e : env) (evs : list aevent) : list env :=
  match evs with
  | [] => []
  | ALoad w :: rest => spawn_envs_memo (reg_load r w) memo e rest
  | ASpawn :: rest =>
      let names := match memo with Some m => m | None => stripped_names r end in
      filter (fun kv => negb (existsb (str_eqb (fst kv)) names)) e :: spawn_envs_memo r (Some names) e rest
  end.

(* The operations of one authority process as far as secrets go.  A run on the thread path resolves (loads) the
   configuration first; a run on the session path uses the start-up configuration and loads nothing.  The tools of a
   run are functions of the call and of the environment rip hands them at that time. *)
Inductive aop :=
| OLoad (w : world)                                                   (* engine start, doctor call *)
| ORun (thread : bool) (w : world) (prompt : str) (initial : list item).
Fixpoint process_runs (fuel : nat) (v : body -> list str) (p : N -> str -> body -> presp)
                      (t : env -> tcall -> list str * str) (r : registry) (ops : list aop)
  : list (list frame * list frame) :=
  match ops with
  | [] => []
  | OLoad w :: rest => process_runs fuel v p t (reg_load r w) rest
  | ORun thread w prompt initial :: rest =>
      let r' := if thread then reg_load r w else r in
      persisted (run fuel (mkScript v p (t (spawn_env r' (w_env w)))) thread w prompt initial)
      :: process_runs fuel v p t r' rest
  end.
(* two histories of one process that differ only in secret values: inline keys, header values, and the values of
   variables that are credential variables (removed) whenever a subprocess is spawned *)
Fixpoint ops_agree (r : registry) (o1 o2 : list aop) : Prop :=
  match o1, o2 with
  | [], [] => True
  | OLoad w1 :: a, OLoad w2 :: b => low_world w1 = low_world w2 /\ ops_agree (reg_load r w1) a b
  | ORun th1 w1 p1 i1 :: a, ORun th2 w2 p2 i2 :: b =>
      th1 = th2 /\ p1 = p2 /\ i1 = i2 /\ low_world w1 = low_world w2
      /\ spawn_env (if th1 then reg_load r w1 else r) (w_env w1) = spawn_env (if th1 then reg_load r w1 else r) (w_env w2)
      /\ ops_agree (if th1 then reg_load r w1 else r) a b
  | _, _ => False
  end.

(* T1 facts read from the source (tools/gen/secret_uses.py): the fixed variable list, no memoisation in
   secret_env_names() (its body reads the registry on every call and holds no static / OnceLock / lazy / thread_local),
   register_secret_env_names only ever extends the set, load_effective_config registers unconditionally on every call
   and is called at engine start and by the per-request resolution, and every subprocess spawn site in rip-tools and
   ripd removes secret_env_names() from the child environment before the call's own `env` is applied *)
Record spawn_facts := mkSpawnFacts {
  sf_fixed_names : list str;
  sf_names_fresh : bool;
  sf_registry_grows_only : bool;
  sf_load_registers : bool;
  sf_loaders_found : bool;
  sf_spawn_sites : N;
  sf_spawn_sites_stripping : N;
  sf_unlisted_key_vars : N }.   (* string literals shaped like a credential variable (.._KEY / _TOKEN / _SECRET / _PASSWORD) in
                                  ripd, rip-cli, rip-tools that are NOT in the fixed list: a new fallback variable the spawn
                                  path does not know *)
Definition spawn_facts_wf (f : spawn_facts) : bool :=
  list_eqb str_eqb (sf_fixed_names f) [E_API_KEY; E_OPENAI; E_OPENROUTER]
  && sf_names_fresh f && sf_registry_grows_only f && sf_load_registers f && sf_loaders_found f
  && (1 <=? sf_spawn_sites f) && (sf_spawn_sites f =? sf_spawn_sites_stripping f) && (sf_unlisted_key_vars f =? 0).

(* UNFIXED behaviour (before the fix; KNOWN_FINDINGS C19/B1): the subprocess inherited the whole environment.  Still the
   behaviour of a tool that fetches the secret ITSELF with the user's OS permissions (/proc/<authority pid>/environ, a
   configuration file with an inline key): such tools are functions of the whole world. *)
Definition printenv_tool (w : world) (c : tcall) : list str * str :=
  match getenv (w_env w) E_API_KEY with
  | Some v => ([v], v)
  | None => ([], [])
  end.
Definition tool_events (fs : list frame) : list (list str) :=
  flat_map (fun f => match f with FTool _ evs => [evs] | _ => [] end) fs.

(* ---- T1: the syntactic uses of secret-bearing values the model accounts for ------------------ *)
(* kinds of use the extractor (tools/gen/secret_uses.py) classifies every occurrence into *)
Inductive use_kind :=
| UDecl            (* struct field declaration *)
| UMove            (* moved / cloned into a field of another secret-bearing struct, or a local *)
| UResolve         (* ApiKeySource::resolve / env lookup producing the key *)
| UPresence        (* is_none / is_some / trim().is_empty(): presence only *)
| UBearerAuth      (* request.bearer_auth(key) *)
| URequestHeader   (* request.header(name, value) *)
| UNameProjection  (* headers -> names only *)
| UEnvRead         (* std::env::var of a key variable *)
| UEnvSet          (* std::env::set_var of a key variable (rip-cli apply_openresponses_env) *)
| UTestOnly        (* inside #[cfg(test)] code *)
| UFormat          (* argument of a formatting / printing / logging / panic macro *)
| USerialize       (* argument of a serde_json serialisation call or json! *)
| UOther           (* anything the extractor cannot classify *)
| UDeserErrDropped. (* typed deserialisation of a secret-bearing type / of the configuration document whose ERROR (serde
                       type errors quote the offending scalar) is discarded on the spot: load_config *)
Definition use_kind_code (k : use_kind) : N :=
  match k with
  | UDecl => 0 | UMove => 1 | UResolve => 2 | UPresence => 3 | UBearerAuth => 4 | URequestHeader => 5
  | UNameProjection => 6 | UEnvRead => 7 | UEnvSet => 8 | UTestOnly => 9 | UFormat => 10 | USerialize => 11
  | UOther => 12 | UDeserErrDropped => 13
  end.
(* the flows the model has: resolution (resolve/resolve_key/key_from_env/from_env), copies between the
   records (of_resolved, mk_sent), presence (doctor_of), the request (mk_sent), header names (doctor_of) *)
Definition allowed_use (k : N) : bool := (k <=? 9) || (k =? 13).

(* derives on secret-bearing types: (type name code, derive code).  Debug = 0, Serialize = 1, Display impl = 2.
   A derive is a latent sink; it is tolerated only while NO formatting / serialising use of a value of
   that type exists (those would be listed as UFormat / USerialize) and only for the pairs known today. *)
Definition allowed_derives : list (str * N) :=
  [ (lit "RipConfig", 0); (lit "RipConfig", 1);
    (lit "ProviderConfig", 0); (lit "ProviderConfig", 1);
    (lit "ApiKeySource", 0); (lit "ApiKeySource", 1);
    (lit "OpenResponsesResolvedConfig", 0);
    (lit "LoadedConfig", 0);
    (lit "OpenResponsesConfig", 0) ].
Definition derive_allowed (d : str * N) : bool :=
  existsb (fun a => str_eqb (fst a) (fst d) && (snd a =? snd d)) allowed_derives.

Definition uses_wf (uses : list N) (derives : list (str * N)) (found_all : bool) : bool :=
  found_all && forallb allowed_use uses && forallb derive_allowed derives.

(* ---- correspondence ------------------------------------------------------------------------- *)
Definition enc_str (s : str) : list N := nlen s :: s.
Definition enc_ostr (o : option str) : list N := match o with None => [0] | Some s => 1 :: enc_str s end.
Definition enc_bool (b : bool) : list N := [if b then 1 else 0].

Definition hd200 : rhead := mkHead (lit "200 OK") true None (Some (lit "text/event-stream")).
Definition hd500 : rhead := mkHead (lit "500 Internal Server Error") false None (Some (lit "application/json")).
Definition call_read : tcall := mkCall (lit "call_1") (lit "read") (lit "{""path"":""no/such/file.txt""}").
Definition call_ls : tcall := mkCall (lit "call_9") (lit "ls") (lit "{""path"":"".""}").

(* the eight provider scripts of harness/src/bin/c19.rs (`script_for`) *)
Definition outcome_script (o : N) : script :=
  mkScript (fun _ => [])
    (fun idx _ b =>
       match o with
       | 0 => PStream hd200 [SCreated (lit "resp_ok_1"); SText (lit "hello")] EDone
       | 1 => PHttpErr hd500 (lit "<echo of the request body>")
       | 2 => PSendErr (lit "error sending request")
       | 3 => PFirstErr hd200 (lit "error decoding response body")
       | 4 => PStream hd200 [SCreated (lit "resp_y"); SText (lit "par")] (EErr (lit "error decoding response body"))
       | 5 => PStream hd200 [SOther (lit "{not json}") [lit "invalid json"]; SOther (lit "bogus") [lit "unknown event"];
                            SCreated (lit "resp_v")] EDone
       | 6 => if idx =? 0 then PStream hd200 [SCreated (lit "resp_t1"); SCall call_read] EDone
              else PStream hd200 [SCreated (lit "resp_t2"); SText (lit "done")] EDone
       | _ => if idx =? 0 then PStream hd200 [SCreated (lit "resp_u1"); SCall call_ls] EDone
              else PHttpErr hd500 (lit "<echo of the request body>")
       end)
    (fun c => ([lit "tool events"], lit "{""ok"":true}")).

Definition reason_text (r : N) : str :=
  match r with
  | 0 => lit "completed"
  | 1 => lit "provider_error"
  | 2 => lit "invalid_request"
  | 3 => lit "max_tool_calls_exceeded"
  | _ => lit "fuel"
  end.

(* cs_before: the configurations this authority process loaded EARLIER (multi-step scenarios: the files before the edit) *)
Record case := mkCase { cs_world : world; cs_before : list world; cs_cli : option cli_flags; cs_thread : bool;
                        cs_outcome : N; cs_spawns : list spawn_req; cs_obs : list N }.
(* the world the authority lives in: the scenario's, or what `rip run --provider ..` makes of it *)
Definition case_world (c : case) : world :=
  match cs_cli c with
  | Some f => match cli_world f (cs_world c) with Some w' => w' | None => cs_world c end
  | None => cs_world c
  end.

Definition enc_doctor (d : option doctor_summary) : list N :=
  match d with
  | None => [0]
  | Some d =>
      1 :: enc_ostr (d_provider_id d) ++ enc_ostr (d_route d) ++ enc_str (d_endpoint d) ++ enc_ostr (d_model d)
        ++ enc_bool (d_has_key d) ++ enc_ostr (d_key_source d)
        ++ nlen (d_header_names d) :: flat_map enc_str (d_header_names d)
        ++ enc_bool (d_stateless d) ++ enc_bool (d_parallel d) ++ enc_ostr (d_followup d)
  end.

(* reqwest lower-cases header names; the harness sorts the custom headers by (name, value) *)
Fixpoint insert_sorted (kv : str * str) (l : list (str * str)) : list (str * str) :=
  match l with
  | [] => [kv]
  | x :: r => if str_ltb (fst kv) (fst x) || (str_eqb (fst kv) (fst x) && str_ltb (snd kv) (snd x))
              then kv :: l else x :: insert_sorted kv r
  end.
Definition norm_headers (hs : list (str * str)) : list (str * str) :=
  fold_right insert_sorted [] (map (fun kv => (map lower (fst kv), snd kv)) hs).

Definition enc_first_sent (l : list sent) (reached : bool) : list N :=
  match l with
  | s :: _ =>
      if reached then
        1 :: enc_ostr (option_map (fun k => lit "Bearer " ++ k) (s_auth s))
          ++ nlen (s_headers s) :: flat_map (fun kv => enc_str (fst kv) ++ enc_str (snd kv)) (norm_headers (s_headers s))
          ++ enc_ostr (b_model (s_body s)) ++ enc_bool (b_parallel (s_body s))
      else [0]
  | [] => [0]
  end.

Fixpoint enc_req_frames (fs : list frame) : list (list N) :=
  match fs with
  | [] => []
  | FDump ep m idx k _ :: r => (0 :: enc_str ep ++ enc_ostr m ++ [idx; k]) :: enc_req_frames r
  | FStarted ep m idx k :: r => (1 :: enc_str ep ++ enc_ostr m ++ [idx; k]) :: enc_req_frames r
  | _ :: r => enc_req_frames r
  end.
Fixpoint ended_reason (fs : list frame) : option str :=
  match fs with
  | [] => None
  | FEnded r :: _ => Some (reason_text r)
  | FStub _ :: _ => Some (lit "completed")
  | _ :: r => ended_reason r
  end.
Fixpoint enc_cursors (fs : list frame) : list (list N) :=
  match fs with
  | [] => []
  | FCursor ep m _ :: r => (enc_ostr (Some ep) ++ enc_ostr m) :: enc_cursors r
  | _ :: r => enc_cursors r
  end.

(* the order of the milestone frames of the session stream (SSE payload frames are not milestones) *)
Fixpoint enc_milestones (fs : list frame) : list N :=
  match fs with
  | [] => []
  | FDump _ _ _ _ _ :: r => 0 :: enc_milestones r
  | FStarted _ _ _ _ :: r => 1 :: enc_milestones r
  | FHeaders _ _ :: r => 2 :: enc_milestones r
  | FFirstByte _ :: r => 3 :: enc_milestones r
  | FProviderError _ :: r => 4 :: enc_milestones r
  | FTool _ _ :: r => 5 :: enc_milestones r
  | FEnded _ :: r => 6 :: enc_milestones r
  | FInvalidRequest _ _ :: r => 7 :: enc_milestones r
  | FStub _ :: r => 6 :: enc_milestones r
  | _ :: r => enc_milestones r
  end.

Definition enc_report (w : world) : list N :=
  nlen (startup_warnings (w_env w)) :: flat_map enc_str (startup_warnings (w_env w))
  ++ nlen (source_errors w) :: flat_map enc_str (source_errors w) ++ enc_doctor (doctor w).

(* which of the scenario's variables a subprocess sees (names only), in the order of the authority's environment *)
Definition enc_visible (seen : env) (e : env) : list N :=
  nlen e :: map (fun kv => match getenv seen (fst kv) with Some _ => 1 | None => 0 end) e.

(* the spawn grid: the names whose visibility is compared - the authority's environment in order, then the names only a call's
   `env` supplies, in order of first appearance *)
Definition view_names (e : env) (qs : list spawn_req) : list str :=
  fold_left (fun acc q => fold_left (fun acc kv => if existsb (str_eqb (fst kv)) acc then acc else acc ++ [fst kv]) (req_env q) acc)
            qs (map fst e).
Definition has_pair (l : env) (k v : str) : bool := existsb (fun kv => str_eqb (fst kv) k && str_eqb (snd kv) v) l.
(* 0 not in the child's environment, 1 there with the authority's value, 2 there with the value of the call's `env`, 3 other *)
Definition view_code (e : env) (q : spawn_req) (ce : env) (k : str) : N :=
  match getenv ce k with
  | None => 0
  | Some v => if has_pair (req_env q) k v then 2 else if has_pair e k v then 1 else 3
  end.
Definition enc_child_view (e : env) (names : list str) (q : spawn_req) (ce : option env) : list N :=
  match ce with None => [0] | Some ce => 1 :: map (view_code e q ce) names end.

(* outcome 95: the spawn grid - the report + per spawn what the child saw of every variable;
   outcome 99: only the diagnostic surface was exercised (GET /config/doctor, `rip config doctor`);
   outcome 98: multi-step - a subprocess was spawned, the files were edited, the edited configuration was loaded, a
   subprocess printed its environment: the report after the edit + what the probe saw; 97: the same with NOTHING
   loading the edited configuration before the probe was spawned (control); 96: 98 + the probe was a provider-driven run *)
Definition model_obs (c : case) : list N :=
  let w := case_world c in
  if cs_outcome c =? 99 then enc_report w else
  if cs_outcome c =? 95 then
    enc_report w ++ nlen (cs_spawns c)
      :: flat_map (fun q => enc_child_view (w_env w) (view_names (w_env w) (cs_spawns c)) q
                                           (child_env (reg_after (cs_before c ++ [w])) (w_env w) q)) (cs_spawns c) else
  if cs_outcome c =? 98 then enc_report w ++ enc_visible (tool_env_at (cs_before c ++ [w]) (w_env w)) (w_env w) else
  if cs_outcome c =? 96 then
    (* the probe is a provider-driven run under the edited configuration: the request that opens it carries the key and
       the headers of THAT configuration *)
    enc_report w ++ enc_visible (tool_env_at (cs_before c ++ [w]) (w_env w)) (w_env w)
    ++ enc_first_sent (out_sent (run 40 (outcome_script 6) (cs_thread c) w (lit "prompt") [IUser (lit "prompt")])) true else
  if cs_outcome c =? 97 then enc_report w ++ enc_visible (tool_env_at (cs_before c) (w_env w)) (w_env w) else
  let o := run 40 (outcome_script (cs_outcome c)) (cs_thread c) w (lit "prompt") [IUser (lit "prompt")] in
  let reqs := enc_req_frames (out_session o) in
  let curs := enc_cursors (out_thread o) in
  enc_report w
  ++ enc_first_sent (out_sent o) (negb (cs_outcome c =? 2))
  ++ nlen reqs :: List.concat reqs
  ++ enc_ostr (ended_reason (out_session o))
  ++ nlen curs :: List.concat curs
  ++ nlen (enc_milestones (out_session o)) :: enc_milestones (out_session o).

Definition check_case (c : case) : bool := lN_eqb (model_obs c) (cs_obs c).
