(* C18 — executable model of the store-authority lock protocol.
   Source: crates/ripd/src/local_authority.rs (try_acquire, write_meta/atomic_write_file, Drop, read_*,
   pid_liveness, try_cleanup_stale_authority_files, try_cleanup_corrupt_lock_file), driven by the recovery loops
   of crates/ripd/src/server.rs (acquire_authority_lock_with_recovery + serve) and
   crates/rip-cli/src/local_authority.rs (ensure_local_authority_with_paths).

   Granularity: one model step = one file-system (or environment) operation of one process, exactly the code
   between two `rip_verif` points `auth.*` of local_authority.rs.  No proofs in this file. *)
From RipV Require Import Base.Prelude.

Definition pid := N.

(* authority/lock.json: absent | created but record not yet written (empty / invalid JSON; the creating pid is
   ghost state: it says whose open file descriptor points at this inode) | record of pid *)
Inductive lockf := LAbsent | LHalf (p : pid) | LRec (p : pid).
(* authority/meta.json and authority/meta.tmp *)
Inductive metaf := MAbsent | MRec (p : pid).

Inductive call :=
 | CAcquire | CWriteMeta | CDrop | CStale (d : pid) | CCorrupt
 | CReadLock | CReadMeta | CLockExists | CLive (p : pid).

(* program counter = the next file-system operation the process will perform *)
Inductive pc :=
 | AcqCreate | AcqWrite                        (* try_acquire: create_new(lock) ; write record *)
 | MetaTmp | MetaRemove | MetaRename           (* write_meta: write meta.tmp ; remove meta ; rename tmp->meta *)
 | DropMeta | DropLock                         (* Drop: remove meta ; remove lock *)
 | RdMeta | RdLock | LockExists | Live (p : pid) | Ping (p : pid)
 | LiveM (p : pid) | LockExistsM (p : pid)   (* client, meta.json branch: liveness of the meta pid ; lock.json exists? (else: spawn) *)
   (* reads done by the recovery loops; Ping p = GET <endpoint of meta pid p>/openapi.json *)
 | StExists (d : pid) | StReread (d : pid) | StRename (d : pid) | StRdMeta (d : pid) | StMetaRename (d : pid)
 | CoExists | CoMetaExists | CoRdMeta | CoLive (p : pid) | CoRename   (* corrupt cleanup: exists? ; meta exists? ; [read meta ; liveness of its pid] ; rename *)
 | Serving                                     (* holds the guard, serves; a step = shutdown begins *)
 | Done.

(* result of a finished call, as the loops see it *)
Inductive res :=
 | RAcq (ok : bool) | RMetaW (ok : bool) | RDrop
 | RStale (cleaned : bool) | RCorrupt (cleaned : bool)
 | RLock (l : lockf) | RMeta (m : metaf) | RExists (b : bool) | RLive (p : pid) (alive : bool) | RPing (p : pid) (b : bool)
 | RLiveM (p : pid) (alive : bool) | RExistsM (p : pid) (b : bool).

Inductive driver :=
 | DScript (cs : list call)   (* a fixed sequence of public calls (correspondence only) *)
 | DServer                    (* server.rs: acquire_authority_lock_with_recovery ; write_meta ; serve ; drop *)
 | DClient.                   (* rip-cli: ensure_local_authority_with_paths (never acquires itself) *)

Record proc := {
  p_pid : pid;
  p_alive : bool;
  p_guard : bool;        (* owns an AuthorityLockGuard (try_acquire returned Ok, drop not finished) *)
  p_drv : driver;
  p_pc : pc;
  p_last : N             (* code of the last call result (observation only) *)
}.

Record state := {
  s_lock : lockf;
  s_meta : metaf;
  s_tmp : metaf;
  s_procs : list proc;
  s_took_lock : bool;    (* ghost: some process renamed/removed the lock file of ANOTHER LIVE pid *)
  s_took_meta : bool     (* ghost: same for meta.json *)
}.

(* adversarial environment inputs of one step: bit 0 = endpoint reachable, bit 1 = "lock json invalid for > 1 s",
   bit 2 = the loop's deadline has passed *)
Definition o_reach (o : N) := N.testbit o 0.
Definition o_grace (o : N) := N.testbit o 1.
Definition o_deadline (o : N) := N.testbit o 2.

Inductive event := Step (i : nat) (o : N) | Crash (i : nat).

(* ------------------------------------------------------------------ helpers *)
Definition pid_alive (ps : list proc) (p : pid) : bool :=
  existsb (fun q => (p_pid q =? p) && p_alive q) ps.

Definition lock_pid (l : lockf) : option pid :=
  match l with LAbsent => None | LHalf p => Some p | LRec p => Some p end.
Definition meta_pid (m : metaf) : option pid :=
  match m with MAbsent => None | MRec p => Some p end.

(* taking a file of another live pid *)
Definition takes (ps : list proc) (me : pid) (owner : option pid) : bool :=
  match owner with
  | None => false
  | Some p => negb (p =? me) && pid_alive ps p
  end.

Definition lock_code (l : lockf) : N :=
  match l with LAbsent => 0 | LHalf _ => 1 | LRec p => 2 + p end.
Definition meta_code (m : metaf) : N :=
  match m with MAbsent => 0 | MRec p => 2 + p end.
Definition b2n (b : bool) : N := if b then 1 else 0.
Definition res_code (r : res) : N :=
  match r with
  | RAcq b => b2n b | RMetaW b => b2n b | RDrop => 1
  | RStale b => b2n b | RCorrupt b => b2n b
  | RLock l => lock_code l | RMeta m => meta_code m | RExists b => b2n b
  | RLive _ b => b2n b | RPing _ b => b2n b | RLiveM _ b => b2n b | RExistsM _ b => b2n b
  end.
Definition pc_code (c : pc) : N :=
  match c with
  | Done => 0 | AcqCreate => 1 | AcqWrite => 2 | MetaTmp => 3 | MetaRemove => 4 | MetaRename => 5
  | DropMeta => 6 | DropLock => 7 | RdMeta => 8 | RdLock => 9 | LockExists => 10 | Live _ => 11 | Ping _ => 12
  | StExists _ => 13 | StReread _ => 14 | StRename _ => 15 | StRdMeta _ => 16 | StMetaRename _ => 17
  | CoExists => 18 | CoMetaExists => 19 | CoRename => 20 | Serving => 21 | CoRdMeta => 22 | CoLive _ => 23
  | LiveM _ => 24 | LockExistsM _ => 25
  end.

(* first operation of a call; calls that need the guard are skipped (None) without it *)
Definition call_pc (guard : bool) (c : call) : option pc :=
  match c with
  | CAcquire => Some AcqCreate
  | CWriteMeta => if guard then Some MetaTmp else None
  | CDrop => if guard then Some DropMeta else None
  | CStale d => Some (StExists d)
  | CCorrupt => Some CoExists
  | CReadLock => Some RdLock
  | CReadMeta => Some RdMeta
  | CLockExists => Some LockExists
  | CLive p => Some (Live p)
  end.

Fixpoint script_next (guard : bool) (cs : list call) : list call * pc :=
  match cs with
  | [] => ([], Done)
  | c :: r => match call_pc guard c with
              | Some k => (r, k)
              | None => script_next guard r
              end
  end.

(* `assume_grace`: the 1 s timer of the loops is long enough — "invalid for > 1 s" is only ever observed on a
   half-written lock whose creator is dead.  With assume_grace = false the timer answer is fully adversarial. *)
Definition grace_fires (assume_grace : bool) (ps : list proc) (o : N) (creator : pid) : bool :=
  o_grace o && (negb assume_grace || negb (pid_alive ps creator)).

(* server.rs:289-377 then serve(): what the loop does with the result of the call that just returned *)
Definition server_next (ag : bool) (ps : list proc) (o : N) (r : res) : pc :=
  match r with
  | RAcq true => MetaTmp                                   (* lock.write_meta(endpoint) *)
  | RAcq false => RdMeta
  | RMeta MAbsent => RdLock                                (* endpoint_reachable = false without meta *)
  | RMeta (MRec p) => Ping p
  | RPing _ true => Done                                   (* "store already has an authority" *)
  | RPing _ false => RdLock
  | RLock (LRec p) => Live p
  | RLock LAbsent => if o_deadline o then Done else AcqCreate
  | RLock (LHalf c) => if grace_fires ag ps o c then CoExists
                       else if o_deadline o then Done else AcqCreate
  | RLive p false => StExists p
  | RLive _ true => Done                                   (* return Err(err) *)
  | RStale true => AcqCreate                               (* continue *)
  | RStale false => Done
  | RCorrupt true => AcqCreate
  | RCorrupt false => if o_deadline o then Done else AcqCreate
  | RMetaW true => Serving
  | RMetaW false => DropMeta                               (* panic!: the guard is dropped while unwinding *)
  | RDrop => Done
  | RExists _ => Done
  | RLiveM _ _ => Done
  | RExistsM _ _ => Done
  end.

(* rip-cli/src/local_authority.rs:34-198 *)
Definition client_next (ag : bool) (ps : list proc) (o : N) (r : res) : pc :=
  let again := if o_deadline o then Done else RdMeta in
  match r with
  | RMeta (MRec p) => Ping p
  | RMeta MAbsent => LockExists
  | RPing _ true => Done                                   (* Ok(endpoint) *)
  | RPing p false => LiveM p
  | RLiveM p false => LockExistsM p                        (* fix S24: no lock.json next to a dead meta.json: spawn *)
  | RLiveM _ true => again
  | RExistsM p true => StExists p
  | RExistsM _ false => again                              (* spawn_local_authority, continue *)
  | RExists true => RdLock
  | RExists false => again                                 (* spawn_local_authority: another process, see DServer *)
  | RLock (LRec p) => Live p
  | RLock LAbsent => again
  | RLock (LHalf c) => if grace_fires ag ps o c then CoExists else again
  | RLive p false => StExists p
  | RLive _ true => again
  | RStale true => RdMeta
  | RStale false => again
  | RCorrupt true => RdMeta
  | RCorrupt false => again
  | _ => Done
  end.

(* the process' own view after a call returned [r] *)
Definition ret (ag : bool) (ps : list proc) (o : N) (q : proc) (guard : bool) (r : res) : proc :=
  match p_drv q with
  | DScript cs =>
      let '(cs', k) := script_next guard cs in
      {| p_pid := p_pid q; p_alive := p_alive q; p_guard := guard; p_drv := DScript cs'; p_pc := k; p_last := res_code r |}
  | DServer =>
      {| p_pid := p_pid q; p_alive := p_alive q; p_guard := guard; p_drv := DServer;
         p_pc := server_next ag ps o r; p_last := res_code r |}
  | DClient =>
      {| p_pid := p_pid q; p_alive := p_alive q; p_guard := guard; p_drv := DClient;
         p_pc := client_next ag ps o r; p_last := res_code r |}
  end.

Definition goto (q : proc) (k : pc) : proc :=
  {| p_pid := p_pid q; p_alive := p_alive q; p_guard := p_guard q; p_drv := p_drv q; p_pc := k; p_last := p_last q |}.

Definition set_files (s : state) (l : lockf) (m t : metaf) (tl tm : bool) : state :=
  {| s_lock := l; s_meta := m; s_tmp := t; s_procs := s_procs s;
     s_took_lock := s_took_lock s || tl; s_took_meta := s_took_meta s || tm |}.

(* ------------------------------------------------------------------ one operation of process q *)
(* returns the new files (as a state with the OLD process list) and q's new record *)
Definition micro (ag : bool) (s : state) (o : N) (q : proc) : state * proc :=
  let ps := s_procs s in
  let me := p_pid q in
  let l := s_lock s in let m := s_meta s in let t := s_tmp s in
  let R := ret ag ps o q in
  match p_pc q with
  | AcqCreate =>
      match l with
      | LAbsent => (set_files s (LHalf me) m t false false, goto q AcqWrite)
      | _ => (s, R (p_guard q) (RAcq false))
      end
  | AcqWrite =>
      (* the record goes into the inode this process created, wherever it is now *)
      let l' := match l with LHalf c => if c =? me then LRec me else l | _ => l end in
      (set_files s l' m t false false, R true (RAcq true))
  | MetaTmp => (set_files s l m (MRec me) false false, goto q MetaRemove)
  | MetaRemove => (set_files s l MAbsent t false (takes ps me (meta_pid m)), goto q MetaRename)
  | MetaRename =>
      match t with
      | MAbsent => (s, R (p_guard q) (RMetaW false))
      | MRec _ => (set_files s l t MAbsent false (takes ps me (meta_pid m)), R (p_guard q) (RMetaW true))
      end
  | DropMeta => (set_files s l MAbsent t false (takes ps me (meta_pid m)), goto q DropLock)
  | DropLock => (set_files s LAbsent m t (takes ps me (lock_pid l)) false, R false RDrop)
  | RdMeta => (s, R (p_guard q) (RMeta m))
  | RdLock => (s, R (p_guard q) (RLock l))
  | LockExists => (s, R (p_guard q) (RExists (match l with LAbsent => false | _ => true end)))
  | Live p => (s, R (p_guard q) (RLive p (pid_alive ps p)))
  | Ping p => (s, R (p_guard q) (RPing p (o_reach o)))
  | LiveM p => (s, R (p_guard q) (RLiveM p (pid_alive ps p)))
  | LockExistsM p => (s, R (p_guard q) (RExistsM p (match l with LAbsent => false | _ => true end)))
  | StExists d =>
      match l with
      | LAbsent => (s, R (p_guard q) (RStale false))
      | _ => (s, goto q (StReread d))
      end
  | StReread d =>
      match l with
      | LRec p => if p =? d then (s, goto q (StRename d)) else (s, R (p_guard q) (RStale false))
      | _ => (s, R (p_guard q) (RStale false))
      end
  | StRename d =>
      match l with
      | LAbsent => (s, R (p_guard q) (RStale false))
      | _ => (set_files s LAbsent m t (takes ps me (lock_pid l)) false, goto q (StRdMeta d))
      end
  | StRdMeta d =>
      match m with
      | MRec p => if p =? d then (s, goto q (StMetaRename d)) else (s, R (p_guard q) (RStale true))
      | MAbsent => (s, R (p_guard q) (RStale true))
      end
  | StMetaRename d =>
      (set_files s l MAbsent t false (takes ps me (meta_pid m)), R (p_guard q) (RStale true))
  | CoExists =>
      match l with
      | LAbsent => (s, R (p_guard q) (RCorrupt false))
      | _ => (s, goto q CoMetaExists)
      end
  | CoMetaExists =>
      match m with
      | MAbsent => (s, goto q CoRename)
      | MRec _ => (s, goto q CoRdMeta)
      end
  | CoRdMeta =>
      (* a meta.json protects the unreadable lock only while the pid in it may be alive (fix of the wedge S23) *)
      match m with
      | MRec p => (s, goto q (CoLive p))
      | MAbsent => (s, R (p_guard q) (RCorrupt false))
      end
  | CoLive p =>
      if pid_alive ps p then (s, R (p_guard q) (RCorrupt false)) else (s, goto q CoRename)
  | CoRename =>
      match l with
      | LAbsent => (s, R (p_guard q) (RCorrupt false))
      | _ => (set_files s LAbsent m t (takes ps me (lock_pid l)) false, R (p_guard q) (RCorrupt true))
      end
  | Serving => (s, goto q DropMeta)
  | Done => (s, q)
  end.

Fixpoint upd {A} (l : list A) (i : nat) (x : A) : list A :=
  match l, i with
  | [], _ => []
  | _ :: r, O => x :: r
  | y :: r, S j => y :: upd r j x
  end.

Definition with_procs (s : state) (ps : list proc) : state :=
  {| s_lock := s_lock s; s_meta := s_meta s; s_tmp := s_tmp s; s_procs := ps;
     s_took_lock := s_took_lock s; s_took_meta := s_took_meta s |}.

Definition kill (q : proc) : proc :=
  {| p_pid := p_pid q; p_alive := false; p_guard := p_guard q; p_drv := p_drv q; p_pc := p_pc q; p_last := p_last q |}.

Definition step (ag : bool) (s : state) (e : event) : state :=
  match e with
  | Step i o =>
      match nth_error (s_procs s) i with
      | Some q => if p_alive q
                  then let '(s', q') := micro ag s o q in with_procs s' (upd (s_procs s) i q')
                  else s
      | None => s
      end
  | Crash i =>
      match nth_error (s_procs s) i with
      | Some q => with_procs s (upd (s_procs s) i (kill q))
      | None => s
      end
  end.

Definition run (ag : bool) (s : state) (es : list event) : state := fold_left (step ag) es s.

(* ------------------------------------------------------------------ what the property talks about *)
Definition is_holder (q : proc) : bool := p_alive q && p_guard q.
Definition holders (s : state) : list pid := map p_pid (filter is_holder (s_procs s)).

(* ------------------------------------------------------------------ initial states *)
(* a process that has not started yet *)
Definition start_pc (d : driver) : list call * pc :=
  match d with
  | DScript cs => script_next false cs
  | DServer => ([], AcqCreate)
  | DClient => ([], RdMeta)
  end.
Definition fresh (p : pid) (d : driver) : proc :=
  let '(cs, k) := start_pc d in
  {| p_pid := p; p_alive := true; p_guard := false;
     p_drv := match d with DScript _ => DScript cs | _ => d end; p_pc := k; p_last := 0 |}.
(* a running authority that is not a contender (leftover "files of a live pid") *)
Definition serving (p : pid) : proc :=
  {| p_pid := p; p_alive := true; p_guard := true; p_drv := DScript []; p_pc := Serving; p_last := 0 |}.

Definition init (l : lockf) (m : metaf) (ps : list proc) : state :=
  {| s_lock := l; s_meta := m; s_tmp := MAbsent; s_procs := ps; s_took_lock := false; s_took_meta := false |}.

(* ------------------------------------------------------------------ correspondence (T2) *)
Definition obs_proc (q : proc) : list N := [pc_code (p_pc q); b2n (p_guard q); p_last q; b2n (p_alive q)].
Definition obs_state (s : state) : list N :=
  [lock_code (s_lock s); meta_code (s_meta s); meta_code (s_tmp s)] ++ flat_map obs_proc (s_procs s).

Fixpoint obs_run (ag : bool) (s : state) (es : list event) : list N :=
  match es with
  | [] => []
  | e :: r => let s' := step ag s e in obs_state s' ++ obs_run ag s' r
  end.

Record case := {
  c_ag : bool;
  c_lock : lockf; c_meta : metaf;
  c_procs : list proc;
  c_events : list event;
  c_expect : list N
}.

Definition model_obs (c : case) : list N :=
  let s0 := init (c_lock c) (c_meta c) (c_procs c) in
  let sN := run (c_ag c) s0 (c_events c) in
  obs_state s0 ++ obs_run (c_ag c) s0 (c_events c) ++ [b2n (s_took_lock sN); b2n (s_took_meta sN)].

Definition check_case (c : case) : bool := lN_eqb (model_obs c) (c_expect c).
