(* C18 — the corrupt-lock grace timer of the two recovery loops, and the client attach loop as a sequential machine
   over its polls.
   Source: crates/rip-cli/src/local_authority.rs ensure_local_authority_with_paths (variables lock_invalid_since,
   last_spawned_at, deadline; one poll = one iteration of its `loop`), crates/ripd/src/server.rs
   acquire_authority_lock_with_recovery (variable lock_invalid_since).

   Model/Authority.v treats "lock json invalid for > 1 s" as an adversarial bit constrained by `assume_grace`.  This file
   models where that bit comes from: the loop remembers WHEN it first saw the lock unreadable (`lock_invalid_since`) and
   forgets it again at the statements `lock_invalid_since = None;` — which of them exist is the step table `gtable`, read
   from the source by tools/gen/auth_steps.py on every run (Gen/AuthSteps.v: gen_client_grace / gen_server_grace).
   The clock is an INPUT (the `now` of every poll), as in the harness, which runs the real client loop on a scripted
   clock (rip_verif driver RIP_VERIF_ENSURE).  No proofs in this file. *)
From RipV Require Import Base.Prelude.
From RipV Require Export Model.Authority.

(* ------------------------------------------------------------------ the timer *)
(* what one poll sees at the lock path (after the meta.json test) *)
Inductive seen :=
 | SMeta        (* client only: a meta.json exists, the lock is not looked at *)
 | SAbsent      (* no lock.json *)
 | SVanished    (* Ok(None): it existed a moment ago and cannot be opened now *)
 | SReadable    (* Ok(Some(record)) *)
 | SInvalid.    (* Err("lock json invalid ...") : empty / half-written *)

Record gtable := {
  g_reset_meta : bool;       (* `lock_invalid_since = None;` when a meta.json is seen (client) *)
  g_reset_readable : bool;   (* ... in the "lock readable" arm *)
  g_reset_absent : bool;     (* ... when there is no lock.json *)
  g_reset_vanished : bool;   (* ... in the Ok(None) arm *)
  g_reset_cleaned : bool;    (* ... after a corrupt cleanup that returned true *)
  g_grace_ms : N;            (* Duration::from_secs(1) *)
  g_strict : bool            (* `since.elapsed() > grace` (true) / `>=` (false) *)
}.

Definition resets (g : gtable) (s : seen) : bool :=
  match s with
  | SMeta => g_reset_meta g | SAbsent => g_reset_absent g | SVanished => g_reset_vanished g
  | SReadable => g_reset_readable g | SInvalid => false
  end.

Definition expired (g : gtable) (elapsed : N) : bool :=
  if g_strict g then g_grace_ms g <? elapsed else g_grace_ms g <=? elapsed.

(* one poll: (lock_invalid_since afterwards, "call try_cleanup_corrupt_lock_file now") *)
Definition timer (g : gtable) (since : option N) (now : N) (s : seen) : option N * bool :=
  match s with
  | SInvalid =>
      let t := match since with Some t => t | None => now end in   (* get_or_insert(Instant::now()) *)
      (Some t, expired g (now - t))
  | _ => ((if resets g s then None else since), false)
  end.
Definition after_cleanup (g : gtable) (since : option N) (fired cleaned : bool) : option N :=
  if fired && cleaned && g_reset_cleaned g then None else since.

(* an observation stream: clock, what was seen, ghost identity of the lock instance seen (the inode), and what the
   cleanup answered if it was called *)
Record tobs := { t_now : N; t_seen : seen; t_inst : N; t_cleaned : bool }.

Fixpoint timer_run (g : gtable) (since : option N) (obs : list tobs) : list bool * option N :=
  match obs with
  | [] => ([], since)
  | o :: r =>
      let '(s1, f) := timer g since (t_now o) (t_seen o) in
      let '(fs, fin) := timer_run g (after_cleanup g s1 f (t_cleaned o)) r in
      (f :: fs, fin)
  end.

(* the table both loops are expected to have (every arm that proves the lock at the path is not the unreadable one seen
   before forgets the timer) *)
Definition full_table : gtable :=
  {| g_reset_meta := true; g_reset_readable := true; g_reset_absent := true; g_reset_vanished := true;
     g_reset_cleaned := true; g_grace_ms := 1000; g_strict := true |}.
(* the server loop never branches on "meta.json seen" *)
Definition table_wf_client (g : gtable) : bool :=
  g_reset_meta g && g_reset_readable g && g_reset_absent g && g_reset_vanished g && g_reset_cleaned g.
Definition table_wf_server (g : gtable) : bool :=
  g_reset_readable g && g_reset_absent g && g_reset_vanished g && g_reset_cleaned g.

(* ------------------------------------------------------------------ the client loop, poll by poll *)
(* the file at the lock path: instance (ghost), the pid that created it, record written or not *)
Record lfile := { lf_inst : N; lf_owner : pid; lf_written : bool }.

(* environment of one poll: the clock when the iteration starts, the two files, the ping answer, and whether the lock is
   removed (by somebody else) between the loop's exists() test and its read *)
Record pollin := { pi_now : N; pi_lock : option lfile; pi_meta : metaf; pi_reach : bool; pi_vanish : bool }.

Record cstate := { cs_since : option N; cs_spawned : option N }.
Definition cstate0 : cstate := {| cs_since := None; cs_spawned := None |}.

Inductive act :=
 | ANone | AOk | AStale (key : pid) (cleaned : bool) | ACorrupt (cleaned : bool) | ASpawn.
Definition act_code (a : act) : N :=
  match a with ANone => 0 | AOk => 1 | AStale _ c => 3 + b2n c | ACorrupt c => 5 + b2n c | ASpawn => 7 end.

Definition cooldown_ms : N := 500.
Definition deadline_ms : N := 8000.

(* try_cleanup_stale_authority_files(key) run without interference: (cleaned, lock after, meta after) *)
Definition stale_effect (key : pid) (l : option lfile) (m : metaf) : bool * option lfile * metaf :=
  match l with
  | Some f => if lf_written f && (lf_owner f =? key)
              then (true, None, match m with MRec p => if p =? key then MAbsent else m | MAbsent => m end)
              else (false, l, m)
  | None => (false, l, m)
  end.
(* try_cleanup_corrupt_lock_file run without interference *)
Definition corrupt_effect (live : pid -> bool) (l : option lfile) (m : metaf) : bool * option lfile :=
  match l with
  | Some _ => match m with
              | MAbsent => (true, None)
              | MRec p => if live p then (false, l) else (true, None)
              end
  | None => (false, l)
  end.

Definition may_spawn (st : cstate) (now : N) : bool :=
  match cs_spawned st with Some t => cooldown_ms <? now - t | None => true end.

Definition lcode (l : option lfile) : N :=
  match l with None => 0 | Some f => if lf_written f then 2 + lf_owner f else 1 end.

(* what the poll sees at the lock path *)
Definition poll_seen (p : pollin) : seen :=
  match pi_meta p with
  | MRec _ => SMeta
  | MAbsent => match pi_lock p with
               | None => SAbsent
               | Some f => if pi_vanish p then SVanished else if lf_written f then SReadable else SInvalid
               end
  end.

Record pollout := { po_state : cstate; po_act : act; po_timeout : bool; po_lock : option lfile; po_meta : metaf }.

(* one iteration of the `loop` of ensure_local_authority_with_paths *)
Definition client_poll (g : gtable) (live : pid -> bool) (st : cstate) (p : pollin) : pollout :=
  let now := pi_now p in
  let '(s1, fire) := timer g (cs_since st) now (poll_seen p) in
  let l0 := if match poll_seen p with SVanished => true | _ => false end then None else pi_lock p in
  let fin (since : option N) (spawned : option N) (a : act) (continued : bool) (l : option lfile) (m : metaf) :=
    {| po_state := {| cs_since := since; cs_spawned := spawned |}; po_act := a;
       po_timeout := negb continued && (deadline_ms <=? now); po_lock := l; po_meta := m |} in
  let spawn (since : option N) :=
    if may_spawn st now then fin since (Some now) ASpawn true l0 (pi_meta p)
    else fin since (cs_spawned st) ANone false l0 (pi_meta p) in
  match pi_meta p with
  | MRec mp =>
      if pi_reach p then fin s1 (cs_spawned st) AOk true l0 (pi_meta p)
      else if live mp then fin s1 (cs_spawned st) ANone false l0 (pi_meta p)
      else match pi_lock p with
           | Some _ => let '(c, l', m') := stale_effect mp (pi_lock p) (pi_meta p) in
                       fin s1 (cs_spawned st) (AStale mp c) c l' m'
           | None => spawn s1
           end
  | MAbsent =>
      match poll_seen p with
      | SAbsent => spawn s1
      | SReadable =>
          match pi_lock p with
          | Some f => if live (lf_owner f) then fin s1 (cs_spawned st) ANone false l0 MAbsent
                      else let '(c, l', m') := stale_effect (lf_owner f) (pi_lock p) MAbsent in
                           fin s1 (cs_spawned st) (AStale (lf_owner f) c) c l' m'
          | None => fin s1 (cs_spawned st) ANone false l0 MAbsent
          end
      | SInvalid =>
          if fire then
            let '(c, l') := corrupt_effect live (pi_lock p) MAbsent in
            fin (after_cleanup g s1 true c) (cs_spawned st) (ACorrupt c) c l' MAbsent
          else fin s1 (cs_spawned st) ANone false l0 MAbsent
      | _ => fin s1 (cs_spawned st) ANone false l0 MAbsent
      end
  end.

Definition terminal (o : pollout) : bool :=
  po_timeout o || match po_act o with AOk => true | _ => false end.

(* every poll of the list, whether the loop would have returned or not (the proofs talk about this one) *)
Fixpoint client_all (g : gtable) (live : pid -> bool) (st : cstate) (ps : list pollin) : list pollout :=
  match ps with
  | [] => []
  | p :: r => let o := client_poll g live st p in o :: client_all g live (po_state o) r
  end.
(* the loop: stops when it returns *)
Fixpoint client_run (g : gtable) (live : pid -> bool) (st : cstate) (ps : list pollin) : list pollout :=
  match ps with
  | [] => []
  | p :: r => let o := client_poll g live st p in
              o :: (if terminal o then [] else client_run g live (po_state o) r)
  end.

(* the observation stream of the timer inside a client run *)
Definition poll_tobs (live : pid -> bool) (p : pollin) : tobs :=
  {| t_now := pi_now p; t_seen := poll_seen p;
     t_inst := match pi_lock p with Some f => lf_inst f | None => 0 end;
     t_cleaned := fst (corrupt_effect live (pi_lock p) (pi_meta p)) |}.

(* ------------------------------------------------------------------ correspondence (T2) *)
Definition obs_poll (o : pollout) : list N :=
  [act_code (po_act o); b2n (po_timeout o); lcode (po_lock o); meta_code (po_meta o)].

Record case := {
  c_table : gtable;
  c_live : list pid;
  c_polls : list pollin;
  c_expect : list N
}.
Definition live_of (l : list pid) (p : pid) : bool := existsb (N.eqb p) l.
Definition model_obs (c : case) : list N :=
  flat_map obs_poll (client_run (c_table c) (live_of (c_live c)) cstate0 (c_polls c)).
Definition check_case (c : case) : bool := lN_eqb (model_obs c) (c_expect c).
