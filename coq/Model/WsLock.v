(* C11 — workspace lock: one-permit semaphore LTS shared by sessions and background tasks.

   Anchors: crates/ripd/src/workspace_lock.rs (WorkspaceLock = tokio Semaphore(1),
   requires_workspace_lock), session.rs (envelope tool site, checkpoint site, agent-loop site),
   tasks/mod.rs run_task.

   The model is parameterised by a configuration [cfg] that is REGENERATED from the source on every
   run (Gen/LockSpans.v, tools/gen/lockspan.py): the list of lock-free tool names (the `matches!`
   list), the registered tool names/aliases and, for every call site, the order of its operations
   (guard acquire / tool run / emit / append_tool_side_effects / guard scope end).  An actor is
   compiled from its description to a list of micro-instructions; the LTS interleaves actors under
   an arbitrary schedule.  No proofs in this file. *)
From RipV Require Import Base.Prelude.

(* ------------------------------------------------------------------ source-level spans *)
Inductive op := OAcquire | ORun | OEmit | OAppend | ORelease | OSpawned.

Definition op_eqb (a b : op) : bool :=
  match a, b with
  | OAcquire, OAcquire | ORun, ORun | OEmit, OEmit | OAppend, OAppend
  | ORelease, ORelease | OSpawned, OSpawned => true
  | _, _ => false
  end.

Definition str := list N.
Definition str_eqb (a b : str) : bool := lN_eqb a b.

Record cfg := {
  permits : N;                (* Semaphore::new(n) in WorkspaceLock::new *)
  shared_lock : bool;         (* SessionEngine::new creates ONE lock and hands it to sessions and TaskEngine *)
  stray_sites : N;            (* tool / checkpoint / task run call sites outside the analysed spans *)
  abandon_kills : bool;       (* the shell tool spawns its command with kill_on_drop(true): a call abandoned
                                 by the runner's timeout does not leave its command running (S28) *)
  class_default_lock : bool;  (* what requires_workspace_lock answers for a name it does not list *)
  class_listed : list str;    (* the names it lists (they get the opposite answer): a deny list
                                 `!matches!(name, ..)` has default true, an allow list default false *)
  registered : list str;      (* names + aliases registered in rip-tools builtins *)
  aliases : list (str * str); (* register_alias(alias, target) *)
  span_tool : list op;        (* session.rs envelope tool, locked branch *)
  span_ro : list op;          (* session.rs envelope tool, lock-free branch *)
  span_loop_tool : list op;   (* agent loop, locked branch *)
  span_loop_ro : list op;     (* agent loop, lock-free branch *)
  span_ckpt : list op;        (* checkpoint create / rewind envelope *)
  span_task : list op         (* tasks/mod.rs run_task *)
}.

Definition requires_lock (c : cfg) (name : str) : bool :=
  if existsb (str_eqb name) (class_listed c) then negb (class_default_lock c) else class_default_lock c.

(* The classification the property text fixes (mutating: write, apply_patch, bash, shell tasks;
   read-only: read, ls, grep, artifact_fetch), as code points. *)
Definition s_read : str := [114; 101; 97; 100].
Definition s_ls : str := [108; 115].
Definition s_grep : str := [103; 114; 101; 112].
Definition s_artifact_fetch : str := [97; 114; 116; 105; 102; 97; 99; 116; 95; 102; 101; 116; 99; 104].
Definition s_write : str := [119; 114; 105; 116; 101].
Definition s_apply_patch : str := [97; 112; 112; 108; 121; 95; 112; 97; 116; 99; 104].
Definition s_bash : str := [98; 97; 115; 104].
Definition s_shell : str := [115; 104; 101; 108; 108].

Definition spec_readonly : list str := [s_read; s_ls; s_grep; s_artifact_fetch].
Definition spec_mutating : list str := [s_write; s_apply_patch; s_bash; s_shell].

Definition mem (x : str) (l : list str) : bool := existsb (str_eqb x) l.

(* every registered tool name AND alias is classified by the property text, and the code's
   classification (made on the name as the caller gives it, before the registry resolves aliases)
   agrees; an alias is classified like its target; with a deny list nothing outside the read-only
   list is lock-free *)
Definition wf_classes (c : cfg) : bool :=
  forallb (fun n => mem n spec_readonly || mem n spec_mutating) (registered c)
  && forallb (fun n => Bool.eqb (requires_lock c n) (mem n spec_mutating)) (registered c)
  && (if class_default_lock c then forallb (fun n => mem n spec_readonly) (class_listed c) else true)
  && forallb (fun n => mem n (registered c)) spec_mutating
  && forallb (fun n => mem n (registered c)) spec_readonly
  && forallb (fun a => Bool.eqb (requires_lock c (fst a)) (requires_lock c (snd a))
                       && mem (fst a) (registered c) && mem (snd a) (registered c)) (aliases c).

Fixpoint count_op (o : op) (s : list op) : nat :=
  match s with [] => 0 | x :: r => (if op_eqb o x then 1 else 0) + count_op o r end.

Fixpoint before_op (a b : op) (s : list op) : bool :=   (* first a occurs before first b *)
  match s with
  | [] => false
  | x :: r => if op_eqb x a then existsb (op_eqb b) r
              else if op_eqb x b then false else before_op a b r
  end.

Definition last_op (s : list op) : option op := last (map Some s) None.

(* a locked span: [Spawned]; Acquire first, Release last (the guard's scope end), exactly one of
   each, exactly one Run; Append (if any, at most one) after Run *)
Definition strip_spawned (s : list op) : list op :=
  match s with OSpawned :: r => r | _ => s end.

Definition wf_locked_span (need_append : bool) (s0 : list op) : bool :=
  let s := strip_spawned s0 in
  match s with
  | OAcquire :: _ =>
      match last_op s with
      | Some ORelease =>
          Nat.eqb (count_op OAcquire s) 1 && Nat.eqb (count_op ORelease s) 1
          && Nat.eqb (count_op ORun s) 1 && Nat.eqb (count_op OSpawned s) 0
          && Nat.leb (count_op OEmit s) 1
          && (if need_append
              then Nat.eqb (count_op OAppend s) 1 && before_op ORun OAppend s
              else Nat.eqb (count_op OAppend s) 0)
      | _ => false
      end
  | _ => false
  end.

(* a lock-free span: no Acquire / Release / Append, exactly one Run *)
Definition wf_ro_span (s : list op) : bool :=
  Nat.eqb (count_op OAcquire s) 0 && Nat.eqb (count_op ORelease s) 0
  && Nat.eqb (count_op OAppend s) 0 && Nat.eqb (count_op OSpawned s) 0
  && Nat.eqb (count_op ORun s) 1 && Nat.leb (count_op OEmit s) 1.

(* the actor discipline at the level of spans (call-index free; used by the proofs): with
   l = attached to a thread, m = under the lock, a = a side-effects append follows the run *)
Inductive dsh := SOut | SIn | SOpen | SPend.

Definition sstep (l m a : bool) (s : dsh) (o : op) : option dsh :=
  match o with
  | OAcquire => match s with SOut => Some SIn | _ => None end
  | ORelease => match s with SIn => Some SOut | _ => None end
  | ORun => if m then match s with SIn => Some (if a then SPend else SIn) | _ => None end
            else if a then None else Some s
  | OEmit => Some s
  | OAppend => if l then match s with SPend => Some SIn | _ => None end else Some s
  | OSpawned => Some s
  end.

Fixpoint srun (l m a : bool) (s : dsh) (ops : list op) : option dsh :=
  match ops with
  | [] => Some s
  | o :: r => match sstep l m a s o with Some s' => srun l m a s' r | None => None end
  end.

Definition has_append (s : list op) : bool := existsb (op_eqb OAppend) s.

Definition span_accepts (l m : bool) (s : list op) : bool :=
  match srun l m (l && has_append s) SOut s with Some SOut => true | _ => false end.

Definition wf_spans (c : cfg) : bool :=
  wf_locked_span true (span_tool c) && wf_locked_span true (span_loop_tool c)
  && wf_locked_span false (span_ckpt c) && wf_locked_span false (span_task c)
  && wf_ro_span (span_ro c) && wf_ro_span (span_loop_ro c)
  && span_accepts true true (span_tool c) && span_accepts false true (span_tool c)
  && span_accepts true true (span_loop_tool c) && span_accepts false true (span_loop_tool c)
  && span_accepts true false (span_ro c) && span_accepts false false (span_ro c)
  && span_accepts true false (span_loop_ro c) && span_accepts false false (span_loop_ro c)
  && span_accepts false true (span_ckpt c) && span_accepts false true (span_task c).

Definition wf_cfg (c : cfg) : bool :=
  N.eqb (permits c) 1 && shared_lock c && N.eqb (stray_sites c) 0 && abandon_kills c
  && wf_classes c && wf_spans c.

(* ------------------------------------------------------------------ micro-instructions *)
Inductive instr :=
| IAcq                                   (* workspace_lock.acquire().await returns *)
| IRel                                   (* guard dropped (scope end) *)
| IStart (k : N) (m : bool)              (* call k starts executing; m = under the lock (mutating) *)
| IEnd (k : N) (m : bool) (a : bool)     (* call k finished; a = a side-effects append follows *)
| IEmit (k : N)                          (* tool frames of call k emitted *)
| IApp (k : N)                           (* continuity_tool_side_effects frame appended to the thread *)
| ISpawn                                 (* tool_task_spawned emitted *)
| IRunEnded.                             (* session ended / continuity_run_ended appended *)

Definition compile_op (linked : bool) (k : N) (m : bool) (a : bool) (o : op) : list instr :=
  match o with
  | OAcquire => [IAcq]
  | ORelease => [IRel]
  | ORun => [IStart k m; IEnd k m a]
  | OEmit => [IEmit k]
  | OAppend => if linked then [IApp k] else []
  | OSpawned => [ISpawn]
  end.

Definition compile_span (linked : bool) (k : N) (m : bool) (s : list op) : list instr :=
  flat_map (compile_op linked k m (linked && has_append s)) s.

(* ------------------------------------------------------------------ actor descriptions *)
Inductive akind :=
| AEnv (name : str) (linked : bool)            (* session with a tool-envelope input *)
| ALoop (names : list str) (linked : bool)     (* provider-driven session: a sequence of tool calls *)
| ACkpt (linked : bool)                        (* checkpoint create / rewind envelope *)
| ATask.                                       (* background shell task *)

Fixpoint compile_calls (c : cfg) (linked : bool) (k : N) (names : list str) : list instr :=
  match names with
  | [] => []
  | n :: r =>
      (if requires_lock c n then compile_span linked k true (span_loop_tool c)
       else compile_span linked k false (span_loop_ro c))
      ++ compile_calls c linked (k + 1) r
  end.

Definition compile_actor (c : cfg) (a : akind) : list instr :=
  match a with
  | AEnv n l =>
      (if requires_lock c n then compile_span l 0 true (span_tool c)
       else compile_span l 0 false (span_ro c)) ++ [IRunEnded]
  | ALoop ns l => compile_calls c l 0 ns ++ [IRunEnded]
  | ACkpt l => compile_span false 0 true (span_ckpt c) ++ [IRunEnded]
  | ATask => compile_span false 0 true (span_task c)
  end.

(* ------------------------------------------------------------------ the LTS *)
Definition event := (nat * instr)%type.

Record state := {
  holder : option nat;                 (* who holds the single permit *)
  code : nat -> list instr;            (* remaining code per actor *)
  trace : list event                   (* newest first *)
}.

Definition enabled (h : option nat) (ins : instr) : bool :=
  match ins with
  | IAcq => match h with None => true | Some _ => false end
  | _ => true
  end.

Definition upd_holder (h : option nat) (i : nat) (ins : instr) : option nat :=
  match ins with
  | IAcq => Some i
  | IRel => match h with Some j => if Nat.eqb j i then None else h | None => None end
  | _ => h
  end.

Definition set_code (f : nat -> list instr) (i : nat) (r : list instr) : nat -> list instr :=
  fun j => if Nat.eqb j i then r else f j.

Definition step (st : state) (i : nat) : state :=
  match code st i with
  | [] => st
  | ins :: rest =>
      if enabled (holder st) ins
      then {| holder := upd_holder (holder st) i ins;
              code := set_code (code st) i rest;
              trace := (i, ins) :: trace st |}
      else st
  end.

Definition init (f : nat -> list instr) : state := {| holder := None; code := f; trace := [] |}.

Definition run (f : nat -> list instr) (sched : list nat) : state := fold_left step sched (init f).

(* ------------------------------------------------------------------ the actor discipline *)
(* What every compiled actor satisfies (proved from wf_cfg): the automaton below accepts its code. *)
Inductive dstate := DOut | DIn | DOpen (k : N) | DPend (k : N).

Definition dstep (d : dstate) (ins : instr) : option dstate :=
  match ins, d with
  | IAcq, DOut => Some DIn
  | IRel, DIn => Some DOut
  | IStart k true, DIn => Some (DOpen k)
  | IEnd k true a, DOpen k' => if N.eqb k k' then Some (if a then DPend k else DIn) else None
  | IApp k, DPend k' => if N.eqb k k' then Some DIn else None
  | IStart _ false, _ => Some d
  | IEnd _ false false, _ => Some d
  | IEmit _, _ => Some d
  | ISpawn, _ => Some d
  | IRunEnded, DOut => Some DOut
  | _, _ => None
  end.

Fixpoint daccept (d : dstate) (l : list instr) : bool :=
  match l with
  | [] => match d with DOut => true | _ => false end
  | ins :: r => match dstep d ins with Some d' => daccept d' r | None => false end
  end.

Definition wf_sys (f : nat -> list instr) : Prop := forall i, daccept DOut (f i) = true.

Fixpoint drun (d : dstate) (l : list instr) : option dstate :=
  match l with
  | [] => Some d
  | ins :: r => match dstep d ins with Some d' => drun d' r | None => None end
  end.

Definition lift (k : N) (s : dsh) : dstate :=
  match s with SOut => DOut | SIn => DIn | SOpen => DOpen k | SPend => DPend k end.

(* the configuration as read from the source when this model was written (examples only; the
   check uses the regenerated Gen.LockSpans.gen_cfg) *)
Definition ref_cfg : cfg := {|
  permits := 1; shared_lock := true; stray_sites := 0; abandon_kills := true;
  class_default_lock := true;
  class_listed := [s_read; s_ls; s_grep; s_artifact_fetch];
  registered := [s_read; s_artifact_fetch; s_write; s_apply_patch; s_ls; s_grep; s_bash; s_shell];
  aliases := [(s_shell, s_bash)];
  span_tool := [OAcquire; ORun; OEmit; OAppend; ORelease];
  span_ro := [ORun; OEmit];
  span_loop_tool := [OAcquire; ORun; OEmit; OAppend; ORelease];
  span_loop_ro := [ORun; OEmit];
  span_ckpt := [OAcquire; ORun; OEmit; ORelease];
  span_task := [OSpawned; OAcquire; ORun; ORelease]
|}.

(* ------------------------------------------------------------------ observations on traces *)
(* actor i is between Start and End of a mutating call (trace newest first) *)
Fixpoint is_open (tr : list event) (i : nat) : bool :=
  match tr with
  | [] => false
  | (j, ins) :: r =>
      if Nat.eqb j i then
        match ins with
        | IStart _ true => true
        | IEnd _ true _ => false
        | _ => is_open r i
        end
      else is_open r i
  end.

(* actor i is between Start and End of a read-only call *)
Fixpoint is_open_ro (tr : list event) (i : nat) : bool :=
  match tr with
  | [] => false
  | (j, ins) :: r =>
      if Nat.eqb j i then
        match ins with
        | IStart _ false => true
        | IEnd _ false _ => false
        | _ => is_open_ro r i
        end
      else is_open_ro r i
  end.

(* side-effects frames on the thread, newest first: (actor, call) *)
Fixpoint frames (tr : list event) : list (nat * N) :=
  match tr with
  | [] => []
  | (i, IApp k) :: r => (i, k) :: frames r
  | _ :: r => frames r
  end.

(* End events of mutating calls that are to be logged, newest first *)
Fixpoint ends_a (tr : list event) : list (nat * N) :=
  match tr with
  | [] => []
  | (i, IEnd k true true) :: r => (i, k) :: ends_a r
  | _ :: r => ends_a r
  end.

Definition instr_eqb (x y : instr) : bool :=
  match x, y with
  | IAcq, IAcq | IRel, IRel | ISpawn, ISpawn | IRunEnded, IRunEnded => true
  | IStart k m, IStart k' m' => N.eqb k k' && Bool.eqb m m'
  | IEnd k m a, IEnd k' m' a' => N.eqb k k' && Bool.eqb m m' && Bool.eqb a a'
  | IEmit k, IEmit k' => N.eqb k k'
  | IApp k, IApp k' => N.eqb k k'
  | _, _ => false
  end.

(* projection of a trace on one actor, newest first *)
Definition proj (i : nat) (tr : list event) : list instr :=
  map snd (filter (fun e => Nat.eqb (fst e) i) tr).

Fixpoint count_ev (i : nat) (x : instr) (tr : list event) : nat :=
  match tr with
  | [] => 0
  | (j, y) :: r => (if Nat.eqb j i && instr_eqb x y then 1 else 0) + count_ev i x r
  end.

(* in chronological order x happens strictly before y (trace newest first: y is nearer the head) *)
Definition happens_before (x y : event) (tr : list event) : Prop :=
  exists l1 l2 l3, tr = l1 ++ y :: l2 ++ x :: l3.

(* ------------------------------------------------------------------ correspondence (T2) *)
(* An observed step: (actor, code, call index).  code 0 = the actor attempted to acquire and was
   seen blocked; otherwise the code of the instruction the implementation was seen to perform. *)
Definition icode (ins : instr) : N :=
  match ins with
  | IAcq => 1 | IStart _ _ => 2 | IEnd _ _ _ => 3 | IEmit _ => 4 | IApp _ => 5
  | IRel => 6 | IRunEnded => 7 | ISpawn => 8
  end.

Definition icall (ins : instr) : N :=
  match ins with
  | IStart k _ | IEnd k _ _ | IEmit k | IApp k => k
  | _ => 0
  end.

Definition ostep := (N * N * N)%type.

Fixpoint replay (st : state) (steps : list ostep) : option state :=
  match steps with
  | [] => Some st
  | (a, c, k) :: r =>
      let i := N.to_nat a in
      match code st i with
      | [] => None
      | ins :: _ =>
          if N.eqb c 0 then
            (* blocked attempt: next instruction is the acquire and the permit is taken *)
            match ins with
            | IAcq => if enabled (holder st) ins then None else replay st r
            | _ => None
            end
          else if N.eqb c (icode ins) && N.eqb k (icall ins) && enabled (holder st) ins
          then replay (step st i) r
          else None
      end
  end.

(* index of the first observed step the model rejects (diagnostics) *)
Fixpoint replay_fail_at (st : state) (steps : list ostep) (n : N) : option (N * N * N) :=
  match steps with
  | [] => None
  | (a, c, k) :: r =>
      let i := N.to_nat a in
      match code st i with
      | [] => Some (n, 99, 0)
      | ins :: _ =>
          if N.eqb c 0 then
            match ins with
            | IAcq => if enabled (holder st) ins then Some (n, 100, 0) else replay_fail_at st r (n + 1)
            | _ => Some (n, icode ins, icall ins)
            end
          else if N.eqb c (icode ins) && N.eqb k (icall ins) && enabled (holder st) ins
          then replay_fail_at (step st i) r (n + 1)
          else Some (n, icode ins + (if enabled (holder st) ins then 0 else 50), icall ins)
      end
  end.

Definition sched_of (steps : list ostep) : list nat :=
  map (fun s => N.to_nat (fst (fst s))) (filter (fun s => negb (N.eqb (snd (fst s)) 0)) steps).

(* description of an actor as the harness sends it: (kind, linked, tool names) *)
Definition adesc := (N * bool * list str)%type.

Definition akind_of (d : adesc) : akind :=
  match d with
  | (0, l, n :: _) => AEnv n l
  | (1, l, ns) => ALoop ns l
  | (2, l, _) => ACkpt l
  | (3, _, _) => ATask
  | (_, l, _) => ALoop [] l
  end.

Definition sys_of (c : cfg) (ds : list adesc) : nat -> list instr :=
  fun i => match nth_error ds i with Some d => compile_actor c (akind_of d) | None => [] end.

Record case := {
  c_actors : list adesc;
  c_steps : list ostep;
  c_done : list bool;            (* per actor: observed finished *)
  c_frames : list (N * N);       (* side-effects frames on the thread, oldest first: (actor, call) *)
  c_marks : list (N * N)         (* marker file, oldest first: (actor * 256 + call, 0 enter | 1 exit) *)
}.

Definition pairN_eqb (x y : N * N) : bool := N.eqb (fst x) (fst y) && N.eqb (snd x) (snd y).

(* the marker kinds: actors whose tool is an instrumented shell command (harness side knowledge is
   passed as the list of marking actors) *)
Definition mkey (i : nat) (k : N) : N := N.of_nat i * 256 + k.

Fixpoint marks_of (markers : list N) (tr : list event) : list (N * N) :=   (* newest first *)
  match tr with
  | [] => []
  | (i, ins) :: r =>
      let rest := marks_of markers r in
      match ins with
      | IStart k _ => if existsb (N.eqb (mkey i k)) markers then (mkey i k, 0) :: rest else rest
      | IEnd k _ _ => if existsb (N.eqb (mkey i k)) markers then (mkey i k, 1) :: rest else rest
      | _ => rest
      end
  end.

Definition markers_of_case (c : case) : list N :=
  nodup N.eq_dec (map fst (c_marks c)).

Fixpoint all_done (f : nat -> list instr) (done : list bool) (i : nat) : bool :=
  match done with
  | [] => true
  | b :: r => Bool.eqb b (match f i with [] => true | _ => false end) && all_done f r (S i)
  end.

Definition check_case_cfg (g : cfg) (c : case) : bool :=
  match replay (init (sys_of g (c_actors c))) (c_steps c) with
  | None => false
  | Some st =>
      all_done (code st) (c_done c) 0
      && list_eqb pairN_eqb (c_frames c)
           (rev (map (fun p => (N.of_nat (fst p), snd p)) (frames (trace st))))
      && list_eqb pairN_eqb (c_marks c) (rev (marks_of (markers_of_case c) (trace st)))
  end.

Definition enc_pairs (l : list (N * N)) : list N :=
  nlen l :: flat_map (fun p => [fst p; snd p]) l.

(* what the model says about the case: first rejected step (index, expected code, expected call)
   or 0, then its frames and marks *)
Definition model_obs_cfg (g : cfg) (c : case) : list N :=
  match replay_fail_at (init (sys_of g (c_actors c))) (c_steps c) 0 with
  | Some (n, e, k) => [1; n; e; k]
  | None =>
      match replay (init (sys_of g (c_actors c))) (c_steps c) with
      | None => [2]
      | Some st =>
          0 :: enc_pairs (rev (map (fun p => (N.of_nat (fst p), snd p)) (frames (trace st))))
            ++ enc_pairs (rev (marks_of (markers_of_case c) (trace st)))
      end
  end.
